#!/bin/bash
# run every registered check (quick by default) on the current /repo tree; prints one line per check
cd /verif
tier=${1:-quick}
ids=$(python3 -c "import json; print(' '.join(c['property_id'] for c in json.load(open('MANIFEST.json'))['checks']))")
rc=0
for id in $ids; do
  /venv/bin/python check.py $id $tier | tail -4 || rc=1
done
exit $rc
