"""Pool of worker processes running the real lesscpy (fresh import of /repo's working tree).

Every request has a hard timeout; a worker that exceeds it is killed and respawned and the
request is answered with {'r': 'timeout'} (some inputs hang the real code forever).
"""
import os, sys, json, select, subprocess, threading, queue, tempfile, shutil, time

REPO = os.environ.get('VERIF_REPO', '/repo')
PY = '/venv/bin/python'
HERE = os.path.dirname(os.path.abspath(__file__))
WORKER = os.path.join(HERE, 'impl_worker.py')


class _Worker:
    def __init__(self, tmpdir, hashseed='0', guard=True):
        self.tmpdir = tmpdir
        self.hashseed = hashseed
        self.guard = guard
        self.p = None
        self.spawn()

    def spawn(self):
        env = dict(os.environ)
        env['PYTHONPATH'] = REPO
        env['PYTHONHASHSEED'] = str(self.hashseed)
        env['PYTHONDONTWRITEBYTECODE'] = '1'
        env['TMPDIR'] = self.tmpdir
        if self.guard:
            env['LESSCPY_VERIF'] = '1'
        self.p = subprocess.Popen([PY, '-W', 'ignore', '-u', WORKER], stdin=subprocess.PIPE,
                                  stdout=subprocess.PIPE, stderr=subprocess.DEVNULL, env=env,
                                  cwd=self.tmpdir, bufsize=0)
        self.buf = b''

    def kill(self):
        try:
            self.p.kill()
            self.p.wait(timeout=5)
        except Exception:
            pass

    def ask(self, req, timeout):
        try:
            self.p.stdin.write((json.dumps(req) + '\n').encode())
            self.p.stdin.flush()
        except (BrokenPipeError, OSError):
            self.kill(); self.spawn()
            return {'r': 'escaped', 'type': 'WorkerDied', 'msg': 'broken pipe'}
        deadline = time.time() + timeout
        fd = self.p.stdout.fileno()
        while True:
            nl = self.buf.find(b'\n')
            if nl >= 0:
                line, self.buf = self.buf[:nl], self.buf[nl + 1:]
                return json.loads(line.decode())
            left = deadline - time.time()
            if left <= 0:
                self.kill(); self.spawn()
                return {'r': 'timeout'}
            r, _, _ = select.select([fd], [], [], left)
            if r:
                chunk = os.read(fd, 1 << 16)
                if not chunk:
                    rc = self.p.poll()
                    self.kill(); self.spawn()
                    return {'r': 'escaped', 'type': 'WorkerDied', 'msg': 'exit %s' % rc}
                self.buf += chunk


class Pool:
    def __init__(self, n=None, hashseed='0', scratch=None):
        self.n = n or min(16, os.cpu_count() or 4)
        self.scratch = scratch or tempfile.mkdtemp(prefix='lessverif-impl-')
        self.own = scratch is None
        self.workers = []
        for i in range(self.n):
            d = os.path.join(self.scratch, 'w%d' % i)
            os.makedirs(d, exist_ok=True)
            self.workers.append(_Worker(d, hashseed))

    def run(self, reqs, timeout=10.0):
        """reqs: list of request dicts. returns list of answers in order."""
        out = [None] * len(reqs)
        q = queue.Queue()
        for i, r in enumerate(reqs):
            q.put((i, r))

        def loop(w):
            while True:
                try:
                    i, r = q.get_nowait()
                except queue.Empty:
                    return
                t = timeout * (len(r.get('texts', [0])) if r.get('kind') == 'compile_many' else 1)
                out[i] = w.ask(r, t)

        ths = [threading.Thread(target=loop, args=(w,)) for w in self.workers]
        for t in ths:
            t.start()
        for t in ths:
            t.join()
        return out

    def close(self):
        for w in self.workers:
            try:
                w.p.stdin.close()
            except Exception:
                pass
            w.kill()
        if self.own:
            shutil.rmtree(self.scratch, ignore_errors=True)

    def __enter__(self):
        return self

    def __exit__(self, *a):
        self.close()


if __name__ == '__main__':
    with Pool(2) as p:
        print(p.run([{'kind': 'ping'}, {'kind': 'compile', 'text': '.a{color:#ABC + #111}', 'opts': {}},
                     {'kind': 'compile', 'text': '@a:@b;@b:@a;.x{y:@a}', 'opts': {}}], timeout=4))
