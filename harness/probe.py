#!/venv/bin/python
"""probe.py 'less text' ...  — run the real lesscpy on each argument (default + minify)."""
import sys, json
sys.path.insert(0, '/verif')
from harness import impl
if __name__ == '__main__':
    texts = sys.argv[1:]
    with impl.Pool(min(8, len(texts))) as p:
        for t, a in zip(texts, p.run([{'kind': 'compile', 'text': t, 'opts': {}} for t in texts], timeout=6)):
            print(repr(t)); print('   =>', repr(a.get('css')) if a.get('r') == 'ok' else a)
