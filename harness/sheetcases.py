"""Correspondence for whole stylesheets: generated AST -> text (show) -> real compiler, and AST -> node tree -> Coq model."""
import os, random
from . import impl, coqrun
from .gens import sheet as S
from . import readcss

MODS = ['Model.Ast', 'Model.Fmt', 'Model.Eval']
SPEC_MODS = ['Model.Ast', 'Spec.Sem']


def opts_term(o):
    return '(%s, %s, %s, %d%%nat)' % ('true' if o.get('minify') else 'false', 'true' if o.get('xminify') else 'false',
                                     'true' if o.get('tabs') else 'false', int(o.get('spaces', 1)))


def impl_opts(o):
    return {'minify': bool(o.get('minify')), 'xminify': bool(o.get('xminify')), 'tabs': bool(o.get('tabs')), 'spaces': int(o.get('spaces', 1))}


POISON = ['a { width: calc(100% - 10px; }', '.s{background:url("x', '.t{content:"abc @{x', ".u{content:~'x", '.p { .q { width: @undefined-panel; } }', '@media screen and (', '.v{color:$red}',
          '.w{ margin: (1px + ; }', '.sidebar { .panel { width: @panel-width; } }']
ALL_OPTS = [{'minify': m, 'xminify': x, 'tabs': t, 'spaces': s} for m in (False, True) for x in (False, True) for t in (False, True) for s in range(9)]


def run(ctx, cases, pool=None, tag='sheet'):
    """cases: list of dict(sheet=AST, text=..., opts=...).  Returns (out dict, answers)"""
    own = pool is None
    if own:
        pool = impl.Pool()
    try:
        # one case in six is preceded, in the same worker process, by a compilation that is rejected (stopping inside a parenthesis, a
        # string, a rule body): nothing of it may reach the next compilation
        rng = random.Random(len(cases) * 7919 + ctx.get('seed', 0))
        reqs = []
        for c in cases:
            if rng.random() < 1 / 6.0:
                c['preceded_by'] = rng.choice(POISON)
                reqs.append({'kind': 'compile_many', 'texts': [c['preceded_by'], c['text']], 'opts': impl_opts(c['opts'])})
            else:
                reqs.append({'kind': 'compile', 'text': c['text'], 'opts': impl_opts(c['opts'])})
        raw = pool.run(reqs, timeout=20.0)
        answers = [(a['results'][-1] if a.get('r') == 'many' else a) for a in raw]
    finally:
        if own:
            pool.close()
    rows = [('(compile_case %s %s)' % (opts_term(c['opts']), S.tree(c['sheet'])), coqrun.coq_res(a)) for c, a in zip(cases, answers)]
    wd = os.path.join(ctx['scratch'], '%s%d' % (tag, ctx.get('mult', 1)))
    out = {'evaluations': len(cases), 'spec_mismatch': [], 'model_mismatch': [], 'harness_errors': []}
    if ctx.get('model_usable', True):
        bad, diag, errs = coqrun.evaluate(rows, MODS, wd, tag='m', shard=40)
        out['harness_errors'] += errs
        for i in bad:
            out['model_mismatch'].append({'input': dict({'text': cases[i]['text'], 'opts': cases[i]['opts']}, **({'preceded_by': cases[i]['preceded_by']} if 'preceded_by' in cases[i] else {})), 'impl': answers[i],
                                          'model': diag.get(i), 'classes': cases[i].get('classes', [])})
    # ---- the whole pipeline inside Coq, from the TEXT (lexer + token filter + reference parser + evaluator + formatter): no predicted tree
    if ctx.get('model_usable', True) and ctx.get('text_pipeline', True):
        trows = []
        for c, a in zip(cases, answers):
            term = 'text_case %s %s %s' % (opts_term(c['opts']), coqrun.coq_str(c['text']), coqrun.coq_res(a))
            trows.append(('bool', '(fst (%s))' % term, '(snd (%s))' % term))
        bad, diag, errs = coqrun.evaluate(trows, ['Model.Ast', 'Model.Fmt', 'Model.Eval', 'Model.Pipeline'], wd, tag='t', shard=40)
        out['harness_errors'] += errs
        abst = 0
        for i in bad:
            if diag.get(i, '').startswith('ABSTAIN'):
                abst += 1
                continue
            out['model_mismatch'].append({'input': dict({'text': cases[i]['text'], 'opts': cases[i]['opts'], 'via': 'text pipeline (Lex + Parse + Eval)'}, **({'preceded_by': cases[i]['preceded_by']} if 'preceded_by' in cases[i] else {})), 'impl': answers[i],
                                          'model': diag.get(i), 'classes': cases[i].get('classes', [])})
        out['text_pipeline'] = {'cases': len(trows), 'abstains': abst}
    # ---- implementation vs reference semantics: read the produced CSS back and compare the flat items
    srows = []
    for c, a in zip(cases, answers):
        tr = S.tree(c['sheet'])
        if a.get('r') == 'ok':
            items = readcss.read_css(a['css'])
            srows.append(('bool', '(sem_matches %s %s)' % (tr, readcss.coq_items(items, coqrun.coq_str)), '(show_sem %s)' % tr))
        elif a.get('r') == 'error':
            srows.append(('bool', '(sem_fails %s)' % tr, '(show_sem %s)' % tr))
        else:
            srows.append(('bool', 'false', '(show_sem %s)' % tr))
    bad, diag, errs = coqrun.evaluate(srows, SPEC_MODS, wd, tag='s', shard=40)
    out['harness_errors'] += errs
    mm = {id(m['input']['text']): m for m in out['model_mismatch']}
    for i in bad:
        rec = {'input': dict({'text': cases[i]['text'], 'opts': cases[i]['opts']}, **({'preceded_by': cases[i]['preceded_by']} if 'preceded_by' in cases[i] else {})), 'impl': answers[i], 'spec': diag.get(i),
               'classes': cases[i].get('classes', [])}
        out['spec_mismatch'].append(rec)
    sb = set(bad)
    out['model_mismatch'] = [m for k, m in enumerate(out['model_mismatch'])]
    return out, answers
