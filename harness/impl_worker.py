"""Worker process running the REAL lesscpy from /repo (PYTHONPATH=/repo).

Protocol: one JSON request per line on stdin, one JSON answer per line on stdout.
Everything the real code prints is diverted so that stdout stays clean.
Kinds:
  compile   {text, opts}                       -> ok/error/escaped
  compile_many {texts:[...], opts}             -> list of the above (one process, sequential: history)
  tokens    {text, filtered:bool}              -> list of [type, value, lineno] or error
  pycall    {fn, args}                         -> direct call into a named function (table below)
"""
import sys, os, io, json, traceback

real_stdout = sys.stdout
sys.stdout = io.StringIO()          # lesscpy prints; keep protocol channel clean
sys.stderr = io.StringIO()

import lesscpy                                    # noqa: E402
from lesscpy.lessc import lexer as _lexer         # noqa: E402
from lesscpy.lessc import color as _color         # noqa: E402
from lesscpy.lessc import utility as _utility     # noqa: E402
from lesscpy.exceptions import CompilationError   # noqa: E402


def do_compile(text, opts):
    sys.stdout = io.StringIO()
    sys.stderr = io.StringIO()
    try:
        css = lesscpy.compile(io.StringIO(text), **opts)
        if not isinstance(css, str):
            return {'r': 'escaped', 'type': 'NonString', 'msg': repr(css)[:200]}
        return {'r': 'ok', 'css': css, 'stderr': sys.stderr.getvalue()[:2000]}
    except CompilationError as e:
        return {'r': 'error', 'cls': 'CompilationError', 'msg': str(e)[:2000]}
    except SyntaxError as e:
        return {'r': 'error', 'cls': 'SyntaxError', 'msg': str(e)[:2000]}
    except RecursionError as e:
        return {'r': 'escaped', 'type': 'RecursionError', 'msg': str(e)[:200]}
    except BaseException as e:          # noqa
        return {'r': 'escaped', 'type': type(e).__name__, 'msg': str(e)[:500]}


def do_compile_file(path, opts):
    sys.stdout = io.StringIO()
    sys.stderr = io.StringIO()
    try:
        with open(path) as f:
            css = lesscpy.compile(f, **opts)
        return {'r': 'ok', 'css': css}
    except SyntaxError as e:
        return {'r': 'error', 'cls': type(e).__name__, 'msg': str(e)[:2000]}
    except RecursionError as e:
        return {'r': 'escaped', 'type': 'RecursionError', 'msg': str(e)[:200]}
    except BaseException as e:          # noqa
        return {'r': 'escaped', 'type': type(e).__name__, 'msg': str(e)[:500]}


def do_compile_threads(texts, nthreads, opts):
    """compile the texts concurrently in threads of THIS process (each text once per thread)"""
    import threading
    results = [[None] * len(texts) for _ in range(nthreads)]

    def work(k):
        order = list(range(len(texts)))
        if k % 2:
            order.reverse()
        for i in order:
            try:
                results[k][i] = {'r': 'ok', 'css': lesscpy.compile(io.StringIO(texts[i]), **opts)}
            except SyntaxError as e:
                results[k][i] = {'r': 'error', 'cls': type(e).__name__, 'msg': str(e)[:300]}
            except BaseException as e:      # noqa
                results[k][i] = {'r': 'escaped', 'type': type(e).__name__, 'msg': str(e)[:300]}
    ths = [threading.Thread(target=work, args=(k,)) for k in range(nthreads)]
    for th in ths:
        th.start()
    for th in ths:
        th.join()
    return {'r': 'threads', 'results': results}


def do_tokens(text, filtered, pos=False):
    out = []
    try:
        lx = _lexer.LessLexer()
        lx.lexer.input(text)
        while True:
            t = lx.token() if filtered else lx.lexer.token()
            if not t:
                break
            out.append([t.type, t.value, t.lineno, t.lexpos] if pos else [t.type, t.value, t.lineno])
        return {'r': 'ok', 'toks': out}
    except SyntaxError as e:
        return {'r': 'error', 'cls': 'SyntaxError', 'msg': str(e)[:500], 'toks': out}
    except BaseException as e:          # noqa
        return {'r': 'escaped', 'type': type(e).__name__, 'msg': str(e)[:500]}


def _dump(x, depth=0):
    if depth > 40:
        return '...'
    if isinstance(x, (str, int, float, bool)) or x is None:
        return x
    if isinstance(x, tuple):
        return {'t': [_dump(y, depth + 1) for y in x]}
    if isinstance(x, list):
        return [_dump(y, depth + 1) for y in x]
    d = {'cls': type(x).__name__}
    if hasattr(x, 'tokens'):
        d['tokens'] = _dump(x.tokens, depth + 1)
    if isinstance(getattr(x, 'parsed', None), list) and type(x).__name__ == 'Identifier':
        d['parsed'] = _dump(x.parsed, depth + 1)
    return d


def do_parsedump(text):
    """first pass only: the node tree the LALR parser builds (before post_parse)"""
    from lesscpy.lessc import parser as lp
    sys.stdout = io.StringIO(); sys.stderr = io.StringIO()
    try:
        p = lp.LessParser(fail_with_exc=True)
        p.scope.push()
        p.target = '(dump)'
        res = p.parser.parse(io.StringIO(text), lexer=p.lex)
        return {'r': 'ok', 'tree': _dump(res), 'errors': list(p.register.errors)}
    except SyntaxError as e:
        return {'r': 'error', 'cls': type(e).__name__, 'msg': str(e)[:500]}
    except BaseException as e:          # noqa
        return {'r': 'escaped', 'type': type(e).__name__, 'msg': str(e)[:500]}


def _num(x):
    # floats are reported exactly (hex) and as repr
    if isinstance(x, float):
        return {'f': x.hex(), 'repr': repr(x)}
    return x


def do_pycall(fn, args):
    try:
        if fn == 'color_process':
            return {'r': 'ok', 'v': _color.Color().process(tuple(args))}
        if fn == 'color_fmt':
            return {'r': 'ok', 'v': _color.Color().fmt(*args)}
        if fn == 'color_method':
            name, rest = args[0], args[1:]
            return {'r': 'ok', 'v': _num(getattr(_color.Color(), name)(*rest))}
        if fn == 'away_from_zero_round':
            return {'r': 'ok', 'v': _num(_utility.away_from_zero_round(*args))}
        if fn == 'convergent_round':
            return {'r': 'ok', 'v': _num(_utility.convergent_round(*args))}
        if fn == 'reverse_guard':
            return {'r': 'ok', 'v': _utility.reverse_guard(args[0])}
        if fn == 'color_process_sweep':
            # args: op, list of a, list of b  -> channel strings for (#a0000 op #b0000)
            op, As, Bs = args
            c = _color.Color()
            out = []
            for a in As:
                row = []
                for b in Bs:
                    try:
                        row.append(c.process(('#%02x%02x%02x' % (a, a, a), op, '#%02x%02x%02x' % (b, b, b))))
                    except ZeroDivisionError:
                        row.append('ZeroDivisionError')
                out.append(row)
            return {'r': 'ok', 'v': out}
        return {'r': 'escaped', 'type': 'NoSuchFn', 'msg': fn}
    except ValueError as e:
        return {'r': 'error', 'cls': 'ValueError', 'msg': str(e)[:300]}
    except SyntaxError as e:
        return {'r': 'error', 'cls': 'SyntaxError', 'msg': str(e)[:300]}
    except BaseException as e:          # noqa
        return {'r': 'escaped', 'type': type(e).__name__, 'msg': str(e)[:300]}


def main():
    for line in sys.stdin:
        line = line.strip()
        if not line:
            continue
        req = json.loads(line)
        k = req['kind']
        try:
            if k == 'compile':
                ans = do_compile(req['text'], req.get('opts', {}))
            elif k == 'compile_many':
                ans = {'r': 'many', 'results': [do_compile(t, req.get('opts', {})) for t in req['texts']]}
            elif k == 'compile_threads':
                ans = do_compile_threads(req['texts'], req.get('nthreads', 4), req.get('opts', {}))
            elif k == 'compile_file':
                ans = do_compile_file(req['path'], req.get('opts', {}))
            elif k == 'file_history':
                # ops in ONE process: ['write', path, text] puts a file on disk, ['compile', path] compiles it
                res = []
                for op in req['ops']:
                    if op[0] == 'write':
                        os.makedirs(os.path.dirname(op[1]), exist_ok=True)
                        with open(op[1], 'w') as f:
                            f.write(op[2])
                    else:
                        res.append(do_compile_file(op[1], req.get('opts', {})))
                ans = {'r': 'many', 'results': res}
            elif k == 'tokens':
                ans = do_tokens(req['text'], req.get('filtered', True), req.get('pos', False))
            elif k == 'parsedump':
                ans = do_parsedump(req['text'])
            elif k == 'pycall':
                ans = do_pycall(req['fn'], req['args'])
            elif k == 'ping':
                ans = {'r': 'pong', 'file': lesscpy.__file__}
            else:
                ans = {'r': 'escaped', 'type': 'BadKind', 'msg': k}
        except BaseException as e:      # noqa
            ans = {'r': 'escaped', 'type': type(e).__name__, 'msg': traceback.format_exc()[-500:]}
        real_stdout.write(json.dumps(ans) + '\n')
        real_stdout.flush()


if __name__ == '__main__':
    main()
