#!/venv/bin/python
"""seedtest.py verify <src_dir> <name>   — confirm a candidate seeded change in a scratch worktree and store it under /verif/seeded/<name>
   seedtest.py run <name> [tier]        — apply /verif/seeded/<name>/patch.diff to /repo, run the property's check, undo, record result"""
import sys, os, json, subprocess, shutil, time

VERIF = os.environ.get('VERIF_ROOT') or os.path.dirname(os.path.dirname(os.path.abspath(__file__)))
REPO = '/repo'
WT = '/tmp/seed/verify'


def sh(cmd, cwd=None, timeout=1800, env=None):
    p = subprocess.run(cmd, shell=True, cwd=cwd, capture_output=True, text=True, timeout=timeout, env=env)
    return p.returncode, (p.stdout + p.stderr)


def verify(src, i, name, pid):
    patch = os.path.join(src, 'patch%s.diff' % i)
    demo = os.path.join(src, 'demo%s.py' % i)
    meta = os.path.join(src, 'meta%s.json' % i)
    if os.path.exists(WT):
        sh('git -C %s worktree remove --force %s' % (REPO, WT))
    rc, out = sh('git -C %s worktree add -f %s HEAD' % (REPO, WT))
    assert rc == 0, out
    res = {'name': name, 'property': pid}
    try:
        rc, out = sh('/venv/bin/python -W ignore %s' % demo, cwd=WT, timeout=300)
        res['demo_without_patch_rc'] = rc
        rc, out = sh('git apply --3way %s 2>&1 || git apply %s 2>&1' % (patch, patch), cwd=WT)
        res['applies'] = (sh('git diff HEAD --quiet', cwd=WT)[0] != 0)
        if not res['applies']:
            res['apply_output'] = out[-500:]
            return res
        rc, out = sh('/venv/bin/python -m pytest -q -p no:cacheprovider --timeout=900 -x 2>&1 | tail -3', cwd=WT)
        res['tests_with_patch'] = out.strip().splitlines()[-1] if out.strip() else ''
        res['tests_pass'] = ' passed' in res['tests_with_patch'] and 'failed' not in res['tests_with_patch']
        rc, out = sh('/venv/bin/python -W ignore %s' % demo, cwd=WT, timeout=300)
        res['demo_with_patch_rc'] = rc
        res['demo_output'] = out[-600:]
        res['confirmed'] = res['tests_pass'] and res['demo_with_patch_rc'] != 0 and res['demo_without_patch_rc'] == 0
        if res['confirmed']:
            d = os.path.join(VERIF, 'seeded', name)
            os.makedirs(d, exist_ok=True)
            rc, out = sh('git diff HEAD', cwd=WT)
            open(os.path.join(d, 'patch.diff'), 'w').write(out)
            shutil.copy(demo, os.path.join(d, 'demo.py'))
            m = json.load(open(meta)) if os.path.exists(meta) else {}
            m.update({'property': pid, 'verified': {k: res[k] for k in ('tests_with_patch', 'demo_with_patch_rc', 'demo_without_patch_rc')},
                      'what_i_ran': 'scratch worktree of /repo HEAD: demo.py (rc 0), git apply patch, full pytest suite (all pass), demo.py (rc != 0)',
                      'base_commit': sh('git -C %s rev-parse --short HEAD' % REPO)[1].strip()})
            json.dump(m, open(os.path.join(d, 'meta.json'), 'w'), indent=1)
        return res
    finally:
        sh('git -C %s worktree remove --force %s' % (REPO, WT))


def run(name, tier='quick'):
    d = os.path.join(VERIF, 'seeded', name)
    meta = json.load(open(os.path.join(d, 'meta.json')))
    pid = meta['property']
    t0 = time.time()
    if os.environ.get('SEED_SCRATCH') == '1':
        # leave /repo alone (something else may be reading it): patch a scratch worktree and point the check at it
        wt = '/tmp/seed/runwt-%s' % name
        sh('git -C %s worktree remove --force %s' % (REPO, wt))
        rc, out = sh('git -C %s worktree add -f %s HEAD' % (REPO, wt))
        assert rc == 0, out
        try:
            rc, out = sh('git -C %s apply %s' % (wt, os.path.join(d, 'patch.diff')))
            assert rc == 0, out
            rc, out = sh('/venv/bin/python check.py %s %s' % (pid, tier), cwd=VERIF, timeout=7200, env=dict(os.environ, VERIF_REPO=wt))
        finally:
            sh('git -C %s worktree remove --force %s' % (REPO, wt))
            sh('git -C %s checkout -- evidence/%s.json' % (VERIF, pid))       # the evidence of a mutated run is not kept
    else:
        assert sh('git -C %s status --porcelain' % REPO)[1].strip() == '', 'repo not clean'
        rc, out = sh('git -C %s apply %s' % (REPO, os.path.join(d, 'patch.diff')))
        assert rc == 0, out
        try:
            rc, out = sh('/venv/bin/python check.py %s %s' % (pid, tier), cwd=VERIF, timeout=7200)
        finally:
            sh('git -C %s checkout -- .' % REPO)
    lines = [l for l in out.splitlines() if l.startswith('VIOLATION')]
    meta.setdefault('detection', {})[tier] = {'rc': rc, 'violation_lines': lines[:3], 'detected': rc == 1 and bool(lines),
                                              'with_input': any('no-failing-input-found' not in l for l in lines), 'secs': round(time.time() - t0)}
    json.dump(meta, open(os.path.join(d, 'meta.json'), 'w'), indent=1)
    print(name, tier, meta['detection'][tier])
    return meta['detection'][tier]


if __name__ == '__main__':
    if sys.argv[1] == 'verify':
        src, pid = sys.argv[2], sys.argv[3]
        off = int(sys.argv[4]) if len(sys.argv) > 4 else 0          # second round of candidates: stored as <Pid>-3, <Pid>-4
        for i in ('1', '2'):
            if os.path.exists(os.path.join(src, 'patch%s.diff' % i)):
                print(json.dumps(verify(src, i, '%s-%d' % (pid, int(i) + off), pid), indent=1))
    elif sys.argv[1] == 'run':
        run(sys.argv[2], sys.argv[3] if len(sys.argv) > 3 else 'quick')
