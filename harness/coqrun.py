"""Evaluate generated correspondence cases inside Coq (vm_compute), sharded and in parallel."""
import os, re, subprocess, concurrent.futures as cf

VERIF = os.path.dirname(os.path.dirname(os.path.abspath(__file__)))
COQDIR = os.path.join(VERIF, 'coq')

HEADER = '''From Coq Require Import String.
From Coq Require Import List Ascii Bool NArith ZArith QArith.
Require Import Model.Text Model.ParamTypes Model.Num Model.Cases Gen.Params %(mods)s.
Import ListNotations.
Set Printing Width 1000000.
Set Printing Depth 1000000.
'''


def coq_str(x):
    if all((32 <= ord(c) < 127) or c in '\n\t' for c in x):
        return '$"%s"' % x.replace('"', '""')
    return '(map chr [%s]%%N)' % '; '.join(str(ord(c)) for c in x)


def coq_res(ans):
    """implementation answer (impl_worker) -> Coq term of type res"""
    r = ans.get('r')
    if r == 'ok':
        return '(Ok %s)' % coq_str(ans['css'] if 'css' in ans else str(ans['v']))
    if r == 'error':
        return '(Err %s)' % coq_str(ans['cls'])
    if r == 'timeout':
        return 'OutOfFuel'
    return '(Escaped %s)' % coq_str(ans.get('type', '?'))


def _run_one(path, timeout=900):
    try:
        p = subprocess.run(['bash', '-c', 'ulimit -s 4000000 2>/dev/null || ulimit -s unlimited 2>/dev/null; exec coqc -Q %s "" %s' % (COQDIR, path)],
                           capture_output=True, text=True, timeout=timeout)
    except subprocess.TimeoutExpired:
        return path, None, 'coqc timeout'
    if p.returncode != 0:
        return path, None, (p.stderr or p.stdout)[-3000:]
    return path, p.stdout, None


def evaluate(cases, mods, workdir, shard=400, jobs=None, tag='cases'):
    """cases: list of (model_term, impl_res_term) [both of type res; compared with res_eqb], or of
    ('bool', ok_term, show_term) where ok_term : bool and show_term : string.
    Returns (bad_index_list, diagnostics dict, errors)."""
    os.makedirs(workdir, exist_ok=True)
    files = []
    span = {}

    def write_file(path, lo, hi):
        rows = []
        for i in range(lo, hi):
            c = cases[i]
            if c[0] == 'bool':
                rows.append('(%d%%N, %s, %s)' % (i, c[1], c[2]))
            else:
                rows.append('(%d%%N, res_eqb %s %s, show_res %s)' % (i, c[0], c[1], c[0]))
        with open(path, 'w') as f:
            f.write(HEADER % {'mods': ' '.join(mods)})
            f.write('Definition cases : list (N * bool * string) := [\n')
            f.write(';\n'.join(rows))
            f.write('].\nEval vm_compute in (vbad_ids cases).\nEval vm_compute in (vshow_bad cases).\n')
        span[path] = (lo, hi)
    for k in range(0, len(cases), shard):
        path = os.path.join(workdir, '%s_%d.v' % (tag, k // shard))
        write_file(path, k, min(len(cases), k + shard))
        files.append(path)
    bad, diag, errors = [], {}, []
    with cf.ThreadPoolExecutor(max_workers=jobs or min(16, os.cpu_count() or 4)) as ex:
        results = list(ex.map(_run_one, files))
        # a shard that ran out of time (a few very large cases, or a loaded machine) is cut into quarters and run again with a longer limit
        slow = [path for path, out, err in results if err == 'coqc timeout']
        results = [r for r in results if r[2] != 'coqc timeout']
        retry = []
        for path in slow:
            lo, hi = span[path]
            step = max(1, (hi - lo + 3) // 4)
            for j, a in enumerate(range(lo, hi, step)):
                sub = path[:-2] + '_r%d.v' % j
                write_file(sub, a, min(hi, a + step))
                retry.append(sub)
        results += list(ex.map(lambda pth: _run_one(pth, 2700), retry))
        for path, out, err in results:
            if err is not None:
                errors.append({'file': path, 'error': err})
                continue
            m = re.search(r'=\s*\[(.*?)\]\s*(%N)?\s*:\s*list N', out, re.S)
            if not m:
                errors.append({'file': path, 'error': 'unparsable output: ' + out[:500]})
                continue
            ids = [int(x) for x in re.findall(r'\d+', m.group(1))]
            bad.extend(ids)
            if ids:
                rest = out[m.end():]
                for mm in re.finditer(r'\((\d+)%N,\s*"((?:[^"]|"")*)"', rest, re.S):
                    diag[int(mm.group(1))] = mm.group(2).replace('""', '"')
    return sorted(bad), diag, errors


def cleanup(workdir):
    import shutil
    shutil.rmtree(workdir, ignore_errors=True)
