"""Correspondence for properties about a single declaration value: many cases are batched into one
stylesheet (.c<i>{<prop>:<expr>}), compiled by the real lesscpy, split again, and compared inside Coq
against the model term and the spec term of each case."""
import re, os
from . import impl, coqrun


def one_case(cases, i):
    """the text of case i.  A case may ask to be evaluated a SECOND time (case['wrap']): the expression sits in a mixin that is first
    called with other arguments, or in a variable that is first used where its operands have other values; the value observed is the
    one of rule .c<i>, which must not depend on the earlier evaluation."""
    c = cases[i]
    prop = c.get('prop', 'color')
    w = c.get('wrap')
    if not w:
        return '.c%d{%s:%s}' % (i, prop, c['expr'])
    names = ['@w%dx%d' % (i, k) for k in range(len(w['real']))]
    expr = w['expr_fmt'].format(*names)
    if w['kind'] == 'mixin':
        return ('.mw%d(%s){%s:%s}\n.dw%d{.mw%d(%s);}\n.c%d{.mw%d(%s);}'
                % (i, '; '.join(names), prop, expr, i, i, '; '.join(w['decoy']), i, i, '; '.join(w['real'])))
    return (''.join('%s: %s;\n' % (n, v) for n, v in zip(names, w['real'])) + '@e%d: %s;\n' % (i, expr)
            + '.dw%d{%s%s:@e%d}\n' % (i, ''.join('%s: %s; ' % (n, v) for n, v in zip(names, w['decoy'])), prop, i)
            + '.c%d{%s:@e%d}' % (i, prop, i))


def sheet(cases, idxs):
    return '\n'.join(one_case(cases, i) for i in idxs) + '\n'


def split_sheet(css):
    out = {}
    for m in re.finditer(r'^\.c(\d+) \{\n [a-z-]+: ?(.*?);\n\}$', css, re.M | re.S):
        out[int(m.group(1))] = m.group(2)
    return out


def run_impl(cases, pool, batch=40, prelude=''):
    """returns list of impl answers (impl_worker format, with 'css' = the value string)"""
    n = len(cases)
    res = [None] * n
    groups = [list(range(k, min(n, k + batch))) for k in range(0, n, batch)]
    answers = pool.run([{'kind': 'compile', 'text': prelude + sheet(cases, g), 'opts': {}} for g in groups])
    redo = []
    for g, a in zip(groups, answers):
        ok = False
        if a.get('r') == 'ok':
            vals = split_sheet(a['css'])
            if set(vals) == set(g):
                ok = True
                for i in g:
                    res[i] = {'r': 'ok', 'css': vals[i]}
        if not ok:
            redo.extend(g)
    if redo:
        answers = pool.run([{'kind': 'compile', 'text': prelude + sheet(cases, [i]), 'opts': {}} for i in redo])
        for i, a in zip(redo, answers):
            if a.get('r') == 'ok':
                vals = split_sheet(a['css'])
                if i in vals:
                    res[i] = {'r': 'ok', 'css': vals[i]}
                else:
                    res[i] = {'r': 'ok', 'css': a['css'], 'unsplit': True}
            else:
                res[i] = a
    return res


def correspond(ctx, cases, mods, pool=None, batch=40, prelude=''):
    own = pool is None
    if own:
        pool = impl.Pool()
    try:
        answers = run_impl(cases, pool, batch, prelude)
    finally:
        if own:
            pool.close()
    out = {'evaluations': len(cases), 'spec_mismatch': [], 'model_mismatch': [], 'harness_errors': []}
    wd = os.path.join(ctx['scratch'], 'coq%d' % ctx.get('mult', 1))
    lists = [('s', 'spec')]
    if ctx.get('model_usable', True):
        lists.append(('m', 'model'))
    bad = {}

    def row(c, a, key):
        if 'cmp' in c:          # custom comparison: returns ('bool', ok_term, show_term)
            return c['cmp'](c[key], a)
        return ('(res_of_opt %s)' % c[key], coqrun.coq_res(a))
    for tag, key in lists:
        usemods = mods if tag == 'm' else [m for m in mods if not m.startswith('Model.') or m in ctx.get('spec_mods', ())]
        b, diag, errs = coqrun.evaluate([row(c, a, key) for c, a in zip(cases, answers)], usemods or mods, wd, tag=tag)
        out['harness_errors'] += errs
        bad[tag] = (set(b), diag)
    for i, c in enumerate(cases):
        s_bad = i in bad['s'][0]
        m_bad = ('m' in bad) and i in bad['m'][0]
        rec = {'input': {'expr': c['expr'], 'prop': c.get('prop', 'color'), 'prelude': prelude, 'sheet': one_case(cases, i), 'index': i},
               'impl': answers[i], 'classes': c.get('classes', []), 'descr': c.get('descr', '')}
        if s_bad:
            rec['spec'] = bad['s'][1].get(i)
            if 'm' in bad:
                rec['model_agrees_with_impl'] = not m_bad
            out['spec_mismatch'].append(rec)
        elif m_bad:
            rec['model'] = bad['m'][1].get(i)
            out['model_mismatch'].append(rec)
    return out, answers
