"""Generator of stylesheets of the verified fragment: a python AST, its text (`show`, with a layout chosen
from the PRNG) and the Coq term of the node tree the parser builds from it (`tree`).

AST:
  sheet  = [stmt]
  stmt   = ('rule', [sel], [stmt], flags) | ('decl', prop, value, important) | ('media', query, [stmt])
         | ('var', name, value) | ('keyframes', at, name, [(framesel, [decl])]) | ('fontface', [decl])
         | ('stmt', text_tokens)
  sel    = [item]; item = ('elem', s) | ('class', s) | ('id', s) | ('pseudo', s) | ('pseudo2', s) | ('attr', s)
                        | ('amp',) | ('desc',) | ('comb', c, space_before)
  value  = [vitem]; vitem = ('word', s) | ('num', s) | ('color', s) | ('str', s) | ('url', s) | ('var', s)
                          | ('expr', tree) | ('sp',) | ('comma',)
  query  = (type or None, [(feature, value or None)])
"""
import json, os, random

BUILD = os.path.join(os.path.dirname(os.path.dirname(os.path.dirname(os.path.abspath(__file__)))), 'build')


def coq_str(x):
    if all((32 <= ord(c) < 127) or c in '\n\t' for c in x):
        return '$"%s"' % x.replace('"', '""')
    return '(map chr [%s]%%N)' % '; '.join(str(ord(c)) for c in x)


def coq_list(xs):
    return '[' + '; '.join(xs) + ']'


_tables = None


def tables():
    global _tables
    if _tables is None:
        p = json.load(open(os.path.join(BUILD, 'params.json')))['values']
        props = set(p.get('css_properties', []))
        elems = [e for e in p.get('dom_elements', []) if e not in props and e.isalpha() and e == e.lower()]
        _tables = {'props': sorted(x for x in props if x.replace('-', '').isalpha() and not x.startswith('-')), 'elems': sorted(elems)}
    return _tables


ELEMS = ['a', 'div', 'p', 'span', 'ul', 'li', 'h1', 'h2', 'table', 'td', 'section', 'em', 'b', 'body', 'nav', 'img']
PROPS = ['color', 'margin', 'padding', 'width', 'height', 'border', 'background', 'top', 'left', 'display', 'float', 'z-index',
         'line-height', 'text-align', 'font-size', 'font-family', 'content', 'opacity', 'overflow', 'position']
WORDS = ['red', 'blue', 'solid', 'none', 'auto', 'bold', 'inherit', 'block', 'inline', 'dashed', 'middle', 'serif', 'x-large', 'no-repeat']
UNITS = ['', 'px', 'em', '%', 'pt', 's', 'deg']
MEDIA_TYPES = ['screen', 'print', 'all', 'tv', 'handheld']
MEDIA_FEATURES = ['min-width', 'max-width', 'min-height', 'max-height', 'orientation', 'color']
PSEUDO = [':hover', ':focus', ':first-child', ':active', ':visited', ':last-child']
PSEUDO_FN = [':not(.x)', ':nth-child(2n+1)', ':lang(en)', ':not(:first-child)', ':nth-of-type(3)', ':not([href])', ':nth-last-child(-n+2)']
PSEUDO2 = ['::before', '::after', '::first-line']
ATTRS = ['[href]', '[type=text]', '[type="text"]', '[data-x="1"]', '[lang|=en]', '[title~=hello]', '[title="x,y"]', '[title="read > more"]',
         '[data-k="a + b"]', "[alt='p ~ q']", '[data-s="semi;colon"]', '[data-b="{}"]', '[rel="a  b"]', '[href$=".pdf"]', '[data-c=", "]', '[width="100%"]', '[data-f="%s %(ws)s"]', '[data-d="$$"]', '[data-q="?x?"]', '[data-m="a,$$b"]']
IDS = ['main', 'top', 'nav', 'q1', 'zz-top', 'page', 'face', 'cafe', 'cafe1', 'deadbeef', 'abcdeg', 'abg', 'a1', 'bada55e', 'be', 'fade2', 'f00d']


# statement token lists exactly as Statement.parsed holds them (a blank is inserted before a media list)
STMTS = [['@charset', ' ', '"utf-8"', ';'], ['@import', ' ', '"foo.css"', ';'], ['@import', ' ', "'bar.css'", ';'],
         ['@import', ' ', '"theme.css?v=3"', ';'], ['@import', ' ', '"fonts.php"', ';'], ['@import', ' ', '"a/b/print.css"', ' ', 'print', ';'],
         ['@import', ' ', 'url("icons.css#glyphs")', ' ', 'screen', ';'], ['@import', ' ', 'url("x.css")', ';'],
         ['@import', ' ', '"wide.css"', ' ', 'screen', ' ', 'and', ' ', '(', 'min-width', ':', '100px', ')', ';'],
         ['@import', ' ', '"http://example.com/r.css"', ';'], ['@import', ' ', '"UP.CSS"', ';']]


class Gen:
    def __init__(self, rng, features=()):
        self.rng = rng
        self.f = set(features)
        self.nvar = 0
        self.ivars = []          # variables of identifier / number kind available for @{name} interpolation (defined once, at the top)

    # ---- selectors
    def name(self):
        r = self.rng
        return r.choice(['a', 'b', 'c', 'nav', 'box', 'x1', 'item', 'main', 'btn', 'col', 'row-2', 'h_1']) + r.choice(['', '', '1', '-x', '_y'])

    def compound(self, allow_amp=False):
        r = self.rng
        items = []
        if allow_amp and r.random() < 0.5:
            items.append(('amp',))
        elif r.random() < 0.4:
            items.append(('elem', '*' if ('star' in self.f and r.random() < getattr(self, 'star_p', 0.25)) else r.choice(ELEMS)))
        if items and items[0] == ('elem', '*'):
            return items          # the universal selector stands alone: '*.c' / '*#i' are known finding F29
        n = r.choice([0, 1, 1, 1, 2]) if items else r.choice([1, 1, 2])
        for _ in range(n):
            k = r.random()
            if k < 0.2 and 'isel' in self.f and self.ivars:
                v = r.choice(self.ivars)
                parts = [('t', '.' + r.choice(['col-', 'a-', 'row_', 'x', 'n-1-'])), ('v', v)]
                if r.random() < 0.5:
                    parts.append(('t', r.choice(['-s', '_x', '9', '-b-c'])))
                    if r.random() < 0.3:
                        parts.append(('v', r.choice(self.ivars)))
                items.append(('iclass', parts))
            elif k < 0.55:
                items.append(('class', '.' + self.name()))
            elif k < 0.7:
                items.append(('id', '#' + r.choice(IDS)))
            elif k < 0.85:
                items.append(('pseudo', r.choice(PSEUDO + PSEUDO_FN) if 'pseudofn' in self.f else r.choice(PSEUDO)))
            elif k < 0.92 and 'pseudo2' in self.f:
                items.append(('pseudo2', r.choice(PSEUDO2)))
            elif 'attr' in self.f:
                items.append(('attr', r.choice(ATTRS)))
            else:
                items.append(('class', '.' + self.name()))
        if allow_amp and r.random() < 0.15 and items[-1][0] not in ('elem', 'id') and not ('noglue' in self.f and items[-1][0] == 'amp'):
            # (an & glued to an element name would make a new element name, 'body&' under 'section' = 'bodysection':
            #  CSS the front end of lesscpy does not read back, outside the fragment; an & glued to an id can make an id shaped like a
            #  hex colour, '#a1&' under 'b' = '#a1b', which the front end reads as a colour: plain_wf of DESIGN 3/C01)
            items.append(('amp',))
        return items

    def selector(self, nested=False):
        r = self.rng
        amp = nested and 'amp' in self.f and r.random() < 0.45
        items = []
        if nested and not amp and 'leadcomb' in self.f and r.random() < 0.2:
            items.append(('comb', r.choice('>+~'), False))
        ncomp = r.choice([1, 1, 1, 2, 2, 3])
        for i in range(ncomp):
            if i:
                if r.random() < 0.6:
                    items.append(('desc',))
                else:
                    items.append(('comb', r.choice('>+~'), r.random() < 0.7))
            c = self.compound(allow_amp=amp and (i == 0 or r.random() < 0.4))
            if c == [('elem', '*')] and 0 < i < ncomp - 1:
                c = [('elem', 'div')]        # '*' between two other compounds ('a * span') is a syntax error in lesscpy: known finding F29
            if c == [('elem', '*')] and i == 0 and ncomp > 1 and nested:
                c = [('elem', 'div')]
            items += c
        return items

    def selectors(self, nested=False):
        return [self.selector(nested) for _ in range(self.rng.choice([1, 1, 1, 2, 2, 3]))]

    # ---- values
    def number(self):
        r = self.rng
        v = r.choice(['0', '1', '2', '10', '12', '100', '1.5', '0.5', '.25', '3', '20', '-1', '-2.5'])
        return v + (r.choice(UNITS) if v != '0' else '')

    def color(self):
        r = self.rng
        n = r.choice([3, 6])
        s = ''.join(r.choice('0123456789abcdefABCDEF') for _ in range(n))
        return '#' + s

    def atom(self, scopevars):
        r = self.rng
        k = r.random()
        if scopevars and 'var' in self.f and k < 0.25:
            return ('var', r.choice(scopevars))
        if k < 0.45:
            return ('word', r.choice(WORDS))
        if k < 0.75:
            return ('num', self.number())
        if k < 0.87:
            return ('color', self.color())
        if k < 0.87 + 0.06 * 0.6 and 'rstr' in self.f:
            return ('str', self.random_string())
        if k < 0.93 and 'istr' in self.f and self.ivars:
            return self.interpolated_string()
        if k < 0.93 and 'str' in self.f:
            return ('str', r.choice(['"a b"', "'x'", '"semi;colon"', '"br{ace}"', "'it'", '"/* c */"', '"Helvetica Neue"']))
        if 'url' in self.f:
            return ('url', r.choice(['"img/a.png"', "'b.gif'", '"http://x.y/z.png"', '"img(1).png"', '"a)b.png"', "'c (2).gif'", '"d,e;f.png"']))
        return ('word', r.choice(WORDS))

    STRING_SPECIALS = ['url(x)y', 'a,b', 'a , b', ' ;', '{', '}', '/* c */', '// c', '  two  spaces', 'a+b', '1 + 2', '#fff', ')', '(', 'a:b', '!important', '~', '.cls',
                       '&', '%d', ',', ', ', ';;', '}{', '=', '>', '<', '  ', ' ', '*/', '/*', '$', '[x]', 'and (a)', 'not(b)', '-', '--', '1px*2']

    def string_body(self, q, allow_at=False):
        r = self.rng
        chars = [chr(i) for i in range(32, 127) if chr(i) not in (q, '\\', '@')]
        return ''.join(r.choice(self.STRING_SPECIALS) if r.random() < 0.4 else r.choice(chars) for _ in range(r.randint(0, 5))).replace(q, '')

    def random_string(self):
        q = self.rng.choice(['"', "'"])
        return q + self.string_body(q) + q

    def interpolated_string(self):
        r = self.rng
        q = r.choice(['"', "'"])
        parts = []
        n = r.choice([1, 1, 2, 3])
        for i in range(n):
            k = r.random()
            if k < 0.3:
                parts.append(('t', r.choice([',', ', ', ' ', ';', "'" if q == '"' else '"', '.', '-', '}', 'x'])))
            elif k < 0.8:
                b = self.string_body(q)
                if b:
                    parts.append(('t', b))
            parts.append(('v', r.choice(self.ivars)))
        if r.random() < 0.7:
            b = self.string_body(q)
            if b:
                parts.append(('t', b))
        return ('istr', q, parts)

    def value(self, scopevars, for_variable=False):
        """comma list of space lists; strings and urls only where a following blank is not needed"""
        r = self.rng
        out = []
        for gi in range(r.choice([1, 1, 1, 2, 3])):
            if gi:
                out.append(('comma',))
            n = r.choice([1, 1, 2, 2, 3, 4])
            for i in range(n):
                a = self.atom(scopevars)
                if a[0] in ('str', 'url', 'istr') and (i != n - 1 or for_variable):
                    a = ('word', r.choice(WORDS))
                if i:
                    out.append(('sp',))
                out.append(a)
        return out

    def decl(self, scopevars):
        if 'custom' in self.f and self.rng.random() < 0.15:
            # a custom property; no !important (a known double blank there is outside the properties)
            return ('decl', self.rng.choice(['--gap', '--main-bg', '--x', '--a-b_c']), self.value(scopevars), False)
        return ('decl', self.rng.choice(PROPS), self.value(scopevars), self.rng.random() < 0.08)

    # ---- media
    def query(self, allow_type=True):
        r = self.rng
        typ = r.choice(MEDIA_TYPES) if (allow_type and r.random() < 0.7) else None
        feats = []
        for _ in range(r.choice([0, 1, 1, 2]) if typ else r.choice([1, 1, 2])):
            f = r.choice(MEDIA_FEATURES)
            v = {'orientation': r.choice(['landscape', 'portrait']), 'color': None}.get(f, r.choice(['100px', '20em', '768px', '1024px']))
            feats.append((f, v))
        return (typ, feats)

    # ---- statements
    def body(self, depth, in_rule, scopevars, media_depth=0):
        r = self.rng
        out = []
        scopevars = list(scopevars)
        defined_here, used_here = set(), set()
        n = r.choice([1, 2, 2, 3, 4])
        for _ in range(n):
            k = r.random()
            if 'var' in self.f and k < 0.15:
                # a small pool of names: inner definitions shadow outer ones; within a block a name is defined at most
                # once and before its uses (the property's side condition)
                pool = [v for v in ['@a', '@b', '@c', '@w-1', '@v%d' % (self.nvar + 1)] if v not in defined_here and v not in used_here]
                if pool:
                    nm = r.choice(pool)
                    self.nvar += 1
                    out.append(('var', nm, self.value([v for v in scopevars if v != nm], for_variable=True)))
                    defined_here.add(nm)
                    if nm not in scopevars:
                        scopevars.append(nm)
                else:
                    out.append(self.decl(scopevars) if in_rule else self.rule(max(depth - 1, 0), False, scopevars, media_depth))
            elif depth > 0 and k < 0.4:
                out.append(self.rule(depth - 1, in_rule, scopevars, media_depth))
            elif depth > 0 and 'media' in self.f and k < 0.5 and media_depth < 2:
                out.append(('media', self.query(allow_type=(media_depth == 0)), self.body(depth - 1, in_rule, scopevars, media_depth + 1)))
            elif 'keyframes' in self.f and not in_rule and media_depth >= 1 and k < 0.6:
                out.append(self.keyframes(scopevars))
            elif 'fontface' in self.f and not in_rule and media_depth >= 1 and k < 0.68:
                out.append(self.fontface(scopevars))
            elif in_rule:
                d = self.decl(scopevars)
                used_here.update(it[1] for it in d[2] if it[0] == 'var')
                out.append(d)
            else:
                out.append(self.rule(max(depth - 1, 0), False, scopevars, media_depth))
        return out

    def fontface(self, scopevars=()):
        r = self.rng
        sv = list(scopevars) if 'var' in self.f else []
        decls = [self.decl(sv) for _ in range(r.choice([1, 2, 3]))]
        if 'viewport' in self.f and r.random() < 0.4:
            return ('viewport', r.choice(['@viewport', '@-ms-viewport']), decls)
        return ('fontface', decls)

    def keyframes(self, scopevars=()):
        r = self.rng
        sv = list(scopevars) if 'var' in self.f else []          # variables are still evaluated inside the frames
        frames = []
        for _ in range(r.choice([1, 2, 3])):
            decls = [self.decl(sv) for _ in range(r.choice([1, 2]))]
            if sv and 'framevar' in self.f and r.random() < 0.4:
                # a frame redefines a variable for itself; the later frames must still see the outer one
                decls.insert(0, ('var', r.choice(sv), [('num', self.number())]))
            frames.append((r.choice(['from', 'to', '50%', '0%', '100%', '33.3%']), decls))
        return ('keyframes', r.choice(['@keyframes', '@-webkit-keyframes', '@-moz-keyframes', '@-o-keyframes', '@-ms-keyframes']), r.choice(['spin', 'fade', 'k1']), frames)

    def rule(self, depth, nested, scopevars, media_depth=0):
        return ('rule', self.selectors(nested), self.body(depth, True, scopevars, media_depth), {'sp_brace': self.rng.random() < 0.6})

    # ---- mixins
    def mixin_program(self, depth=2):
        """definitions (any arity, some defaults), calls before and after the definition, calls inside other mixins, bodies with
        declarations, nested rules, &-selectors and @media; hygiene: parameter names are not names of other variables"""
        r = self.rng
        nm = r.choice([1, 2, 2, 3])
        defs = []
        for i in range(nm):
            arity = r.choice([0, 1, 1, 2, 3])
            params = []
            for k in range(arity):
                pname = '@p%d%s' % (i, 'abc'[k])
                dflt = None
                if k >= arity - r.choice([0, 0, 1, 2]):
                    dflt = [self.atom([])] if r.random() < 0.7 else [self.atom([]), ('sp',), self.atom([])]
                    dflt = [a if a[0] not in ('str', 'url') else ('word', 'solid') for a in dflt]
                params.append((pname, dflt))
            # defaults must be trailing for positional calls to make sense
            seen_default = False
            for k, (pn, d) in enumerate(params):
                if seen_default and d is None:
                    params[k] = (pn, [('num', '1px')])
                seen_default = seen_default or d is not None
            defs.append({'name': '.mx%d' % i, 'params': params})
        for i, d in enumerate(defs):
            pnames = [p for p, _ in d['params']]
            body = []
            for _ in range(r.choice([1, 2, 3])):
                k = r.random()
                if k < 0.55 or depth == 0:
                    body.append(self.decl_using(pnames))
                elif k < 0.75:
                    body.append(('rule', self.selectors(nested=True), [self.decl_using(pnames) for _ in range(r.choice([1, 2]))], {'sp_brace': True}))
                elif k < 0.85 and 'media' in self.f:
                    body.append(('media', self.query(), [self.decl_using(pnames)]))
                elif i + 1 < len(defs):
                    callee = defs[r.randrange(i + 1, len(defs))]       # calls only "downwards": no recursion here
                    body.append(self.call_of(callee, pnames))
                else:
                    body.append(self.decl_using(pnames))
            if pnames and r.random() < 0.3:
                body.append(('decl', 'border', [('arguments',)], False))
            d['body'] = body
        units = []
        order = [('def', d) for d in defs]
        ncall = r.choice([1, 2, 3])
        for ci in range(ncall):
            d = r.choice(defs)
            caller_body = []
            if r.random() < 0.5:
                caller_body.append(self.decl([]))
            caller_body.append(self.call_of(d, []))
            if r.random() < 0.4:
                caller_body.append(self.call_of(r.choice(defs), []))
            if r.random() < 0.4:
                caller_body.append(self.decl([]))
            order.append(('rule', ('rule', self.selectors(False), caller_body, {'sp_brace': True})))
        if r.random() < 0.4:
            # an ordinary rule used as a mixin
            order.append(('rule', ('rule', [[('class', '.plain')]], [self.decl([]), ('rule', [[('class', '.in')]], [self.decl([])], {'sp_brace': True})], {'sp_brace': True})))
            order.append(('rule', ('rule', self.selectors(False), [('call', '.plain', None, ','), self.decl([])], {'sp_brace': True})))
        if r.random() < 0.35:
            # arguments that are variables named like the callee's parameters: a wrapper forwarding its parameters swapped,
            # and a caller whose block-local variables carry those names
            order.append(('def', {'name': '.pair', 'params': [('@a', None), ('@b', None)],
                                  'body': [('decl', 'margin', [('var', '@a'), ('sp',), ('var', '@b')], False), ('decl', 'top', [('var', '@b')], False)]}))
            order.append(('def', {'name': '.flip', 'params': [('@a', None), ('@b', None)], 'body': [('call', '.pair', [[('var', '@b')], [('var', '@a')]], r.choice([',', ';']))]}))
            order.append(('rule', ('rule', [[('class', '.sw%d' % r.randrange(9))]], [('call', '.flip', [[('num', '1px')], [('num', '2px')]], ',')], {'sp_brace': True})))
            order.append(('rule', ('rule', [[('class', '.loc%d' % r.randrange(9))]],
                                   [('var', '@a', [('num', '7px')]), ('var', '@b', [('num', '8px')]), ('call', '.pair', [[('var', '@b')], [('var', '@a')]], ';')], {'sp_brace': True})))
        r.shuffle(order)
        for kind, x in order:
            if kind == 'def':
                if r.random() < 0.25 and x['params'] and x['name'].startswith('.mx'):
                    # an empty-bodied definition of the same name declared first: it yields nothing, the next one applies
                    units.append(('mixin', x['name'], [(x['params'][0][0], None)], []))
                units.append(('mixin', x['name'], x['params'], x['body']))
            else:
                units.append(x)
        return units

    def decl_using(self, pnames):
        r = self.rng
        if pnames and 'istr' in self.f and r.random() < 0.35:
            save, self.ivars = self.ivars, list(pnames)
            s = self.interpolated_string()
            self.ivars = save
            return ('decl', r.choice(['content', 'font-family', 'background']), ([('var', r.choice(pnames)), ('sp',)] if r.random() < 0.4 else []) + [s], False)
        if pnames and r.random() < 0.8:
            v = []
            for i in range(r.choice([1, 1, 2])):
                if i:
                    v.append(('sp',))
                v.append(('var', r.choice(pnames)) if r.random() < 0.7 else self.atom([]))
            v = [a if a[0] not in ('str', 'url') else ('word', 'solid') for a in v]
            return ('decl', r.choice(PROPS), v, False)
        return self.decl([])

    def call_of(self, d, visible):
        r = self.rng
        nreq = sum(1 for _, dflt in d['params'] if dflt is None)
        nargs = r.randint(nreq, len(d['params']))
        args = []
        for _ in range(nargs):
            k = r.random()
            if visible and k < 0.4:
                args.append([('var', r.choice(visible))])
            elif k < 0.8:
                args.append([('num', self.number())] if r.random() < 0.6 else [('word', r.choice(WORDS))])
            else:
                args.append([('num', self.number()), ('sp',), ('word', r.choice(WORDS))])
        return ('call', d['name'], args, r.choice([',', ';']))

    def sheet(self, nunits=None, depth=3):
        r = self.rng
        out = []
        scopevars = list(self.ivars)
        for _ in range(nunits or r.choice([1, 2, 3, 4, 5])):
            k = r.random()
            if 'var' in self.f and k < 0.15:
                self.nvar += 1
                nm = '@v%d' % self.nvar
                out.append(('var', nm, self.value(scopevars, for_variable=True)))
                scopevars.append(nm)
            elif 'media' in self.f and k < 0.3:
                out.append(('media', self.query(), self.body(max(depth - 1, 1), False, scopevars, 1)))
            elif 'keyframes' in self.f and k < 0.36:
                out.append(self.keyframes(scopevars))
            elif 'fontface' in self.f and k < 0.40:
                out.append(self.fontface(scopevars))
            elif 'stmt' in self.f and k < 0.44:
                out.append(('stmt', r.choice(STMTS)))
            else:
                out.append(self.rule(r.randint(0, depth), False, scopevars))
        return out


# ------------------------------------------------------------------------------------------ show
class Layout:
    """chooses the content of every gap that is present; presence is fixed by the AST"""

    def __init__(self, rng, wild=False):
        self.rng = rng
        self.wild = wild

    def blank(self):            # a required gap inside a selector / value
        if not self.wild:
            return ' '
        r = self.rng
        return r.choice([' ', '  ', '\t', ' \t ', ' \n', '\n ', ' \r\n ', '   ', '\n', '\r\n', '\n\n', '\r', '\r\r', '\t\r'])

    def opt(self):              # an optional gap that is present
        if not self.wild:
            return ' '
        return self.rng.choice([' ', '  ', '\t', '\n', ' \n  ', '\r\n', '\r'])

    def stmt_gap(self):         # between statements: blanks, newlines, comments
        if not self.wild:
            return '\n'
        r = self.rng
        g = r.choice(['\n', '\n\n', ' ', '\n  ', '\r\n', '\t'])
        if r.random() < 0.3:
            c = r.choice(['/* c */', '/* ; { } " \' // */', '// line comment ; { }\n', '/* multi\n line */', '/**/'])
            g = g + c + r.choice(['\n', ' ', '\n\t'])
        return g


def show_sel(sel, L):
    out = ''
    for it in sel:
        k = it[0]
        if k == 'desc':
            out += L.blank()
        elif k == 'comb':
            out += (L.blank() if it[2] else '') + it[1] + (L.opt() if it[2] else '')
        elif k == 'amp':
            out += '&'
        elif k == 'iclass':
            out += ''.join(p[1] if p[0] == 't' else '@{' + p[1][1:] + '}' for p in it[1])
        else:
            out += it[1]
    return out


def show_expr(e, L, k=0):
    from ..props.c04 import LVL
    if e[0] == 'leaf':
        return e[1]
    if e[0] == 'neg':
        return '-(' + show_expr(e[1], L) + ')'
    o = e[1]
    s = show_expr(e[2], L, LVL[o]) + ' ' + o + ' ' + show_expr(e[3], L, LVL[o] + 1)
    return '(' + s + ')' if LVL[o] < k else s


def show_value(val, L):
    out = ''
    for it in val:
        k = it[0]
        if k == 'sp':
            out += L.blank()
        elif k == 'comma':
            out += ',' + L.opt()
        elif k == 'url':
            out += 'url(' + it[1] + ')'
        elif k == 'arguments':
            out += '@arguments'
        elif k == 'istr':
            out += it[1] + ''.join(p[1] if p[0] == 't' else '@{' + p[1][1:] + '}' for p in it[2]) + it[1]
        elif k == 'expr':
            out += show_expr(it[1], L)
        else:
            out += it[1]
    return out


def show_query(q, L):
    typ, feats = q
    parts = []
    if typ:
        parts.append(typ)
    for f, v in feats:
        parts.append('(' + f + ((':' + L.opt() + v) if v is not None else '') + ')')
    return (L.blank() + 'and' + L.blank()).join(parts)


def show_stmts(stmts, L, last_semicolon=True):
    out = ''
    for i, s in enumerate(stmts):
        gap = L.stmt_gap() if (i or L.wild) else ''
        out += gap
        k = s[0]
        if k == 'decl':
            last = (i == len(stmts) - 1)
            semi = '' if (last and getattr(L, 'toggle_semi', False) and L.rng.random() < 0.5) else ';'
            pre = getattr(L, 'pre', lambda: '')
            out += s[1] + pre() + ':' + L.opt() + show_value(s[2], L) + (L.blank() + '!important' if s[3] else '') + (pre() if semi else '') + semi
        elif k == 'var':
            pre = getattr(L, 'pre', lambda: '')
            out += s[1] + pre() + ':' + L.opt() + show_value(s[2], L) + pre() + ';'
        elif k == 'rule':
            inner_gap = L.stmt_gap()
            out += (',' + L.opt()).join(show_sel(x, L) for x in s[1]) + (L.blank() if s[3].get('sp_brace') else '') + '{' + show_stmts(s[2], L) + inner_gap + '}'
        elif k == 'media':
            out += '@media' + L.blank() + show_query(s[1], L) + L.blank() + '{' + show_stmts(s[2], L) + L.stmt_gap() + '}'
        elif k == 'keyframes':
            out += s[1] + L.blank() + s[2] + L.blank() + '{'
            for fs, decls in s[3]:
                out += L.stmt_gap() + fs + L.opt() + '{' + show_stmts(decls, L) + L.stmt_gap() + '}'
            out += L.stmt_gap() + '}'
        elif k == 'fontface':
            out += '@font-face' + L.blank() + '{' + show_stmts(s[1], L) + L.stmt_gap() + '}'
        elif k == 'viewport':
            out += s[1] + L.blank() + '{' + show_stmts(s[2], L) + L.stmt_gap() + '}'
        elif k == 'stmt':
            out += ''.join(s[1])
        elif k == 'mixin':
            ps = []
            for pn, d in s[2]:
                ps.append(pn + ((':' + L.opt() + show_value(d, L)) if d is not None else ''))
            out += s[1] + '(' + (';' + L.opt()).join(ps) + ')' + L.opt() + '{' + show_stmts(s[3], L) + L.stmt_gap() + '}'
        elif k == 'call':
            if s[2] is None:
                out += s[1] + ';'
            else:
                pre = getattr(L, 'pre', lambda: '')
                out += s[1] + '(' + ''.join((pre() + s[3] + L.opt() if i else '') + show_value(a, L) for i, a in enumerate(s[2])) + pre() + ');'
    return out


def show(sheet, L):
    return show_stmts(sheet, L) + ('\n' if not L.wild else L.stmt_gap())


# ------------------------------------------------------------------------------------------ tree (Coq term)
def sel_tokens(sel, trailing_blank):
    toks = []
    for it in sel:
        k = it[0]
        if k == 'desc':
            toks.append(' ')
        elif k == 'comb':
            if it[2]:
                toks.append(' ')
            toks.append(it[1])
        elif k == 'amp':
            toks.append('&')
        elif k == 'iclass':
            toks += [p[1] if p[0] == 't' else '@{' + p[1][1:] + '}' for p in it[1]]
        elif k == 'pseudo':
            toks += [':', it[1][1:]]
        elif k == 'pseudo2':
            toks += [':', ':', it[1][2:]]
        else:
            toks.append(it[1])
    # a blank token follows the last simple selector only for kinds in significant_ws and only if a gap is present
    if trailing_blank:
        toks.append(' ')
    # a leading blank after a combinator never exists; blank before a combinator at the start does not exist either
    return toks


def sels_tokens(sels, sp_brace):
    toks = []
    for i, s in enumerate(sels):
        if i:
            toks.append(',')
        last = (i == len(sels) - 1)
        toks += sel_tokens(s, trailing_blank=(last and sp_brace and s[-1][0] != 'comb'))
    return toks


def fmt_color(c):
    c = c.lower().lstrip('#')
    if len(c) == 3:
        c = ''.join(ch * 2 for ch in c)
    return '#' + c


def expr_term(e):
    from ..props.c04 import OPSYM
    if e[0] == 'leaf':
        t = e[1]
        if t.startswith('@'):
            return '(XVar %s)' % coq_str(t)
        if t.startswith('#'):
            t = fmt_color(t)
        return '(XTok %s)' % coq_str(t)
    if e[0] == 'neg':
        return '(XNeg %s)' % expr_term(e[1])
    return '(XBin %s %s %s)' % (OPSYM[e[1]], expr_term(e[2]), expr_term(e[3]))


SIGNIFICANT_AFTER = {'word', 'num', 'color', 'var'}          # token kinds whose following blank is kept (significant_ws)


def value_tokens(val, trailing_blank=False):
    toks = []
    for i, it in enumerate(val):
        k = it[0]
        nxt = val[i + 1][0] if i + 1 < len(val) else None
        if k == 'sp':
            prev = val[i - 1][0]
            if prev in SIGNIFICANT_AFTER:
                toks.append('VT %s' % coq_str(' '))
        elif k == 'comma':
            toks.append('VT %s' % coq_str(','))
        elif k == 'word' or k == 'num' or k == 'str':
            toks.append('VT %s' % coq_str(it[1]))
        elif k == 'istr':
            toks.append('VT %s' % coq_str(it[1]))
            for p in it[2]:
                toks.append(('VT %s' % coq_str(p[1])) if p[0] == 't' else ('VVar %s' % coq_str('@{' + p[1][1:] + '}')))
            toks.append('VT %s' % coq_str(it[1]))
        elif k == 'color':
            toks.append('VT %s' % coq_str(fmt_color(it[1])))
        elif k == 'var':
            toks.append('VVar %s' % coq_str(it[1]))
        elif k == 'arguments':
            toks.append('VVar %s' % coq_str('@arguments'))
        elif k == 'url':
            toks.append('VCall %s [VT %s]' % (coq_str('url'), coq_str(it[1])))
        elif k == 'expr':
            toks.append('VExpr %s' % expr_term(it[1]))
    if trailing_blank and val and val[-1][0] in SIGNIFICANT_AFTER:
        toks.append('VT %s' % coq_str(' '))
    return toks


def query_tokens(q):
    typ, feats = q
    toks = []
    if typ:
        toks += [typ, ' ']
    for i, (f, v) in enumerate(feats):
        if i or typ:
            # `and` carries its following blank; a blank BEFORE a non-first `and` is restored by the grammar action,
            # except directly after the first feature of a query that starts with a feature (pinned by test/css/media.css)
            if i >= 1 and (typ or i >= 2):
                toks.append(' ')
            toks += ['and', ' ']
        toks += ['(', f] + ([':', v] if v is not None else []) + [')']
    return toks


def tree_stmts(stmts):
    out = []
    for s in stmts:
        k = s[0]
        if k == 'decl':
            out.append('NProp %s %s %s' % (coq_str(s[1]), coq_list(value_tokens(s[2], trailing_blank=s[3])), 'true' if s[3] else 'false'))
        elif k == 'var':
            out.append('NVar %s %s' % (coq_str(s[1]), coq_list(value_tokens(s[2]))))
        elif k == 'rule':
            out.append('NBlock %s %s' % (coq_list(coq_str(t) for t in sels_tokens(s[1], s[3].get('sp_brace'))), coq_list(tree_stmts(s[2]))))
        elif k == 'media':
            toks = ['@media', ' '] + query_tokens(s[1]) + ([' '] if not s[1][1] else [])
            out.append('NBlock %s %s' % (coq_list(coq_str(t) for t in toks), coq_list(tree_stmts(s[2]))))
        elif k == 'keyframes':
            frames = ['NFrame %s %s' % (coq_str(fs), coq_list(tree_stmts(d))) for fs, d in s[3]]
            out.append('NBlock %s %s' % (coq_list(coq_str(t) for t in [s[1], ' ', s[2], ' ']), coq_list(frames)))
        elif k == 'fontface':
            out.append('NBlock %s %s' % (coq_list(coq_str(t) for t in ['@font-face', ' ']), coq_list(tree_stmts(s[1]))))
        elif k == 'viewport':
            out.append('NBlock %s %s' % (coq_list(coq_str(t) for t in [s[1], ' ']), coq_list(tree_stmts(s[2]))))
        elif k == 'stmt':
            out.append('NStmt %s' % coq_list(coq_str(t) for t in s[1]))
        elif k == 'mixin':
            ps = ['(%s, %s)' % (coq_str(pn), ('Some %s' % coq_list(value_tokens(d))) if d is not None else 'None') for pn, d in s[2]]
            out.append('NMixin %s %s %s' % (coq_str(s[1]), coq_list(ps), coq_list(tree_stmts(s[3]))))
        elif k == 'call':
            out.append('NCall %s %s' % (coq_str(s[1]), coq_list(coq_list(value_tokens(a)) for a in (s[2] or []))))
    return ['(%s)' % x for x in out]


def tree(sheet):
    return coq_list(tree_stmts(sheet))


def sel_count(stmts, parents=1):
    """upper estimate of the largest selector list any rule produces"""
    worst = parents
    for s in stmts:
        if s[0] == 'rule':
            n = 0
            for sel in s[1]:
                k = sum(1 for it in sel if it[0] == 'amp')
                n += parents ** k if k else parents
            worst = max(worst, n, sel_count(s[2], n))
        elif s[0] == 'media':
            worst = max(worst, sel_count(s[2], parents))
    return worst


def arguments_after_call(stmts):
    """classifier of known finding F27"""
    for s in stmts:
        if s[0] == 'mixin':
            seen_call = False
            for c in s[3]:
                if c[0] == 'call':
                    seen_call = True
                elif c[0] == 'decl' and seen_call and any(it[0] == 'arguments' for it in c[2]):
                    return True
    return False


def media_feature_first(stmts, feature_first_outer=False):
    """classifier of known finding F5b: a media query that starts with a feature and has a second one prints ')and (' when read
    from source (pinned by test/css/media.css); merged with an outer query the spelling survives into the output, and an output
    query that starts with a feature is re-read that way"""
    for s in stmts:
        if s[0] == 'media':
            typ, feats = s[1]
            if typ is None and len(feats) >= 2:
                return True
            if feature_first_outer and len(feats) >= 1:
                return True
            if media_feature_first(s[2], feature_first_outer or typ is None):
                return True
        elif s[0] == 'rule':
            if media_feature_first(s[2], feature_first_outer):
                return True
    return False


def has_amp_after_bracket(stmts, any_attr=None):
    """classifier of known finding C02/amp-bracket: an & directly after an attribute selector, or directly after
    another & while some selector of the sheet ends in an attribute selector"""
    def walk(ss):
        for s in ss:
            if s[0] == 'rule':
                yield s
                for x in walk(s[2]):
                    yield x
            elif s[0] == 'media':
                for x in walk(s[2]):
                    yield x
            elif s[0] == 'mixin':
                for x in walk(s[3]):
                    yield x
    rules = list(walk(stmts))
    attr_anywhere = any(it[0] == 'attr' for r in rules for sel in r[1] for it in sel)
    for r in rules:
        for sel in r[1]:
            for a, b in zip(sel, sel[1:]):
                if b[0] == 'amp' and (a[0] == 'attr' or (a[0] == 'amp' and attr_anywhere)):
                    return True
    return False


def size(stmts):
    n = 0
    for s in stmts:
        n += 1
        if s[0] in ('rule', 'media'):
            n += size(s[2])
        elif s[0] == 'mixin':
            n += size(s[3])
    return n
