"""Shared machinery of check.py: parameter regeneration, Coq build, obligations, verdicts,
evidence, replays, known findings."""
import os, sys, re, json, time, fcntl, subprocess, shutil, tempfile, hashlib, glob

HERE = os.path.dirname(os.path.abspath(__file__))
VERIF = os.path.dirname(HERE)
COQ = os.path.join(VERIF, 'coq')
BUILD = os.path.join(VERIF, 'build')
REPO = os.environ.get('VERIF_REPO', '/repo')
PY = '/venv/bin/python'
GUARD = 'LESSCPY_VERIF'

TRUSTED_BASE = [
    'Coq 8.16.1 kernel (coqc); vm_compute for table facts, finite sweeps and generated cases files; no native_compute',
    'axioms: none declared; Print Assumptions output per theorem is recorded below',
    'harness/gen_params.py (translator /repo -> coq/Gen/Params.v): reads the right attributes/constants and prints them faithfully',
    'correspondence harness: generators, worker pool running the real lesscpy, generated cases_*.v compared inside Coq',
    'PLY (regex engine, LALR construction), Python float and stdlib are modelled by hand and tied by correspondence only',
]

FORBIDDEN = re.compile(r'\b(Admitted|admit|Axiom|Parameter|Conjecture|Admit Obligations|Unset Guard Checking|'
                       r'Unset Positivity Checking|Unset Universe Checking|bypass_check|type-in-type|impredicative-set)\b')


def sh(cmd, timeout=None, cwd=None, env=None):
    p = subprocess.run(cmd, shell=isinstance(cmd, str), capture_output=True, text=True, timeout=timeout, cwd=cwd, env=env)
    return p.returncode, p.stdout, p.stderr


class Lock:
    def __init__(self, name='build'):
        os.makedirs(BUILD, exist_ok=True)
        self.path = os.path.join(BUILD, '.%s.lock' % name)

    def __enter__(self):
        self.f = open(self.path, 'w')
        fcntl.flock(self.f, fcntl.LOCK_EX)
        return self

    def __exit__(self, *a):
        fcntl.flock(self.f, fcntl.LOCK_UN)
        self.f.close()


def gen_params():
    """Regenerate coq/Gen/Params.v from the working tree.  Returns dict(soft=[...], diff={name: (golden, now)})."""
    env = dict(os.environ)
    env.update({'PYTHONPATH': REPO, 'PYTHONHASHSEED': '0', 'PYTHONDONTWRITEBYTECODE': '1', GUARD: '1'})
    tmp = tempfile.mkdtemp(prefix='lessverif-gp-')
    env['TMPDIR'] = tmp
    try:
        rc, out, err = sh([PY, '-W', 'ignore', os.path.join(HERE, 'gen_params.py'),
                           os.path.join(COQ, 'Gen', 'Params.v'), os.path.join(BUILD, 'params.json')],
                          timeout=600, env=env, cwd=tmp)
    finally:
        shutil.rmtree(tmp, ignore_errors=True)
    if rc != 0:
        return {'ok': False, 'error': (err or out)[-3000:], 'soft': [], 'diff': {}}
    info = json.loads(out.strip().splitlines()[-1])
    now = json.load(open(os.path.join(BUILD, 'params.json')))
    try:
        gold = json.load(open(os.path.join(COQ, 'Gen', 'params.golden.json')))
    except Exception:
        gold = {'values': {}}
    diff = {}
    for k, v in now['values'].items():
        g = gold['values'].get(k, None)
        if g != v:
            diff[k] = {'golden': g, 'now': v}
    return {'ok': True, 'soft': now.get('soft', []), 'diff': diff, 'n': info['n']}


def coq_files():
    return [l.strip() for l in open(os.path.join(COQ, '_CoqProject')) if l.strip().endswith('.v')]


def build(clean=False):
    """make -k the whole development.  Returns {file: error text} for files that failed."""
    if clean:
        sh('make clean >/dev/null 2>&1; rm -f Makefile Makefile.conf .Makefile.d', cwd=COQ, timeout=300)
    if not os.path.exists(os.path.join(COQ, 'Makefile')) or \
            os.path.getmtime(os.path.join(COQ, 'Makefile')) < os.path.getmtime(os.path.join(COQ, '_CoqProject')):
        rc, out, err = sh('coq_makefile -f _CoqProject -o Makefile', cwd=COQ, timeout=120)
        if rc != 0:
            return {'_CoqProject': err}
    rc, out, err = sh('timeout 3000 make -k -j%d 2>&1' % min(16, os.cpu_count() or 4), cwd=COQ, timeout=3100)
    failed = {}
    if rc != 0:
        # parse 'File "./X.v", line N, characters a-b:\nError: ...'
        for m in re.finditer(r'File "\./([^"]+)", line (\d+), characters [^\n]*\n(Error:.*?)(?=\nmake|\nCOQC|\nFile |\Z)', out, re.S):
            failed.setdefault(m.group(1), {'line': int(m.group(2)), 'error': m.group(3)[:1500]})
    for f in coq_files():
        if not os.path.exists(os.path.join(COQ, f + 'o')) and f not in failed:
            failed[f] = {'line': 0, 'error': 'not built (a dependency failed)'}
    return failed


def lemma_at(path, line):
    """name of the Lemma/Theorem enclosing `line` of file `path` (1-based)."""
    try:
        lines = open(os.path.join(COQ, path)).read().split('\n')
    except Exception:
        return None
    for i in range(min(line, len(lines)) - 1, -1, -1):
        m = re.match(r'\s*(Lemma|Theorem|Example|Corollary|Fact|Definition|Fixpoint)\s+([A-Za-z0-9_\']+)', lines[i])
        if m:
            return m.group(2)
    return None


def deps_of(vfile):
    """transitive .v dependencies of a file inside the development (by scanning Require lines)."""
    seen, todo = set(), [vfile]
    while todo:
        f = todo.pop()
        if f in seen:
            continue
        seen.add(f)
        try:
            txt = open(os.path.join(COQ, f)).read()
        except Exception:
            continue
        for m in re.finditer(r'Require\s+(?:Import\s+|Export\s+)?((?:[A-Za-z_]\w*(?:\.[A-Za-z_]\w*)*\s*)+)\.\s', txt):
            for mod in m.group(1).split():
                p = mod.replace('.', '/') + '.v'
                if os.path.exists(os.path.join(COQ, p)):
                    todo.append(p)
    return seen


def theorems_in(vfile):
    txt = open(os.path.join(COQ, vfile)).read()
    return re.findall(r'^\s*(?:Theorem|Lemma|Example|Corollary)\s+([A-Za-z0-9_\']+)', txt, re.M)


def table_facts_in(vfile):
    txt = open(os.path.join(COQ, vfile)).read()
    return re.findall(r'^\s*Lemma\s+(tf_[A-Za-z0-9_\']+)', txt, re.M)


def hygiene():
    bad = []
    for f in coq_files():
        if f.startswith('Gen/'):
            continue
        txt = open(os.path.join(COQ, f)).read()
        txt = re.sub(r'\(\*.*?\*\)', '', txt, flags=re.S)
        for m in FORBIDDEN.finditer(txt):
            bad.append('%s: %s' % (f, m.group(0)))
    return bad


def obligations(pid, failed):
    """Obligations of property pid = every theorem in Props/<pid>.v + every table fact (tf_*) in the
    proof files it depends on.  Props file is re-run to capture Print Assumptions."""
    props = 'Props/%s.v' % pid
    deps = deps_of(props)
    names, broken = [], []
    for f in sorted(deps):
        tfs = table_facts_in(f) if f.startswith('Proofs/') else []
        ths = theorems_in(f) if f == props else []
        for n in tfs + ths:
            names.append(n)
        if f in failed:
            info = failed[f]
            lm = lemma_at(f, info['line']) if info['line'] else None
            broken.append({'file': f, 'lemma': lm, 'error': info['error']})
    assumptions = {}
    if not broken:
        rc, out, err = sh(['coqc', '-Q', COQ, '', os.path.join(COQ, props)], timeout=1200, cwd=COQ)
        if rc != 0:
            broken.append({'file': props, 'lemma': None, 'error': (err or out)[-1500:]})
        else:
            ths = theorems_in(props)
            chunks = re.split(r'(?=Closed under the global context|Axioms:)', out)
            chunks = [c.strip() for c in chunks if c.strip()]
            pa = re.findall(r'Print Assumptions\s+([A-Za-z0-9_\']+)', open(os.path.join(COQ, props)).read())
            for n, c in zip(pa, chunks):
                assumptions[n] = c[:600]
    n_broken = 0
    if broken:
        # every obligation living in or depending on a broken file counts as not discharged
        bf = {b['file'] for b in broken}
        for f in sorted(deps):
            if f in bf or (deps_of(f) & bf):
                n_broken += len((table_facts_in(f) if f.startswith('Proofs/') else []) + (theorems_in(f) if f == props else []))
    return {'names': names, 'n': len(names), 'discharged': len(names) - n_broken, 'broken': broken,
            'assumptions': assumptions}


# ------------------------------------------------------------------------------------ findings
def load_findings():
    path = os.path.join(VERIF, 'known_findings.jsonl')
    out = []
    if os.path.exists(path):
        for line in open(path):
            line = line.strip()
            if not line or line.startswith('#') or line.startswith('fixed:'):
                continue
            out.append(json.loads(line))
    return out


# ------------------------------------------------------------------------------------ evidence / replay
def write_replay(pid, payload):
    d = os.path.join(VERIF, 'replays')
    os.makedirs(d, exist_ok=True)
    h = hashlib.sha1(json.dumps(payload, sort_keys=True, default=str).encode()).hexdigest()[:10]
    path = os.path.join(d, '%s-%s.json' % (pid, h))
    with open(path, 'w') as f:
        json.dump(payload, f, indent=1, default=str)
    return path


def write_evidence(pid, tier, seed, coverage, wall, violations, assumptions, level='proof'):
    d = os.path.join(VERIF, 'evidence')
    os.makedirs(d, exist_ok=True)
    ev = {'property_id': pid, 'tier': tier, 'seed': seed, 'level': level, 'coverage': coverage,
          'assumptions': assumptions, 'wall_s': round(wall, 2), 'violations': violations}
    tmp = os.path.join(d, '%s.json.tmp' % pid)
    with open(tmp, 'w') as f:
        json.dump(ev, f, indent=1, default=str)
    os.replace(tmp, os.path.join(d, '%s.json' % pid))
    return ev


def scratch_dir(tag):
    base = os.environ.get('VERIF_SCRATCH') or tempfile.gettempdir()
    return tempfile.mkdtemp(prefix='lessverif-%s-' % tag, dir=base)
