"""A small, independent, quote-aware reader of CSS text (NOT lesscpy's front end): returns the flat items
(media condition, enclosing at-rule header, selector list, declarations) in document order."""


def _scan(text):
    """yield (kind, text) with kind in 'open' (prelude), 'close', 'semi' (statement/declaration text)"""
    buf, q, depth_paren = '', None, 0
    i, n = 0, len(text)
    while i < n:
        c = text[i]
        if q:
            buf += c
            if c == q:
                q = None
        elif c in '"\'':
            q = c; buf += c
        elif c == '/' and text[i:i + 2] == '/*':
            j = text.find('*/', i + 2)
            i = (j + 2) if j >= 0 else n
            continue
        elif c == '(':
            depth_paren += 1; buf += c
        elif c == ')':
            depth_paren = max(0, depth_paren - 1); buf += c
        elif c == '{' and depth_paren == 0:
            yield ('open', buf.strip()); buf = ''
        elif c == '}' and depth_paren == 0:
            if buf.strip():
                yield ('semi', buf.strip())
            buf = ''
            yield ('close', '')
        elif c == ';' and depth_paren == 0:
            yield ('semi', buf.strip()); buf = ''
        else:
            buf += c
        i += 1
    if buf.strip():
        yield ('semi', buf.strip())


def split_top(s, sep=','):
    out, buf, q, depth = [], '', None, 0
    for c in s:
        if q:
            buf += c
            if c == q:
                q = None
        elif c in '"\'':
            q = c; buf += c
        elif c in '([':
            depth += 1; buf += c
        elif c in ')]':
            depth -= 1; buf += c
        elif c == sep and depth == 0:
            out.append(buf.strip()); buf = ''
        else:
            buf += c
    out.append(buf.strip())
    return out


def read_css(text):
    items = []
    stack = []          # list of dict(kind, header)
    cur = None          # current rule item being filled
    for kind, t in _scan(text):
        if kind == 'open':
            low = t.lower()
            if low.startswith('@media'):
                stack.append({'kind': 'media', 'header': t[6:].strip()})
            elif low.startswith('@') and 'keyframes' in low.split()[0]:
                stack.append({'kind': 'at', 'header': t})
            else:
                media = ' and '.join(f['header'] for f in stack if f['kind'] == 'media')
                at = ''.join(f['header'] for f in stack if f['kind'] == 'at')
                cur = {'media': media, 'at': at, 'sels': split_top(t), 'decls': []}
                items.append(cur)
                stack.append({'kind': 'rule', 'header': t})
        elif kind == 'close':
            if stack:
                f = stack.pop()
                if f['kind'] == 'rule':
                    cur = None
        else:
            if cur is not None and stack and stack[-1]['kind'] == 'rule':
                name, _, val = t.partition(':')
                val = val.strip()
                imp = False
                if val.endswith('!important'):
                    imp = True
                    val = val[:-len('!important')].strip()
                cur['decls'].append((name.strip(), val, imp))
            elif stack and stack[-1]['kind'] == 'media' and ':' in t and not t.startswith('@'):
                # a declaration directly inside @media (no selector)
                media = ' and '.join(f['header'] for f in stack if f['kind'] == 'media')
                name, _, val = t.partition(':')
                items.append({'media': media, 'at': '', 'sels': [], 'decls': [(name.strip(), val.strip(), False)]})
            else:
                media = ' and '.join(f['header'] for f in stack if f['kind'] == 'media')
                items.append({'media': media, 'at': '', 'sels': [t + ';'], 'decls': []})
    # drop empty rules (a rule without declarations means nothing)
    return [i for i in items if i['decls'] or (i['sels'] and i['sels'][0].startswith('@'))]


def coq_items(items, coq_str):
    out = []
    for i in items:
        decls = '[' + '; '.join('(%s, %s, %s)' % (coq_str(n), coq_str(v), 'true' if imp else 'false') for n, v, imp in i['decls']) + ']'
        out.append('MkItem %s %s %s %s' % (coq_str(i['media']), coq_str(i['at']), '[' + '; '.join(coq_str(s) for s in i['sels']) + ']', decls))
    return '[' + '; '.join('(%s)' % x for x in out) + ']'


if __name__ == '__main__':
    import sys, json
    print(json.dumps(read_css(sys.stdin.read()), indent=1))
