#!/venv/bin/python
"""The translator: regenerate coq/Gen/Params.v (and build/params.json) from /repo's CURRENT
working tree.  Run with /venv/bin/python -W ignore, PYTHONPATH=/repo, PYTHONHASHSEED=0.

Two routes: runtime introspection of the imported modules, and `ast` extraction of constants
from named functions.  Fail-soft: a constant that cannot be located is emitted with its golden
value plus `<name>_reextracted := false` (recorded in params.json under "soft").
Coq text is written from raw strings.
"""
import sys, os, ast, json, inspect, re, io

REPO = os.environ.get('VERIF_REPO', '/repo')
HERE = os.path.dirname(os.path.abspath(__file__))
VERIF = os.path.dirname(HERE)
GOLDEN = os.path.join(VERIF, 'coq', 'Gen', 'params.golden.json')

sys.path.insert(0, REPO)


# ----------------------------------------------------------------------------- coq printing
def coq_str(x):
    """python str -> Coq term of type str (list ascii)"""
    if all((32 <= ord(c) < 127) or c in '\n\t' for c in x):
        return '$"%s"' % x.replace('"', '""')
    return '(map chr [%s]%%N)' % '; '.join(str(ord(c)) for c in x)


def coq_list(items):
    return '[' + '; '.join(items) + ']'


def coq_z(n):
    return '(%d)%%Z' % n


CMP = {'Gt': 'CGt', 'Lt': 'CLt', 'GtE': 'CGe', 'LtE': 'CLe', 'Eq': 'CEq', 'NotEq': 'CNe'}
OPERATOR = {'add': 'PArith OAdd', 'sub': 'PArith OSub', 'mul': 'PArith OMul', 'truediv': 'PArith OTrueDiv',
            'floordiv': 'PArith OFloorDiv', 'mod': 'PArith OMod',
            'eq': 'PCmp CEq', 'ne': 'PCmp CNe', 'gt': 'PCmp CGt', 'lt': 'PCmp CLt', 'ge': 'PCmp CGe',
            'le': 'PCmp CLe'}


class Out:
    def __init__(self):
        self.defs = []       # (name, coqtype, coqterm)
        self.json = {}
        self.soft = []
        try:
            self.golden = json.load(open(GOLDEN))
        except Exception:
            self.golden = {}

    def put(self, name, coqtype, to_coq, extractor):
        """extractor() -> json-able value, or raises; to_coq(value) -> coq term"""
        ok = True
        try:
            val = extractor()
            # normalise through json so golden and fresh values compare structurally
            val = json.loads(json.dumps(val))
        except Exception as e:      # fail-soft
            ok = False
            if name not in self.golden.get('values', {}):
                raise RuntimeError('cannot extract %s and no golden value: %r' % (name, e))
            val = self.golden['values'][name]
            self.soft.append({'name': name, 'why': '%s: %s' % (type(e).__name__, e)})
        self.json[name] = val
        self.defs.append((name, coqtype, to_coq(val)))
        self.defs.append((name + '_reextracted', 'bool', 'true' if ok else 'false'))


# ----------------------------------------------------------------------------- ast helpers
def src_ast(relpath):
    with open(os.path.join(REPO, relpath)) as f:
        return ast.parse(f.read())


def find_def(tree, cls, fn):
    for n in ast.walk(tree):
        if cls and isinstance(n, ast.ClassDef) and n.name == cls:
            for m in n.body:
                if isinstance(m, ast.FunctionDef) and m.name == fn:
                    return m
        if not cls and isinstance(n, ast.FunctionDef) and n.name == fn:
            return n
    raise KeyError('%s.%s not found' % (cls, fn))


def const(n):
    if isinstance(n, ast.Constant):
        return n.value
    if isinstance(n, ast.UnaryOp) and isinstance(n.op, ast.USub) and isinstance(n.operand, ast.Constant):
        return -n.operand.value
    raise ValueError('not a constant: %s' % ast.dump(n))


def clamp_steps_stmt(fn):
    """`if v > C: v = D` statements inside function fn (in source order)."""
    out = []
    for n in ast.walk(fn):
        if isinstance(n, ast.If) and isinstance(n.test, ast.Compare) and len(n.test.ops) == 1 \
                and isinstance(n.test.left, ast.Name) and len(n.body) == 1 and isinstance(n.body[0], ast.Assign) \
                and isinstance(n.body[0].targets[0], ast.Name) and n.body[0].targets[0].id == n.test.left.id \
                and not n.orelse:
            out.append((n.lineno, [type(n.test.ops[0]).__name__, const(n.test.comparators[0]), const(n.body[0].value)]))
    out.sort()
    if not out:
        raise ValueError('no clamp statements')
    return [x for _, x in out]


def clamp_steps_ifexp(fn):
    """`A if h > C else B if h < D else h` -> same step list"""
    for n in ast.walk(fn):
        if isinstance(n, ast.IfExp) and isinstance(n.test, ast.Compare):
            steps = []
            cur = n
            while isinstance(cur, ast.IfExp):
                t = cur.test
                steps.append([type(t.ops[0]).__name__, const(t.comparators[0]), const(cur.body)])
                cur = cur.orelse
            if isinstance(cur, ast.Name):
                return steps
    raise ValueError('no clamp expression')


def op_dict(fn):
    for n in ast.walk(fn):
        if isinstance(n, ast.Dict) and n.keys and all(isinstance(k, ast.Constant) and isinstance(k.value, str) for k in n.keys) \
                and all(isinstance(v, ast.Attribute) and isinstance(v.value, ast.Name) and v.value.id == 'operator' for v in n.values):
            return [[k.value, v.attr] for k, v in zip(n.keys, n.values)]
    raise ValueError('no operator dict')


def percent_formats(fn):
    out = []
    for n in ast.walk(fn):
        if isinstance(n, ast.BinOp) and isinstance(n.op, ast.Mod) and isinstance(n.left, ast.Constant) \
                and isinstance(n.left.value, str) and re.fullmatch(r'%0?\d*[xXd]', n.left.value):
            out.append(n.left.value)
    if not out:
        raise ValueError('no format')
    return out


def to_coq_steps(v):
    return coq_list(['ClampStep %s %s %s' % (CMP[c], coq_z(b), coq_z(a)) for c, b, a in v])


def to_coq_ops(v):
    return coq_list(['(%s, %s)' % (coq_str(k), OPERATOR.get(o, 'PArith OOther')) for k, o in v])


def to_coq_strlist(v):
    return coq_list([coq_str(x) for x in v])


# ----------------------------------------------------------------------------- extractors
def gen(out):
    color_t = src_ast('lesscpy/lessc/color.py')
    # --- C08: colour arithmetic
    out.put('color_clamp_steps', 'list clamp_step', to_coq_steps,
            lambda: clamp_steps_stmt(find_def(color_t, 'Color', 'process')))
    out.put('color_process_fmt', 'str', coq_str,
            lambda: percent_formats(find_def(color_t, 'Color', 'process'))[0])
    out.put('color_ops', 'list (str * pyop)', to_coq_ops,
            lambda: op_dict(find_def(color_t, 'Color', 'operate')))
    out.put('rgbatohex_clamp_steps', 'list clamp_step', to_coq_steps,
            lambda: clamp_steps_ifexp(find_def(color_t, 'Color', '_rgbatohex')))
    out.put('rgbatohex_fmt', 'str', coq_str,
            lambda: percent_formats(find_def(color_t, 'Color', '_rgbatohex'))[0])
    out.put('rgbatohex_raw_clamp_steps', 'list clamp_step', to_coq_steps,
            lambda: clamp_steps_ifexp(find_def(color_t, 'Color', '_rgbatohex_raw')))
    out.put('rgbatohex_raw_fmt', 'str', coq_str,
            lambda: percent_formats(find_def(color_t, 'Color', '_rgbatohex_raw'))[0])

    for extra in EXTRA:
        extra(out)


EXTRA = []      # later sections register themselves here (see bottom of file)


def render(out):
    lines = ['(* GENERATED by harness/gen_params.py from %s — do not edit, do not commit. *)' % REPO,
             'From Coq Require Import String.',
             'From Coq Require Import List Ascii ZArith QArith.',
             'Require Import Model.Text Model.ParamTypes.',
             'Import ListNotations.',
             '']
    for name, ty, term in out.defs:
        lines.append('Definition %s : %s := %s.' % (name, ty, term))
    return '\n'.join(lines) + '\n'


def main():
    dest_v = sys.argv[1]
    dest_json = sys.argv[2]
    out = Out()
    gen(out)
    text = render(out)
    js = json.dumps({'values': out.json, 'soft': out.soft}, indent=1, sort_keys=True)
    for path, content in ((dest_v, text), (dest_json, js)):
        old = None
        if os.path.exists(path):
            old = open(path).read()
        if old != content:                       # keep mtime when unchanged: no needless rebuild
            os.makedirs(os.path.dirname(path), exist_ok=True)
            with open(path + '.tmp', 'w') as f:
                f.write(content)
            os.replace(path + '.tmp', path)
    if '--write-golden' in sys.argv:
        with open(GOLDEN, 'w') as f:
            f.write(js)
    print(json.dumps({'soft': out.soft, 'n': len(out.json)}))


if __name__ == '__main__':
    main()
