#!/venv/bin/python
"""The translator: regenerate coq/Gen/Params.v (and build/params.json) from /repo's CURRENT
working tree.  Run with /venv/bin/python -W ignore, PYTHONPATH=/repo, PYTHONHASHSEED=0.

Two routes: runtime introspection of the imported modules, and `ast` extraction of constants
from named functions.  Fail-soft: a constant that cannot be located is emitted with its golden
value plus `<name>_reextracted := false` (recorded in params.json under "soft").
Coq text is written from raw strings.
"""
import sys, os, ast, json, inspect, re, io

REPO = os.environ.get('VERIF_REPO', '/repo')
HERE = os.path.dirname(os.path.abspath(__file__))
VERIF = os.path.dirname(HERE)
GOLDEN = os.path.join(VERIF, 'coq', 'Gen', 'params.golden.json')

sys.path.insert(0, REPO)


# ----------------------------------------------------------------------------- coq printing
def coq_str(x):
    """python str -> Coq term of type str (list ascii)"""
    if all((32 <= ord(c) < 127) or c in '\n\t' for c in x):
        return '$"%s"' % x.replace('"', '""')
    return '(map chr [%s]%%N)' % '; '.join(str(ord(c)) for c in x)


def coq_list(items):
    return '[' + '; '.join(items) + ']'


def coq_z(n):
    return '(%d)%%Z' % n


CMP = {'Gt': 'CGt', 'Lt': 'CLt', 'GtE': 'CGe', 'LtE': 'CLe', 'Eq': 'CEq', 'NotEq': 'CNe'}
OPERATOR = {'add': 'PArith OAdd', 'sub': 'PArith OSub', 'mul': 'PArith OMul', 'truediv': 'PArith OTrueDiv',
            'floordiv': 'PArith OFloorDiv', 'mod': 'PArith OMod',
            'eq': 'PCmp CEq', 'ne': 'PCmp CNe', 'gt': 'PCmp CGt', 'lt': 'PCmp CLt', 'ge': 'PCmp CGe',
            'le': 'PCmp CLe'}


class Out:
    def __init__(self):
        self.defs = []       # (group, name, coqtype, coqterm)
        self.group = 'Color'
        self.json = {}
        self.soft = []
        try:
            self.golden = json.load(open(GOLDEN))
        except Exception:
            self.golden = {}

    def put(self, name, coqtype, to_coq, extractor):
        """extractor() -> json-able value, or raises; to_coq(value) -> coq term"""
        ok = True
        try:
            val = extractor()
            # normalise through json so golden and fresh values compare structurally
            val = json.loads(json.dumps(val))
        except Exception as e:      # fail-soft
            ok = False
            if name not in self.golden.get('values', {}):
                raise RuntimeError('cannot extract %s and no golden value: %r' % (name, e))
            val = self.golden['values'][name]
            self.soft.append({'name': name, 'why': '%s: %s' % (type(e).__name__, e)})
        self.json[name] = val
        self.defs.append((self.group, name, coqtype, to_coq(val)))
        self.defs.append((self.group, name + '_reextracted', 'bool', 'true' if ok else 'false'))


# ----------------------------------------------------------------------------- ast helpers
def src_ast(relpath):
    with open(os.path.join(REPO, relpath)) as f:
        return ast.parse(f.read())


def find_def(tree, cls, fn):
    for n in ast.walk(tree):
        if cls and isinstance(n, ast.ClassDef) and n.name == cls:
            for m in n.body:
                if isinstance(m, ast.FunctionDef) and m.name == fn:
                    return m
        if not cls and isinstance(n, ast.FunctionDef) and n.name == fn:
            return n
    raise KeyError('%s.%s not found' % (cls, fn))


def const(n):
    if isinstance(n, ast.Constant):
        return n.value
    if isinstance(n, ast.UnaryOp) and isinstance(n.op, ast.USub) and isinstance(n.operand, ast.Constant):
        return -n.operand.value
    raise ValueError('not a constant: %s' % ast.dump(n))


def clamp_steps_stmt(fn):
    """`if v > C: v = D` statements inside function fn (in source order)."""
    out = []
    for n in ast.walk(fn):
        if isinstance(n, ast.If) and isinstance(n.test, ast.Compare) and len(n.test.ops) == 1 \
                and isinstance(n.test.left, ast.Name) and len(n.body) == 1 and isinstance(n.body[0], ast.Assign) \
                and isinstance(n.body[0].targets[0], ast.Name) and n.body[0].targets[0].id == n.test.left.id \
                and not n.orelse:
            out.append((n.lineno, [type(n.test.ops[0]).__name__, const(n.test.comparators[0]), const(n.body[0].value)]))
    out.sort()
    if not out:
        raise ValueError('no clamp statements')
    return [x for _, x in out]


def clamp_steps_ifexp(fn):
    """`A if h > C else B if h < D else h` -> same step list"""
    for n in ast.walk(fn):
        if isinstance(n, ast.IfExp) and isinstance(n.test, ast.Compare):
            steps = []
            cur = n
            while isinstance(cur, ast.IfExp):
                t = cur.test
                steps.append([type(t.ops[0]).__name__, const(t.comparators[0]), const(cur.body)])
                cur = cur.orelse
            if isinstance(cur, ast.Name):
                return steps
    raise ValueError('no clamp expression')


def op_dict(fn):
    for n in ast.walk(fn):
        if isinstance(n, ast.Dict) and n.keys and all(isinstance(k, ast.Constant) and isinstance(k.value, str) for k in n.keys) \
                and all(isinstance(v, ast.Attribute) and isinstance(v.value, ast.Name) and v.value.id == 'operator' for v in n.values):
            return [[k.value, v.attr] for k, v in zip(n.keys, n.values)]
    raise ValueError('no operator dict')


def percent_formats(fn):
    out = []
    for n in ast.walk(fn):
        if isinstance(n, ast.BinOp) and isinstance(n.op, ast.Mod) and isinstance(n.left, ast.Constant) \
                and isinstance(n.left.value, str) and re.fullmatch(r'%0?\d*[xXd]', n.left.value):
            out.append(n.left.value)
    if not out:
        raise ValueError('no format')
    return out


def to_coq_steps(v):
    return coq_list(['ClampStep %s %s %s' % (CMP[c], coq_z(b), coq_z(a)) for c, b, a in v])


def to_coq_ops(v):
    return coq_list(['(%s, %s)' % (coq_str(k), OPERATOR.get(o, 'PArith OOther')) for k, o in v])


def to_coq_strlist(v):
    return coq_list([coq_str(x) for x in v])


# ----------------------------------------------------------------------------- extractors
def gen(out):
    color_t = src_ast('lesscpy/lessc/color.py')
    # --- C08: colour arithmetic
    out.put('color_clamp_steps', 'list clamp_step', to_coq_steps,
            lambda: clamp_steps_stmt(find_def(color_t, 'Color', 'process')))
    out.put('color_process_fmt', 'str', coq_str,
            lambda: percent_formats(find_def(color_t, 'Color', 'process'))[0])
    out.put('color_ops', 'list (str * pyop)', to_coq_ops,
            lambda: op_dict(find_def(color_t, 'Color', 'operate')))
    out.put('rgbatohex_clamp_steps', 'list clamp_step', to_coq_steps,
            lambda: clamp_steps_ifexp(find_def(color_t, 'Color', '_rgbatohex')))
    out.put('rgbatohex_fmt', 'str', coq_str,
            lambda: percent_formats(find_def(color_t, 'Color', '_rgbatohex'))[0])
    out.put('rgbatohex_raw_clamp_steps', 'list clamp_step', to_coq_steps,
            lambda: clamp_steps_ifexp(find_def(color_t, 'Color', '_rgbatohex_raw')))
    out.put('rgbatohex_raw_fmt', 'str', coq_str,
            lambda: percent_formats(find_def(color_t, 'Color', '_rgbatohex_raw'))[0])

    for extra in EXTRA:
        out.group = extra.__name__.replace('gen_', '').capitalize()
        extra(out)


EXTRA = []      # later sections register themselves here (see bottom of file)


# ----------------------------------------------------------------------------- py2coq
class Untranslatable(Exception):
    pass


def q_const(v):
    from fractions import Fraction
    if isinstance(v, bool):
        raise Untranslatable('bool constant')
    if isinstance(v, int):
        return '(%d#1)' % v if v >= 0 else '(-(%d#1))' % -v
    if isinstance(v, float):
        fr = Fraction(repr(v))          # the decimal the programmer wrote
        s = '(%d#%d)' % (abs(fr.numerator), fr.denominator)
        return s if fr >= 0 else '(-%s)' % s
    raise Untranslatable('constant %r' % (v,))


PYCALLS = {('math', 'floor'): 'py_floor', ('math', 'ceil'): 'py_ceil', ('math', 'copysign'): 'py_copysign',
           (None, 'int'): 'py_int', (None, 'float'): 'py_float', (None, 'abs'): 'py_abs',
           (None, 'min'): 'py_min', (None, 'max'): 'py_max', (None, 'round'): 'py_round'}
PYCMP = {'Lt': 'py_lt', 'LtE': 'py_le', 'Gt': 'py_gt', 'GtE': 'py_ge', 'Eq': 'py_eq', 'NotEq': 'py_ne'}


def py2coq(e, env):
    """python arithmetic expression AST -> Coq term over Q.  env: name -> coq term."""
    if isinstance(e, ast.Constant):
        return q_const(e.value)
    if isinstance(e, ast.Name):
        if e.id in env:
            return env[e.id]
        raise Untranslatable('free name %s' % e.id)
    if isinstance(e, ast.UnaryOp) and isinstance(e.op, ast.USub):
        return '(- %s)' % py2coq(e.operand, env)
    if isinstance(e, ast.BinOp):
        a, b = py2coq(e.left, env), py2coq(e.right, env)
        if isinstance(e.op, ast.Add):
            return '(%s + %s)' % (a, b)
        if isinstance(e.op, ast.Sub):
            return '(%s - %s)' % (a, b)
        if isinstance(e.op, ast.Mult):
            return '(%s * %s)' % (a, b)
        if isinstance(e.op, ast.Div):
            return '(%s / %s)' % (a, b)
        if isinstance(e.op, ast.Pow):
            return '(py_pow %s %s)' % (a, b)
        if isinstance(e.op, ast.Mod):
            return '(py_mod %s %s)' % (a, b)
        raise Untranslatable('binop %s' % type(e.op).__name__)
    if isinstance(e, ast.Call):
        f = e.func
        key = None
        if isinstance(f, ast.Name):
            key = (None, f.id)
        elif isinstance(f, ast.Attribute) and isinstance(f.value, ast.Name):
            key = (f.value.id, f.attr)
        if key in PYCALLS and not e.keywords:
            args = [py2coq(a, env) for a in e.args]
            name = PYCALLS[key]
            if name == 'py_round' and len(args) == 1:
                args.append('0')
            if name in ('py_min', 'py_max') and len(args) != 2:
                raise Untranslatable('min/max arity')
            return '(%s %s)' % (name, ' '.join(args))
        if key in (('utility', 'away_from_zero_round'), (None, 'away_from_zero_round')) and 'away_from_zero_round' in env:
            args = [py2coq(a, env) for a in e.args]
            if len(args) == 1:
                args.append('0')
            return '(%s %s)' % (env['away_from_zero_round'], ' '.join(args))
        raise Untranslatable('call %s' % ast.dump(f))
    if isinstance(e, ast.IfExp):
        return '(if %s then %s else %s)' % (py2coq_bool(e.test, env), py2coq(e.body, env), py2coq(e.orelse, env))
    raise Untranslatable(type(e).__name__)


def py2coq_bool(e, env):
    if isinstance(e, ast.Compare) and len(e.ops) == 1:
        return '(%s %s %s)' % (PYCMP[type(e.ops[0]).__name__], py2coq(e.left, env), py2coq(e.comparators[0], env))
    if isinstance(e, ast.BoolOp):
        op = ' && ' if isinstance(e.op, ast.And) else ' || '
        return '(' + op.join(py2coq_bool(v, env) for v in e.values) + ')'
    if isinstance(e, ast.UnaryOp) and isinstance(e.op, ast.Not):
        return '(negb %s)' % py2coq_bool(e.operand, env)
    raise Untranslatable('bool ' + type(e).__name__)


def is_py3_test(t):
    """sys.version_info[0] >= 3  /  == 3"""
    return isinstance(t, ast.Compare) and isinstance(t.left, ast.Subscript) and 'version_info' in ast.dump(t.left) \
        and isinstance(t.ops[0], (ast.GtE, ast.Eq)) and const(t.comparators[0]) == 3


def is_py2_test(t):
    """sys.version_info[0] < 3"""
    return isinstance(t, ast.Compare) and isinstance(t.left, ast.Subscript) and 'version_info' in ast.dump(t.left) \
        and isinstance(t.ops[0], ast.Lt) and const(t.comparators[0]) == 3


def translate_body(stmts, env):
    """straight-line assignments, `if` on the interpreter version (python-3 branch taken) or on a
    translatable condition, ending in return EXPR.  Returns a Coq term."""
    env = dict(env)
    for i, st in enumerate(stmts):
        if isinstance(st, ast.Expr) and isinstance(st.value, ast.Constant):
            continue                    # docstring
        if isinstance(st, ast.Assign) and len(st.targets) == 1 and isinstance(st.targets[0], ast.Name):
            env[st.targets[0].id] = py2coq(st.value, env)
            continue
        if isinstance(st, ast.Return):
            return py2coq(st.value, env)
        if isinstance(st, ast.If):
            if is_py3_test(st.test):
                return translate_body(st.body + stmts[i + 1:], env)
            if is_py2_test(st.test):
                return translate_body(st.orelse + stmts[i + 1:], env)
            rest = stmts[i + 1:]
            return '(if %s then %s else %s)' % (py2coq_bool(st.test, env), translate_body(st.body + rest, env),
                                                translate_body(st.orelse + rest, env))
        raise Untranslatable('statement %s' % type(st).__name__)
    raise Untranslatable('no return')


def fn_params(fn, skip_self=True):
    names = [a.arg for a in fn.args.args]
    if skip_self and names and names[0] == 'self':
        names = names[1:]
    return names


def put_fn(out, name, fn_getter, params, env0=None):
    """emit `Definition name (params : Q) : Q := <translated body>` ; fail-soft to golden text."""
    def extract():
        fn = fn_getter()
        env = dict(env0 or {})
        for p_ in params:
            env[p_] = p_
        return translate_body(fn.body, env)
    out.put(name, ' '.join('Q ->' for _ in params) + ' Q', lambda v: '(fun %s => (%s)%%Q)' % (' '.join(params), v), extract)


def builtin_expr(call_t, name):
    """Call.<name>: `n, u = utility.analyze_number(value)` ... `return utility.with_unit(EXPR, u)`.
    Returns (coq term over n, forced unit or None)."""
    fn = find_def(call_t, 'Call', name)
    env = {'n': 'n', 'away_from_zero_round': 'away_from_zero_round_py'}
    unit = None
    seen_analyze = False
    for st in fn.body:
        if isinstance(st, ast.Expr) and isinstance(st.value, ast.Constant):
            continue
        if isinstance(st, ast.Assign) and isinstance(st.targets[0], ast.Tuple) and 'analyze_number' in ast.dump(st.value):
            names = [e.id for e in st.targets[0].elts]
            if names != ['n', 'u']:
                raise Untranslatable('analyze_number targets %s' % names)
            seen_analyze = True
            continue
        if isinstance(st, ast.Assign) and isinstance(st.targets[0], ast.Name) and st.targets[0].id == 'u':
            unit = const(st.value)
            continue
        if isinstance(st, ast.Assign) and isinstance(st.targets[0], ast.Name):
            env[st.targets[0].id] = py2coq(st.value, env)
            continue
        if isinstance(st, ast.Return) and isinstance(st.value, ast.Call) and 'with_unit' in ast.dump(st.value.func):
            a = st.value.args
            if not seen_analyze or len(a) != 2 or not (isinstance(a[1], ast.Name) and a[1].id == 'u'):
                raise Untranslatable('with_unit shape')
            return [py2coq(a[0], env), unit]
        raise Untranslatable('statement %s in Call.%s' % (type(st).__name__, name))
    raise Untranslatable('no return in Call.%s' % name)


def gen_numeric(out):
    util_t = src_ast('lesscpy/lessc/utility.py')
    call_t = src_ast('lesscpy/plib/call.py')
    color_t = src_ast('lesscpy/lessc/color.py')
    put_fn(out, 'away_from_zero_round_py', lambda: find_def(util_t, None, 'away_from_zero_round'), ['value', 'ndigits'])
    put_fn(out, 'color_clamp01_py', lambda: find_def(color_t, 'Color', '_clamp'), ['value'])
    for b in ('round', 'ceil', 'floor', 'increment', 'decrement', 'percentage'):
        out.put('builtin_%s_py' % b, 'Q -> Q', lambda v: '(fun n => (%s)%%Q)' % v[0], lambda b=b: builtin_expr(call_t, b))
        out.put('builtin_%s_unit' % b, 'option str', lambda v: ('(Some %s)' % coq_str(v[1])) if v[1] is not None else 'None',
                lambda b=b: builtin_expr(call_t, b))


EXTRA.append(gen_numeric)


def str_dict(fn):
    for n in ast.walk(fn):
        if isinstance(n, ast.Dict) and n.keys and all(isinstance(k, ast.Constant) and isinstance(k.value, str) for k in n.keys) \
                and all(isinstance(v, ast.Constant) and isinstance(v.value, str) for v in n.values):
            return [[k.value, v.value] for k, v in zip(n.keys, n.values)]
    raise ValueError('no str dict')


def gen_guards(out):
    util_t = src_ast('lesscpy/lessc/utility.py')
    expr_t = src_ast('lesscpy/plib/expression.py')
    out.put('guard_rev', 'list (str * str)', lambda v: coq_list(['(%s, %s)' % (coq_str(a), coq_str(b)) for a, b in v]),
            lambda: str_dict(find_def(util_t, None, 'reverse_guard')))
    out.put('expr_ops', 'list (str * pyop)', to_coq_ops,
            lambda: op_dict(find_def(expr_t, 'Expression', 'operate')))


EXTRA.append(gen_guards)


def find_expression(obj, depth=0):
    from lesscpy.plib.expression import Expression
    if isinstance(obj, Expression):
        return obj
    if depth > 12:
        return None
    toks = getattr(obj, 'tokens', None)
    if toks is not None:
        obj = toks
    if isinstance(obj, (list, tuple)):
        for x in obj:
            r = find_expression(x, depth + 1)
            if r is not None:
                return r
    return None


def behavioural_matrix():
    """push `7 op1 3 op2 2` through the REAL generated automaton and read the shape of the Expression tree:
    left-nested = the automaton reduced on op2 (first operator binds first), right-nested = it shifted."""
    import io
    from lesscpy.lessc import parser as lp
    from lesscpy.plib.expression import Expression
    out = []
    for o1 in '+-*/':
        for o2 in '+-*/':
            p = lp.LessParser(fail_with_exc=True)
            p.scope.push()
            p.target = '(matrix)'
            res = p.parser.parse(io.StringIO('.x{width: 7 %s 3 %s 2}' % (o1, o2)), lexer=p.lex)
            e = find_expression(res)
            if e is None or len(e.tokens) != 3:
                raise ValueError('no expression tree for %s %s' % (o1, o2))
            left_nested = isinstance(e.tokens[0], Expression)
            right_nested = isinstance(e.tokens[2], Expression)
            if left_nested == right_nested:
                raise ValueError('ambiguous shape for %s %s' % (o1, o2))
            if left_nested:
                ok = e.tokens[1] == o2 and e.tokens[0].tokens[1] == o1
            else:
                ok = e.tokens[1] == o1 and e.tokens[2].tokens[1] == o2
            if not ok:
                raise ValueError('unexpected operators in tree for %s %s' % (o1, o2))
            out.append([o1, o2, 'reduce' if left_nested else 'shift'])
    return out


def declared_matrix():
    """yacc's published rule applied to LessParser.precedence: higher level wins; equal level: left = reduce,
    right = shift."""
    from lesscpy.lessc import parser as lp
    lvl = {}
    for i, row in enumerate(lp.LessParser.precedence):
        for tok in row[1:]:
            lvl[tok] = (i + 1, row[0])
    out = []
    for o1 in '+-*/':
        for o2 in '+-*/':
            if o1 not in lvl or o2 not in lvl:
                raise ValueError('operator without precedence')
            (l1, a1), (l2, _) = lvl[o1], lvl[o2]
            if l1 > l2:
                act = 'reduce'
            elif l1 < l2:
                act = 'shift'
            else:
                act = {'left': 'reduce', 'right': 'shift'}.get(a1)
                if act is None:
                    raise ValueError('nonassoc')
            out.append([o1, o2, act])
    return out


AOP = {'+': 'OAdd', '-': 'OSub', '*': 'OMul', '/': 'OTrueDiv'}


def to_coq_matrix(v):
    return coq_list(['(%s, %s, %s)' % (AOP[a], AOP[b], 'true' if act == 'reduce' else 'false') for a, b, act in v])


def gen_expr(out):
    out.put('expr_matrix_behaviour', 'list (aop * aop * bool)', to_coq_matrix, behavioural_matrix)
    out.put('expr_matrix_declared', 'list (aop * aop * bool)', to_coq_matrix, declared_matrix)


EXTRA.append(gen_expr)


def ophsl_call(color_t, name):
    """Color.<name>: `return self._ophsl(color, diff, IDX, operator.OP)` -> [idx, op]"""
    fn = find_def(color_t, 'Color', name)
    for n in ast.walk(fn):
        if isinstance(n, ast.Call) and isinstance(n.func, ast.Attribute) and n.func.attr == '_ophsl' and len(n.args) == 4:
            op = n.args[3]
            if isinstance(op, ast.Attribute) and isinstance(op.value, ast.Name) and op.value.id == 'operator':
                return [const(n.args[2]), op.attr]
    raise ValueError('no _ophsl call in %s' % name)


def round_fn_used(color_t, fn_name):
    """which utility rounding function a Color method applies to c * 255"""
    fn = find_def(color_t, 'Color', fn_name)
    for n in ast.walk(fn):
        if isinstance(n, ast.Call) and isinstance(n.func, ast.Attribute) and n.func.attr in ('away_from_zero_round', 'convergent_round'):
            arg = n.args[0]
            if isinstance(arg, ast.BinOp) and isinstance(arg.op, ast.Mult) and const(arg.right) == 255:
                return n.func.attr
    raise ValueError('no rounding call in %s' % fn_name)


def gen_hsl(out):
    color_t = src_ast('lesscpy/lessc/color.py')
    util_t = src_ast('lesscpy/lessc/utility.py')
    out.put('ophsl_table', 'list (str * (nat * pyop))',
            lambda v: coq_list(['(%s, (%d%%nat, %s))' % (coq_str(k), idx, OPERATOR.get(op, 'PArith OOther')) for k, (idx, op) in v]),
            lambda: [[nm, ophsl_call(color_t, nm)] for nm in ('lighten', 'darken', 'saturate', 'desaturate')])
    out.put('ophsl_round', 'str', coq_str, lambda: round_fn_used(color_t, '_ophsl'))
    out.put('spin_round', 'str', coq_str, lambda: round_fn_used(color_t, 'spin'))
    out.put('hsl_round', 'str', coq_str, lambda: round_fn_used(color_t, 'hsl'))
    # greyscale = desaturate(color, 100.0)
    def grey():
        fn = find_def(color_t, 'Color', 'greyscale')
        for n in ast.walk(fn):
            if isinstance(n, ast.Call) and isinstance(n.func, ast.Attribute) and isinstance(n.func.value, ast.Name) and n.func.value.id == 'self':
                return [n.func.attr, repr(const(n.args[1]))]
        raise ValueError('greyscale shape')
    out.put('greyscale_call', 'str * Q', lambda v: '(%s, %s)' % (coq_str(v[0]), q_const(float(v[1]))), grey)
    # spin: h = ((h * 360.0) + degree) % 360.0 ; h = 360.0 + h if h < 0 else h   (translated)
    def spin_hue():
        fn = find_def(color_t, 'Color', 'spin')
        env = {'h': 'h', 'degree': 'degree'}
        exprs = []
        for n in ast.walk(fn):
            if isinstance(n, ast.Assign) and isinstance(n.targets[0], ast.Name) and n.targets[0].id == 'h':
                exprs.append((n.lineno, n.value))
        exprs.sort(key=lambda x: x[0])
        if len(exprs) != 2:
            raise ValueError('spin: expected two assignments to h')
        e1 = py2coq(exprs[0][1], env)
        e2 = py2coq(exprs[1][1], dict(env, h='h1'))
        return '(let h1 := %s in %s)' % (e1, e2)
    out.put('spin_hue_py', 'Q -> Q -> Q', lambda v: '(fun h degree => (%s)%%Q)' % v, spin_hue)
    # mix: weight arithmetic (alpha = 0)
    def mix_w1():
        fn = find_def(color_t, 'Color', 'mix')
        env = {'weight': 'weight'}
        seen = {}
        order = []
        for st in ast.walk(fn):
            if isinstance(st, ast.Assign) and isinstance(st.targets[0], ast.Name) and st.targets[0].id in ('weight', 'alpha', 'w1', 'w2'):
                order.append((st.lineno, st.col_offset, st.targets[0].id, st.value))
        order.sort(key=lambda x: (x[0], x[1]))
        for _, _, name, val in order:
            if name == 'weight' and isinstance(val, ast.Call):
                continue                      # weight = float(weight.strip('%')) : string handling, modelled by hand
            env[name] = py2coq(val, env)
        return [env['w1'], env['w2']]
    out.put('mix_weights_py', 'Q -> Q * Q', lambda v: '(fun weight => ((%s)%%Q, (%s)%%Q))' % (v[0], v[1]), mix_w1)
    put_fn(out, 'convergent_round_py', lambda: find_def(util_t, None, 'convergent_round'), ['value', 'ndigits'])


EXTRA.append(gen_hsl)


def gen_ident(out):
    ident_t = src_ast('lesscpy/plib/identifier.py')

    def subp():
        fn = find_def(ident_t, 'Identifier', 'parse')
        for n in ast.walk(fn):
            if isinstance(n, ast.Assign) and isinstance(n.targets[0], ast.Attribute) and n.targets[0].attr == '_subp':
                return [const(e) for e in n.value.elts]
        raise ValueError('_subp not found')
    out.put('subp_names', 'list str', to_coq_strlist, subp)

    def reserved():
        from lesscpy.lib import reserved as r
        return sorted([[k, v] for k, v in r.tokens.items()])
    out.put('reserved_tokens', 'list (str * str)', lambda v: coq_list(['(%s, %s)' % (coq_str(a), coq_str(b)) for a, b in v]), reserved)


EXTRA.append(gen_ident)


def gen_fmt(out):
    def fills():
        from lesscpy.lessc import formatter

        class Stub(object):
            def fmt(self, fills):
                return ''

        class P(object):
            result = [Stub()]
        rows = []
        for minify in (False, True):
            for xminify in (False, True):
                for tabs in (False, True):
                    for spaces in range(0, 9):
                        class Opt(object):
                            pass
                        o = Opt()
                        o.minify, o.xminify, o.tabs, o.spaces = minify, xminify, tabs, spaces
                        f = formatter.Formatter(o)
                        f.format(P())
                        it = f.items
                        rows.append([[minify, xminify, tabs, spaces], [it['nl'], it['tab'], it['ws'], it['eb']]])
        return rows

    def b(x):
        return 'true' if x else 'false'
    out.put('fills_table', 'list ((bool * bool * bool * nat) * (str * str * str * str))',
            lambda v: coq_list(['((%s, %s, %s, %d%%nat), (%s, %s, %s, %s))' % (b(k[0]), b(k[1]), b(k[2]), k[3], coq_str(f[0]), coq_str(f[1]), coq_str(f[2]), coq_str(f[3]))
                                for k, f in v]), fills)

    def compile_defaults():
        import lesscpy
        sig = inspect.signature(lesscpy.compile)
        d = {k: v.default for k, v in sig.parameters.items() if v.default is not inspect.Parameter.empty}
        return [bool(d['minify']), bool(d['xminify']), bool(d['tabs']), int(d['spaces'])]
    out.put('compile_defaults', 'bool * bool * bool * nat', lambda v: '(%s, %s, %s, %d%%nat)' % (b(v[0]), b(v[1]), b(v[2]), v[3]), compile_defaults)

    def cli_defaults():
        comp_t = src_ast('lesscpy/scripts/compiler.py')
        fn = find_def(comp_t, None, 'run')
        res = {}
        for n in ast.walk(fn):
            if isinstance(n, ast.Call) and isinstance(n.func, ast.Attribute) and n.func.attr == 'add_argument' and n.args:
                flag = const(n.args[0])
                kw = {k.arg: k.value for k in n.keywords}
                if flag in ('-x', '-X', '-t', '-s'):
                    if 'default' in kw:
                        res[flag] = const(kw['default'])
                    elif 'action' in kw and const(kw['action']) == 'store_true':
                        res[flag] = False
        return [bool(res['-x']), bool(res['-X']), bool(res['-t']), int(res['-s'])]
    out.put('cli_defaults', 'bool * bool * bool * nat', lambda v: '(%s, %s, %s, %d%%nat)' % (b(v[0]), b(v[1]), b(v[2]), v[3]), cli_defaults)


EXTRA.append(gen_fmt)


def gen_cli(out):
    comp_t = src_ast('lesscpy/scripts/compiler.py')

    def staleness():
        fn = find_def(comp_t, None, 'ldirectory')
        for n in ast.walk(fn):
            if isinstance(n, ast.Assign) and isinstance(n.targets[0], ast.Name) and n.targets[0].id == 'recompile' and isinstance(n.value, ast.Compare):
                c = n.value
                left, right = ast.dump(c.left), ast.dump(c.comparators[0])
                if 'getmtime' in left and 'outf' in left and 'getmtime' in right and 'lf' in right:
                    return type(c.ops[0]).__name__
                raise ValueError('staleness comparison has an unexpected shape')
        raise ValueError('no staleness comparison')
    out.put('staleness_cmp', 'cmp', lambda v: CMP[v], staleness)

    def single_file_copies_scope():
        fn = find_def(comp_t, None, 'run')
        src = ast.unparse(fn)
        return 'scope=copy.deepcopy(scope)' in src.replace(' ', '').replace('scope=copy.deepcopy(scope)', 'scope=copy.deepcopy(scope)')
    def dir_copies_scope():
        fn = find_def(comp_t, None, 'ldirectory')
        return 'copy.deepcopy(scope)' in ast.unparse(fn)
    out.put('batch_isolates_scope', 'bool', lambda v: 'true' if v else 'false', dir_copies_scope)


EXTRA.append(gen_cli)


def limit_in(fn, var):
    """`if <var> > N:` (possibly one disjunct of an `or`) followed by a raise, inside fn"""
    for n in ast.walk(fn):
        if isinstance(n, ast.If) and any(isinstance(b, ast.Raise) for b in n.body):
            tests = n.test.values if isinstance(n.test, ast.BoolOp) and isinstance(n.test.op, ast.Or) else [n.test]
            for c in tests:
                if isinstance(c, ast.Compare) and len(c.ops) == 1 and isinstance(c.ops[0], ast.Gt) and var in ast.dump(c.left):
                    return const(c.comparators[0])
    raise ValueError('no limit on %s' % var)


def gen_limits(out):
    node_t = src_ast('lesscpy/plib/node.py')
    def_t = src_ast('lesscpy/plib/deferred.py')
    par_t = src_ast('lesscpy/lessc/parser.py')
    out.put('process_round_limit', 'nat', lambda v: '%d%%nat' % v, lambda: limit_in(find_def(node_t, 'Node', 'process'), 'rounds'))
    out.put('process_size_limit', 'N', lambda v: '%d%%N' % v, lambda: limit_in(find_def(node_t, 'Node', 'process'), 'len'))
    out.put('mixin_depth_limit', 'nat', lambda v: '%d%%nat' % v, lambda: limit_in(find_def(def_t, 'Deferred', 'parse'), 'depth'))
    out.put('import_depth_limit', 'nat', lambda v: '%d%%nat' % v, lambda: limit_in(find_def(par_t, 'LessParser', 'p_statement_import'), 'importlvl'))

    def recursion_reported():
        fn = find_def(par_t, 'LessParser', 'post_parse')
        return any(isinstance(n, ast.ExceptHandler) and n.type is not None and 'RecursionError' in ast.dump(n.type) for n in ast.walk(fn))
    out.put('recursion_error_reported', 'bool', lambda v: 'true' if v else 'false', recursion_reported)


EXTRA.append(gen_limits)


def gen_lexer(out):
    def tables():
        from lesscpy.lib import css, dom
        from lesscpy.lessc import lexer
        return {'props': sorted(css.properties), 'elems': sorted(dom.elements), 'media_types': list(css.media_types),
                'media_features': list(css.media_features), 'sig': sorted(lexer.LessLexer.significant_ws), 'literals': lexer.LessLexer.literals}
    out.put('css_properties', 'list str', to_coq_strlist, lambda: tables()['props'])
    out.put('dom_elements', 'list str', to_coq_strlist, lambda: tables()['elems'])
    out.put('media_types', 'list str', to_coq_strlist, lambda: tables()['media_types'])
    out.put('media_features', 'list str', to_coq_strlist, lambda: tables()['media_features'])
    out.put('significant_ws', 'list str', to_coq_strlist, lambda: tables()['sig'])
    out.put('lex_literals', 'str', coq_str, lambda: tables()['literals'])

    def rule_order():
        from lesscpy.lessc import lexer
        L = lexer.LessLexer().lexer
        res = []
        for st in ['INITIAL', 'parn', 'iselector', 'mediaquery', 'import', 'istringquotes', 'istringapostrophe', 'escapequotes', 'escapeapostrophe']:
            names = []
            for (regex, fl) in L.lexstatere[st]:
                for f in fl:
                    if f and f[0] is not None:
                        names.append(f[0].__name__)
            res.append([st, names])
        return res
    out.put('lex_rule_order', 'list (str * list str)', lambda v: coq_list(['(%s, %s)' % (coq_str(st), to_coq_strlist(n)) for st, n in v]), rule_order)

    def rule_regex():
        from lesscpy.lessc import lexer
        import inspect as _i
        lx = lexer.LessLexer
        res = []
        for name in sorted(dir(lx)):
            if name.startswith('t_') and name != 't_error' and callable(getattr(lx, name)):
                f = getattr(lx, name)
                rx = getattr(f, 'regex', None) or f.__doc__
                if name in ('t_mediaquery_css_media_type', 't_import_css_media_type'):
                    rx = '<media_types>'
                if name == 't_mediaquery_css_media_feature':
                    rx = '<media_features>'
                res.append([name, rx])
        return res
    out.put('lex_rule_regex', 'list (str * str)', lambda v: coq_list(['(%s, %s)' % (coq_str(a), coq_str(b)) for a, b in v]), rule_regex)

    def reserved_tokens():
        from lesscpy.lib import reserved
        return sorted([k, v] for k, v in reserved.tokens.items())
    out.put('reserved_tokens', 'list (str * str)', lambda v: coq_list(['(%s, %s)' % (coq_str(a), coq_str(b)) for a, b in v]), reserved_tokens)

    def number_units():
        from lesscpy.lessc import lexer
        rx = lexer.LessLexer.t_css_number.__doc__
        m = re.search(r'\)\((.*)\)\?$', rx)
        return m.group(1).split('|')
    out.put('number_unit_alternatives', 'list str', to_coq_strlist, number_units)


EXTRA.append(gen_lexer)


def render(out):
    """-> {relative file name: text}: one Gen/P<Group>.v per group plus Gen/Params.v re-exporting all"""
    head = ['(* GENERATED by harness/gen_params.py from %s — do not edit, do not commit. *)' % REPO,
            'From Coq Require Import String.',
            'From Coq Require Import List Ascii ZArith QArith.',
            'Require Import Model.Text Model.ParamTypes Model.Num Model.PyNum.',
            'Import ListNotations.',
            '']
    groups = []
    for g, _, _, _ in out.defs:
        if g not in groups:
            groups.append(g)
    files = {}
    for g in groups:
        lines = list(head)
        for gg, name, ty, term in out.defs:
            if gg == g:
                lines.append('Definition %s : %s := %s.' % (name, ty, term))
        files['P%s.v' % g] = '\n'.join(lines) + '\n'
    files['Params.v'] = '(* GENERATED: re-exports every parameter group. *)\n' + ''.join('Require Export Gen.P%s.\n' % g for g in groups)
    return files


def main():
    dest_v = sys.argv[1]
    dest_json = sys.argv[2]
    out = Out()
    gen(out)
    files = render(out)
    gen_dir = os.path.dirname(dest_v)
    js = json.dumps({'values': out.json, 'soft': out.soft}, indent=1, sort_keys=True)
    targets = [(os.path.join(gen_dir, fn), content) for fn, content in files.items()] + [(dest_json, js)]
    for path, content in targets:
        old = None
        if os.path.exists(path):
            old = open(path).read()
        if old != content:                       # keep mtime when unchanged: no needless rebuild
            os.makedirs(os.path.dirname(path), exist_ok=True)
            with open(path + '.tmp', 'w') as f:
                f.write(content)
            os.replace(path + '.tmp', path)
    if '--write-golden' in sys.argv:
        with open(GOLDEN, 'w') as f:
            f.write(js)
    print(json.dumps({'soft': out.soft, 'n': len(out.json)}))


if __name__ == '__main__':
    main()
