"""C06 — a guarded mixin is applied exactly when its guard is true."""
import random, re, os
from fractions import Fraction
from .. import impl, coqrun
from .c17 import fmt_dec

MODS = ['Model.Guard', 'Spec.GuardSpec', 'Proofs.GuardProofs']
RULE = ('cases = one guarded mixin `.m<i>(@a, @b) when <guard>` and one call with two numeric arguments; guard = comma list (1-3) of '
        'and-chains (1-3) of conditions `[not] (x op y)` with op in > < = >= =<, x/y in {@a, @b, literal, a top-level variable defined before and again after the mixin}; arguments literal, block-local variables, forwarded by a wrapper, variables named like the parameters passed swapped / shifted; numbers from '
        '{negative, zero, positive} x {integer, decimal} x {unit, no unit}, pairs biased to less/equal/greater; plus groups of same-named '
        'mixins with mutually exclusive guards; distinct = distinct (guard text, arguments); non-trivial = guard has >= 2 conditions or a not')
ASSUMPTIONS = ['argument binding (positional) and numeric evaluation of guard operands are as modelled; tied by correspondence',
               'python int/float comparison is exact on the generated decimals']
TRUSTED = ['modelled by hand: Mixin.parse_guards, p_mixin_guard_cond(_rev), first-match in Deferred.parse (coq/Model/Guard.v); '
           'regenerated from source: reverse_guard map, Expression.operate map']
OPS = ['>', '<', '=', '>=', '=<']
COP = {'>': 'GT', '<': 'LT', '=': 'EQ', '>=': 'GE', '=<': 'LE'}
UNITS = ['', '', '', 'px', 'em', '%']
PY = {'>': lambda a, b: a > b, '<': lambda a, b: a < b, '=': lambda a, b: a == b, '>=': lambda a, b: a >= b, '=<': lambda a, b: a <= b}


def number(rng):
    v = rng.choice([Fraction(0), Fraction(1), Fraction(2), Fraction(-1), Fraction(-2), Fraction(3, 2), Fraction(-3, 2),
                    Fraction(1, 2), Fraction(-1, 2), Fraction(10), Fraction(5, 4), Fraction(-7, 4), Fraction(100), Fraction(1, 10)])
    return v


def qlit(fr):
    return '(%d#%d)' % (fr.numerator, fr.denominator) if fr >= 0 else '(-(%d#%d))' % (-fr.numerator, fr.denominator)


def gen_guard(rng, a_sym='@a', b_sym='@b', g_sym=None):
    """guard structure with symbolic operands: returns (text, chains) where operands are ('a'|'b'|Fraction)"""
    nch = rng.choice([1, 1, 1, 2, 2, 3])
    chains, text_chains = [], []
    for _ in range(nch):
        ch, tch = [], []
        for _ in range(rng.choice([1, 1, 2, 2, 3])):
            neg = rng.random() < 0.3
            op = rng.choice(OPS)

            def operand():
                k = rng.random()
                if k < 0.4:
                    return a_sym, 'a'
                if k < 0.7:
                    return b_sym, 'b'
                if g_sym and k < 0.8:
                    return g_sym, 'g'
                v = number(rng)
                return fmt_dec(v) + rng.choice(UNITS), v
            (xt, xv), (yt, yv) = operand(), operand()
            ch.append((neg, xv, op, yv))
            tch.append('%s(%s %s %s)' % ('not ' if neg else '', xt, op, yt))
        chains.append(ch); text_chains.append(' and '.join(tch))
    return ', '.join(text_chains), chains


def instantiate(chains, a, b, g=None):
    sub = lambda v: a if v == 'a' else (b if v == 'b' else (g if v == 'g' else v))
    return [[(neg, sub(x), op, sub(y)) for (neg, x, op, y) in ch] for ch in chains]


def terms(chains):
    items, spec = [], []
    for ci, ch in enumerate(chains):
        if ci:
            items.append('GS $","')
        sc = []
        for k, (neg, xv, op, yv) in enumerate(ch):
            if k:
                items.append('GS $"and"')
            items.append('GC (MkCond %s %s %s %s)' % ('true' if neg else 'false', qlit(xv), coqrun.coq_str(op), qlit(yv)))
            sc.append('SCond %s %s %s %s' % ('true' if neg else 'false', qlit(xv), COP[op], qlit(yv)))
        spec.append('[' + '; '.join(sc) + ']')
    return '(parse_guards [%s])' % '; '.join(items), '(Some (guard_true [%s]))' % '; '.join(spec)


def gen_case(rng, i):
    """one guarded mixin, 1-3 call sites with different argument values; the arguments are literals, block-local
    variables of the SAME name in every caller, or forwarded through a wrapper mixin"""
    # a guard may also mention a top-level variable that is no parameter; it is defined before the mixin and defined again after it
    # (the last top-level definition is the one in force everywhere), the two values on different sides of the usual pivots
    use_g = rng.random() < 0.25
    g_sym = '@g%d' % i if use_g else None
    guard_text, chains = gen_guard(rng, g_sym=g_sym)
    style = rng.choice(['literal', 'literal', 'localvar', 'wrapper', 'swapvar', 'shiftvar', 'swapwrapper'])
    g0, g1 = number(rng), number(rng)
    less = ('%s: %s;\n' % (g_sym, fmt_dec(g0))) if use_g else ''
    less += '.m%d(@a, @b) when %s { width: yes }\n' % (i, guard_text)
    if use_g:
        less += '%s: %s;\n' % (g_sym, fmt_dec(g1))
    if style == 'wrapper':
        less += '.w%d(@p, @q) { .m%d(@p, @q); }\n' % (i, i)
    if style == 'swapwrapper':           # the wrapper's parameters are named like the callee's and forwarded swapped
        less += '.w%d(@a, @b) { .m%d(@b, @a); }\n' % (i, i)
    callers = []
    pairs = []
    for k in range(rng.choice([1, 2, 3])):
        a, b = number(rng), number(rng)
        if rng.random() < 0.3:
            b = a
        if k and rng.random() < 0.5:      # opposite side of whatever the guard compares
            a, b = -pairs[0][0], pairs[0][1] + rng.choice([-1, 0, 1])
        pairs.append((a, b))
        ua, ub = rng.choice(UNITS), rng.choice(UNITS)
        rule = 'c%d_%d' % (i, k)
        if style == 'literal':
            less += '.%s { .m%d(%s%s, %s%s); }\n' % (rule, i, fmt_dec(a), ua, fmt_dec(b), ub)
        elif style == 'localvar':
            less += '.%s { @p: %s%s; @q: %s%s; .m%d(@p, @q); }\n' % (rule, fmt_dec(a), ua, fmt_dec(b), ub, i)
        elif style == 'swapvar':         # block-local variables named like the parameters, passed swapped
            less += '.%s { @a: %s%s; @b: %s%s; .m%d(@b, @a); }\n' % (rule, fmt_dec(b), ub, fmt_dec(a), ua, i)
        elif style == 'shiftvar':        # a literal first, then a variable named like the FIRST parameter
            less += '.%s { @a: %s%s; .m%d(%s%s, @a); }\n' % (rule, fmt_dec(b), ub, i, fmt_dec(a), ua)
        elif style == 'swapwrapper':
            less += '.%s { .w%d(%s%s, %s%s); }\n' % (rule, i, fmt_dec(b), ub, fmt_dec(a), ua)
        else:
            less += '.%s { .w%d(%s%s, %s%s); }\n' % (rule, i, fmt_dec(a), ua, fmt_dec(b), ub)
        inst = instantiate(chains, a, b, g1)
        model, specterm = terms(inst)
        truth = any(all((PY[op](xv, yv)) != neg for (neg, xv, op, yv) in ch) for ch in inst)
        callers.append({'rule': rule, 'model': model, 'spec': specterm, 'py_truth': truth})
    ncond = sum(len(ch) for ch in chains)
    return {'less': less, 'callers': callers, 'nontrivial': ncond >= 2 or any(c[0] for ch in chains for c in ch) or len(callers) > 1,
            'key': (less,), 'nch': len(chains), 'ncond': ncond, 'style': style}


def gen_exclusive(rng, i):
    """three same-named mixins with mutually exclusive guards on @a vs a pivot"""
    pivot = number(rng)
    a = rng.choice([pivot, pivot - 1, pivot + 1, pivot - Fraction(1, 2), pivot + Fraction(1, 4), number(rng)])
    u = rng.choice(UNITS)
    p = fmt_dec(pivot)
    variants = [('(@a > %s)' % p, 'gt', [(False, a, '>', pivot)]), ('(@a = %s)' % p, 'eq', [(False, a, '=', pivot)]),
                ('(@a < %s)' % p, 'lt', [(False, a, '<', pivot)])]
    if rng.random() < 0.5:
        variants = [('not (@a =< %s)' % p, 'gt', [(True, a, '=<', pivot)]), ('(@a >= %s) and (@a =< %s)' % (p, p), 'eq',
                    [(False, a, '>=', pivot), (False, a, '=<', pivot)]), ('not (@a >= %s)' % p, 'lt', [(True, a, '>=', pivot)])]
    rng.shuffle(variants)
    less = ''.join('.x%d(@a) when %s { width: %s }\n' % (i, g, tag) for g, tag, _ in variants)
    less += '.c%d { .x%d(%s%s); }\n' % (i, i, fmt_dec(a), u)
    ms = []
    for g, tag, conds in variants:
        items = []
        for k, (neg, xv, op, yv) in enumerate(conds):
            if k:
                items.append('GS $"and"')
            items.append('GC (MkCond %s %s %s %s)' % ('true' if neg else 'false', qlit(xv), coqrun.coq_str(op), qlit(yv)))
        ms.append('([%s], %s)' % ('; '.join(items), coqrun.coq_str(tag)))
    model = '(select_mixin [%s])' % '; '.join(ms)
    want = 'gt' if a > pivot else ('eq' if a == pivot else 'lt')
    return {'less': less, 'callers': [{'rule': 'c%d' % i, 'model': model, 'spec': '(Some %s)' % coqrun.coq_str(want)}],
            'exclusive': True, 'nontrivial': True, 'key': (less,), 'nch': 3, 'ncond': 3, 'style': 'exclusive'}


def applied(css, rule):
    m = re.search(r'^\.%s \{\n width: ([a-z]+);\n\}$' % rule, css, re.M)
    return m.group(1) if m else None


def run(ctx):
    rng = random.Random(ctx['seed'] * 1000003 + 6)
    n = (220 if ctx['tier'] == 'quick' else 4000) * ctx.get('mult', 1)
    cases = [gen_exclusive(rng, i) if rng.random() < 0.2 else gen_case(rng, i) for i in range(n)]
    batch = 20
    groups = [list(range(k, min(n, k + batch))) for k in range(0, n, batch)]
    with impl.Pool() as pool:
        answers = pool.run([{'kind': 'compile', 'text': ''.join(cases[i]['less'] for i in g), 'opts': {}} for g in groups])
        css_of = [None] * n
        redo = []
        for g, a in zip(groups, answers):
            if a.get('r') == 'ok':
                for i in g:
                    css_of[i] = ('ok', a['css'])
            else:
                redo += g
        if redo:
            ans2 = pool.run([{'kind': 'compile', 'text': cases[i]['less'], 'opts': {}} for i in redo])
            for i, a in zip(redo, ans2):
                css_of[i] = ('ok', a['css']) if a.get('r') == 'ok' else ('fail', a)
    rows = {'m': [], 's': []}
    recs = []
    for c, r in zip(cases, css_of):
        for cal in c['callers']:
            got = applied(r[1], cal['rule']) if r[0] == 'ok' else None
            recs.append({'input': {'less': c['less'], 'rule': cal['rule']}, 'impl': {'applied': got} if r[0] == 'ok' else r[1], 'classes': []})
            for tag, key in (('m', 'model'), ('s', 'spec')):
                if r[0] != 'ok':
                    rows[tag].append(('bool', 'false', '"impl failed"%string'))
                elif c.get('exclusive'):
                    exp = '(Some %s)' % coqrun.coq_str(got) if got else 'None'
                    rows[tag].append(('bool', '(match %s, %s with Some x, Some y => str_eqb x y | None, None => true | _, _ => false end)' % (cal[key], exp),
                                      '(match %s with Some x => string_of_list_ascii x | None => "None"%%string end)' % cal[key]))
                else:
                    exp = 'Some true' if got == 'yes' else 'Some false'
                    rows[tag].append(('bool', '(match %s, %s with Some x, Some y => Bool.eqb x y | _, _ => false end)' % (cal[key], exp),
                                      '(match %s with Some true => "applied" | Some false => "not applied" | None => "error" end)%%string' % cal[key]))
    out = {'evaluations': len(recs), 'spec_mismatch': [], 'model_mismatch': [], 'harness_errors': []}
    wd = os.path.join(ctx['scratch'], 'g%d' % ctx.get('mult', 1))
    bs, ds, es = coqrun.evaluate(rows['s'], ['Spec.GuardSpec'], wd, tag='s')
    bm, dm, em = (coqrun.evaluate(rows['m'], MODS, wd, tag='m') if ctx.get('model_usable', True) else ([], {}, []))
    out['harness_errors'] += es + em
    for i, rec in enumerate(recs):
        if i in bs:
            rec['spec'] = ds.get(i); out['spec_mismatch'].append(rec)
        elif i in bm:
            rec['model'] = dm.get(i); out['model_mismatch'].append(rec)
    out['distinct_nontrivial'] = len({c['key'] for c in cases if c['nontrivial']})
    out['samples'] = [{'less': c['less']} for c in cases[:5]]
    dist = {'chains': {}, 'conds': {}, 'style': {}, 'call_sites': len(recs),
            'guard_true': sum(1 for c in cases for cal in c['callers'] if cal.get('py_truth')),
            'guard_false': sum(1 for c in cases for cal in c['callers'] if cal.get('py_truth') is False)}
    for c in cases:
        dist['chains'][c['nch']] = dist['chains'].get(c['nch'], 0) + 1
        dist['conds'][c['ncond']] = dist['conds'].get(c['ncond'], 0) + 1
        dist['style'][c['style']] = dist['style'].get(c['style'], 0) + 1
    out['distribution'] = dist
    return out


def replay(case):
    with impl.Pool(1) as pool:
        a = pool.run([{'kind': 'compile', 'text': case['input']['less'], 'opts': {}}])[0]
    return {'input': case['input']['less'], 'impl_now': a, 'spec_expected': case.get('spec'), 'still_fails': None}
