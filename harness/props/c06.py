"""C06 — a guarded mixin is applied exactly when its guard is true."""
import random, re, os
from fractions import Fraction
from .. import impl, coqrun
from .c17 import fmt_dec

MODS = ['Model.Guard', 'Spec.GuardSpec', 'Proofs.GuardProofs']
RULE = ('cases = one guarded mixin `.m<i>(@a, @b) when <guard>` and one call with two numeric arguments; guard = comma list (1-3) of '
        'and-chains (1-3) of conditions `[not] (x op y)` with op in > < = >= =<, x/y in {@a, @b, literal}; numbers from '
        '{negative, zero, positive} x {integer, decimal} x {unit, no unit}, pairs biased to less/equal/greater; plus groups of same-named '
        'mixins with mutually exclusive guards; distinct = distinct (guard text, arguments); non-trivial = guard has >= 2 conditions or a not')
ASSUMPTIONS = ['argument binding (positional) and numeric evaluation of guard operands are as modelled; tied by correspondence',
               'python int/float comparison is exact on the generated decimals']
TRUSTED = ['modelled by hand: Mixin.parse_guards, p_mixin_guard_cond(_rev), first-match in Deferred.parse (coq/Model/Guard.v); '
           'regenerated from source: reverse_guard map, Expression.operate map']
OPS = ['>', '<', '=', '>=', '=<']
COP = {'>': 'GT', '<': 'LT', '=': 'EQ', '>=': 'GE', '=<': 'LE'}
UNITS = ['', '', '', 'px', 'em', '%']
PY = {'>': lambda a, b: a > b, '<': lambda a, b: a < b, '=': lambda a, b: a == b, '>=': lambda a, b: a >= b, '=<': lambda a, b: a <= b}


def number(rng):
    v = rng.choice([Fraction(0), Fraction(1), Fraction(2), Fraction(-1), Fraction(-2), Fraction(3, 2), Fraction(-3, 2),
                    Fraction(1, 2), Fraction(-1, 2), Fraction(10), Fraction(5, 4), Fraction(-7, 4), Fraction(100), Fraction(1, 10)])
    return v


def qlit(fr):
    return '(%d#%d)' % (fr.numerator, fr.denominator) if fr >= 0 else '(-(%d#%d))' % (-fr.numerator, fr.denominator)


def gen_case(rng, i):
    a, b = number(rng), number(rng)
    r = rng.random()
    if r < 0.3:
        b = a
    ua, ub = rng.choice(UNITS), rng.choice(UNITS)
    nch = rng.choice([1, 1, 1, 2, 2, 3])
    chains, text_chains = [], []
    ncond = 0
    for _ in range(nch):
        ch, tch = [], []
        for _ in range(rng.choice([1, 1, 2, 2, 3])):
            neg = rng.random() < 0.3
            op = rng.choice(OPS)
            def operand():
                k = rng.random()
                if k < 0.4:
                    return '@a', a
                if k < 0.7:
                    return '@b', b
                v = rng.choice([a, b, number(rng)])
                return fmt_dec(v) + rng.choice(UNITS), v
            (xt, xv), (yt, yv) = operand(), operand()
            ch.append((neg, xv, op, yv))
            tch.append('%s(%s %s %s)' % ('not ' if neg else '', xt, op, yt))
            ncond += 1
        chains.append(ch); text_chains.append(' and '.join(tch))
    guard_text = ', '.join(text_chains)
    less = '.m%d(@a, @b) when %s { width: yes }\n.c%d { .m%d(%s%s, %s%s); }\n' % (i, guard_text, i, i, fmt_dec(a), ua, fmt_dec(b), ub)
    items, spec = [], []
    for ci, ch in enumerate(chains):
        if ci:
            items.append('GS $","')
        sc = []
        for k, (neg, xv, op, yv) in enumerate(ch):
            if k:
                items.append('GS $"and"')
            items.append('GC (MkCond %s %s %s %s)' % ('true' if neg else 'false', qlit(xv), coqrun.coq_str(op), qlit(yv)))
            sc.append('SCond %s %s %s %s' % ('true' if neg else 'false', qlit(xv), COP[op], qlit(yv)))
        spec.append('[' + '; '.join(sc) + ']')
    model = '(parse_guards [%s])' % '; '.join(items)
    specterm = '(Some (guard_true [%s]))' % '; '.join(spec)
    truth = any(all((PY[op](xv, yv)) != neg for (neg, xv, op, yv) in ch) for ch in chains)
    return {'less': less, 'model': model, 'spec': specterm, 'nontrivial': ncond >= 2 or any(c[0] for ch in chains for c in ch),
            'key': (guard_text, str(a) + ua, str(b) + ub), 'nch': nch, 'ncond': ncond, 'py_truth': truth}


def gen_exclusive(rng, i):
    """three same-named mixins with mutually exclusive guards on @a vs a pivot"""
    pivot = number(rng)
    a = rng.choice([pivot, pivot - 1, pivot + 1, pivot - Fraction(1, 2), pivot + Fraction(1, 4), number(rng)])
    u = rng.choice(UNITS)
    p = fmt_dec(pivot)
    variants = [('(@a > %s)' % p, 'gt', [(False, a, '>', pivot)]), ('(@a = %s)' % p, 'eq', [(False, a, '=', pivot)]),
                ('(@a < %s)' % p, 'lt', [(False, a, '<', pivot)])]
    if rng.random() < 0.5:
        variants = [('not (@a =< %s)' % p, 'gt', [(True, a, '=<', pivot)]), ('(@a >= %s) and (@a =< %s)' % (p, p), 'eq',
                    [(False, a, '>=', pivot), (False, a, '=<', pivot)]), ('not (@a >= %s)' % p, 'lt', [(True, a, '>=', pivot)])]
    rng.shuffle(variants)
    less = ''.join('.x%d(@a) when %s { width: %s }\n' % (i, g, tag) for g, tag, _ in variants)
    less += '.c%d { .x%d(%s%s); }\n' % (i, i, fmt_dec(a), u)
    ms = []
    for g, tag, conds in variants:
        items = []
        for k, (neg, xv, op, yv) in enumerate(conds):
            if k:
                items.append('GS $"and"')
            items.append('GC (MkCond %s %s %s %s)' % ('true' if neg else 'false', qlit(xv), coqrun.coq_str(op), qlit(yv)))
        ms.append('([%s], %s)' % ('; '.join(items), coqrun.coq_str(tag)))
    model = '(select_mixin [%s])' % '; '.join(ms)
    want = 'gt' if a > pivot else ('eq' if a == pivot else 'lt')
    return {'less': less, 'model': model, 'spec': '(Some %s)' % coqrun.coq_str(want), 'exclusive': True, 'nontrivial': True,
            'key': (less,), 'nch': 3, 'ncond': 3}


def applied(css, i):
    m = re.search(r'^\.c%d \{\n width: ([a-z]+);\n\}$' % i, css, re.M)
    return m.group(1) if m else None


def run(ctx):
    rng = random.Random(ctx['seed'] * 1000003 + 6)
    n = (300 if ctx['tier'] == 'quick' else 6000) * ctx.get('mult', 1)
    cases = [gen_exclusive(rng, i) if rng.random() < 0.2 else gen_case(rng, i) for i in range(n)]
    batch = 25
    groups = [list(range(k, min(n, k + batch))) for k in range(0, n, batch)]
    with impl.Pool() as pool:
        answers = pool.run([{'kind': 'compile', 'text': ''.join(cases[i]['less'] for i in g), 'opts': {}} for g in groups])
        res = [None] * n
        redo = []
        for g, a in zip(groups, answers):
            if a.get('r') == 'ok':
                for i in g:
                    res[i] = ('ok', applied(a['css'], i))
            else:
                redo += g
        if redo:
            ans2 = pool.run([{'kind': 'compile', 'text': cases[i]['less'], 'opts': {}} for i in redo])
            for i, a in zip(redo, ans2):
                res[i] = ('ok', applied(a['css'], i)) if a.get('r') == 'ok' else ('fail', a)
    rows = {'m': [], 's': []}
    for c, r in zip(cases, res):
        for tag, key in (('m', 'model'), ('s', 'spec')):
            if r[0] != 'ok':
                rows[tag].append(('bool', 'false', '"impl failed"%string'))
            elif c.get('exclusive'):
                exp = '(Some %s)' % coqrun.coq_str(r[1]) if r[1] else 'None'
                rows[tag].append(('bool', '(match %s, %s with Some x, Some y => str_eqb x y | None, None => true | _, _ => false end)' % (c[key], exp),
                                  '(match %s with Some x => string_of_list_ascii x | None => "None"%%string end)' % c[key]))
            else:
                exp = 'Some true' if r[1] == 'yes' else 'Some false'
                rows[tag].append(('bool', '(match %s, %s with Some x, Some y => Bool.eqb x y | _, _ => false end)' % (c[key], exp),
                                  '(match %s with Some true => "applied" | Some false => "not applied" | None => "error" end)%%string' % c[key]))
    out = {'evaluations': n, 'spec_mismatch': [], 'model_mismatch': [], 'harness_errors': []}
    wd = os.path.join(ctx['scratch'], 'g%d' % ctx.get('mult', 1))
    bs, ds, es = coqrun.evaluate(rows['s'], ['Spec.GuardSpec'], wd, tag='s')
    bm, dm, em = (coqrun.evaluate(rows['m'], MODS, wd, tag='m') if ctx.get('model_usable', True) else ([], {}, []))
    out['harness_errors'] += es + em
    for i, (c, r) in enumerate(zip(cases, res)):
        rec = {'input': {'less': c['less']}, 'impl': {'applied': r[1]} if r[0] == 'ok' else r[1], 'classes': []}
        if i in bs:
            rec['spec'] = ds.get(i); out['spec_mismatch'].append(rec)
        elif i in bm:
            rec['model'] = dm.get(i); out['model_mismatch'].append(rec)
    out['distinct_nontrivial'] = len({c['key'] for c in cases if c['nontrivial']})
    out['samples'] = [{'less': c['less'], 'impl_applied': r[1]} for c, r in list(zip(cases, res))[:5]]
    dist = {'chains': {}, 'conds': {}, 'exclusive_groups': sum(1 for c in cases if c.get('exclusive')),
            'guard_true': sum(1 for c in cases if c.get('py_truth')), 'guard_false': sum(1 for c in cases if c.get('py_truth') is False)}
    for c in cases:
        dist['chains'][c['nch']] = dist['chains'].get(c['nch'], 0) + 1
        dist['conds'][c['ncond']] = dist['conds'].get(c['ncond'], 0) + 1
    out['distribution'] = dist
    return out


def replay(case):
    with impl.Pool(1) as pool:
        a = pool.run([{'kind': 'compile', 'text': case['input']['less'], 'opts': {}}])[0]
    return {'input': case['input']['less'], 'impl_now': a, 'spec_expected': case.get('spec'), 'still_fails': None}
