"""C12 — layout independence.

(a) token correspondence: the Gallina lexer + LessLexer.token() filter model (coq/Model/Lex.v) against the real lexer, raw and
    filtered streams (type, value, line), on generated sheets in wild layouts, token soups and the corpus files;
(b) the property itself on generated programs: a base text and variants that differ ONLY by the content of whitespace runs
    (spaces, tabs, newlines, CRLF, mixtures), comments inserted at statement boundaries and the last semicolon of blocks must
    compile to byte-identical CSS under the same options; comment markers never reach the output;
(c) the same on the example corpus (every whitespace run located by the real lexer's own token positions)."""
import os, random, re, shutil, tempfile, glob
from .. import impl, coqrun, sheetcases as SC
from ..gens import sheet as S

FEATURES = 'media,amp,keyframes,fontface,stmt,str,rstr,istr,url,attr,pseudo2,pseudofn,var,mixin,custom'.split(',')
RULE = ('(a) raw and filtered token streams of the model lexer vs the real lexer; (b) base program vs 3 variants differing only in whitespace-run content, '
        'comments at statement boundaries and last semicolons, all %d option vectors sampled; (c) corpus files vs variants built from the real lexer token positions; '
        'distinct = distinct (program, layout); non-trivial = the variant has a newline-only or CRLF run inside a selector/value, a comment whose body contains ; { } quotes or //, '
        'or a toggled last semicolon') % len(SC.ALL_OPTS)
ASSUMPTIONS = ['PLY tries the rules of a state in the order reported by lexer.lexstatere (re-extracted as Gen.Params.lex_rule_order and compared with Model.Lex.model_rule_order)',
               'the model lexer abstains (counted) on backslash escapes, non-ASCII names and unquoted URL shapes inside parentheses']
TRUSTED = ['modelled by hand: every t_* rule matcher and action, LessLexer.token() (coq/Model/Lex.v)', 'Python re semantics of the individual rule expressions (ordered alternation, greedy quantifiers with backtracking)']
LEVEL = 'other'
EXPLANATION = ('proved in Coq on the lexer model: for every lexer mode and every token history a gap made of blank runs, line-break runs and comments produces whitespace tokens only, '
               'the filter keeps exactly one of them iff the previous token is in significant_ws (otherwise none), independent of the gap content, and comment bodies '
               'never produce a token (C12_gap_*); that the parser gives the same tree for the same filtered stream is a fact about LALR tables and is decided by the '
               'correspondence (b),(c) on the real compiler, hence partial')

WS_RUNS = [' ', '  ', '\t', ' \t ', '\n', '\r\n', '\n\n', ' \n', '\n ', ' \r\n ', '\r\n\r\n', '\t\n\t', '   ', '\f', '\v ', '\r', '\r\r', ' \r', '\r\t']
COMMENT_BODIES = [' c ', ' ; { } " \' // ', '', ' multi\n line ', '* stars **', ' } ', ' { ', ' @x: 1; ', ' .a{color:red} ', " it's ", ' "unbalanced ', '/ slash /', ' url(x) ']
LINE_BODIES = [' line', ' ; { } " \' /* */', '', ' } ', ' { ', " it's", ' @media']
MARK = 'ZQXJ'


class VLayout(S.Layout):
    """presence of every optional gap comes from a PRNG shared by a base and its variants; content differs"""

    def __init__(self, pres_seed, rng=None):
        self.p = random.Random(pres_seed)
        self.base = rng is None
        self.rng = rng or random.Random(pres_seed + 1)
        self.wild = True
        self.toggle_semi = True      # the semicolon after the last declaration of a block is written or omitted at random
        self.stats = {'newline_only': 0, 'crlf': 0, 'comments': 0, 'tricky_comments': 0, 'line_comments': 0}

    def ws(self):
        if self.base:
            return ' '
        w = self.rng.choice(WS_RUNS)
        if ' ' not in w and '\t' not in w and '\f' not in w and '\v' not in w:
            self.stats['newline_only'] += 1
        if '\r\n' in w:
            self.stats['crlf'] += 1
        return w

    def blank(self):
        return self.ws()

    def opt(self):
        present = self.p.random() < 0.6
        return self.ws() if present else ''

    def pre(self):
        """an optional gap in front of ':' ';' ',' ')' : present or absent by the shared PRNG, its content by the variant's"""
        present = self.p.random() < 0.2
        return self.ws() if present else ''

    def comment(self):
        r = self.rng
        if r.random() < 0.3:
            b = r.choice(LINE_BODIES)
            self.stats['line_comments'] += 1
            if b.strip():
                self.stats['tricky_comments'] += 1
            return '//' + MARK + b + r.choice(['\n', '\r\n'])
        b = r.choice(COMMENT_BODIES)
        self.stats['comments'] += 1
        if r.random() < 0.15:
            # the comment text starts with a slash or consists of stars: '/*/ ... */', '/**/', '/***/'
            self.stats['tricky_comments'] += 1
            return r.choice(['/*/' + MARK + b + '*/', '/**/', '/***/', '/*/*/', '/*/ ' + MARK + ' } /**/'])
        if any(ch in b for ch in ';{}"\'/'):
            self.stats['tricky_comments'] += 1
        return '/*' + MARK + b + '*/'

    def stmt_gap(self):
        present = self.p.random() < 0.8
        g = self.ws() if present else ''
        if self.base:
            return g
        r = self.rng
        if r.random() < 0.35:
            g = self.comment() + g if r.random() < 0.5 else g + self.comment()
            if r.random() < 0.2:
                g = g + self.comment()
        return g


def gen_program(rng):
    g = S.Gen(rng, FEATURES)
    if rng.random() < 0.3 and hasattr(g, 'mixin_program'):
        sh = g.mixin_program()
    else:
        # variables of identifier / number kind for interpolated strings: a declaration may END in "..@{v}.." with its semicolon omitted
        names = rng.sample(['@i1', '@i2', '@n'], rng.randint(0, 2))
        g.ivars = names
        sh = [('var', nm, [rng.choice([('num', '5'), ('word', 'foo'), ('num', '12px')])]) for nm in names] + g.sheet(nunits=rng.choice([1, 2, 3]), depth=rng.randint(1, 3))
    return sh


def soups(rng, n):
    frag = ['.a', '#b', 'div', 'color', 'red', ':', ';', '{', '}', ',', ' ', '\n', '\t', '1px', '.5em', '-2', '10%', '#fff', '#12345', '#123456', '@x', '@@y', '@{z}',
            '@media', 'screen', 'and', 'not', 'only', '(', ')', 'min-width', '"s"', "'t'", '"a@{b}c"', '~"e"', "~'f'", '/* c */', '// d\n', '!important', '! important',
            '+', '-', '*', '/', '>', '<', '=', '~', '&', '%', '%(', '[a=b]', 'nth-child(2n+1)', 'not(.a)', 'and (x)', 'progid:X.Y(a=1)', 'when', 'from', 'to', '--v', '-moz-x',
            'url(', 'url("u")', '@import', '"f.css"', 'print', '@arguments', '@font-face', '@-o-keyframes', '.a.b', '.a-@{n}_x', 'A', 'DIV', 'Color', '1PX', '\r\n', '$', '^', '`',
            '.', '..', '#', '1.', '1..2', '- 1', '-a', '--', '-', '@', '@{', '@{}', '"', "'", '/*', '//', '!', '~"', 'e(', 'rgb(1,2,3)', 'a:hover', 'a::after', 'lang(en)']
    out = []
    for _ in range(n):
        k = rng.randint(1, 14)
        out.append(''.join(rng.choice(frag) for _ in range(k)))
    return out


def ser(toks):
    return ''.join('%s\x1f%s\x1f%d\x1e' % (t[0], t[1], t[2]) for t in toks)


def tok_rows(texts, answers_raw, answers_f):
    rows, meta = [], []
    for filtered, answers in ((False, answers_raw), (True, answers_f)):
        for t, a in zip(texts, answers):
            if a.get('r') == 'ok':
                impl_t = '(Ok %s)' % coqrun.coq_str(ser(a['toks']))
            elif a.get('r') == 'error' and a.get('msg', '').startswith('Illegal character'):
                m = re.match(r"Illegal character '(.|\n)' line (\d+)", a['msg'])
                impl_t = '(Err %s)' % coqrun.coq_str(ser(a.get('toks', [])) + 'Illegal' + m.group(1) + m.group(2))
            else:
                impl_t = '(Escaped %s)' % coqrun.coq_str(a.get('type', a.get('msg', '?'))[:60])
            term = 'tok_case %s %s %s' % ('true' if filtered else 'false', coqrun.coq_str(t), impl_t)
            rows.append(('bool', '(fst (%s))' % term, '(snd (%s))' % term))
            meta.append((filtered, t, a))
    return rows, meta


def ws_spans(text, toks_with_pos):
    """(start, end) of every whitespace run the real lexer reported as a t_ws token"""
    spans = []
    for ty, val, line, pos in toks_with_pos:
        if ty == 't_ws':
            m = re.compile(r'[ \t\f\v]+|[\n\r]+').match(text, pos)
            if m:
                spans.append((m.start(), m.end()))
    return spans


def corpus_variant(text, toks, rng, mode):
    """mode 'crlf' | 'runs' | 'comments'"""
    if mode == 'crlf':
        return text.replace('\r\n', '\n').replace('\n', '\r\n')
    out, last = [], 0
    if mode == 'runs':
        for a, b in ws_spans(text, toks):
            run = text[a:b]
            # the run that ends a // comment must keep a line break: runs with a line break are replaced by runs with one
            if '\n' in run or '\r' in run:
                new = rng.choice(['\n', '\r\n', '\n\n', '\n', '\n'])
            else:
                new = rng.choice([' ', '  ', '\t', ' \t', '\n', '\r\n', '   '])
            out.append(text[last:a]); out.append(new); last = b
        out.append(text[last:])
        return ''.join(out)
    # comments after top-level closing braces and top-level semicolons
    depth = 0
    paren = 0
    for ty, val, line, pos in toks:
        if ty == 't_bopen':
            depth += 1
        elif ty in ('t_popen', 'less_open_format'):
            paren += 1
        elif ty == 't_pclose':
            paren = max(0, paren - 1)
        elif ty == 't_bclose':
            depth -= 1
            if depth == 0 and rng.random() < 0.7:
                out.append(text[last:pos + 1]); out.append(rng.choice(['/*' + MARK + ' ; { } " \' // */', '//' + MARK + ' } {\n', '\n/*' + MARK + '*/\n'])); last = pos + 1
        elif ty == 't_semicolon' and depth == 0 and paren == 0 and val == ';' and text[pos:pos + 1] == ';' and rng.random() < 0.5:
            out.append(text[last:pos + 1]); out.append(rng.choice(['/*' + MARK + ' ; */', ' //' + MARK + ' x\n'])); last = pos + 1
    out.append(text[last:])
    return ''.join(out)


def run(ctx):
    rng = random.Random(ctx['seed'] * 1000003 + 12)
    quick = ctx['tier'] == 'quick'
    mult = ctx.get('mult', 1)
    out = {'evaluations': 0, 'spec_mismatch': [], 'model_mismatch': [], 'harness_errors': []}
    dist = {}
    # ------------------------------------------------------------------ (b) base vs variants on generated programs
    nprog = (60 if quick else 1500) * mult
    progs = []
    tries = 0
    while len(progs) < nprog and tries < nprog * 20:
        tries += 1
        sh = gen_program(rng)
        if sh is None or S.sel_count(sh) > 30:
            continue
        seed = rng.randrange(1 << 30)
        base = S.show(sh, VLayout(seed))
        if len(base) > 5000:
            continue
        variants = []
        for _ in range(3):
            L = VLayout(seed, random.Random(rng.randrange(1 << 30)))
            vt = S.show(sh, L)
            if rng.random() < 0.3:
                # a line comment that ends the source, with no line break after it (the text ends at a statement boundary)
                vt += rng.choice(['', ' ', '\n']) + '//' + MARK + rng.choice(LINE_BODIES)
                L.stats['line_comments'] += 1
                L.stats['tricky_comments'] += 1
            variants.append((vt, L.stats))
        progs.append({'sheet': sh, 'base': base, 'variants': variants, 'opts': rng.choice(SC.ALL_OPTS)})
    reqs = []
    for p in progs:
        o = SC.impl_opts(p['opts'])
        reqs.append({'kind': 'compile', 'text': p['base'], 'opts': o})
        for v, _ in p['variants']:
            reqs.append({'kind': 'compile', 'text': v, 'opts': o})
    texts_for_tokens = []
    with impl.Pool() as pool:
        ans = pool.run(reqs)
        k = 0
        nontrivial = set()
        agg = {}
        base_errors = 0
        for p in progs:
            a0 = ans[k]; k += 1
            if a0.get('r') != 'ok':
                base_errors += 1
            for (v, st) in p['variants']:
                a = ans[k]; k += 1
                out['evaluations'] += 1
                for kk, vv in st.items():
                    agg[kk] = agg.get(kk, 0) + vv
                if st['newline_only'] or st['tricky_comments'] or st['crlf']:
                    nontrivial.add(v)
                same = (a.get('r') == a0.get('r')) and (a.get('css') == a0.get('css')) and (a.get('cls') == a0.get('cls'))
                if a0.get('r') == 'timeout' and a.get('r') == 'timeout':
                    agg['both_time_out_skipped'] = agg.get('both_time_out_skipped', 0) + 1      # a termination matter (C20), not a layout one
                    continue
                if a.get('r') in ('escaped', 'timeout') or a0.get('r') in ('escaped', 'timeout'):
                    same = False
                if not same:
                    out['spec_mismatch'].append({'input': {'text': v, 'base': p['base'], 'opts': p['opts']}, 'impl': a, 'spec': {'same as base layout': a0}, 'classes': []})
                elif a.get('r') == 'ok' and MARK in a['css']:
                    out['spec_mismatch'].append({'input': {'text': v, 'opts': p['opts']}, 'impl': a, 'spec': 'comment text must not reach the output', 'classes': []})
            texts_for_tokens.append(p['variants'][0][0])
            texts_for_tokens.append(p['base'])
        dist['programs'] = len(progs)
        dist['variant_stats'] = agg
        dist['base_programs_that_fail_to_compile'] = base_errors
        # ------------------------------------------------------------------ (c) corpus
        scratch = tempfile.mkdtemp(prefix='lessverif-c12-')
        try:
            src = os.path.join(impl.REPO, 'test', 'less')
            dst = os.path.join(scratch, 'less')
            shutil.copytree(src, dst)
            files = sorted(glob.glob(os.path.join(dst, '*.less')) + glob.glob(os.path.join(dst, 'issues', '*.less')))
            ftexts = [open(f, encoding='utf-8', errors='replace').read() for f in files]
            ftoks = pool.run([{'kind': 'tokens', 'text': t, 'filtered': False, 'pos': True} for t in ftexts])
            creqs, cmeta = [], []
            nvar = (1 if quick else 6) * mult
            for f, t, tk in zip(files, ftexts, ftoks):
                if tk.get('r') != 'ok':
                    continue
                creqs.append({'kind': 'compile_file', 'path': f, 'opts': {}}); cmeta.append((f, 'base', None))
                for mode in ['crlf'] + ['runs'] * nvar + ['comments'] * nvar:
                    for j in range(1):
                        vt = corpus_variant(t, tk['toks'], rng, mode)
                        vp = f[:-5] + '.v%d.less' % len(creqs)
                        open(vp, 'w', newline='').write(vt)
                        creqs.append({'kind': 'compile_file', 'path': vp, 'opts': {}}); cmeta.append((f, mode, vt))
            cans = pool.run(creqs, timeout=120)
            base_of = {}
            ncorp = 0
            for (f, mode, vt), a in zip(cmeta, cans):
                if mode == 'base':
                    base_of[f] = a
                    continue
                a0 = base_of[f]
                ncorp += 1
                out['evaluations'] += 1
                same = a.get('r') == a0.get('r') and a.get('css') == a0.get('css')
                if a0.get('r') != 'ok' and a.get('r') == a0.get('r'):
                    same = True
                rel = os.path.relpath(f, dst)
                if not same:
                    out['spec_mismatch'].append({'input': {'file': rel, 'mode': mode, 'text': vt}, 'impl': {k2: (v2[:1500] if isinstance(v2, str) else v2) for k2, v2 in a.items()},
                                                 'spec': {'same as the file as committed': {k2: (v2[:1500] if isinstance(v2, str) else v2) for k2, v2 in a0.items()}},
                                                 'classes': ['corpus:%s:%s' % (rel, mode)]})
                elif a.get('r') == 'ok' and MARK in a['css']:
                    out['spec_mismatch'].append({'input': {'file': rel, 'mode': mode, 'text': vt}, 'impl': 'comment marker in output', 'spec': 'comment text must not reach the output',
                                                 'classes': ['corpus-marker:%s' % rel]})
            dist['corpus_files'] = len(base_of)
            dist['corpus_variants'] = ncorp
        finally:
            shutil.rmtree(scratch, ignore_errors=True)
        # ------------------------------------------------------------------ (a) token correspondence
        if ctx.get('model_usable', True):
            texts = texts_for_tokens[: (80 if quick else 1500) * mult] + soups(rng, (300 if quick else 6000) * mult)
            texts += [t for t in ftexts if len(t) < (3000 if quick else 12000)]
            raw = pool.run([{'kind': 'tokens', 'text': t, 'filtered': False} for t in texts])
            fil = pool.run([{'kind': 'tokens', 'text': t, 'filtered': True} for t in texts])
            rows, meta = tok_rows(texts, raw, fil)
            wd = os.path.join(ctx['scratch'], 'tok%d' % mult)
            bad, diag, errs = coqrun.evaluate(rows, ['Model.Lex', 'Model.LexCases'], wd, shard=60, tag='tok')
            out['harness_errors'] += errs
            abst = 0
            for i in bad:
                filtered, t, a = meta[i]
                if diag.get(i, '').startswith('ABSTAIN'):
                    abst += 1
                    continue
                out['model_mismatch'].append({'input': {'text': t, 'filtered': filtered}, 'impl': {'toks': a.get('toks'), 'r': a.get('r'), 'msg': a.get('msg')},
                                              'model': diag.get(i, '')[:3000], 'classes': []})
            out['evaluations'] += len(rows)
            # ---- the whole model pipeline (Lex + Parse + Eval) on the wild-layout TEXTS against the real compiler, byte for byte
            trows, tmeta = [], []
            k2 = 0
            for p in progs:
                a0 = ans[k2]; k2 += 1
                cands = [(p['base'], a0)]
                for (v, _st) in p['variants']:
                    cands.append((v, ans[k2])); k2 += 1
                for (txt, a) in cands[: (2 if quick else 4)]:
                    if a.get('r') in ('ok', 'error'):
                        term = 'text_case %s %s %s' % (SC.opts_term(p['opts']), coqrun.coq_str(txt), coqrun.coq_res(a))
                        trows.append(('bool', '(fst (%s))' % term, '(snd (%s))' % term)); tmeta.append((txt, p['opts'], a))
            bad, diag, errs = coqrun.evaluate(trows, ['Model.Ast', 'Model.Fmt', 'Model.Eval', 'Model.Pipeline'], wd, shard=30, tag='pipe')
            out['harness_errors'] += errs
            pabst = 0
            for i in bad:
                if diag.get(i, '').startswith('ABSTAIN'):
                    pabst += 1
                    continue
                txt, o, a = tmeta[i]
                out['model_mismatch'].append({'input': {'text': txt, 'opts': o, 'via': 'text pipeline (Lex + Parse + Eval)'}, 'impl': a, 'model': diag.get(i, '')[:3000], 'classes': []})
            out['evaluations'] += len(trows)
            dist['pipeline_cases'] = len(trows)
            dist['pipeline_cases_model_abstains'] = pabst
            dist['token_cases'] = len(rows)
            dist['token_cases_model_abstains'] = abst
            dist['token_texts'] = {'generated': len(texts_for_tokens), 'corpus': len([t for t in ftexts if len(t) < (3000 if quick else 12000)])}
    out['distinct_nontrivial'] = len(nontrivial)
    out['samples'] = [{'base': progs[0]['base'][:300], 'variant': progs[0]['variants'][0][0][:400]}] if progs else []
    out['distribution'] = dist
    out['traces_validated_against_impl'] = out['evaluations']
    return out


def replay(case):
    inp = case['input']
    with impl.Pool(1) as pool:
        if 'base' in inp:
            o = SC.impl_opts(inp.get('opts', {}))
            a, b = pool.run([{'kind': 'compile', 'text': inp['text'], 'opts': o}, {'kind': 'compile', 'text': inp['base'], 'opts': o}])
            return {'input': inp, 'variant_now': a, 'base_now': b, 'still_fails': (a.get('r'), a.get('css')) != (b.get('r'), b.get('css'))}
        if 'filtered' in inp:
            a = pool.run([{'kind': 'tokens', 'text': inp['text'], 'filtered': inp['filtered']}])[0]
            return {'input': inp, 'impl_now': a, 'model_expected': case.get('model'), 'still_fails': None}
    return {'input': inp, 'note': 'write the text next to test/less/<file> and compile both', 'still_fails': None}


def exemplar_fails(ctx, finding):
    ex = finding.get('exemplar', {})
    if 'file' in ex:
        return None
    if 'text' in ex and 'base' in ex:
        with impl.Pool(1) as pool:
            a, b = pool.run([{'kind': 'compile', 'text': ex['text'], 'opts': {}}, {'kind': 'compile', 'text': ex['base'], 'opts': {}}])
        return (a.get('r'), a.get('css')) != (b.get('r'), b.get('css'))
    return None
