"""Shared driver for the properties decided on whole stylesheets (C01, C02, C03, C07, C10, C11, C19)."""
import random
from .. import sheetcases as SC, impl
from ..gens import sheet as S


def classes_of(sh, recompiled=False):
    """classifiers of recorded findings a mismatch on this sheet may be an instance of.  'media-feature-first' (F5b) only concerns
    output that is read back by the front end (C10): the model reproduces the spelling and the reference comparison ignores
    blanks around parentheses, so for every other check it is NOT attached (it would hide a different violation)"""
    cl = []
    if S.has_amp_after_bracket(sh):
        cl.append('amp-bracket')
    if recompiled and S.media_feature_first(sh):
        cl.append('media-feature-first')
    if S.arguments_after_call(sh):
        cl.append('arguments-after-nested-call')
    return cl


def run_sheets(ctx, seed_salt, features, n_quick, n_thorough, depth=3, all_opts=False, wild=False, nontrivial=None, gen_hook=None,
               max_sels=40):
    rng = random.Random(ctx['seed'] * 1000003 + seed_salt)
    n = (n_quick if ctx['tier'] == 'quick' else n_thorough) * ctx.get('mult', 1)
    cases = []
    tries = 0
    while len(cases) < n and tries < n * 20:
        tries += 1
        g = S.Gen(rng, features)
        sh = gen_hook(g, rng) if gen_hook else g.sheet(nunits=rng.choice([1, 1, 2, 3]), depth=rng.randint(1, depth))
        if sh is None or S.sel_count(sh) > max_sels:
            continue
        L = S.Layout(rng, wild=(rng.random() < wild) if isinstance(wild, float) else wild)
        text = S.show(sh, L)
        if len(text) > 6000:
            continue
        opts = rng.choice(SC.ALL_OPTS) if all_opts else {}
        cases.append({'sheet': sh, 'text': text, 'opts': opts, 'classes': classes_of(sh)})
    out, answers = SC.run(ctx, cases)
    keys = set()
    for c in cases:
        if nontrivial is None or nontrivial(c['sheet']):
            keys.add(c['text'])
    out['distinct_nontrivial'] = len(keys)
    out['samples'] = [{'text': c['text'][:400], 'opts': c['opts'], 'impl': (a.get('css') or str(a))[:400]} for c, a in list(zip(cases, answers))[:3]]
    sizes = {}
    for c in cases:
        k = 'stmts<=%d' % (5 * ((S.size(c['sheet']) + 4) // 5))
        sizes[k] = sizes.get(k, 0) + 1
    out['distribution'] = {'text_pipeline': out.pop('text_pipeline', None), 'sizes': sizes, 'impl_errors': sum(1 for a in answers if a.get('r') != 'ok'), 'features': sorted(features)}
    return out


def replay(case):
    inp = case['input']
    with impl.Pool(1) as pool:
        if 'preceded_by' in inp:       # the rejected compilation that ran just before, in the same process
            a = pool.run([{'kind': 'compile_many', 'texts': [inp['preceded_by'], inp['text']], 'opts': SC.impl_opts(inp.get('opts', {}))}])[0]['results'][-1]
        else:
            a = pool.run([{'kind': 'compile', 'text': inp['text'], 'opts': SC.impl_opts(inp.get('opts', {}))}])[0]
    return {'input': inp, 'impl_now': a, 'spec_expected_items': case.get('spec'), 'model_expected': case.get('model'), 'still_fails': None}


def count_kind(stmts, kind):
    n = 0
    for s in stmts:
        if s[0] == kind:
            n += 1
        if s[0] in ('rule', 'media'):
            n += count_kind(s[2], kind)
    return n


def max_depth(stmts):
    d = 0
    for s in stmts:
        if s[0] in ('rule', 'media'):
            d = max(d, 1 + max_depth(s[2]))
    return d


def exemplar_fails(ctx, finding):
    """does the recorded exemplar of a known finding still show the recorded wrong output?"""
    ex = finding.get('exemplar', {})
    if 'text' not in ex or 'observed' not in ex:
        return None
    with impl.Pool(1) as pool:
        a = pool.run([{'kind': 'compile', 'text': ex['text'], 'opts': {}}])[0]
    got = a.get('css') if a.get('r') == 'ok' else (a.get('msg') or a.get('type') or a.get('r'))
    norm = lambda s: ' '.join(str(s).split())
    return norm(ex['observed']) in norm(got)
