"""C11 — decided on generated stylesheets: byte-exact model correspondence + reference-semantics comparison."""
from . import sheetprop as P

FEATURES = "media,amp,keyframes,fontface,stmt,str,url,attr".split(',')
RULE = 'see harness/props/sheetprop.py: generated stylesheets with features %s; model compared byte-for-byte, reference semantics compared on the flat items read back from the output CSS by an independent reader' % FEATURES
ASSUMPTIONS = ['the LALR parser builds the node tree that harness/gens/sheet.py:tree() predicts (checked on every case through the byte-exact output comparison); independently of that prediction, the whole pipeline from the source TEXT (coq/Model/Lex.v + Parse.v + Eval.v: compile_text) is compared byte for byte with the real compiler on every case (abstentions counted in distribution.text_pipeline)',
               'harness/readcss.py reads the produced CSS back correctly']
TRUSTED = ['modelled by hand: Identifier.parse/root/fmt, Block.parse (media rotation), Property.parse/fmt, Block.fmt, Formatter, Scope (coq/Model/Ident.v, Eval.v, Fmt.v, Scope.v)',
           'reference semantics coq/Spec/Sem.v']


def nontrivial(sh):
    kind = "fmt"
    if kind == 'nest':
        return P.max_depth(sh) >= 2
    if kind == 'media':
        return P.count_kind(sh, 'media') >= 1 and P.max_depth(sh) >= 2
    if kind == 'at':
        return any(s[0] in ('keyframes', 'fontface', 'stmt') for s in sh)
    if kind == 'var':
        return P.count_kind(sh, 'var') >= 1
    return P.count_kind(sh, 'decl') >= 2


import re, os, subprocess, tempfile, shutil, random
from .. import impl, sheetcases as SC
from ..gens import sheet as S


def strip_strings(css):
    return re.sub(r'"[^"]*"|\'[^\']*\'', '""', css)


def shape_problem(css, o):
    """the documented shape of the output for option vector o; returns a description or None"""
    body = strip_strings(css)
    if o.get('xminify'):
        if '\n' in body:
            return 'xminify output contains a newline'
    if o.get('minify') or o.get('xminify'):
        for blk in re.findall(r'\{[^{}]*\}', body):
            if '\n' in blk:
                return 'minified output has a newline inside a rule'
        flat = re.sub(r'\([^)]*\)', '()', body)
        decls = ''.join(re.findall(r'\{[^{}]*\}', flat))
        sels = re.sub(r'\{[^{}]*\}', '{}', flat)
        m = re.search(r'[ \t]+[{};:,]|[{};:,][ \t]+', decls) or re.search(r'[ \t]+[{},>+~]|[{},>+~][ \t]+', sels)
        if m:
            return 'minified output has an optional blank next to %r' % m.group(0)
    else:
        unit = '\t' if o.get('tabs') else ' ' * int(o.get('spaces', 1))
        depth = 0
        for line in body.split('\n'):
            if not line.strip():
                continue
            if line.strip() == '}':
                depth -= 1
                if line != unit * depth + '}':
                    return 'closing brace not at indentation depth %d: %r' % (depth, line)
                continue
            if not line.startswith(unit * depth) or line[len(unit * depth):len(unit * depth) + 1] in (' ', '\t'):
                return 'line not indented by exactly %d units: %r' % (depth, line)
            if line.rstrip().endswith('{'):
                depth += 1
            elif not (line.rstrip().endswith(';') or line.rstrip().endswith(',')):
                return 'line is neither a selector line nor one declaration: %r' % line
            elif line.count(';') > 1:
                return 'two declarations on one line: %r' % line
    return None


def cli_flags(o):
    f = []
    if o.get('minify'):
        f.append('-x')
    if o.get('xminify'):
        f.append('-X')
    if o.get('tabs'):
        f.append('-t')
    f += ['-s', str(int(o.get('spaces', 2)))]
    return f


def run(ctx):
    out = P.run_sheets(ctx, 11, FEATURES, 120, 3000, depth=3, all_opts=True, wild=False, nontrivial=nontrivial)
    rng = random.Random(ctx['seed'] * 7 + 11)
    # ---- shapes of the real output under every option vector, and command line == library
    n = (6 if ctx['tier'] == 'quick' else 40) * ctx.get('mult', 1)
    sheets = []
    asts = []
    while len(sheets) < n:
        g = S.Gen(rng, ['media', 'amp', 'keyframes', 'fontface', 'attr'])
        sh = g.sheet(nunits=rng.choice([1, 2, 3]), depth=2)
        if S.sel_count(sh) <= 20 and not S.has_amp_after_bracket(sh):
            sheets.append(S.show(sh, S.Layout(rng)))
            asts.append(sh)
    # every sheet under ALL 72 option vectors: byte-exact model + reference semantics + documented shape
    allcases = [{'sheet': a, 'text': t, 'opts': o, 'classes': []} for a, t in zip(asts, sheets) for o in SC.ALL_OPTS]
    o2, ans = SC.run(dict(ctx, scratch=os.path.join(ctx['scratch'], 'all72'), text_pipeline=False), allcases, tag='all72')     # same texts 72 times: the lexer / parser rows would repeat
    for k in ('spec_mismatch', 'model_mismatch', 'harness_errors'):
        out[k] += o2[k]
    shapes = 0
    for c, a in zip(allcases, ans):
        if a.get('r') != 'ok':
            continue
        shapes += 1
        why = shape_problem(a['css'], c['opts'])
        if why:
            out['spec_mismatch'].append({'input': {'text': c['text'], 'opts': c['opts']}, 'impl': a, 'spec': 'shape: ' + why, 'classes': []})
    # command line
    scratch = tempfile.mkdtemp(prefix='lessverif-c11-')
    cli = 0
    try:
        jobs = []
        for i, t in enumerate(sheets[: (3 if ctx['tier'] == 'quick' else 12)]):
            path = os.path.join(scratch, 's%d.less' % i)
            open(path, 'w').write(t)
            for o in rng.sample(SC.ALL_OPTS, 8 if ctx['tier'] == 'quick' else 72):
                jobs.append((t, o, path))
        env = dict(os.environ, PYTHONPATH=impl.REPO, PYTHONHASHSEED='0', TMPDIR=scratch)
        import concurrent.futures as cf

        def one(job):
            t, o, path = job
            p = subprocess.run([impl.PY, '-W', 'ignore', '-m', 'lesscpy'] + cli_flags(o) + [path], capture_output=True, text=True, env=env, cwd=scratch, timeout=60)
            return p.stdout
        with cf.ThreadPoolExecutor(16) as ex:
            outs = list(ex.map(one, jobs))
        with impl.Pool() as pool:
            libs = pool.run([{'kind': 'compile', 'text': t, 'opts': SC.impl_opts(o)} for t, o, _ in jobs])
        for (t, o, _), so, la in zip(jobs, outs, libs):
            cli += 1
            if la.get('r') == 'ok' and so != la['css'] + '\n':
                out['spec_mismatch'].append({'input': {'text': t, 'opts': o, 'cli_flags': cli_flags(o)}, 'impl': {'cli_stdout': so[:600], 'lib': la['css'][:600]},
                                             'spec': 'command line output differs from the library call', 'classes': []})
    finally:
        shutil.rmtree(scratch, ignore_errors=True)
    out['evaluations'] += shapes + cli
    out.setdefault('distribution', {})['option_vectors_shape_checked'] = shapes
    out['distribution']['cli_runs'] = cli
    out['exhaustive'] = True
    out['sweeps'] = {'all_72_option_vectors_per_sheet': len(sheets)}
    return out


replay = P.replay
exemplar_fails = P.exemplar_fails
