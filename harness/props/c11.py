"""C11 — decided on generated stylesheets: byte-exact model correspondence + reference-semantics comparison."""
from . import sheetprop as P

FEATURES = "media,amp,keyframes,fontface,stmt,str,url,attr".split(',')
RULE = 'see harness/props/sheetprop.py: generated stylesheets with features %s; model compared byte-for-byte, reference semantics compared on the flat items read back from the output CSS by an independent reader' % FEATURES
ASSUMPTIONS = ['the LALR parser builds the node tree that harness/gens/sheet.py:tree() predicts (checked on every case through the byte-exact output comparison); independently of that prediction, the whole pipeline from the source TEXT (coq/Model/Lex.v + Parse.v + Eval.v: compile_text) is compared byte for byte with the real compiler on every case (abstentions counted in distribution.text_pipeline)',
               'harness/readcss.py reads the produced CSS back correctly']
TRUSTED = ['modelled by hand: Identifier.parse/root/fmt, Block.parse (media rotation), Property.parse/fmt, Block.fmt, Formatter, Scope (coq/Model/Ident.v, Eval.v, Fmt.v, Scope.v)',
           'reference semantics coq/Spec/Sem.v']


def nontrivial(sh):
    kind = "fmt"
    if kind == 'nest':
        return P.max_depth(sh) >= 2
    if kind == 'media':
        return P.count_kind(sh, 'media') >= 1 and P.max_depth(sh) >= 2
    if kind == 'at':
        return any(s[0] in ('keyframes', 'fontface', 'stmt') for s in sh)
    if kind == 'var':
        return P.count_kind(sh, 'var') >= 1
    return P.count_kind(sh, 'decl') >= 2


import re, os, subprocess, tempfile, shutil, random
from .. import impl, sheetcases as SC
from ..gens import sheet as S


def strip_strings(css):
    return re.sub(r'"[^"]*"|\'[^\']*\'', '""', css)


def shape_problem(css, o):
    """the documented shape of the output for option vector o; returns a description or None"""
    body = strip_strings(css)
    if o.get('xminify'):
        if '\n' in body:
            return 'xminify output contains a newline'
    if o.get('minify') or o.get('xminify'):
        for blk in re.findall(r'\{[^{}]*\}', body):
            if '\n' in blk:
                return 'minified output has a newline inside a rule'
        flat = re.sub(r'\([^)]*\)', '()', body)
        decls = ''.join(re.findall(r'\{[^{}]*\}', flat))
        sels = re.sub(r'\{[^{}]*\}', '{}', flat)
        m = re.search(r'[ \t]+[{};:,]|[{};:,][ \t]+', decls) or re.search(r'[ \t]+[{},>+~]|[{},>+~][ \t]+', sels)
        if m:
            return 'minified output has an optional blank next to %r' % m.group(0)
        if not o.get('xminify'):
            # '-X: minify, no end of block newlines': plain minify ends every top-level block with a newline
            depth = 0
            for i, ch in enumerate(body):
                if ch == '{':
                    depth += 1
                elif ch == '}':
                    depth -= 1
                    if depth == 0 and i + 1 < len(body) and body[i + 1] != '\n':
                        return 'minified (not xminified) output: a top-level block is not followed by a newline: %r' % body[max(0, i - 20):i + 10]
    else:
        unit = '\t' if o.get('tabs') else ' ' * int(o.get('spaces', 1))
        depth = 0
        for line in body.split('\n'):
            if not line.strip():
                continue
            if line.strip() == '}':
                depth -= 1
                if line != unit * depth + '}':
                    return 'closing brace not at indentation depth %d: %r' % (depth, line)
                continue
            if not line.startswith(unit * depth) or line[len(unit * depth):len(unit * depth) + 1] in (' ', '\t'):
                return 'line not indented by exactly %d units: %r' % (depth, line)
            if line.rstrip().endswith('{'):
                depth += 1
            elif not (line.rstrip().endswith(';') or line.rstrip().endswith(',')):
                return 'line is neither a selector line nor one declaration: %r' % line
            elif line.count(';') > 1:
                return 'two declarations on one line: %r' % line
    return None


def squeeze(css):
    """the output with insignificant whitespace removed: runs collapsed, none next to { } : ; , > + ~ or at the ends; strings kept"""
    strs = []

    def keep(m):
        strs.append(m.group(0))
        return '\x00%d\x00' % (len(strs) - 1)
    body = re.sub(r'"[^"]*"|\'[^\']*\'', keep, css)
    body = re.sub(r'\s+', ' ', body)
    body = re.sub(r' ?([{};:,>+~]) ?', r'\1', body).strip()
    return re.sub(r'\x00(\d+)\x00', lambda m: strs[int(m.group(1))], body)


def feature_program(rng):
    """stylesheets with LESS features whose evaluation leaves holes: mixin programs, rules / @media blocks / keyframes that print nothing
    (empty 'hook' mixins, guards that fail, unknown mixins, variables only) in front of, between and after ordinary rules"""
    g = S.Gen(rng, ['media', 'amp', 'attr', 'var', 'keyframes'])
    sh = g.mixin_program() if rng.random() < 0.5 else g.sheet(nunits=rng.choice([2, 3]), depth=rng.randint(1, 2))
    extra = ['.gq(@x) when (@x > 5) { width: @x }\n', '.nothing() {}\n']
    for j in range(rng.randint(1, 4)):
        body = [rng.choice(['@w: 3;', '.gq(2);', '.nothing();', '.no-such-mixin();', '@k: 2px;']) for _ in range(rng.randint(1, 3))]
        body.sort(key=lambda b: 0 if b.startswith('@') else 1)
        sel = rng.choice(['.e%d' % j, '.e%d .in' % j, 'p.e%d, .f%d' % (j, j)])
        inner = ' '.join(body)
        extra.append(rng.choice(['%s { %s }\n' % (sel, inner), '.o%d { color: red; %s { %s } }\n' % (j, sel, inner), '@media print { %s { %s } }\n' % (sel, inner),
                                 '@media screen { %s { %s } .k%d { top: 0; } }\n' % (sel, inner, j), '.o%d { @media print { %s } left: 0; }\n' % (j, inner),
                                 '@media print { %s { %s } @media (min-width: 10px) { %s { %s } } }\n' % (sel, inner, sel, inner)]))
    rng.shuffle(extra)
    for e in extra:
        sh.insert(rng.randint(0, len(sh)), ('stmt', [e]))
    sh.append(('stmt', ['.tail%d { bottom: 0; .t { top: 1px; } }\n' % rng.randrange(9)]))
    return S.show(sh, S.Layout(rng)) if S.sel_count(sh) <= 30 else None


def cli_flags(o):
    f = []
    if o.get('minify'):
        f.append('-x')
    if o.get('xminify'):
        f.append('-X')
    if o.get('tabs'):
        f.append('-t')
    f += ['-s', str(int(o.get('spaces', 2)))]
    return f


def run(ctx):
    out = P.run_sheets(ctx, 11, FEATURES, 120, 3000, depth=3, all_opts=True, wild=False, nontrivial=nontrivial)
    rng = random.Random(ctx['seed'] * 7 + 11)
    # ---- shapes of the real output under every option vector, and command line == library
    n = (6 if ctx['tier'] == 'quick' else 40) * ctx.get('mult', 1)
    sheets = []
    asts = []
    while len(sheets) < n:
        g = S.Gen(rng, ['media', 'amp', 'keyframes', 'fontface', 'attr'])
        sh = g.sheet(nunits=rng.choice([1, 2, 3]), depth=2)
        if S.sel_count(sh) <= 20 and not S.has_amp_after_bracket(sh):
            sheets.append(S.show(sh, S.Layout(rng)))
            asts.append(sh)
    # every sheet under ALL 72 option vectors: byte-exact model + reference semantics + documented shape
    allcases = [{'sheet': a, 'text': t, 'opts': o, 'classes': []} for a, t in zip(asts, sheets) for o in SC.ALL_OPTS]
    o2, ans = SC.run(dict(ctx, scratch=os.path.join(ctx['scratch'], 'all72'), text_pipeline=False), allcases, tag='all72')     # same texts 72 times: the lexer / parser rows would repeat
    for k in ('spec_mismatch', 'model_mismatch', 'harness_errors'):
        out[k] += o2[k]
    shapes = 0
    for c, a in zip(allcases, ans):
        if a.get('r') != 'ok':
            continue
        shapes += 1
        why = shape_problem(a['css'], c['opts'])
        if why:
            out['spec_mismatch'].append({'input': {'text': c['text'], 'opts': c['opts']}, 'impl': a, 'spec': 'shape: ' + why, 'classes': []})
    # ---- programs with LESS features (outside the formatter theorem's trees), real compiler only: documented shape under a sample of option
    # vectors, and all outputs of one program equal once insignificant whitespace is removed
    nf = (30 if ctx['tier'] == 'quick' else 600) * ctx.get('mult', 1)
    progs = []
    while len(progs) < nf:
        t = feature_program(rng)
        if t:
            progs.append(t)
    fixed = [{'minify': False, 'xminify': False, 'tabs': False, 'spaces': 1}, {'minify': False, 'xminify': False, 'tabs': True, 'spaces': 2},
             {'minify': True, 'xminify': False, 'tabs': False, 'spaces': 2}, {'minify': False, 'xminify': True, 'tabs': False, 'spaces': 2}]
    fjobs = [(t, o) for t in progs for o in fixed + rng.sample(SC.ALL_OPTS, 3)]
    with impl.Pool() as pool:
        fans = pool.run([{'kind': 'compile', 'text': t, 'opts': SC.impl_opts(o)} for t, o in fjobs])
    first = {}
    fshapes = 0
    for (t, o), a in zip(fjobs, fans):
        if a.get('r') != 'ok':
            continue
        fshapes += 1
        why = shape_problem(a['css'], o)
        if why:
            out['spec_mismatch'].append({'input': {'text': t, 'opts': o}, 'impl': a, 'spec': 'shape: ' + why, 'classes': []})
            continue
        sq = squeeze(a['css'])
        if t in first and first[t][0] != sq:
            out['spec_mismatch'].append({'input': {'text': t, 'opts': o, 'other_opts': first[t][1]}, 'impl': a,
                                         'spec': 'outputs under two option vectors differ in more than insignificant whitespace: ' + first[t][0][:300], 'classes': []})
        first.setdefault(t, (sq, o))
    out['evaluations'] += fshapes
    out.setdefault('distribution', {})['feature_programs_shape_and_squeeze'] = [len(progs), fshapes]
    # command line
    scratch = tempfile.mkdtemp(prefix='lessverif-c11-')
    cli = 0
    try:
        jobs = []
        for i, t in enumerate(sheets[: (3 if ctx['tier'] == 'quick' else 12)]):
            path = os.path.join(scratch, 's%d.less' % i)
            open(path, 'w').write(t)
            for o in rng.sample(SC.ALL_OPTS, 8 if ctx['tier'] == 'quick' else 72):
                jobs.append((t, o, path))
        env = dict(os.environ, PYTHONPATH=impl.REPO, PYTHONHASHSEED='0', TMPDIR=scratch)
        import concurrent.futures as cf

        def one(job):
            t, o, path = job
            p = subprocess.run([impl.PY, '-W', 'ignore', '-m', 'lesscpy'] + cli_flags(o) + [path], capture_output=True, text=True, env=env, cwd=scratch, timeout=60)
            return p.stdout
        with cf.ThreadPoolExecutor(16) as ex:
            outs = list(ex.map(one, jobs))
        with impl.Pool() as pool:
            libs = pool.run([{'kind': 'compile', 'text': t, 'opts': SC.impl_opts(o)} for t, o, _ in jobs])
        for (t, o, _), so, la in zip(jobs, outs, libs):
            cli += 1
            if la.get('r') == 'ok' and so != la['css'] + '\n':
                out['spec_mismatch'].append({'input': {'text': t, 'opts': o, 'cli_flags': cli_flags(o)}, 'impl': {'cli_stdout': so[:600], 'lib': la['css'][:600]},
                                             'spec': 'command line output differs from the library call', 'classes': []})
    finally:
        shutil.rmtree(scratch, ignore_errors=True)
    out['evaluations'] += shapes + cli
    out.setdefault('distribution', {})['option_vectors_shape_checked'] = shapes
    out['distribution']['cli_runs'] = cli
    out['exhaustive'] = True
    out['sweeps'] = {'all_72_option_vectors_per_sheet': len(sheets)}
    return out


replay = P.replay
exemplar_fails = P.exemplar_fails
