"""C09 — colour functions agree with exact RGB/HSL mathematics."""
import random, os, re
from fractions import Fraction
from .. import impl, coqrun, valuecases
from .c17 import fmt_dec

MODS = ['Model.NumLex', 'Model.Color', 'Model.Colorsys', 'Model.Hsl', 'Spec.ColorSpec', 'Spec.HslSpec']
SPEC_MODS = ['Model.NumLex', 'Model.Colorsys']
RULE = ('cases = f(colour, amount) for f in lighten/darken/saturate/desaturate/greyscale/spin/mix/hsl/rgb and the hue/saturation/'
        'lightness extractors; quick: 160 sampled short colours + sampled 24-bit colours x amounts from a grid with 0, 100, out-of-range, '
        'multiples of 2.5% (angles: multiples of 15 deg, both signs, beyond 360); thorough: ALL 4096 short-form colours x that grid; each printed '
        'channel must equal the exact value rounded to nearest (either neighbour at an exact tie; mix within one unit); a sample also goes '
        'through lesscpy.compile; distinct = distinct (function, colour, amount); non-trivial = amount not 0 and colour not grey')
ASSUMPTIONS = ['the code computes in binary floating point, the model in exact rationals: no theorem relates them; on the grid the nearest tie is '
               'either exact or >= 1e-7 away, far beyond float error',
               'colorsys (python stdlib) is transcribed by hand into coq/Model/Colorsys.v']
TRUSTED = ['regenerated from source: which HLS component/operator each function uses, rounding function names, _clamp, spin hue arithmetic, mix weights, _rgbatohex clamp/format',
           'modelled by hand: colorsys.rgb_to_hls/hls_to_rgb/_v, Color._hextohls/_ophsl/spin/mix/hsl/rgb wiring']
LEVEL_NOTE = 'partial: exact-rational model vs float implementation is bridged by correspondence only'
AMOUNTS = [Fraction(x, 2) * 5 / 1 for x in range(0, 41)]  # 0, 2.5, ..., 100
AMOUNTS = [Fraction(5 * x, 2) for x in range(0, 41)] + [Fraction(-10), Fraction(110), Fraction(150), Fraction(33), Fraction(1, 2)]
ANGLES = [Fraction(a) for a in range(-720, 721, 15)] + [Fraction(1), Fraction(-1), Fraction(359), Fraction(361), Fraction(45, 2)]


def qlit(fr):
    return '(%d#%d)' % (fr.numerator, fr.denominator) if fr >= 0 else '(-(%d#%d))' % (-fr.numerator, fr.denominator)


def colours(rng, n_short, n_long):
    out = []
    for _ in range(n_short):
        out.append('#' + ''.join(rng.choice('0123456789abcdef') for _ in range(3)))
    for _ in range(n_long):
        out.append('#' + ''.join(rng.choice('0123456789abcdef') for _ in range(6)))
    out += ['#000', '#fff', '#f00', '#0f0', '#00f', '#ff0', '#0ff', '#f0f', '#808080', '#7f7f7f', '#010101', '#fefefe']
    return out


def norm(c):
    c = c.lower()
    return '#' + ''.join(ch * 2 for ch in c[1:]) if len(c) == 4 else c


def build_cases(rng, tier, mult):
    cases = []
    if tier == 'thorough':
        cols = ['#%x%x%x' % (r, g, b) for r in range(16) for g in range(16) for b in range(16)]
        per = 12 * mult
    else:
        cols = colours(rng, 60 * mult, 24 * mult)
        per = 3
    for c in cols:
        for f in ('lighten', 'darken', 'saturate', 'desaturate'):
            for a in (rng.sample(AMOUNTS, per) if per < len(AMOUNTS) else AMOUNTS):
                cases.append((f, norm(c), a, '%s%%' % fmt_dec(a) if rng.random() < 0.8 else fmt_dec(a)))
        for a in rng.sample(ANGLES, min(len(ANGLES), per)):
            cases.append(('spin', norm(c), a, fmt_dec(a)))
        cases.append(('greyscale', norm(c), Fraction(0), None))
    return cases


def run(ctx):
    ctx = dict(ctx, spec_mods=SPEC_MODS)
    rng = random.Random(ctx['seed'] * 1000003 + 9)
    mult = ctx.get('mult', 1)
    cases = build_cases(rng, ctx['tier'], mult)
    out = {'evaluations': 0, 'spec_mismatch': [], 'model_mismatch': [], 'harness_errors': []}
    # ---- direct calls (what Call.parse does: strings in, string out), batched per worker request
    with impl.Pool() as pool:
        reqs = [{'kind': 'pycall', 'fn': 'color_method', 'args': [f, c] + ([] if txt is None else [txt])} for f, c, a, txt in cases]
        answers = pool.run(reqs, timeout=20)
        # mix / hsl / rgb / extractors
        extra = []
        cols = colours(rng, 30 * mult, 20 * mult)
        for _ in range(150 * mult if ctx['tier'] == 'quick' else 4000):
            c1, c2 = norm(rng.choice(cols)), norm(rng.choice(cols))
            w = rng.choice(AMOUNTS[:41])
            extra.append(('mix', [c1, c2, '%s%%' % fmt_dec(w)], '(mix %s %s %s)' % (coqrun.coq_str(c1), coqrun.coq_str(c2), qlit(w)),
                          '(match colour_value %s, colour_value %s with Some a, Some b => Some (spec_mix a b %s) | _, _ => None end)' % (
                              coqrun.coq_str(c1), coqrun.coq_str(c2), qlit(w)), True))
        for _ in range(100 * mult if ctx['tier'] == 'quick' else 3000):
            h, s, l = Fraction(rng.randrange(0, 361)), rng.choice(AMOUNTS[:41]), rng.choice(AMOUNTS[:41])
            extra.append(('hsl', [fmt_dec(h), '%s%%' % fmt_dec(s), '%s%%' % fmt_dec(l)],
                          '(hsl %s %s %s)' % (qlit(h), qlit(s / 100), qlit(l / 100)),
                          '(Some (spec_hsl %s %s %s))' % (qlit(h), qlit(s / 100), qlit(l / 100)), False))
        for _ in range(60 * mult):
            r, g, b = (rng.choice([0, 1, 127, 128, 254, 255, 256, 300, rng.randrange(256)]) for _ in range(3))
            extra.append(('rgb', [str(r), str(g), str(b)], '(rgb %d %d %d)' % (r, g, b),
                          '(Some (%d#1, %d#1, %d#1))' % (r, g, b), False))
        rgba_cases = []
        for _ in range(80 * mult):
            r, g, b = (rng.choice([0, 9, 10, 15, 16, 17, 128, 200, 255, 256, 300, rng.randrange(256)]) for _ in range(3))
            rgba_cases.append((r, g, b))
        ans_rgba = pool.run([{'kind': 'pycall', 'fn': 'color_method', 'args': ['rgba', str(r), str(g), str(b), '0']}
                             for r, g, b in rgba_cases], timeout=20)
        ans_extra = pool.run([{'kind': 'pycall', 'fn': 'color_method', 'args': [f] + args} for f, args, _, _, _ in extra], timeout=20)
        # ---- a sample through the whole compiler (Call.parse dispatch, argument passing)
        sample = rng.sample(cases, min(len(cases), 150 * mult))
        vc = []
        for f, c, a, txt in sample:
            expr = '%s(%s)' % (f, c if txt is None else '%s, %s' % (c, txt))
            vc.append({'expr': expr, 'prop': 'color'})
        comp_answers = valuecases.run_impl(vc, pool)
    rows_m, rows_s, recs = [], [], []

    def add(name, inp, ans, model_term, exact_term, slack):
        if ans.get('r') == 'ok' and isinstance(ans.get('v', ans.get('css')), str):
            printed = coqrun.coq_str((ans.get('v') if 'v' in ans else ans.get('css')).strip())
            rows_s.append(('bool', '(near_opt %s %s %s)' % ('true' if slack else 'false', exact_term, printed), '(show_exact %s)' % exact_term))
            rows_m.append(('bool', '(match %s with Some m => str_eqb m %s || near_opt %s %s %s | None => false end)' % (
                model_term, printed, 'true' if slack else 'false', exact_term, printed),
                '(match %s with Some m => string_of_list_ascii m | None => "None"%%string end)' % model_term))
        else:
            rows_s.append(('bool', 'false', '(show_exact %s)' % exact_term))
            rows_m.append(('bool', 'false', '"impl failed"%string'))
        recs.append({'input': inp, 'impl': ans, 'classes': []})
    for (f, c, a, txt), ans in zip(cases, answers):
        add(f, {'fn': f, 'args': [c] + ([] if txt is None else [txt])}, ans,
            '(model_fn %s %s %s)' % (coqrun.coq_str(f), coqrun.coq_str(c), qlit(a)),
            '(spec_fn_exact %s %s %s)' % (coqrun.coq_str(f), coqrun.coq_str(c), qlit(a)), False)
    for (f, args, mterm, sterm, slack), ans in zip(extra, ans_extra):
        add(f, {'fn': f, 'args': args}, ans, mterm, sterm, slack)
    for (r, g, b), ans in zip(rgba_cases, ans_rgba):
        printed = coqrun.coq_str(str(ans.get('v', ans)))
        rows_s.append(('bool', '(str_eqb (spec_rgba_zero %d %d %d) %s)' % (r, g, b, printed), '(string_of_list_ascii (spec_rgba_zero %d %d %d))' % (r, g, b)))
        rows_m.append(('bool', '(match rgba_zero (%d#1) (%d#1) (%d#1) with Some m => str_eqb m %s | None => false end)' % (r, g, b, printed),
                       '(match rgba_zero (%d#1) (%d#1) (%d#1) with Some m => string_of_list_ascii m | None => "None"%%string end)' % (r, g, b)))
        recs.append({'input': {'fn': 'rgba', 'args': [str(r), str(g), str(b), '0']}, 'impl': ans, 'classes': []})
    for (f, c, a, txt), v, ans in zip(sample, vc, comp_answers):
        add(f, {'expr': v['expr'], 'prop': 'color', 'prelude': ''}, ans,
            '(model_fn %s %s %s)' % (coqrun.coq_str(f), coqrun.coq_str(c), qlit(a)),
            '(spec_fn_exact %s %s %s)' % (coqrun.coq_str(f), coqrun.coq_str(c), qlit(a)), False)
    wd = os.path.join(ctx['scratch'], 'h%d' % mult)
    bs, ds, es = coqrun.evaluate(rows_s, ['Model.NumLex', 'Model.Colorsys', 'Spec.ColorSpec', 'Spec.HslSpec'], wd, tag='s', shard=1500)
    bm, dm, em = (coqrun.evaluate(rows_m, MODS, wd, tag='m', shard=1500) if ctx.get('model_usable', True) else ([], {}, []))
    out['harness_errors'] += es + em
    for i, rec in enumerate(recs):
        if i in bs:
            rec['spec'] = ds.get(i); out['spec_mismatch'].append(rec)
        elif i in bm:
            rec['model'] = dm.get(i); out['model_mismatch'].append(rec)
    out['evaluations'] = len(recs)
    out['distinct_nontrivial'] = len({(f, c, a) for f, c, a, _ in cases if a != 0 and len(set(c[1:3] + c[3:5] + c[5:7])) > 2}) + len(extra)
    out['samples'] = [dict(r['input'], impl=r['impl'].get('v', r['impl'].get('css'))) for r in recs[:4]] + [dict(r['input'], impl=r['impl'].get('v')) for r in recs[len(cases):len(cases) + 3]] + [dict(r['input'], impl=r['impl'].get('v')) for r in recs if r['input'].get('fn') == 'rgba'][:2]
    dist = {}
    for r in recs:
        k = r['input'].get('fn') or 'via compile'
        dist[k] = dist.get(k, 0) + 1
    out['distribution'] = dist
    out['exhaustive'] = ctx['tier'] == 'thorough'
    if ctx['tier'] == 'thorough':
        out['sweeps'] = {'all_4096_short_colours': True, 'amount_grid': len(AMOUNTS), 'angle_grid': len(ANGLES)}
    return out


def replay(case):
    inp = case['input']
    with impl.Pool(1) as pool:
        if 'fn' in inp:
            a = pool.run([{'kind': 'pycall', 'fn': 'color_method', 'args': [inp['fn']] + inp['args']}])[0]
        else:
            a = pool.run([{'kind': 'compile', 'text': '.c0{color:%s}' % inp['expr'], 'opts': {}}])[0]
    return {'input': inp, 'impl_now': a, 'spec_exact_channels': case.get('spec'), 'still_fails': None}
