"""C18 — strings are preserved verbatim; @{var} interpolation substitutes values.

Generated stylesheets whose values contain plain strings with random bodies (every printable character except the delimiting
quote, backslash and @; both quote kinds; braces, semicolons, comment markers, repeated blanks, commas, url(..) look-alikes),
interpolated strings "..@{name}.." and interpolated selectors .a-@{name}-b over variables of identifier / number kind that are
also used plainly elsewhere.  Each case is compared byte-for-byte with the evaluator model, with the reference semantics on the
output read back by an independent reader, and -- the property itself -- (a) every plain string literal of the source occurs
verbatim in the output as often as its declarations are emitted, (b) replacing every string body by a placeholder changes
nothing but the placeholder (strings are inert)."""
import random, re
from . import sheetprop as P
from .. import impl, sheetcases as SC
from ..gens import sheet as S

FEATURES = 'str,rstr,istr,isel,url,media,amp,attr,var'.split(',')
RULE = ('generated stylesheets with features %s; model compared byte-for-byte, reference semantics compared on the flat items read back; verbatim and inertness checks on the real output; '
        'distinct = distinct text; non-trivial = a string body with a structural character ({ } ; , /* // url( ) or an interpolation') % FEATURES
ASSUMPTIONS = ['the LALR parser builds the node tree that harness/gens/sheet.py:tree() predicts (checked on every case through the byte-exact output comparison); independently of that prediction, the whole pipeline from the source TEXT (coq/Model/Lex.v + Parse.v + Eval.v: compile_text) is compared byte for byte with the real compiler on every case (abstentions counted in distribution.text_pipeline)',
               'harness/readcss.py reads the produced CSS back correctly (string-aware)', 'interpolated variables hold identifier / number values and are defined once, before use (the property quantifier)']
TRUSTED = ['modelled by hand: plain string token (coq/Model/Lex.v), interpolation lookup and selector pre-pass (coq/Model/Eval.v), Property.fmt url() blank (coq/Model/Fmt.v)', 'reference semantics coq/Spec/Sem.v']
LEVEL = 'other'
EXPLANATION = ('partial: the theorems are about the lexer model (a string is one token whatever its body), the evaluator model (a string token evaluates to itself; @{name} = the value of '
               '@name = what a plain use gives), the formatter model (printed verbatim under every fill record) and the selector pre-pass; the parser step in between is the reference '
               'parser of coq/Model/Parse.v, tied to the real LALR parser by the byte-exact text-level correspondence; string-valued variables and selector interpolation inside mixin '
               'bodies are outside the model')
IVALS = [('num', '5'), ('num', '12px'), ('word', 'foo'), ('word', 'b2'), ('word', 'x-y'), ('word', '_u'), ('word', 'red'), ('num', '7'), ('num', '50%'), ('num', '1.5')]


def hook(g, rng):
    if rng.random() < 0.3:
        # interpolated strings inside mixin bodies, every such mixin expanded several times with different arguments
        units = g.mixin_program()
        for u in list(units):
            if u[0] == 'mixin' and u[3] and 'istr' in repr(u[3]):
                for _ in range(rng.randint(1, 2)):
                    units.append(('rule', g.selectors(False), [g.call_of({'name': u[1], 'params': u[2]}, [])], {'sp_brace': True}))
        return units
    names = rng.sample(['@i1', '@i2', '@i3', '@n', '@k-2'], rng.randint(1, 3))
    g.ivars = names
    prelude = [('var', nm, [rng.choice(IVALS)]) for nm in names]
    sh = prelude + g.sheet(nunits=rng.choice([1, 2, 3]), depth=rng.randint(1, 3))
    if rng.random() < 0.5:
        # a block redefines an interpolated variable and uses it both ways; the rest of the parent and a later sibling rule use the outer one
        nm = rng.choice(names)
        rules = []

        def walk(stmts, in_rule=False):
            for i, s in enumerate(stmts):
                if s[0] == 'rule':
                    rules.append((stmts if in_rule else sh, i, s))      # declarations can only follow inside a rule
                    walk(s[2], True)
                elif s[0] == 'media':
                    walk(s[2], in_rule)
        walk(sh)
        both = lambda: [('decl', 'content', [('istr', rng.choice(['"', "'"]), [('t', 'x'), ('v', nm), ('t', ' y')])], False), ('decl', 'height', [('var', nm)], False)]
        if rules:
            body, i, r = rng.choice(rules)
            r[2][0:0] = [('var', nm, [rng.choice(IVALS)])] + both()
            if body is not sh:
                body[i + 1:i + 1] = both()
        sh.append(('rule', [[('class', '.w')]], both(), {'sp_brace': True}))
    return sh


def strings_of(stmts, out):
    for s in stmts:
        if s[0] == 'decl':
            for it in s[2]:
                if it[0] == 'str':
                    out.append(it[1])
        elif s[0] in ('rule', 'media'):
            strings_of(s[2], out)


def has_structural(sh):
    out = []
    strings_of(sh, out)
    return any(re.search(r'[{};,()]|/\*|//', x) for x in out) or 'istr' in repr(sh) or 'iclass' in repr(sh)


def placeholder_sheet(stmts, table):
    res = []
    for s in stmts:
        if s[0] == 'decl':
            val = []
            for it in s[2]:
                if it[0] == 'str':
                    key = '"S%dS"' % len(table)
                    table.append((key, it[1]))
                    val.append(('str', key))
                else:
                    val.append(it)
            res.append(('decl', s[1], val, s[3]))
        elif s[0] == 'rule':
            res.append(('rule', s[1], placeholder_sheet(s[2], table), s[3]))
        elif s[0] == 'media':
            res.append(('media', s[1], placeholder_sheet(s[2], table)))
        else:
            res.append(s)
    return res


# ---- string-valued variables (outside the evaluator model), real compiler only: "@{s}" inside a string / url / selector is replaced by the
# text between the quotes of the variable's value, blanks at its ends included, and every OTHER use of the variable (before, after, in another
# rule, as a mixin argument) still prints the value with its quotes
def string_var_program(rng):
    chars = 'abcxyz019 -_|/.:'
    def body():
        b = ''.join(rng.choice(chars) for _ in range(rng.randint(1, 6)))
        return rng.choice(['', ' ', '  ']) + b + rng.choice(['', ' ', '  ', '\t'])
    q1, q2 = rng.choice(['"', "'"]), rng.choice(['"', "'"])
    v1, v2 = body(), body()
    text = '@s1: %s%s%s;\n@s2: %s%s%s;\n' % (q1, v1, q1, q2, v2, q2)
    exp = []
    for k in range(rng.randint(1, 3)):
        q = rng.choice(['"', "'"])
        shape = rng.randrange(5)
        if shape == 0:
            text += '.r%d { content: %sA@{s1}B@{s2}C%s; font-family: @s1; }\n' % (k, q, q)
            exp += [('.r%d' % k, 'content', '%sA%sB%sC%s' % (q, v1, v2, q)), ('.r%d' % k, 'font-family', q1 + v1 + q1)]
        elif shape == 1:
            text += '.r%d { quotes: @s2; content: %s@{s2}%s; }\n' % (k, q, q)
            exp += [('.r%d' % k, 'quotes', q2 + v2 + q2), ('.r%d' % k, 'content', q + v2 + q)]
        elif shape == 2:
            text += '.r%d { background: url(%s@{s1}/a.png%s); font-family: @s1; }\n' % (k, q, q)
            exp += [('.r%d' % k, 'background', 'url(%s%s/a.png%s)' % (q, v1, q)), ('.r%d' % k, 'font-family', q1 + v1 + q1)]
        elif shape == 3:
            text += '.m%d(@p) { content: %s<@{p}>%s; quotes: @p; }\n.r%d { .m%d(@s2); }\n' % (k, q, q, k, k)
            exp += [('.r%d' % k, 'content', '%s<%s>%s' % (q, v2, q)), ('.r%d' % k, 'quotes', q2 + v2 + q2)]
        else:
            text += '.r%d { font-family: @s1; .in { content: %s@{s1}@{s1}%s; } quotes: @s1; }\n' % (k, q, q)
            exp += [('.r%d' % k, 'font-family', q1 + v1 + q1), ('.r%d' % k, 'quotes', q1 + v1 + q1), ('.r%d .in' % k, 'content', q + v1 + v1 + q)]
    return text, exp


def run_string_vars(ctx, out):
    rng = random.Random(ctx['seed'] * 1000003 + 1819)
    n = (60 if ctx['tier'] == 'quick' else 1500) * ctx.get('mult', 1)
    progs = [string_var_program(rng) for _ in range(n)]
    with impl.Pool() as pool:
        ans = pool.run([{'kind': 'compile', 'text': p[0], 'opts': {}} for p in progs])
    for (text, exp), a in zip(progs, ans):
        out['evaluations'] += 1
        ok = a.get('r') == 'ok'
        if ok:
            got = {}
            for m in re.finditer(r'^([^\n{}]+) \{\n((?:[^{}]*\n)*?)\}', a['css'], re.M):
                for line in m.group(2).split(';\n'):
                    if ':' in line:
                        nm, val = line.strip().split(':', 1)
                        got[(m.group(1).strip(), nm.strip())] = val.strip().rstrip(';')
            ok = all(got.get((sel, nm)) == val for sel, nm, val in exp)
        if not ok:
            out['spec_mismatch'].append({'input': {'text': text, 'opts': {}}, 'impl': a,
                                         'spec': {'expected declarations (selector, property, value)': exp}, 'classes': []})
    out.setdefault('distribution', {})['string_valued_interpolation_programs'] = len(progs)


def run(ctx):
    out = _run(ctx)
    run_string_vars(ctx, out)
    return out


def _run(ctx):
    out = P.run_sheets(ctx, 18, FEATURES, 150, 4000, depth=3, all_opts=True, wild=False, nontrivial=has_structural, gen_hook=hook)
    # ---- the property itself on the real output: verbatim + inert
    rng = random.Random(ctx['seed'] * 1000003 + 1818)
    n = (80 if ctx['tier'] == 'quick' else 2500) * ctx.get('mult', 1)
    cases = []
    tries = 0
    while len(cases) < n and tries < n * 20:
        tries += 1
        g = S.Gen(rng, FEATURES)
        sh = hook(g, rng)
        if S.sel_count(sh) > 30:
            continue
        lits = []
        strings_of(sh, lits)
        if not lits:
            continue
        table = []
        ph = placeholder_sheet(sh, table)
        seed = rng.randrange(1 << 30)
        cases.append({'sheet': sh, 'text': S.show(sh, S.Layout(random.Random(seed))), 'ph_text': S.show(ph, S.Layout(random.Random(seed))), 'table': table,
                      'opts': rng.choice(SC.ALL_OPTS)})
    with impl.Pool() as pool:
        a1 = pool.run([{'kind': 'compile', 'text': c['text'], 'opts': SC.impl_opts(c['opts'])} for c in cases])
        a2 = pool.run([{'kind': 'compile', 'text': c['ph_text'], 'opts': SC.impl_opts(c['opts'])} for c in cases])
    for c, x, y in zip(cases, a1, a2):
        out['evaluations'] += 1
        if x.get('r') != 'ok' or y.get('r') != 'ok':
            if x.get('r') != y.get('r'):
                out['spec_mismatch'].append({'input': {'text': c['text'], 'opts': c['opts'], 'placeholder_text': c['ph_text']}, 'impl': x,
                                             'spec': {'the same program with placeholder strings gives': y}, 'classes': []})
            continue
        expect = y['css']
        for key, lit in c['table']:
            expect = expect.replace(key, lit)
        if expect != x['css']:
            out['spec_mismatch'].append({'input': {'text': c['text'], 'opts': c['opts'], 'placeholder_text': c['ph_text']}, 'impl': x,
                                         'spec': {'strings are inert and verbatim: expected': expect}, 'classes': []})
    out.setdefault('distribution', {})['inertness_cases'] = len(cases)
    return out


replay = P.replay
exemplar_fails = P.exemplar_fails
