"""C20 — compilation always terminates; runaway self-reference ends in an error."""
import os, random, shutil, tempfile, json
from .. import impl, coqrun

MODS = ['Model.Ast', 'Model.Fmt', 'Model.Eval']
RULE = ('cases = (a) unguarded mixin recursion through cycles of length 1-6 in every shape (direct, through a nested rule, through a nested rule with several selectors or with &-lists (the selector list grows at every level), rulesets used as mixins, '
        'mixed), (b) guarded recursion of depth limit-4 .. limit+4 and small depths, also through a two-selector rule and with 2-5 calls of other mixins before the recursive call, (c) import cycles of length 1-6 (bare names, ./ prefixes, '
        'sub-directories, self import) and acyclic chains of depth limit-2 .. limit+3, (d) variable cycles of length 1-6 at top level / in blocks, cycles of length 1-3 passed as a mixin argument / used as a default, branching cycles (every variable mentions the next 2 or 3 times, length 1-4) and acyclic branching definitions '
        'and acyclic chains of length limit-4 .. limit+2 (the last family also against the Coq model); every case under a hard wall-clock limit; '
        'expected: CompilationError for runaway references, complete expansion below the limits; distinct = distinct program; non-trivial = cycle length >= 2 or depth within 2 of a limit')
ASSUMPTIONS = ['wall-clock limit per case: 20 s (a hang or a RecursionError / other escape is a violation)']
TRUSTED = ['limits regenerated from the source: Node.process rounds, Deferred depth, import level, RecursionError handler present']
LIMIT_MIXIN, LIMIT_IMPORT, LIMIT_VAR = 64, 8, 64


def mixin_cycle(rng, k, shape):
    names = ['.m%d' % i for i in range(k)]
    out = ''
    for i, n in enumerate(names):
        nxt = names[(i + 1) % k]
        if shape == 'direct':
            out += '%s(){ w: %d; %s(); }\n' % (n, i, nxt)
        elif shape == 'nested':
            out += '%s(){ .in%d{ %s(); } }\n' % (n, i, nxt)
        elif shape == 'ruleset':
            out += '%s{ w: %d; %s; }\n' % (n, i, nxt)
        elif shape == 'comma':          # the nested rule has several selectors: the selector list grows at every level
            out += '%s(){ .p%d, .q%d%s{ %s(); } }\n' % (n, i, i, ', .r%d' % i if (i + k) % 2 else '', nxt)
        elif shape == 'amp':
            out += '%s(){ .in%d{ &-x, &-y{ w: %d; %s(); } } }\n' % (n, i, i, nxt)
        else:
            out += ('%s(){ w: %d; %s(); }\n' if i % 2 else '%s(){ .q%d{ %s(); } }\n') % (n, i, nxt)
    out += ('.x{ %s(); }\n' % names[0]) if shape != 'ruleset' else ''
    return out


def guarded_comma(n):
    """guarded recursion through a rule with two selectors: 2^k selectors at level k, complete below the limits"""
    return '.g(@n) when (@n > 0){ w: @n; .a, .b{ .g(@n - 1); } }\n.x{ .g(%d); }\n' % n


def guarded_helpers(n, k):
    """guarded recursion whose body calls k other mixins before it calls itself: still one level per recursion step"""
    hs = ''.join('.h%d(@i){ w: (@i * %d); }\n' % (j, j + 1) for j in range(k))
    return hs + '.g(@n) when (@n > 0){ %s .g(@n - 1); }\n.x{ .g(%d); }\n' % (' '.join('.h%d(@n);' % j for j in range(k)), n)


def guarded(n, rng):
    return '.g(@n) when (@n > 0){ w: @n; .g(@n - 1); }\n.x{ .g(%d); }\n' % n


def var_cycle(k, in_block):
    defs = ''.join('@c%d: @c%d;\n' % (i, (i + 1) % k) for i in range(k))
    return ('.x{\n%swidth: @c0;\n}\n' % defs) if in_block else (defs + '.x{width: @c0}\n')


def var_bcycle(k, b, in_block):
    """every variable of the cycle mentions the next one b times: the token list grows b-fold per substitution round"""
    defs = ''.join('@c%d: %s;\n' % (i, ' '.join(['@c%d' % ((i + 1) % k)] * b)) for i in range(k))
    return ('.x{\n%swidth: @c0;\n}\n' % defs) if in_block else (defs + '.x{width: @c0}\n')


def var_bcycle_tree(k, b, in_block):
    sp = ' :: VT %s :: ' % coqrun.coq_str(' ')
    defs = ['NVar %s (%s :: nil)' % (coqrun.coq_str('@c%d' % i), sp.join(['VVar %s' % coqrun.coq_str('@c%d' % ((i + 1) % k))] * b)) for i in range(k)]
    prop = 'NProp %s [VVar %s] false' % (coqrun.coq_str('width'), coqrun.coq_str('@c0'))
    if in_block:
        return '[(NBlock [%s] [%s])]' % (coqrun.coq_str('.x'), '; '.join('(%s)' % d for d in defs + [prop]))
    return '[' + '; '.join('(%s)' % d for d in defs) + '; (NBlock [%s] [(%s)])]' % (coqrun.coq_str('.x'), prop)


def var_btree(depth, b):
    """acyclic: b^(depth-1) leaves"""
    return ''.join('@t%d: %s;\n' % (i, ' '.join(['@t%d' % (i + 1)] * b)) for i in range(1, depth)) + '@t%d: 1px;\n.x{width:@t1}\n' % depth


def var_chain(k):
    return ''.join('@v%d: @v%d;\n' % (i, i + 1) for i in range(1, k)) + '@v%d: 1px;\n.x{width:@v1}\n' % k


def var_chain_tree(k):
    nodes = ['NVar %s [VVar %s]' % (coqrun.coq_str('@v%d' % i), coqrun.coq_str('@v%d' % (i + 1))) for i in range(1, k)]
    nodes.append('NVar %s [VT %s]' % (coqrun.coq_str('@v%d' % k), coqrun.coq_str('1px')))
    nodes.append('NBlock [%s] [NProp %s [VVar %s] false]' % (coqrun.coq_str('.x'), coqrun.coq_str('width'), coqrun.coq_str('@v1')))
    return '[' + '; '.join('(%s)' % n for n in nodes) + ']'


def var_cycle_tree(k, in_block):
    defs = ['NVar %s [VVar %s]' % (coqrun.coq_str('@c%d' % i), coqrun.coq_str('@c%d' % ((i + 1) % k))) for i in range(k)]
    prop = 'NProp %s [VVar %s] false' % (coqrun.coq_str('width'), coqrun.coq_str('@c0'))
    if in_block:
        return '[(NBlock [%s] [%s])]' % (coqrun.coq_str('.x'), '; '.join('(%s)' % d for d in defs + [prop]))
    return '[' + '; '.join('(%s)' % d for d in defs) + '; (NBlock [%s] [(%s)])]' % (coqrun.coq_str('.x'), prop)


def run(ctx):
    rng = random.Random(ctx['seed'] * 1000003 + 20)
    out = {'evaluations': 0, 'spec_mismatch': [], 'model_mismatch': [], 'harness_errors': []}
    quick = ctx['tier'] == 'quick'
    cases = []          # (kind, text or path, expectation, extra)
    for k in range(1, 7):
        for shape in ('direct', 'nested', 'ruleset', 'mixed', 'comma', 'amp'):
            cases.append(('mixin cycle %s' % shape, mixin_cycle(rng, k, shape), 'error', {'k': k}))
    depths = sorted(set([1, 2, 5, 30] + list(range(LIMIT_MIXIN - 4, LIMIT_MIXIN + 5))))
    for d in depths:
        cases.append(('guarded recursion', guarded(d, rng), ('ok', d) if d <= LIMIT_MIXIN else 'error', {'depth': d}))
    for d in (1, 2, 4, 7):
        cases.append(('guarded recursion', guarded_comma(d), ('ok', d), {'depth': d}))
    for d, k in ((5, 2), (20, 3), (33, 2), (40, 4), (LIMIT_MIXIN - 2, 2), (LIMIT_MIXIN - 1, 5)):
        cases.append(('guarded recursion', guarded_helpers(d, k), ('ok', d * k), {'depth': d}))
    for k in range(1, 7):
        for blk in (False, True):
            cases.append(('variable cycle', var_cycle(k, blk), 'error', {'k': k, 'tree': var_cycle_tree(k, blk)}))
    # variables defined in terms of each other that reach the output through a mixin argument / a default / a guard operand
    for k in (1, 2, 3):
        cyc = ''.join('@c%d: @c%d;\n' % (i, (i + 1) % k) for i in range(k))
        cases.append(('variable cycle as mixin argument', cyc + '.m(@x){ width: @x; }\n.box{ .m(@c0); }\n', 'error', {'k': max(k, 2)}))
        cases.append(('variable cycle as mixin argument', cyc + '.m(@x; @y: 2px){ width: @x @y; }\n.box{ .m(@c0); }\n', 'error', {'k': max(k, 2)}))
        cases.append(('variable cycle as mixin argument', '.m(@x){ width: @x; }\n.box{\n' + cyc + '.m(@c0); }\n', 'error', {'k': max(k, 2)}))
        cases.append(('variable cycle as mixin argument', cyc + '.m(@x: @c0){ width: @x; }\n.box{ .m(); }\n', 'error', {'k': max(k, 2)}))
    cases.append(('variable chain as mixin argument', '@a: @b;\n@b: @c;\n@c: 1px;\n.m(@x){ width: @x; }\n.box{ .m(@a); }\n', ('ok1',), {'k': 3}))
    for k in range(1, 5):
        for b in (2, 3):
            for blk in (False, True):
                cases.append(('branching variable cycle', var_bcycle(k, b, blk), 'error', {'k': max(k, 2), 'tree': var_bcycle_tree(k, b, blk)}))
    for depth, b in ((3, 2), (8, 2), (11, 2), (7, 3)):
        cases.append(('branching acyclic variables', var_btree(depth, b), ('okn', b ** (depth - 1)), {'k': depth}))
    for k in sorted(set([1, 2, 3, 10] + list(range(LIMIT_VAR - 4, LIMIT_VAR + 3)))):
        cases.append(('variable chain', var_chain(k), ('ok1',) if k < LIMIT_VAR else 'error', {'k': k, 'tree': var_chain_tree(k)}))
    base = tempfile.mkdtemp(prefix='lessverif-c20-')
    try:
        # import graphs on disk
        icases = []
        for k in range(1, 7):
            for style in ('bare', 'dot', 'subdir'):
                d = os.path.join(base, 'cyc%d%s' % (k, style)); os.makedirs(os.path.join(d, 'sub'))
                for i in range(k):
                    nxt = 'f%d' % ((i + 1) % k)
                    sub_i, sub_n = (style == 'subdir' and i % 2 == 1), (style == 'subdir' and ((i + 1) % k) % 2 == 1)
                    rel = {'bare': nxt, 'dot': './' + nxt + '.less', 'subdir': ('' if sub_i == sub_n else ('sub/' if sub_n else '../')) + nxt}[style]
                    with open(os.path.join(d, 'sub' if sub_i else '', 'f%d.less' % i), 'w') as f:
                        f.write('@import "%s";\n.r%d{top:%dpx}\n' % (rel, i, i))
                icases.append(('import cycle %s' % style, os.path.join(d, 'f0.less'), 'error', {'k': k}))
        for depth in range(LIMIT_IMPORT - 2, LIMIT_IMPORT + 5):
            d = os.path.join(base, 'chain%d' % depth); os.makedirs(d)
            for i in range(depth):
                open(os.path.join(d, 'c%d.less' % i), 'w').write('@import "c%d";\n.r%d{top:%dpx}\n' % (i + 1, i, i))
            open(os.path.join(d, 'c%d.less' % depth), 'w').write('.leaf{top:0}\n')
            icases.append(('import chain', os.path.join(d, 'c0.less'), ('ok', depth + 1) if depth <= LIMIT_IMPORT + 1 else 'error', {'depth': depth}))
        with impl.Pool() as pool:
            ans = pool.run([{'kind': 'compile', 'text': c[1], 'opts': {}} for c in cases], timeout=20)
            ians = pool.run([{'kind': 'compile_file', 'path': c[1], 'opts': {}} for c in icases], timeout=40)
        for c, a in list(zip(cases, ans)) + list(zip(icases, ians)):
            out['evaluations'] += 1
            kind, src, exp, extra = c
            ok = True
            if exp == 'error':
                ok = a.get('r') == 'error'
            elif exp[0] == 'ok':
                ok = a.get('r') == 'ok' and (a['css'].count('w:') == exp[1] if kind == 'guarded recursion' else a['css'].count('{') == exp[1])
            elif exp[0] == 'okn':
                ok = a.get('r') == 'ok' and a['css'].count('1px') == exp[1]
            elif exp[0] == 'ok1':
                ok = a.get('r') == 'ok' and 'width: 1px' in a['css']
            if not ok:
                text = src if not os.path.exists(src) else ('file: ' + os.path.relpath(src, base) + '\n' + open(src).read())
                out['spec_mismatch'].append({'input': dict(extra, kind=kind, text=text[:800]), 'impl': {k: (v[:300] if isinstance(v, str) else v) for k, v in a.items()},
                                             'spec': 'expected %s' % (exp,), 'classes': []})
        # the variable families also against the Coq model (byte-exact / same outcome class)
        rows, recs = [], []
        for c, a in zip(cases, ans):
            if 'tree' in c[3]:
                rows.append(('(compile_case (false, false, false, 1%%nat) %s)' % c[3]['tree'], coqrun.coq_res(a)))
                recs.append({'input': {'kind': c[0], 'text': c[1][:600]}, 'impl': a, 'classes': []})
        if ctx.get('model_usable', True):
            bad, diag, errs = coqrun.evaluate(rows, MODS, os.path.join(ctx['scratch'], 'term%d' % ctx.get('mult', 1)), tag='m', shard=20)
            out['harness_errors'] += errs
            for i in bad:
                recs[i]['model'] = diag.get(i); out['model_mismatch'].append(recs[i])
            out['evaluations'] += len(rows)
    finally:
        shutil.rmtree(base, ignore_errors=True)
    out['distinct_nontrivial'] = sum(1 for c in cases + icases if c[3].get('k', 0) >= 2 or abs(c[3].get('depth', 0) - LIMIT_MIXIN) <= 2 or abs(c[3].get('depth', 0) - LIMIT_IMPORT) <= 2)
    out['samples'] = [{'kind': c[0], 'text': c[1][:200]} for c in cases[:2] + cases[30:32]]
    dist = {}
    for c in cases + icases:
        dist[c[0]] = dist.get(c[0], 0) + 1
    out['distribution'] = dist
    out['exhaustive'] = True
    return out


def replay(case):
    inp = case['input']
    return {'input': inp, 'note': 'compile the text (or the file tree described) with a 20 s limit', 'still_fails': None}
