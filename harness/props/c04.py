"""C04 — arithmetic follows precedence, left associativity, parentheses and unit rules."""
import random, os, itertools
from fractions import Fraction
from .. import impl, coqrun, valuecases
from .c17 import fmt_dec, cmp_num

MODS = ['Model.NumLex', 'Model.ExprTypes', 'Model.Expr', 'Spec.ArithSpec']
SPEC_MODS = ['Model.NumLex', 'Model.ExprTypes']
RULE = ('cases = random expression trees (depth <= 5 quick, <= 7 thorough) over + - * / and -( ), operands integer/decimal, both signs, '
        'with/without units, literals or variables; 3 in 10 of the expressions with variables evaluated a SECOND time (inside a mixin called before with other numbers / through a variable used before where its operands differ); rendered with minimal parentheses plus random redundant ones; excluded as the '
        'property says: zero-valued sub-expressions, zero divisors, magnitudes outside plain decimal notation; thorough adds ALL '
        'operator sequences of length <= 4 over a fixed operand pool; distinct = distinct text; non-trivial = >= 2 operators')
ASSUMPTIONS = ['numbers compared as exact rationals to 1e-9 relative (python float vs exact arithmetic)',
               'the lexer/parser deliver operands and operators to Expression nodes as the token-level model assumes; tied by correspondence',
               'that an LR automaton treats an operator sequence as its operator-pair matrix dictates is the modelling assumption; long random expressions check it']
TRUSTED = ['regenerated on every run: operator-pair matrix read off the REAL generated automaton (tree shapes of 7 op1 3 op2 2) and derived from LessParser.precedence; Expression.operate map',
           'modelled by hand: Expression.parse/with_units, NegatedExpression.parse, analyze_number (coq/Model/Expr.v, NumLex.v)']
OPSYM = {'+': 'OAdd', '-': 'OSub', '*': 'OMul', '/': 'OTrueDiv'}
LVL = {'+': 1, '-': 1, '*': 2, '/': 2}
UNITS = ['', '', '', 'px', 'em', '%', 'pt']


def qlit(fr):
    return '(%d#%d)' % (fr.numerator, fr.denominator) if fr >= 0 else '(-(%d#%d))' % (-fr.numerator, fr.denominator)


def leaf(rng):
    v = rng.choice([1, 2, 3, 4, 5, 6, 7, 8, 9, 10, 12, 16, 20, 100, Fraction(1, 2), Fraction(3, 2), Fraction(5, 2), Fraction(1, 4),
                    Fraction(3, 4), Fraction(1, 10), Fraction(12, 10), Fraction(25, 10), Fraction(7, 100), Fraction(125, 100)])
    v = Fraction(v)
    if rng.random() < 0.25:
        v = -v
    return ('num', v, rng.choice(UNITS), rng.random() < 0.25)


def tree(rng, depth):
    if depth == 0 or rng.random() < 0.25:
        return leaf(rng)
    r = rng.random()
    if r < 0.1:
        return ('neg', tree(rng, depth - 1))
    return ('bin', rng.choice('+-*/'), tree(rng, depth - 1), tree(rng, depth - 1))


def value(t):
    if t[0] == 'num':
        return t[1]
    if t[0] == 'neg':
        v = value(t[1])
        return None if v is None else -v
    a, b = value(t[2]), value(t[3])
    if a is None or b is None:
        return None
    o = t[1]
    if o == '/' and b == 0:
        return None
    return {'+': a + b, '-': a - b, '*': a * b, '/': (a / b) if b else None}[o]


def ok_tree(t):
    """property's exclusions + keep floats comparable: every sub-value non-zero, 1e-3 <= |v| < 1e12, and no
    additive cancellation below 1e-6 of the operands"""
    v = value(t)
    if v is None or v == 0 or not (Fraction(1, 1000) <= abs(v) < 10 ** 12):
        return False
    if t[0] == 'neg':
        return ok_tree(t[1])
    if t[0] == 'bin':
        if not (ok_tree(t[2]) and ok_tree(t[3])):
            return False
        if t[1] in '+-':
            a, b = abs(value(t[2])), abs(value(t[3]))
            if abs(v) < max(a, b) * Fraction(1, 10 ** 6):
                return False
    return True


def count_ops(t):
    return 0 if t[0] == 'num' else (count_ops(t[1]) if t[0] == 'neg' else 1 + count_ops(t[2]) + count_ops(t[3]))


def render(rng, t, k, vars_, extra=0.15):
    """-> (text, coq token list, coq tree).  Redundant parentheses with probability `extra`."""
    if t[0] == 'num':
        _, v, u, asvar = t
        term = '(MkNum %s %s)' % (qlit(v), coqrun.coq_str(u))
        if asvar:
            name = '@v%d' % len(vars_)
            vars_.append((name, fmt_dec(v) + u))
            text = name
        else:
            text = fmt_dec(v) + u
        toks, tr = ['TNum %s' % term], '(ENum %s)' % term
    elif t[0] == 'neg':
        tx, tk, tt = render(rng, t[1], 0, vars_, extra)
        text, toks, tr = '-(%s)' % tx, ['TNegL'] + tk + ['TR'], '(ENeg %s)' % tt
    else:
        o = t[1]
        lx, lk, lt = render(rng, t[2], LVL[o], vars_, extra)
        rx, rk, rt = render(rng, t[3], LVL[o] + 1, vars_, extra)
        text, toks, tr = '%s %s %s' % (lx, o, rx), lk + ['TOp %s' % OPSYM[o]] + rk, '(EBin %s %s %s)' % (OPSYM[o], lt, rt)
        if LVL[o] < k:
            text, toks = '(%s)' % text, ['TL'] + toks + ['TR']
    if rng.random() < extra and not (t[0] == 'num' and t[3] is False and False):
        text, toks = '(%s)' % text, ['TL'] + toks + ['TR']
    return text, toks, tr


def make_case(rng, t, extra=0.15):
    vars_ = []
    text, toks, tr = render(rng, t, 0, vars_, extra)
    return {'expr': text, 'prop': 'width', 'vars': vars_, 'tree': t,
            'model': '(eval_tokens [%s])' % '; '.join(toks), 'spec': '(spec_result %s)' % tr,
            'cmp': lambda term, a: cmp_int(term, a), 'nontrivial': count_ops(t) >= 2, 'key': text, 'nops': count_ops(t)}


def decoy_tree(t, f):
    if t[0] == 'num':
        return ('num', f(t[1]), t[2], t[3]) if t[3] else t
    if t[0] == 'neg':
        return ('neg', decoy_tree(t[1], f))
    return ('bin', t[1], decoy_tree(t[2], f), decoy_tree(t[3], f))


def var_leaves(t):
    if t[0] == 'num':
        return [t] if t[3] else []
    if t[0] == 'neg':
        return var_leaves(t[1])
    return var_leaves(t[2]) + var_leaves(t[3])


def add_wrap(rng, c):
    """3 cases in 10 with variables are evaluated a SECOND time: the expression sits in a mixin called before with other numbers, or in a
    variable used before in a block where its operands have other values (the other values keep the expression inside the property's
    exclusions: no zero sub-expression, no zero divisor)"""
    c['wrap'] = None
    if not c['vars'] or rng.random() >= 0.3:
        return
    for f in (lambda v: v + 1, lambda v: v * 2, lambda v: v + 3, lambda v: v * 3 + 1):
        dt = decoy_tree(c['tree'], f)
        if ok_tree(dt):
            break
    else:
        return
    fmt = c['expr'].replace('{', '{{').replace('}', '}}')
    for k, (name, _) in sorted(enumerate(c['vars']), key=lambda kv: -len(kv[1][0])):
        fmt = fmt.replace(name, '{%d}' % k)
    leaves = var_leaves(dt)
    if len(leaves) != len(c['vars']):
        return
    c['wrap'] = {'kind': rng.choice(['mixin', 'lazy']), 'expr_fmt': fmt, 'real': [v for _, v in c['vars']],
                 'decoy': [fmt_dec(l[1]) + l[2] for l in leaves]}


def cmp_int(model_term, ans):
    if ans.get('r') == 'ok':
        return ('bool', '(num_matches %s %s true)' % (model_term, coqrun.coq_str(ans['css'])), '(show_num %s)' % model_term)
    return ('bool', 'false', '(show_num %s)' % model_term)


def exhaustive_sequences(rng, maxlen):
    pool = [('num', Fraction(7), 'px', False), ('num', Fraction(3), '', False), ('num', Fraction(2), 'em', False),
            ('num', Fraction(5, 2), '', False), ('num', Fraction(-4), '', False)]
    out = []
    for n in range(1, maxlen + 1):
        for ops in itertools.product('+-*/', repeat=n):
            leaves = [pool[i % len(pool)] for i in range(n + 1)]
            # the tree that precedence + left associativity prescribe for the flat sequence
            def build(seq_leaves, seq_ops):
                # split at the LAST lowest-precedence operator (left associativity)
                if not seq_ops:
                    return seq_leaves[0]
                low = min(LVL[o] for o in seq_ops)
                idx = max(i for i, o in enumerate(seq_ops) if LVL[o] == low)
                return ('bin', seq_ops[idx], build(seq_leaves[:idx + 1], seq_ops[:idx]), build(seq_leaves[idx + 1:], seq_ops[idx + 1:]))
            t = build(leaves, list(ops))
            if ok_tree(t):
                out.append(make_case(rng, t, extra=0.0))
    return out


def run(ctx):
    ctx = dict(ctx, spec_mods=SPEC_MODS)
    rng = random.Random(ctx['seed'] * 1000003 + 4)
    n = (400 if ctx['tier'] == 'quick' else 6000) * ctx.get('mult', 1)
    depth = 5 if ctx['tier'] == 'quick' else 7
    cases = []
    if ctx['tier'] == 'thorough' or ctx.get('mult', 1) > 1:
        cases += exhaustive_sequences(rng, 4)
    else:
        cases += exhaustive_sequences(rng, 2)
    tries = 0
    while len(cases) < n and tries < n * 50:
        tries += 1
        t = tree(rng, rng.randint(1, depth))
        if t[0] != 'num' and ok_tree(t):
            cases.append(make_case(rng, t))
    # one sheet per group; variables get globally unique names inside a sheet
    for gi, c in enumerate(cases):
        ren = {name: '@g%dx%s' % (gi, name[2:]) for name, _ in c['vars']}
        for name in sorted(ren, key=len, reverse=True):
            c['expr'] = c['expr'].replace(name, ren[name])
        c['vars'] = [(ren[nm], v) for nm, v in c['vars']]
    for c in cases:
        add_wrap(rng, c)
    prelude = ''.join('%s: %s;\n' % (nm, v) for c in cases for nm, v in c['vars'])
    # prelude per batch would be cheaper, but variable definitions are cheap: split cases into chunks with own prelude
    out = {'evaluations': 0, 'spec_mismatch': [], 'model_mismatch': [], 'harness_errors': []}
    answers_all = []
    chunk = 400
    with impl.Pool() as pool:
        for k in range(0, len(cases), chunk):
            part = cases[k:k + chunk]
            pre = ''.join('%s: %s;\n' % (nm, v) for c in part for nm, v in c['vars'])
            o, ans = valuecases.correspond(dict(ctx, scratch=os.path.join(ctx['scratch'], 'p%d' % k)), part, MODS, pool=pool, batch=40, prelude=pre)
            answers_all += ans
            out['evaluations'] += o['evaluations']
            for key in ('spec_mismatch', 'model_mismatch', 'harness_errors'):
                out[key] += o[key]
    out['distinct_nontrivial'] = len({c['key'] for c in cases if c['nontrivial']})
    out['samples'] = [{'expr': c['expr'], 'vars': c['vars'], 'impl': a.get('css', a)} for c, a in list(zip(cases, answers_all))[-6:]]
    dist = {}
    for c in cases:
        dist['ops=%d' % c['nops']] = dist.get('ops=%d' % c['nops'], 0) + 1
    out['distribution'] = dist
    return out


def replay(case):
    inp = case['input']
    text = inp.get('prelude', '') + (inp['sheet'] + '\n' if inp.get('sheet') else '.c0{%s:%s}\n' % (inp.get('prop', 'width'), inp['expr']))
    with impl.Pool(1) as pool:
        a = pool.run([{'kind': 'compile', 'text': text, 'opts': {}}])[0]
    got = valuecases.split_sheet(a['css']).get(inp.get('index', 0) if inp.get('sheet') else 0) if a.get('r') == 'ok' else None
    return {'input': text, 'impl_now': a, 'value_now': got, 'spec_expected': case.get('spec'),
            'still_fails': True if got is None else None}
