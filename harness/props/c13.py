"""C13 — compilation is a pure function of source text and options: histories in one process, stream vs file object,
hash seeds, threads, and concurrent processes on one temporary directory with cold / warm / truncated / foreign table files."""
import os, random, shutil, subprocess, tempfile, json, glob, concurrent.futures as cf
from .. import impl

RULE = ('cases = (a) histories of 6-14+ compile calls over a pool of valid, rejected (inside nested rules / nested mixin calls / endless expansion / cycles) and generated programs in ONE process (random order, repeats, failures '
        'interleaved; every (rejected, hand-written valid) pair occurs consecutively in some history) vs each program compiled in a fresh process, and histories in which every call has its own option vector vs the same (program, options) in a fresh process; (b) stream vs file object; (c) 5 hash seeds; (d) 8 threads compiling '
        'concurrently in one process; (e) 16 processes started together on ONE temporary directory whose yacctab.py is absent / valid / '
        'truncated at a prefix length (every prefix in thorough, sampled in quick) / foreign text / a directory entry; every result must be '
        'byte-identical to the reference; distinct = distinct (history | cache state); non-trivial = the history contains a failure followed by a success, or the cache file is damaged')
ASSUMPTIONS = ['no table module sits in the package directory (checked on every run: /repo/lesscpy/lessc/yacctab.py must not exist)',
               'PLY contract (oracle of Model/Cache.v): the table module is looked up by its qualified name in the package directory and written to the temp dir; an unimportable table is regenerated']
TRUSTED = ['PLY 3.11 behaviour as an oracle; OS scheduling, partial writes below chunk granularity and CPython import locks are outside the model']
LEVEL = 'other'
EXPLANATION = ('partial by nature: the cache protocol is modelled and proved in Coq (C13_cache_irrelevant: for all schedules and all initial states of the '
               'shared table file every parse uses freshly generated tables), process/thread/OS behaviour is decided by this correspondence on real processes')

VALID = ['.a{color:red; .b{top:1px + 2}}\n', '@x:3px;\n.c{margin:@x * 2}\n', '.m(@a){width:@a}\n.d{.m(5px)}\n', '@media print{.f{left:0}}\n',
         '.g{&:hover{color:#ABC + #111}}\n', '.h{width:round(2.5px)}\n.i{color:lighten(#123, 10%)}\n', '@k: 1;\n.n(@i) when (@i > 0){w: @i}\n.o{.n(@k)}\n']
INVALID = ['.e{color:\n', '.p{width:@nope}\n', '.q{color:red}}\n', '.r{ : }\n', '@import "missing-file";\n',
           # compilations that stop while the lexer is inside a parenthesis, url(, a media query, a string
           'a{width:(1px', '.s{background:url("x', '@media screen and (', '.t{content:"abc @{x', ".u{content:~'x", '.v{width:calc(1px + (2px']
# programs whose compilation leans on state that must not outlive it: mixins called at the top level and from rules, bodies with nested rules,
# expansion at the depth limit, rules used as mixins, closures, interpolation, @arguments, nested @media, keyframes
VALID += ['.m(){ .x{ color: red; } }\n.m();\n', '.in(@a){ width: @a; }\n.out(@b){ .in(@b); .y{ .in(@b * 2); } }\n.r{ .out(3px); }\n',
          '.loop(@i) when (@i > 0){ w: @i; .loop(@i - 1); }\n.z{ .loop(64); }\n', '.l2(@i) when (@i > 0){ .c@{i}{ w: @i; } .l2(@i - 1); }\n.l2(5);\n',
          '.b{ color: blue; .c{ top: 0; } }\n.d{ .b; }\n', '@v: 2px;\n.cl(){ margin: @v; }\n.e{ @v: 5px; .cl(); }\n.f{ .cl(); }\n',
          '@n: box;\n.@{n}-a{ content: "@{n}"; }\n.args(@a; @b: 2){ border: @arguments; }\n.g{ .args(1); }\n',
          '.h{ @media screen{ .i{ @media (min-width: 10px){ left: 0; } } } }\n', '@keyframes k{ from{ top: 0; } to{ top: 1px; } }\n.j{ a: b; }\n',
          '.p{ .q{ width: 1px; } }\n.s{ .p; }\n.x{ color: red; }\n']
# compilations rejected deep inside something: a nested rule, a mixin called from a mixin, endless expansion, a cycle, an at-rule in a rule
INVALID += ['.p{ .q{ width: @nope; } }\n', '.in(){ width: @nope; }\n.out(){ .in(); }\n.r{ .out(); }\n', '.m(){ .m(); }\n.x{ .m(); }\n',
            '.m(){ .a{ .m(); } }\n.x{ .m(); }\n', '.m(){ .a, .b{ .m(); } }\n.x{ .m(); }\n', '@a: @b;\n@b: @a;\n.x{ w: @a; }\n',
            '.t{ @media print{ .u{ left: @nope; } } }\n', '.g(@a) when (@a > @nope){ w: 1; }\n.v{ .g(1); }\n', '.@{nope}{ a: b; }\n',
            '@keyframes k{ from{ top: @nope; } }\n', '.w{ .deep{ .deeper{ color: red; }\n', '.o(@a){ .i{ w: @a @nope; } }\n.o(1);\n']
PY = impl.PY


def generated_programs(rng, n):
    """valid programs from the stylesheet generator (mixins, variables, nesting, media, at-rules), kept only if they compile alone"""
    from ..gens import sheet as S
    out, tries = [], 0
    while len(out) < n and tries < n * 10:
        tries += 1
        g = S.Gen(rng, rng.choice([['var', 'media', 'amp'], ['amp', 'media', 'leadcomb'], ['var', 'at', 'media']]))
        sh = g.mixin_program() if rng.random() < 0.6 else g.sheet(nunits=rng.choice([1, 2, 3]), depth=rng.randint(1, 3))
        if sh is None or S.sel_count(sh) > 40:
            continue
        text = S.show(sh, S.Layout(rng, wild=False))
        if len(text) < 3000:
            out.append(text)
    return out

RUNNER = r'''
import sys, io, json, os
sys.path.insert(0, %(repo)r)
import lesscpy
out = []
for t in json.load(open(sys.argv[1])):
    try:
        if isinstance(t, dict) and 'opts' in t:
            out.append(['ok', lesscpy.compile(io.StringIO(t['text']), **t['opts'])])
        elif isinstance(t, dict):
            with open(t['path']) as f:
                out.append(['ok', lesscpy.compile(f)])
        else:
            out.append(['ok', lesscpy.compile(io.StringIO(t))])
    except SyntaxError as e:
        out.append(['error', type(e).__name__])
    except BaseException as e:
        out.append(['escaped', type(e).__name__ + ': ' + str(e)[:200]])
print(json.dumps(out))
'''


def run_proc(texts, tmpdir, hashseed='0', cwd=None, wait=True):
    os.makedirs(tmpdir, exist_ok=True)
    jf = tempfile.NamedTemporaryFile('w', suffix='.json', delete=False, dir=os.path.dirname(tmpdir.rstrip('/')) or None)
    json.dump(texts, jf); jf.close()
    env = dict(os.environ, PYTHONHASHSEED=str(hashseed), TMPDIR=tmpdir, PYTHONDONTWRITEBYTECODE='1')
    p = subprocess.Popen([PY, '-W', 'ignore', '-c', RUNNER % {'repo': impl.REPO}, jf.name], stdout=subprocess.PIPE, stderr=subprocess.PIPE,
                         text=True, env=env, cwd=cwd or tmpdir)
    if not wait:
        return p, jf.name
    so, se = p.communicate(timeout=300)
    os.unlink(jf.name)
    try:
        return json.loads(so.strip().splitlines()[-1])
    except Exception:
        return [['escaped', 'runner failed: ' + (se or so)[-300:]]]


def finish(p, jfname):
    so, se = p.communicate(timeout=600)
    try:
        os.unlink(jfname)
    except OSError:
        pass
    try:
        return json.loads(so.strip().splitlines()[-1])
    except Exception:
        return [['escaped', 'runner failed: ' + (se or so)[-300:]]]


def norm(r):
    # error messages may name temp paths: compare class only for failures
    return (r[0], r[1] if r[0] == 'ok' else r[1].split(':')[0])


def run(ctx):
    rng = random.Random(ctx['seed'] * 1000003 + 13)
    base = tempfile.mkdtemp(prefix='lessverif-c13-')
    out = {'evaluations': 0, 'spec_mismatch': [], 'model_mismatch': [], 'harness_errors': []}
    quick = ctx['tier'] == 'quick'
    mult = ctx.get('mult', 1)
    gen = generated_programs(rng, (24 if quick else 200) * mult)
    pool = VALID + INVALID + gen
    import time
    t0 = time.time()
    dist = {'generated_programs': len(gen)}
    marks = dist.setdefault('seconds', {})
    try:
        if os.path.exists(os.path.join(impl.REPO, 'lesscpy', 'lessc', 'yacctab.py')):
            out['spec_mismatch'].append({'input': {'file': 'lesscpy/lessc/yacctab.py'}, 'impl': 'present', 'classes': [],
                                         'spec': 'a table module in the package directory would be trusted blindly: hypothesis of C13_cache_irrelevant violated'})
        # ---- reference: every program alone in a fresh process with a private temp dir
        with cf.ThreadPoolExecutor(16) as ex:
            refs = list(ex.map(lambda it: run_proc([it[1]], os.path.join(base, 'ref%d' % it[0]))[0], list(enumerate(pool))))
        ref = {t: norm(r) for t, r in zip(pool, refs)}

        marks['references'] = round(time.time() - t0, 1)
        def check(kind, texts, results, inp):
            for t, r in zip(texts, results):
                out['evaluations'] += 1
                key = t if not isinstance(t, dict) else t['text']
                if norm(r) != ref[key]:
                    out['spec_mismatch'].append({'input': dict(inp, program=key, kind=kind), 'impl': r[:2], 'spec': list(ref[key]), 'classes': []})
        # ---- (a) histories in one process
        nh = (10 if quick else 120) * mult
        hists = [[rng.choice(pool) for _ in range(rng.randint(6, 14))] for _ in range(nh)]
        # every rejected program is followed at least once by every hand-written valid one (in some history)
        pairs = [(b, v) for b in INVALID for v in VALID]
        rng.shuffle(pairs)
        per = max(1, len(pairs) // max(1, nh) + 1) if quick else len(pairs)
        for i, h in enumerate(hists):
            for b, v in pairs[i * per:(i + 1) * per] if quick else rng.sample(pairs, 6):
                h += [b, v]
        with cf.ThreadPoolExecutor(16) as ex:
            res = list(ex.map(lambda it: run_proc(it[1], os.path.join(base, 'hist%d' % it[0])), list(enumerate(hists))))
        for h, r in zip(hists, res):
            check('history', h, r, {'history': h})
        dist['histories'] = nh
        # ---- (a') histories in which every call has its own option vector: the result may depend on the options of THIS call only
        OPTS = [{}, {'minify': True}, {'xminify': True}, {'tabs': True}, {'spaces': 4}, {'minify': True, 'tabs': True}, {'spaces': 0}, {'xminify': True, 'spaces': 3}]
        okprogs = [t for t in VALID + gen if ref[t][0] == 'ok']
        no = (6 if quick else 60) * mult
        ohists = [[{'text': rng.choice(okprogs), 'opts': rng.choice(OPTS)} for _ in range(rng.randint(8, 14))] for _ in range(no)]
        uniq = {}
        for h in ohists:
            for e in h:
                uniq.setdefault(json.dumps(e, sort_keys=True), e)
        ukeys = list(uniq)
        with cf.ThreadPoolExecutor(16) as ex:
            orefs = list(ex.map(lambda it: run_proc([uniq[it[1]]], os.path.join(base, 'oref%d' % it[0]))[0], list(enumerate(ukeys))))
            ores = list(ex.map(lambda it: run_proc(it[1], os.path.join(base, 'ohist%d' % it[0])), list(enumerate(ohists))))
        oref = {k: norm(r) for k, r in zip(ukeys, orefs)}
        for h, res1 in zip(ohists, ores):
            for e, r in zip(h, res1):
                out['evaluations'] += 1
                if norm(r) != oref[json.dumps(e, sort_keys=True)]:
                    out['spec_mismatch'].append({'input': {'history_with_options': h, 'program': e['text'], 'opts': e['opts'], 'kind': 'history with options'},
                                                 'impl': r[:2], 'spec': list(oref[json.dumps(e, sort_keys=True)]), 'classes': []})
        dist['histories_with_options'] = no
        nontrivial = sum(1 for h in hists if any(ref[a][0] != 'ok' and ref[b][0] == 'ok' for a, b in zip(h, h[1:])))
        marks['histories'] = round(time.time() - t0, 1)
        # ---- (b) stream vs file object
        fdir = os.path.join(base, 'files'); os.makedirs(fdir)
        fitems = []
        for i, t in enumerate(VALID + INVALID[:4] + INVALID[5:8]):
            p = os.path.join(fdir, 'f%d.less' % i)
            open(p, 'w').write(t)
            fitems.append({'path': p, 'text': t})
        check('file object', fitems, run_proc(fitems, os.path.join(base, 'fileobj')), {'mode': 'file object'})
        marks['fileobj'] = round(time.time() - t0, 1)
        # ---- (c) hash seeds
        hss = [1, 2, 3, 4, 'random']
        with cf.ThreadPoolExecutor(5) as ex:
            hres = list(ex.map(lambda hs: run_proc(pool, os.path.join(base, 'hs%s' % hs), hashseed=hs), hss))
        for hs, r in zip(hss, hres):
            check('hash seed %s' % hs, pool, r, {'hashseed': hs})
        dist['hash_seeds'] = 5
        marks['hashseeds'] = round(time.time() - t0, 1)
        # ---- (d) threads in one process
        with impl.Pool(1) as wp:
            a = wp.run([{'kind': 'compile_threads', 'texts': VALID + INVALID[:4], 'nthreads': 8, 'opts': {}}], timeout=300)[0]
        for row in a.get('results', []):
            conv = [['ok', r['css']] if r.get('r') == 'ok' else [r.get('r'), r.get('cls') or r.get('type')] for r in row]
            check('threads', VALID + INVALID[:4], conv, {'threads': 8})
        dist['thread_rows'] = len(a.get('results', []))
        marks['threads'] = round(time.time() - t0, 1)
        # ---- (e) concurrent processes on one temp dir with a damaged / foreign / valid / absent table file
        warm = os.path.join(base, 'warm'); run_proc([VALID[0]], warm)
        cache_files = {}
        for dp, dn, fn in os.walk(warm):
            for n in fn:
                if not n.endswith('.json'):
                    cache_files[os.path.relpath(os.path.join(dp, n), warm)] = open(os.path.join(dp, n), 'rb').read()
        table = cache_files.get('yacctab.py')
        states = [('cold', {}), ('foreign', {n: b'this is not python (\n' for n in (cache_files or {'yacctab.py': b''})}),
                  ('empty', {n: b'' for n in (cache_files or {'yacctab.py': b''})})]
        if cache_files:
            states.append(('warm', dict(cache_files)))
        for name, content in cache_files.items():
            n = len(content)
            cuts = sorted(set(list(range(0, n, max(1, n // (10 if quick else 300)))) + [1, n // 3, n // 2, n - 1]))
            if not quick:
                cuts = sorted(set(cuts + list(range(0, min(n, 200))) + list(range(max(0, n - 200), n))))
            for c in cuts:
                if 0 <= c < n:
                    st = dict(cache_files); st[name] = content[:c]
                    states.append(('%s truncated@%d' % (name, c), st))
        if table:
            states.append(('valid python, wrong tables', {'yacctab.py': b"_tabversion = '3.10'\n_lr_method = 'LALR'\n_lr_signature = 'x'\n_lr_action_items = {}\n_lr_action = {}\n_lr_goto_items = {}\n_lr_goto = {}\n_lr_productions = []\n"}))
        dist['cache_states'] = len(states)
        dist['cache_files_seen'] = sorted(cache_files)
        nproc = 16 if not quick else 6

        def conc(item):
            k, (name, content) = item
            d = os.path.join(base, 'conc%d' % k)
            os.makedirs(d)
            for fname, data in (content or {}).items():
                os.makedirs(os.path.dirname(os.path.join(d, fname)), exist_ok=True)
                open(os.path.join(d, fname), 'wb').write(data)
            texts = [rng.choice(VALID) for _ in range(2)] + [INVALID[1], VALID[1]]
            procs = [run_proc(texts, d, cwd=d if k % 2 else None, wait=False) for _ in range(nproc)]
            return name, texts, [finish(p, jf) for p, jf in procs]
        with cf.ThreadPoolExecutor(4 if quick else 3) as ex:
            for name, texts, results in ex.map(conc, list(enumerate(states))):
                for r in results:
                    check('concurrent: ' + name, texts, r, {'cache_state': name, 'processes': nproc})
        marks['concurrent'] = round(time.time() - t0, 1)
        out['distinct_nontrivial'] = nontrivial + len(states) - 1
        out['samples'] = [{'history': hists[0][:4]}, {'cache_states': [s[0] for s in states[:8]]}]
        out['distribution'] = dist
        out['traces_validated_against_impl'] = out['evaluations']
    finally:
        shutil.rmtree(base, ignore_errors=True)
    return out


def replay(case):
    return {'input': case['input'], 'note': 'compile the listed history in one process (see harness/props/c13.py RUNNER) and compare with a fresh-process compile', 'still_fails': None}
