"""C05 — calling a mixin is equivalent to inlining its body with parameters bound."""
from . import sheetprop as P

FEATURES = ['amp', 'media', 'leadcomb']
RULE = ('generated mixin programs: 1-3 definitions (arity 0-3, trailing defaults, bodies with declarations using the parameters, nested rules, &-selectors, '
        '@media, nested calls, @arguments), 1-3 call sites before/after the definitions with literal / multi-token arguments separated by , or ;, an '
        'ordinary rule used as a mixin; the real output is compared byte-for-byte with the Coq evaluator model (parameters bound in the caller frame, '
        'as the code does) and item-by-item with the reference semantics (inlining with parameters in a frame of their own); distinct = distinct text; '
        'non-trivial = at least one call with arguments and a body with a nested rule or a nested call')
ASSUMPTIONS = ['hygiene granted by the property: parameter names are not names of other variables; callers define no local that shadows a global',
               'guards are C06; recursion is C20']
TRUSTED = ['modelled by hand: Deferred.parse / Mixin.call / parse_args as call_mixin + bind_params (coq/Model/Eval.v); reference: sem_call (coq/Spec/Sem.v)']


def nontrivial(sh):
    has_args = any(s[0] == 'rule' and any(c[0] == 'call' and c[2] for c in s[2]) for s in sh)
    rich = any(s[0] == 'mixin' and any(c[0] in ('rule', 'call', 'media') for c in s[3]) for s in sh)
    return has_args and rich


def hook(g, rng):
    return g.mixin_program()


# ---- the property itself, on the real compiler only: a program with calls vs the same program with every call replaced, by hand, by the
# body of the mixin with the arguments written in place of the parameters.  Bodies use arithmetic, built-in functions of the parameters,
# strings with @{param}, nested rules and @media: constructs outside the evaluator model.
BODY_DECLS = ['width: (ceil({a}) * 2)', 'height: {a} + 1', 'margin: round({a}) {b}', 'padding: ({a} * 2) ({b} + 1)', 'top: floor({a} / 2)', 'left: -{a}',
              'content: "v{ia}w"', 'border: {b} solid', 'line-height: percentage(0.5) {a}', 'font-size: increment({a})', 'z-index: {b}', 'min-width: ({a} + {b}) * 2',
              'max-width: ceil({a} + 0.5)']
ARGS = ['1.5px', '3.5px', '2', '10px', '7.25em', '0.5', '12pt', '4']


def inline_program(rng):
    nm = rng.randint(1, 2)
    defs = []
    for i in range(nm):
        decls = rng.sample(BODY_DECLS, rng.randint(1, 3))
        nested = rng.random() < 0.4
        media = rng.random() < 0.25
        defs.append({'name': '.mx%d' % i, 'decls': decls, 'nested': rng.choice(['.in', '&:hover', '> .k']) if nested else None,
                     'nested_decl': rng.choice(BODY_DECLS), 'media': media, 'media_decl': rng.choice(BODY_DECLS)})

    def body(d, a, b, ia):
        f = lambda s: s.format(a=a, b=b, ia=ia)
        out = ''.join('  %s;\n' % f(x) for x in d['decls'])
        if d['nested']:
            out += '  %s { %s; }\n' % (d['nested'], f(d['nested_decl']))
        if d['media']:
            out += '  @media print { %s; }\n' % f(d['media_decl'])
        return out
    with_calls, inlined = '', ''
    for d in defs:
        with_calls += '%s(@a; @b) {\n%s}\n' % (d['name'], body(d, '@a', '@b', '@{a}'))
    if rng.random() < 0.5:
        # a mixin made of nested rules only, called at the TOP level of the sheet
        w = rng.choice(ARGS)
        with_calls += '.cols(@w) {\n  .col-1 { width: @w; }\n  .col-2 > em { width: (@w * 2); }\n}\n.cols(%s);\n' % w
        inlined += '.col-1 { width: %s; }\n.col-2 > em { width: (%s * 2); }\n' % (w, w)
    ncall = rng.randint(2, 4)
    # arguments that are variables whose VALUE mentions a variable named like a parameter of the callee (@a / @b): the argument means its
    # value at the call site, the callee's parameters must not capture the names inside it
    indirect = rng.random() < 0.35
    if indirect:
        ga, gb = rng.choice(ARGS), rng.choice(ARGS)
        pre = '@a: %s;\n@b: %s;\n@ua: @b;\n@ub: @a;\n@uc: @ua;\n' % (ga, gb)
        with_calls = pre + with_calls
        inlined = pre + inlined
    for c in range(ncall):
        d = rng.choice(defs)
        a, b = rng.choice(ARGS), rng.choice(ARGS)
        if indirect and rng.random() < 0.7:
            a, b = rng.choice([('@ua', '@ub'), ('@ub', b), (a, '@ua'), ('@uc', '@ub'), ('@b', '@a')])
        own = 'color: red;\n' if rng.random() < 0.5 else ''
        sep = rng.choice([';', ','])
        with_calls += '.call%d {\n%s  %s(%s%s %s);\n}\n' % (c, own, d['name'], a, sep, b)
        inlined += '.call%d {\n%s%s}\n' % (c, own, body(d, a, b, ('@{%s}' % a[1:]) if a.startswith('@') else a))
    if rng.random() < 0.5:           # definitions after the calls
        lines = with_calls.split('}\n')
    return with_calls, inlined


def run(ctx):
    import random
    from .. import impl, sheetcases as SC
    out = P.run_sheets(ctx, 5, FEATURES, 150, 4000, depth=2, all_opts=False, wild=False, nontrivial=nontrivial, gen_hook=hook)
    rng = random.Random(ctx['seed'] * 1000003 + 505)
    n = (80 if ctx['tier'] == 'quick' else 2000) * ctx.get('mult', 1)
    progs = [inline_program(rng) for _ in range(n)]
    opts = [rng.choice(SC.ALL_OPTS) for _ in progs]
    with impl.Pool() as pool:
        # one program in four runs right after a rejected compilation in the same worker process
        poison = [rng.choice(SC.POISON) if rng.random() < 0.25 else None for _ in progs]
        raw = pool.run([({'kind': 'compile_many', 'texts': [ps, p[0]], 'opts': SC.impl_opts(o)} if ps else {'kind': 'compile', 'text': p[0], 'opts': SC.impl_opts(o)})
                        for p, o, ps in zip(progs, opts, poison)], timeout=20.0)
        a = [(x['results'][-1] if x.get('r') == 'many' else x) for x in raw]
        b = pool.run([{'kind': 'compile', 'text': p[1], 'opts': SC.impl_opts(o)} for p, o in zip(progs, opts)])
    skipped = 0
    for (wc, inl), o, x, y in zip(progs, opts, a, b):
        out['evaluations'] += 1
        if y.get('r') != 'ok':
            skipped += 1            # the hand-inlined text itself is not accepted (not a statement about calls)
            continue
        if x.get('r') != 'ok' or x['css'] != y['css']:
            out['spec_mismatch'].append({'input': {'text': wc, 'inlined': inl, 'opts': o, 'preceded_by': poison[progs.index((wc, inl))]}, 'impl': x, 'spec': {'the hand-inlined program compiles to': y}, 'classes': []})
    out.setdefault('distribution', {})['inline_oracle'] = {'programs': len(progs), 'inlined_text_rejected': skipped}
    return out


replay = P.replay
exemplar_fails = P.exemplar_fails
