"""C05 — calling a mixin is equivalent to inlining its body with parameters bound."""
from . import sheetprop as P

FEATURES = ['amp', 'media', 'leadcomb']
RULE = ('generated mixin programs: 1-3 definitions (arity 0-3, trailing defaults, bodies with declarations using the parameters, nested rules, &-selectors, '
        '@media, nested calls, @arguments), 1-3 call sites before/after the definitions with literal / multi-token arguments separated by , or ;, an '
        'ordinary rule used as a mixin; the real output is compared byte-for-byte with the Coq evaluator model (parameters bound in the caller frame, '
        'as the code does) and item-by-item with the reference semantics (inlining with parameters in a frame of their own); distinct = distinct text; '
        'non-trivial = at least one call with arguments and a body with a nested rule or a nested call; plus the hand-inlining oracle on the real compiler (harness/props/inline_oracle.py): plain calls, namespaces, mixins defined inside mixins, defaults written in terms of other parameters, guarded recursion, top-level calls, one program in four right after a rejected compilation')
ASSUMPTIONS = ['hygiene granted by the property: parameter names are not names of other variables; callers define no local that shadows a global',
               'guards are C06; recursion is C20']
TRUSTED = ['modelled by hand: Deferred.parse / Mixin.call / parse_args as call_mixin + bind_params (coq/Model/Eval.v); reference: sem_call (coq/Spec/Sem.v)']


def nontrivial(sh):
    has_args = any(s[0] == 'rule' and any(c[0] == 'call' and c[2] for c in s[2]) for s in sh)
    rich = any(s[0] == 'mixin' and any(c[0] in ('rule', 'call', 'media') for c in s[3]) for s in sh)
    return has_args and rich


def hook(g, rng):
    return g.mixin_program()


def run(ctx):
    from . import inline_oracle
    out = P.run_sheets(ctx, 5, FEATURES, 150, 4000, depth=2, all_opts=False, wild=False, nontrivial=nontrivial, gen_hook=hook)
    n = (100 if ctx['tier'] == 'quick' else 2500) * ctx.get('mult', 1)
    return inline_oracle.run(ctx, out, n, 505)


replay = P.replay
exemplar_fails = P.exemplar_fails
