"""C02 — decided on generated stylesheets: byte-exact model correspondence + reference-semantics comparison."""
from . import sheetprop as P
from ..gens import sheet as S

FEATURES = "amp,leadcomb,attr,pseudo2,pseudofn".split(',')
RULE = 'see harness/props/sheetprop.py: generated stylesheets with features %s; model compared byte-for-byte, reference semantics compared on the flat items read back from the output CSS by an independent reader' % FEATURES
ASSUMPTIONS = ['the LALR parser builds the node tree that harness/gens/sheet.py:tree() predicts (checked on every case through the byte-exact output comparison); independently of that prediction, the whole pipeline from the source TEXT (coq/Model/Lex.v + Parse.v + Eval.v: compile_text) is compared byte for byte with the real compiler on every case (abstentions counted in distribution.text_pipeline)',
               'harness/readcss.py reads the produced CSS back correctly']
TRUSTED = ['modelled by hand: Identifier.parse/root/fmt, Block.parse (media rotation), Property.parse/fmt, Block.fmt, Formatter, Scope (coq/Model/Ident.v, Eval.v, Fmt.v, Scope.v)',
           'reference semantics coq/Spec/Sem.v']


def nontrivial(sh):
    kind = "nest"
    if kind == 'nest':
        return P.max_depth(sh) >= 2
    if kind == 'media':
        return P.count_kind(sh, 'media') >= 1 and P.max_depth(sh) >= 2
    if kind == 'at':
        return any(s[0] in ('keyframes', 'fontface', 'stmt') for s in sh)
    if kind == 'var':
        return P.count_kind(sh, 'var') >= 1
    return P.count_kind(sh, 'decl') >= 2


def hook(g, rng):
    """besides the free generator: (A) two parents made of the SAME simple selectors, once as a compound (.a.b) and once as a list
    (.a, .b), also one level down through & (&.a&.b / &.a, &.b), each holding the same nested selector list; (B) products of
    selector lists beyond 256 combinations (5 x 4 x 4 x 4, or several & under several parents)"""
    k = rng.random()
    if k < 0.75:
        sh = g.sheet(nunits=rng.choice([1, 1, 2, 3]), depth=rng.randint(1, 3))
        return sh if S.sel_count(sh) <= 40 else None
    cls = lambda n: ('class', '.' + n)
    if k < 0.97:
        a, b = rng.sample(['a', 'b', 'c1', 'nav', 'x-1'], 2)
        child = g.selectors(nested=True)
        mk = lambda: ('rule', [list(x) for x in child], [g.decl([])], {'sp_brace': True})
        compound = [[cls(a), cls(b)]]
        listed = [[cls(a)], [cls(b)]]
        if rng.random() < 0.5:
            units = [('rule', compound, [mk()], {'sp_brace': True}), ('rule', listed, [mk()], {'sp_brace': True})]
        else:
            outer = g.selectors(False)
            units = [('rule', outer, [('rule', [[('amp',), cls(a), ('amp',), cls(b)]], [mk()], {'sp_brace': True}),
                                      ('rule', [[('amp',), cls(a)], [('amp',), cls(b)]], [mk()], {'sp_brace': True})], {'sp_brace': True})]
        if rng.random() < 0.5:
            units.reverse()
        return units + g.sheet(nunits=1, depth=1)
    # large products
    names = ['a', 'b', 'c', 'd', 'e', 'f', 'g', 'h', 'i', 'j', 'k', 'l', 'm', 'n', 'o', 'p', 'q', 'r']
    rng.shuffle(names)
    if rng.random() < 0.5:
        lv = [names[0:5], names[5:9], names[9:13], names[13:17]]
        node = ('rule', [[cls(x)] for x in lv[3]], [g.decl([]), ('rule', [[('comb', '>', False), cls('z')]], [g.decl([])], {'sp_brace': True})], {'sp_brace': True})
        for level in (lv[2], lv[1], lv[0]):
            node = ('rule', [[cls(x)] for x in level], [node], {'sp_brace': True})
        return [node]
    parents = [[cls(x)] for x in names[:rng.choice([4, 5])]]
    amps = [('amp',), ('comb', '+', True), ('amp',), ('comb', '+', True), ('amp',), ('comb', '+', True), ('amp',)]
    return [('rule', parents, [('rule', [amps], [g.decl([]), ('rule', [[('amp',), cls('w')]], [g.decl([])], {'sp_brace': True})], {'sp_brace': True})], {'sp_brace': True})]


def run(ctx):
    from . import inline_oracle
    out = P.run_sheets(ctx, 2, FEATURES, 120, 3000, depth=3, all_opts=False, wild=False, nontrivial=nontrivial, gen_hook=hook, max_sels=450)
    # nested rules that come out of mixins (called in rules, at the top level, through namespaces, defined inside other mixins) must combine
    # with the selector at the call site exactly like the same rules written there; one program in four follows a rejected compilation
    n = (60 if ctx['tier'] == 'quick' else 1500) * ctx.get('mult', 1)
    return inline_oracle.run(ctx, out, n, 202, label='rules_from_mixins_vs_rules_written_in_place')


replay = P.replay
exemplar_fails = P.exemplar_fails
