"""C10 — the output is plain CSS and a fixed point of the compiler (metamorphic checks on the real compiler,
on generated programs of all fragments and on the project's own corpus)."""
import random, re, glob, os, difflib
from .. import impl, sheetcases as SC, readcss
from ..gens import sheet as S
from . import sheetprop as P

RULE = ('cases = generated programs (nesting, &, @media, variables, at-rules, strings, url()) under random option vectors o1, o2 and '
        'every file of /repo/test/less: (1) compile(o1, s) contains no variable, &, guard, mixin call/definition, no rule inside a rule; '
        '(2) compile(o1, compile(o1, s)) == compile(o1, s) whenever the front end accepts the output; (3) compile(o2, compile(o1, s)) == '
        'compile(o2, s); distinct = distinct source text; non-trivial = the source uses at least one LESS feature')
ASSUMPTIONS = ['this property is decided directly on the real compiler (metamorphic); the Coq obligations are the structure theorems it rests on '
               '(no rule inside a rule / no @media inside a rule / no variable token in an evaluated value)']
TRUSTED = ['the plain-CSS detector below (regex-based, quote aware)']
LEVEL_NOTE = 'partial'
FEATURES = ['media', 'amp', 'leadcomb', 'var', 'keyframes', 'fontface', 'stmt', 'str', 'rstr', 'istr', 'url', 'attr', 'pseudo2', 'pseudofn', 'noglue']     # noglue: no '&&' (two parents glued: 'nav'+'h1' = an element name the front end does not read back)


def strip_strings(css):
    return re.sub(r'"[^"]*"|\'[^\']*\'', '""', css)


def plain_problem(css):
    body = strip_strings(css)
    body = re.sub(r'/\*.*?\*/', '', body, flags=re.S)
    m = re.search(r'@(?!media\b|charset\b|import\b|font-face\b|(-\w+-)?keyframes\b|(-ms-)?viewport\b|page\b|namespace\b)[\w-]+', body)
    if m:
        return 'variable or unknown at-word %r' % m.group(0)
    if re.search(r'@\{', body):
        return 'interpolation @{ left in the output'
    if '&' in re.sub(r'\([^)]*\)', '()', body):
        return '& left in the output'
    if re.search(r'\bwhen\b\s*(not\s*)?\(', body):
        return 'guard left in the output'
    if re.search(r'(^|[;{}])\s*[.#][\w-]+\s*\([^)]*\)\s*(;|\{)', body):
        return 'mixin call or definition left in the output'
    # rule nested in a rule (other than inside an at-rule block)
    stack = []
    for kind, t in readcss._scan(css):
        if kind == 'open':
            is_at = t.lstrip().startswith('@')
            if stack and stack[-1] == 'rule' and not is_at:
                return 'rule nested in a rule: %r' % t[:60]
            if stack and stack[-1] == 'rule' and t.lower().lstrip().startswith('@media'):
                return '@media inside a rule'
            stack.append('at' if is_at else 'rule')
        elif kind == 'close' and stack:
            stack.pop()
    return None


def run(ctx):
    rng = random.Random(ctx['seed'] * 1000003 + 10)
    n = (150 if ctx['tier'] == 'quick' else 3000) * ctx.get('mult', 1)
    out = {'evaluations': 0, 'spec_mismatch': [], 'model_mismatch': [], 'harness_errors': []}
    cases = []
    while len(cases) < n:
        g = S.Gen(rng, FEATURES)
        k = rng.random()
        if k < 0.3:
            gm = S.Gen(rng, ['media', 'amp', 'attr', 'istr'])
            sh = gm.mixin_program()
        else:
            names = rng.sample(['@i1', '@i2', '@n'], rng.randint(0, 2))       # identifier / number valued, for "..@{name}.." strings
            g.ivars = names
            sh = [('var', nm, [rng.choice([('num', '5'), ('word', 'foo'), ('num', '12px')])]) for nm in names] + g.sheet(nunits=rng.choice([1, 2, 3]), depth=rng.randint(1, 3))
            if names and rng.random() < 0.35:
                # comma lists holding interpolated strings whose literal pieces are quote marks of the other kind, commas, blanks
                a, b = names[0], names[-1]
                forms = ['"@{%s}\'@{%s}"' % (a[1:], b[1:]), '\'say "@{%s}"\'' % a[1:], '"my \'@{%s}\'"' % b[1:], '"@{%s},@{%s}"' % (a[1:], b[1:]),
                         '"@{%s}\'"' % a[1:], '\'"@{%s}\'' % b[1:], '"@{%s} , \' ,"' % a[1:]]
                items = [rng.choice(forms + ['" - "', 'serif', '"end"', '1px']) for _ in range(rng.randint(2, 4))]
                sh.append(('stmt', ['.q%d { content: %s; font-family: %s; }\n' % (rng.randrange(99), ', '.join(items), rng.choice(forms))]))
        if k < 0.5:
            # calls that yield nothing (guard not satisfied, empty mixin, unknown mixin) next to local variable definitions, local
            # variables only, calls only: such rules have nothing to print (raw text units: this check needs no node tree)
            extra = ['.gq(@x) when (@x > 5) { width: @x }\n', '.nothing() {}\n']
            for j in range(rng.randint(1, 4)):
                body = []
                for _ in range(rng.randint(1, 3)):
                    body.append(rng.choice(['@w: %d;' % rng.choice([1, 3, 9, 12]), '.gq(@w);', '.gq(%d);' % rng.choice([2, 7]), '.nothing();', '.no-such-mixin();', '@k: 2px;']))
                if '.gq(@w);' in body and not any(b.startswith('@w') for b in body):
                    body.insert(0, '@w: %d;' % rng.choice([1, 9]))
                body.sort(key=lambda b: 0 if b.startswith('@') else 1)
                sel = rng.choice(['.e%d' % j, '.e%d .in' % j, 'p.e%d, .f%d' % (j, j)])
                inner = ' '.join(body)
                extra.append(rng.choice(['%s { %s }\n' % (sel, inner), '.o%d { color: red; %s { %s } }\n' % (j, sel, inner), '@media print { %s { %s } }\n' % (sel, inner)]))
            rng.shuffle(extra)
            for e in extra:
                sh.insert(rng.randint(0, len(sh)), ('stmt', [e]))
        if rng.random() < 0.4:
            # function calls in values: calc() over variables defined through other variables, functions lesscpy does not define (less.js
            # names among them) with colour / percentage arguments at their boundaries, followed or not by another value
            j = rng.randrange(99)
            fn = rng.choice(['fade', 'tint', 'shade', 'fadein', 'contrast', 'alpha', 'clamp', 'min', 'translate', 'drop-shadow'])
            amt = rng.choice(['100%', '0%', '50%', '100', '0', '1', '0.5'])
            tail = rng.choice(['', ' none', ' 1px'])
            lines = ['@gutw%d: %s;\n@gut%d: @gutw%d;\n@col%d: %s;\n' % (j, rng.choice(['10px', '10%', '2em']), j, j, j, rng.choice(['#123456', '#abc', 'red'])),
                     '.fn%d { width: calc(100%% - @gut%d); margin: -webkit-calc(@gut%d * 2); color: %s(@col%d, %s)%s; }\n' % (j, j, j, fn, j, amt, tail)]
            at = rng.randint(0, len(sh))
            for k2, e in enumerate(lines):
                sh.insert(at + k2, ('stmt', [e]))
        if S.sel_count(sh) > 30:
            continue
        cases.append({'sheet': sh, 'text': S.show(sh, S.Layout(rng)), 'o1': rng.choice(SC.ALL_OPTS), 'o2': rng.choice(SC.ALL_OPTS),
                      'classes': P.classes_of(sh, recompiled=True)})
    corpus = sorted(glob.glob(os.path.join(impl.REPO, 'test/less/*.less')) + glob.glob(os.path.join(impl.REPO, 'test/less/issues/*.less')))
    excluded = []
    with impl.Pool() as pool:
        c1 = pool.run([{'kind': 'compile', 'text': c['text'], 'opts': SC.impl_opts(c['o1'])} for c in cases])
        c2 = pool.run([{'kind': 'compile', 'text': a.get('css', ''), 'opts': SC.impl_opts(c['o1'])} for c, a in zip(cases, c1)])
        c3 = pool.run([{'kind': 'compile', 'text': a.get('css', ''), 'opts': SC.impl_opts(c['o2'])} for c, a in zip(cases, c1)])
        d3 = pool.run([{'kind': 'compile', 'text': c['text'], 'opts': SC.impl_opts(c['o2'])} for c in cases])
        # corpus (read from the files so that imports resolve)
        copts = [{}, {'minify': True}] if ctx['tier'] == 'quick' else [{}, {'minify': True}, {'xminify': True}, {'tabs': True}, {'spaces': 4}]
        k1 = pool.run([{'kind': 'compile_file', 'path': f, 'opts': SC.impl_opts(o)} for f in corpus for o in copts])
        k2 = pool.run([{'kind': 'compile', 'text': a.get('css', ''), 'opts': SC.impl_opts(o)} for (f, o), a in zip([(f, o) for f in corpus for o in copts], k1)])

    def bad(inp, impl_obs, why, classes):
        out['spec_mismatch'].append({'input': inp, 'impl': impl_obs, 'spec': why, 'classes': classes})
    for c, a1, a2, a3, b3 in zip(cases, c1, c2, c3, d3):
        out['evaluations'] += 1
        inp = {'text': c['text'], 'opts': c['o1'], 'opts2': c['o2']}
        if a1.get('r') != 'ok':
            continue                                 # failing compilations are C15's subject
        why = plain_problem(a1['css'])
        if why:
            bad(inp, a1, 'output is not plain CSS: ' + why, c['classes'])
            continue
        if a2.get('r') == 'ok' and a2['css'] != a1['css']:
            bad(inp, {'first': a1['css'][:1500], 'second': a2['css'][:1500]}, 'not a fixed point: compile(o, compile(o, s)) != compile(o, s)', c['classes'])
        elif a2.get('r') != 'ok':
            bad(inp, {'first': a1['css'][:1500], 'second': a2}, 'the front end rejects the output of a program of the verified fragment', c['classes'])
        elif a3.get('r') == 'ok' and b3.get('r') == 'ok' and a3['css'] != b3['css']:
            bad(inp, {'via_output': a3['css'][:1500], 'direct': b3['css'][:1500]}, 'compile(o2, compile(o1, s)) != compile(o2, s)', c['classes'])
    # ---- the model pipeline (text -> CSS inside Coq) on the same programs: byte for byte under o1 (abstains on guards and other constructs outside the fragment)
    if ctx.get('model_usable', True):
        from .. import coqrun
        trows, tmeta = [], []
        for c, a1 in zip(cases, c1):
            if a1.get('r') in ('ok', 'error'):
                term = 'text_case %s %s %s' % (SC.opts_term(c['o1']), coqrun.coq_str(c['text']), coqrun.coq_res(a1))
                trows.append(('bool', '(fst (%s))' % term, '(snd (%s))' % term)); tmeta.append((c, a1))
        badr, diag, errs = coqrun.evaluate(trows, ['Model.Ast', 'Model.Fmt', 'Model.Eval', 'Model.Pipeline'], os.path.join(ctx['scratch'], 'pipe%d' % ctx.get('mult', 1)), shard=40, tag='pipe')
        out['harness_errors'] += errs
        pabst = 0
        for k in badr:
            if diag.get(k, '').startswith('ABSTAIN'):
                pabst += 1
                continue
            c, a1 = tmeta[k]
            out['model_mismatch'].append({'input': {'text': c['text'], 'opts': c['o1'], 'via': 'text pipeline (Lex + Parse + Eval)'}, 'impl': a1, 'model': diag.get(k, '')[:2000], 'classes': c['classes']})
        out['evaluations'] += len(trows)
        pipe_stats = {'cases': len(trows), 'abstains': pabst}
    else:
        pipe_stats = None
    i = 0
    for f in corpus:
        for o in copts:
            a, b = k1[i], k2[i]; i += 1
            out['evaluations'] += 1
            name = os.path.basename(f)
            if a.get('r') != 'ok':
                excluded.append({'file': name, 'why': 'does not compile: %s' % (a.get('msg') or a.get('type'))[:80]})
                continue
            if b.get('r') != 'ok':
                excluded.append({'file': name, 'opts': o, 'why': 'its output is rejected when compiled again (outside the CSS lesscpy accepts)'})
                continue
            if b['css'] != a['css']:
                diff = [l for l in difflib.unified_diff(a['css'].split('\n'), b['css'].split('\n'), lineterm='', n=0) if l[:1] in '+-' and l[:3] not in ('+++', '---')]
                bad({'file': f, 'opts': o}, {'diff': diff[:10]}, 'corpus file is not a fixed point', ['corpus:' + name])
    out['distinct_nontrivial'] = len({c['text'] for c in cases if P.count_kind(c['sheet'], 'var') or P.max_depth(c['sheet']) >= 2}) + len(corpus)
    out['samples'] = [{'text': c['text'][:300], 'o1': c['o1'], 'o2': c['o2']} for c in cases[:3]]
    ex = {}
    for e in excluded:
        ex.setdefault(e['file'], e['why'])
    out['distribution'] = {'text_pipeline': pipe_stats, 'generated': len(cases), 'corpus_files': len(corpus), 'corpus_option_vectors': len(copts),
                           'corpus_excluded (as the property says)': ex}
    return out


def exemplar_fails(ctx, finding):
    ex = finding.get('exemplar', {})
    if 'file' not in ex:
        return None
    path = os.path.join(impl.REPO, ex['file'])
    with impl.Pool(1) as pool:
        a = pool.run([{'kind': 'compile_file', 'path': path, 'opts': {}}])[0]
        if a.get('r') != 'ok':
            return False
        b = pool.run([{'kind': 'compile', 'text': a['css'], 'opts': {}}])[0]
    return b.get('r') == 'ok' and b['css'] != a['css']


def replay(case):
    inp = case['input']
    with impl.Pool(1) as pool:
        if 'file' in inp:
            a = pool.run([{'kind': 'compile_file', 'path': inp['file'], 'opts': SC.impl_opts(inp.get('opts', {}))}])[0]
        else:
            a = pool.run([{'kind': 'compile', 'text': inp['text'], 'opts': SC.impl_opts(inp.get('opts', {}))}])[0]
        b = pool.run([{'kind': 'compile', 'text': a.get('css', ''), 'opts': SC.impl_opts(inp.get('opts', {}))}])[0] if a.get('r') == 'ok' else None
    still = bool(b and b.get('r') == 'ok' and b['css'] != a['css']) or bool(a.get('r') == 'ok' and plain_problem(a['css']))
    return {'input': inp, 'first': a, 'second': b, 'still_fails': still}
