"""C16 — batch mode rebuilds exactly the stale files, isolates files, matches the library.
Histories of operations on real scratch directories; every run of the real command line is compared with the
Coq model of ldirectory (which outputs are rewritten, their bytes, what is left untouched)."""
import os, random, shutil, subprocess, tempfile, json, concurrent.futures as cf
from .. import impl, coqrun

MODS = ['Model.Cli']
RULE = ('cases = operation histories (random operations, then always: a run, one source rewritten or touched, the same run again) {create/modify/touch a source (mtimes set explicitly), re-stamp an output older/equal/newer, run the real '
        'command line with a random subset of -f -D -m -r -x -X -t -s N -I} over a tree with two levels, a hidden directory and non-.less '
        'files; after EVERY run the whole output tree (names, bytes, which files were rewritten) is compared with the Coq model of ldirectory, '
        'whose compile oracle is a single-file run of the real command line with the same options and includes; plus single-file mode vs '
        'library; distinct = distinct (pre-state, flags); non-trivial = the run rewrites some files and leaves others untouched')
ASSUMPTIONS = ['mtimes are set with os.utime to a logical clock, outputs written by a run are re-stamped to the next clock value (so the ordering '
               'relations are controlled and deterministic)', 'glob order is whatever the OS gives; files are created in random order']
TRUSTED = ['modelled by hand: ldirectory (naming, staleness, force, dry-run, min-ending, recurse, hidden/outpath exclusion); the staleness '
           'comparison and the per-file scope copy are regenerated from scripts/compiler.py',
           'the compile oracle is the real single-file command line (property: batch bytes == compiling that file alone)']
LEVEL = 'proof'

POOL = ['.a{color:red}\n', '.b{width:1px + 2}\n.c{.d{top:0}}\n', '@x: 3px;\n.e{margin:@x}\n', '.f{color:#abc}\n@media print{.f{top:1px}}\n',
        '.g{&:hover{left:0}}\n', '@x: 9px;\n.h{height:@x * 2}\n', '.m(@a){width:@a}\n.i{.m(4px)}\n', '.j{padding:1px 2px}\n']
POOL_INC = ['.k{color:@inc}\n', '.l{.incmix()}\n']          # need the include file
INCLUDE = '@inc: #123456;\n.incmix(){border:1px solid}\n'


def coq_files(files):
    return '[' + '; '.join('(%s, MkFile %s (%d)%%Z)' % (coqrun.coq_str(n), coqrun.coq_str(b), m) for n, (b, m) in sorted(files.items())) + ']'


def coq_dir(d):
    return '(Dir %s [%s])' % (coq_files(d['files']), '; '.join('(%s, %s)' % (coqrun.coq_str(n), coq_dir(s)) for n, s in sorted(d['subs'].items())))


def read_tree(path):
    d = {'files': {}, 'subs': {}}
    if not os.path.isdir(path):
        return None
    for n in os.listdir(path):
        p = os.path.join(path, n)
        if os.path.isdir(p):
            d['subs'][n] = read_tree(p)
        else:
            with open(p, 'r', newline='') as f:
                d['files'][n] = (f.read(), os.stat(p).st_mtime_ns)
    return d


def restamp(path, tree, pre, clock):
    """files whose (bytes, mtime) differ from the pre-state were written by the run: give them the logical time `clock`;
    returns the normalised tree (mtimes as logical ints)"""
    out = {'files': {}, 'subs': {}}
    for n, (b, m) in tree['files'].items():
        old = (pre or {'files': {}})['files'].get(n)
        if old is not None and old[1] == m:
            out['files'][n] = (b, old[2])
        else:
            os.utime(os.path.join(path, n), ns=(clock * TICK, clock * TICK))
            out['files'][n] = (b, clock)
    for n, s in tree['subs'].items():
        out['subs'][n] = restamp(os.path.join(path, n), s, (pre or {'subs': {}})['subs'].get(n), clock)
    return out


def snapshot(path):
    """(bytes, real mtime_ns, logical) is kept in the harness state; here: bytes and real mtime"""
    return read_tree(path)


# one tick of the logical clock is a quarter of a second of file time: consecutive logical times usually fall inside the same whole
# second, so a staleness test that looks at whole seconds only is seen
TICK = 250 * 10 ** 6


class World:
    def __init__(self, root, rng):
        self.root = root
        self.rng = rng
        self.clock = 1000
        self.src = os.path.join(root, 'src')
        self.out = os.path.join(root, 'out')
        os.makedirs(self.src)
        self.logical = {}          # path -> logical mtime

    def tick(self):
        self.clock += 1
        return self.clock

    def write(self, rel, text):
        p = os.path.join(self.src, rel)
        os.makedirs(os.path.dirname(p), exist_ok=True)
        with open(p, 'w', newline='') as f:
            f.write(text)
        self.touch(rel)

    def touch(self, rel, t=None):
        p = os.path.join(self.src, rel)
        t = t or self.tick()
        os.utime(p, ns=(t * TICK, t * TICK))

    def tree_logical(self, path):
        d = {'files': {}, 'subs': {}}
        if not os.path.isdir(path):
            return None
        for n in os.listdir(path):
            p = os.path.join(path, n)
            if os.path.isdir(p):
                d['subs'][n] = self.tree_logical(p)
            else:
                with open(p, 'r', newline='') as f:
                    d['files'][n] = (f.read(), os.stat(p).st_mtime_ns // TICK)
        return d


def flags_cli(fl):
    a = []
    for k, sw in (('force', '-f'), ('dry', '-D'), ('min', '-m'), ('recurse', '-r'), ('minify', '-x'), ('xminify', '-X'), ('tabs', '-t')):
        if fl.get(k):
            a.append(sw)
    if 'spaces' in fl:
        a += ['-s', str(fl['spaces'])]
    return a


def fmt_flags_cli(fl):
    a = []
    for k, sw in (('minify', '-x'), ('xminify', '-X'), ('tabs', '-t')):
        if fl.get(k):
            a.append(sw)
    if 'spaces' in fl:
        a += ['-s', str(fl['spaces'])]
    return a


def run_cli(args, cwd, scratch):
    env = dict(os.environ, PYTHONPATH=impl.REPO, PYTHONHASHSEED='0', TMPDIR=scratch, PYTHONDONTWRITEBYTECODE='1')
    p = subprocess.run([impl.PY, '-W', 'ignore', '-m', 'lesscpy'] + args, capture_output=True, text=True, env=env, cwd=cwd, timeout=120)
    return p


def existing_any(src):
    for dp, dn, fn in os.walk(src):
        if any(n.endswith('.less') for n in fn):
            return True
    return False


def one_history(seed, tier, base):
    rng = random.Random(seed)
    root = tempfile.mkdtemp(prefix='h%d-' % (seed % 100000), dir=base)
    tmp = os.path.join(root, 'tmp'); os.makedirs(tmp)
    w = World(root, rng)
    use_inc = rng.random() < 0.35
    inc_path = os.path.join(root, 'inc.less')
    if use_inc:
        with open(inc_path, 'w') as f:
            f.write(INCLUDE)
    pool = POOL + (POOL_INC if use_inc else [])
    names = ['a.less', 'b.less', 'c.less', 'sub/d.less', 'sub/e.less', '.hid/z.less', 'sub/deep/f.less', 'x.min.less']
    rng.shuffle(names)
    for rel in names[:rng.choice([2, 3, 4, 5])]:
        w.write(rel, rng.choice(pool))
    if rng.random() < 0.5:
        w.write('notes.txt', 'not less\n')
    records = []
    oracle_jobs = {}
    nops = rng.choice([4, 5, 6, 7]) if tier == 'quick' else rng.choice([5, 7, 9])
    last_run = False
    # the random operations, then always: a plain run, ONE source rewritten or touched, the same run again (a mixed run: one output
    # must be rewritten, the others left alone)
    tail_flags = {'force': False, 'dry': False, 'min': rng.random() < 0.3, 'recurse': rng.random() < 0.7}
    plan = [None] * nops + ['run', rng.choice(['modify', 'touch']), 'run']
    for forced in plan:
        k = rng.random()
        if forced == 'run':
            k = 0.9
        elif forced == 'modify':
            k = 0.2
        elif forced == 'touch':
            k = 0.35
        elif last_run and existing_any(w.src):
            k = rng.choice([0.2, 0.2, 0.35, 0.45, k])       # after a run: usually change ONE source / output, so the next run is a mixed one
        last_run = False
        existing = []
        for dp, dn, fn in os.walk(w.src):
            for n in fn:
                if n.endswith('.less'):
                    existing.append(os.path.relpath(os.path.join(dp, n), w.src))
        if k < 0.15:
            w.write(rng.choice(names), rng.choice(pool))
        elif k < 0.3 and existing:
            w.write(rng.choice(existing), rng.choice(pool))
        elif k < 0.4 and existing:
            w.touch(rng.choice(existing))
        elif k < 0.5 and os.path.isdir(w.out):
            # re-stamp an output to be older than / equal to / newer than its source
            outs = []
            for dp, dn, fn in os.walk(w.out):
                outs += [os.path.join(dp, n) for n in fn]
            if outs:
                o = rng.choice(outs)
                rel = os.path.relpath(o, w.out)
                srcp = os.path.join(w.src, rel.replace('.min.css', '.less').replace('.css', '.less'))
                if os.path.exists(srcp):
                    st = os.stat(srcp).st_mtime_ns // TICK
                    t = st + rng.choice([-1, 0, 1])
                    os.utime(o, ns=(t * TICK, t * TICK))
        else:
            last_run = True
            fl = {'force': rng.random() < 0.25, 'dry': rng.random() < 0.15, 'min': rng.random() < 0.3, 'recurse': rng.random() < 0.6}
            for kf in ('minify', 'xminify', 'tabs'):
                if rng.random() < 0.2:
                    fl[kf] = True
            if rng.random() < 0.3:
                fl['spaces'] = rng.choice([0, 1, 4])
            if forced == 'run':
                fl = dict(tail_flags)
            pre_src = w.tree_logical(w.src)
            pre_out = w.tree_logical(w.out)
            args = flags_cli(fl) + (['-I', inc_path] if use_inc else []) + ['-o', 'out', 'src']
            p = run_cli(args, root, tmp)
            now = w.tick()
            post_real = w.tree_logical(w.out)
            # normalise: a file whose bytes+mtime are unchanged keeps its logical time, a written one gets `now`
            post = normalise(w.out, post_real, pre_out, now)
            records.append({'flags': fl, 'inc': use_inc, 'pre_src': pre_src, 'pre_out': pre_out, 'post': post, 'now': now,
                            'stdout': p.stdout[-400:], 'stderr': p.stderr[-400:], 'rc': p.returncode, 'root': root})
    return root, records, inc_path if use_inc else None


def normalise(path, tree, pre, now):
    if tree is None:
        return None
    out = {'files': {}, 'subs': {}}
    for n, (b, m) in tree['files'].items():
        old = (pre or {'files': {}})['files'].get(n)
        if old is not None and old[1] == m and old[0] == b:
            out['files'][n] = (b, m)
        elif old is not None and old[1] == m:
            out['files'][n] = (b, m)            # bytes changed but the time stamp did not: report as is (would be a mismatch)
        else:
            os.utime(os.path.join(path, n), ns=(now * TICK, now * TICK))
            out['files'][n] = (b, now)
    for n, s in tree['subs'].items():
        out['subs'][n] = normalise(os.path.join(path, n), s, (pre or {'subs': {}})['subs'].get(n), now)
    return out


def all_sources(tree, acc):
    if tree is None:
        return acc
    for n, (b, m) in tree['files'].items():
        if n.endswith('.less'):
            acc.add(b)
    for s in tree['subs'].values():
        all_sources(s, acc)
    return acc


def run(ctx):
    rng = random.Random(ctx['seed'] * 1000003 + 16)
    nh = (24 if ctx['tier'] == 'quick' else 300) * ctx.get('mult', 1)
    base = tempfile.mkdtemp(prefix='lessverif-c16-')
    out = {'evaluations': 0, 'spec_mismatch': [], 'model_mismatch': [], 'harness_errors': []}
    try:
        seeds = [rng.randrange(10 ** 9) for _ in range(nh)]
        with cf.ThreadPoolExecutor(12) as ex:
            hist = list(ex.map(lambda s: one_history(s, ctx['tier'], base), seeds))
        # ---- compile oracle: single-file command line with the same formatting flags and include
        jobs = {}
        for root, records, inc in hist:
            for r in records:
                for src in all_sources(r['pre_src'], set()):
                    key = (src, tuple(fmt_flags_cli(r['flags'])), bool(inc))
                    jobs.setdefault(key, None)
        odir = os.path.join(base, 'oracle'); os.makedirs(odir)
        with open(os.path.join(odir, 'inc.less'), 'w') as f:
            f.write(INCLUDE)

        def oracle(item):
            i, key = item
            src, fl, inc = key
            p = os.path.join(odir, 'o%d.less' % i)
            with open(p, 'w', newline='') as f:
                f.write(src)
            tmp = os.path.join(odir, 't%d' % i); os.makedirs(tmp, exist_ok=True)
            r = run_cli(list(fl) + (['-I', os.path.join(odir, 'inc.less')] if inc else []) + [p], odir, tmp)
            css = r.stdout
            return key, (css[:-1] if css.endswith('\n') else css)
        with cf.ThreadPoolExecutor(16) as ex:
            for key, css in ex.map(oracle, list(enumerate(jobs))):
                jobs[key] = css
        # ---- compare every run with the model
        rows, recs = [], []
        for root, records, inc in hist:
            for r in records:
                table = [(src, jobs[(src, tuple(fmt_flags_cli(r['flags'])), bool(inc))]) for src in sorted(all_sources(r['pre_src'], set()))]
                comp = '(fun x : str => match assoc x [%s] with Some c => c | None => $"<no oracle>" end)' % '; '.join(
                    '(%s, %s)' % (coqrun.coq_str(a), coqrun.coq_str(b)) for a, b in table)
                fl = r['flags']
                flt = '(MkFlags %s %s %s %s)' % tuple('true' if fl.get(k) else 'false' for k in ('force', 'dry', 'min', 'recurse'))
                pre_out = coq_opt_dir(r['pre_out'])
                post = coq_opt_dir(r['post'])
                model = '(ldirectory %s (%d)%%Z 8 %s %s %s %s)' % (comp, r['now'], flt, coqrun.coq_str('out'), coq_dir(r['pre_src']), pre_out)
                rows.append(('bool', '(odir_eqb %s %s)' % (model, post), '(show_odir %s)' % model))
                recs.append({'input': {'flags': fl, 'include': bool(inc), 'pre_src': r['pre_src'], 'pre_out': r['pre_out']},
                             'impl': {'post': r['post'], 'stdout': r['stdout'], 'stderr': r['stderr']}, 'classes': []})
        wd = os.path.join(ctx['scratch'], 'cli%d' % ctx.get('mult', 1))
        bad, diag, errs = (coqrun.evaluate(rows, MODS + ['Model.CliCases'], wd, tag='m', shard=30) if ctx.get('model_usable', True) else ([], {}, []))
        out['harness_errors'] += errs
        for i in bad:
            recs[i]['spec'] = diag.get(i)
            out['spec_mismatch'].append(recs[i])        # the model IS the specification of batch mode (oracle = compiling alone)
        out['evaluations'] = len(rows)
        nontriv = 0
        keys = set()
        for r in recs:
            post, pre = r['impl']['post'], r['input']['pre_out']
            keys.add(json.dumps([r['input']['flags'], r['input']['pre_src'], pre], sort_keys=True, default=str))
            def flat(t, pfx=''):
                d = {pfx + n: v for n, v in (t or {'files': {}})['files'].items()}
                for n, sub in (t or {'subs': {}})['subs'].items():
                    d.update(flat(sub, pfx + n + '/'))
                return d
            fpost, fpre = flat(post), flat(pre)
            if fpost and fpre and any(fpost.get(n) != v for n, v in fpre.items()) and any(fpost.get(n) == v for n, v in fpre.items()):
                nontriv += 1
        out['distinct_nontrivial'] = max(nontriv, 0)
        out['samples'] = [{'flags': r['input']['flags'], 'src': sorted(r['input']['pre_src']['files']), 'post': sorted((r['impl']['post'] or {'files': {}})['files'])} for r in recs[:4]]
        fd = {}
        for r in recs:
            k = ','.join(sorted(k for k, v in r['input']['flags'].items() if v is True)) or '(none)'
            fd[k] = fd.get(k, 0) + 1
        out['distribution'] = {'histories': nh, 'runs': len(recs), 'flag_sets': fd, 'distinct_pre_states': len(keys), 'oracle_compilations': len(jobs)}
        # ---- single-file mode == library
        with impl.Pool() as pool:
            libs = pool.run([{'kind': 'compile', 'text': s, 'opts': {'spaces': 2}} for s in POOL])
        for s, a in zip(POOL, libs):
            out['evaluations'] += 1
            if a.get('r') == 'ok' and jobs.get((s, (), False), a['css']) != a['css']:
                out['spec_mismatch'].append({'input': {'text': s, 'mode': 'single file'}, 'impl': {'cli': jobs.get((s, (), False)), 'lib': a['css']},
                                             'spec': 'single-file command line differs from the library result', 'classes': []})
    finally:
        shutil.rmtree(base, ignore_errors=True)
    return out


def coq_opt_dir(d):
    return '(Some %s)' % coq_dir(d) if d is not None else 'None'


def replay(case):
    return {'input': case['input'], 'note': 'rebuild the pre-state in a scratch directory and run: python -m lesscpy <flags> -o out src', 'still_fails': None}
