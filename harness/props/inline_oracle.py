"""The inlining oracle, on the real compiler only: a program with mixin calls against the same program with every call replaced, by hand, by the
body of the mixin with the arguments written in place of the parameters.  Used by C05 (the property itself) and C02 (nested rules produced
by mixins must combine with the caller's selector exactly like rules written there)."""
import random
from .. import impl, sheetcases as SC

# ---- the property itself, on the real compiler only: a program with calls vs the same program with every call replaced, by hand, by the
# body of the mixin with the arguments written in place of the parameters.  Bodies use arithmetic, built-in functions of the parameters,
# strings with @{param}, nested rules and @media: constructs outside the evaluator model.
BODY_DECLS = ['width: (ceil({a}) * 2)', 'height: {a} + 1', 'margin: round({a}) {b}', 'padding: ({a} * 2) ({b} + 1)', 'top: floor({a} / 2)', 'left: -{a}',
              'content: "v{ia}w"', 'border: {b} solid', 'line-height: percentage(0.5) {a}', 'font-size: increment({a})', 'z-index: {b}', 'min-width: ({a} + {b}) * 2',
              'max-width: ceil({a} + 0.5)']
ARGS = ['1.5px', '3.5px', '2', '10px', '7.25em', '0.5', '12pt', '4']


def inline_program(rng):
    nm = rng.randint(1, 2)
    defs = []
    for i in range(nm):
        decls = rng.sample(BODY_DECLS, rng.randint(1, 3))
        nested = rng.random() < 0.4
        media = rng.random() < 0.25
        defs.append({'name': '.mx%d' % i, 'decls': decls, 'nested': rng.choice(['.in', '&:hover', '> .k']) if nested else None,
                     'nested_decl': rng.choice(BODY_DECLS), 'media': media, 'media_decl': rng.choice(BODY_DECLS)})

    def body(d, a, b, ia):
        f = lambda s: s.format(a=a, b=b, ia=ia)
        out = ''.join('  %s;\n' % f(x) for x in d['decls'])
        if d['nested']:
            out += '  %s { %s; }\n' % (d['nested'], f(d['nested_decl']))
        if d['media']:
            out += '  @media print { %s; }\n' % f(d['media_decl'])
        return out
    with_calls, inlined = '', ''
    for d in defs:
        with_calls += '%s(@a; @b) {\n%s}\n' % (d['name'], body(d, '@a', '@b', '@{a}'))
    if rng.random() < 0.5:
        # a mixin made of nested rules only, called at the TOP level of the sheet
        w = rng.choice(ARGS)
        with_calls += '.cols(@w) {\n  .col-1 { width: @w; }\n  .col-2 > em { width: (@w * 2); }\n}\n.cols(%s);\n' % w
        inlined += '.col-1 { width: %s; }\n.col-2 > em { width: (%s * 2); }\n' % (w, w)
    ncall = rng.randint(2, 4)
    # arguments that are variables whose VALUE mentions a variable named like a parameter of the callee (@a / @b): the argument means its
    # value at the call site, the callee's parameters must not capture the names inside it
    indirect = rng.random() < 0.35
    if indirect:
        ga, gb = rng.choice(ARGS), rng.choice(ARGS)
        pre = '@a: %s;\n@b: %s;\n@ua: @b;\n@ub: @a;\n@uc: @ua;\n' % (ga, gb)
        with_calls = pre + with_calls
        inlined = pre + inlined
    for c in range(ncall):
        d = rng.choice(defs)
        a, b = rng.choice(ARGS), rng.choice(ARGS)
        if indirect and rng.random() < 0.7:
            a, b = rng.choice([('@ua', '@ub'), ('@ub', b), (a, '@ua'), ('@uc', '@ub'), ('@b', '@a')])
        own = 'color: red;\n' if rng.random() < 0.5 else ''
        sep = rng.choice([';', ','])
        with_calls += '.call%d {\n%s  %s(%s%s %s);\n}\n' % (c, own, d['name'], a, sep, b)
        inlined += '.call%d {\n%s%s}\n' % (c, own, body(d, a, b, ('@{%s}' % a[1:]) if a.startswith('@') else a))
    if rng.random() < 0.5:           # definitions after the calls
        lines = with_calls.split('}\n')
    return with_calls, inlined



NESTS = ['.in', '&:hover', '> .k', '.u, .v', '& + .s']


def namespace_program(rng):
    """a namespace holding a helper with a nested rule and a main mixin that calls the helper by its short name; called as #ns > .main(..)"""
    d1, d2 = rng.sample(BODY_DECLS, 2)
    nest = rng.choice(NESTS)
    f = lambda s, a: s.format(a=a, b=a, ia=('@{%s}' % a[1:]) if a.startswith('@') else a)
    with_calls = '#ns%d {\n  .helper(@v) { %s; %s { %s; } }\n  .main(@v) { .helper(@v); }\n}\n' % (rng.randrange(9), f(d1, '@v'), nest, f(d2, '@v'))
    ns = with_calls.split(' ')[0]
    inlined = ''
    for c in range(rng.randint(1, 3)):
        a = rng.choice(ARGS)
        own = 'color: red;\n' if rng.random() < 0.5 else ''
        sel = rng.choice(['.c%d' % c, '.c%d, .d%d' % (c, c), '.c%d .e' % c])
        with_calls += '%s {\n%s  %s > .main(%s);\n}\n' % (sel, own, ns, a)
        inlined += '%s {\n%s  %s;\n  %s { %s; }\n}\n' % (sel, own, f(d1, a), nest, f(d2, a))
    return with_calls, inlined


def local_mixin_program(rng):
    """a mixin defined inside another mixin, with a nested rule, called by its short name from the outer body: directly and from inside a rule"""
    d1, d2 = rng.sample(BODY_DECLS, 2)
    nest = rng.choice(NESTS)
    sel = rng.choice(['.y', '.y, .w', '> .y'])
    a1, a2, k = rng.choice(ARGS), rng.choice(ARGS), rng.choice(ARGS)
    f = lambda s, a, b: s.format(a=a, b=b, ia=('@{%s}' % a[1:]) if a.startswith('@') else a)
    direct = rng.random() < 0.6
    with_calls = ('.outer(@k) {\n  .loc(@j) { %s; %s { %s; } }\n  %s { .loc(%s); }\n%s}\n'
                  % (f(d1, '@j', '@k'), nest, f(d2, '@j', '@k'), sel, a1, ('  .loc(%s);\n' % a2) if direct else ''))
    psel = rng.choice(['.p', '.p, .q', '.p .r'])
    with_calls += '%s { .outer(%s); }\n' % (psel, k)
    inlined = '%s {\n  %s { %s; %s { %s; } }\n%s}\n' % (psel, sel, f(d1, a1, k), nest, f(d2, a1, k),
                                                          ('  %s;\n  %s { %s; }\n' % (f(d1, a2, k), nest, f(d2, a2, k))) if direct else '')
    return with_calls, inlined


def default_program(rng):
    """a default written in terms of another parameter; the mixin called twice in the same rule with the defaulted argument omitted, and in a
    guarded recursion"""
    d = rng.choice(['top: {a}; left: {b}', 'margin: {a} {b}', 'width: ({b} + 1)'])
    dflt = rng.choice(['@a', '(@a * 2)', '(@a + 1)'])
    sub = lambda a: {'@a': a, '(@a * 2)': '(%s * 2)' % a, '(@a + 1)': '(%s + 1)' % a}[dflt]
    f = lambda s, a, b: s.format(a=a, b=b)
    with_calls = '.m(@a; @b: %s) { %s; }\n' % (dflt, f(d, '@a', '@b'))
    inlined = ''
    for c in range(rng.randint(1, 2)):
        args = [rng.choice(ARGS) for _ in range(rng.randint(2, 3))]
        with_calls += '.c%d {\n%s}\n' % (c, ''.join('  .m(%s);\n' % a for a in args))
        inlined += '.c%d {\n%s}\n' % (c, ''.join('  %s;\n' % f(d, a, sub(a)) for a in args))
    if rng.random() < 0.5:
        n = rng.randint(1, 4)
        with_calls += '.rec(@n; @d: (@n * 2)) when (@n > 0) { w: @d; .rec(@n - 1); }\n.r { .rec(%d); }\n' % n
        inlined += '.r {\n%s}\n' % ''.join('  w: (%d * 2);\n' % i for i in range(n, 0, -1))
    return with_calls, inlined


def any_program(rng):
    k = rng.random()
    if k < 0.5:
        wc, inl = inline_program(rng)
    elif k < 0.67:
        wc, inl = namespace_program(rng)
    elif k < 0.84:
        wc, inl = local_mixin_program(rng)
    else:
        wc, inl = default_program(rng)
    if rng.random() < 0.4:
        # a mixin holding nested rules, called at the TOP level of the sheet (no enclosing rule at all)
        i = rng.randrange(9)
        body = '.x%d { color: red; .y { top: 1px; } > .z { left: 0; } }' % i
        wc += '.tl%d() { %s }\n.tl%d();\n' % (i, body, i)
        inl += body + '\n'
    return wc, inl


# rejected while EVALUATING something nested (not while parsing): the compilation stops in the middle of rules / calls
EVAL_POISON = ['.p { .q { width: @undefined-panel; } }', '.sidebar { .panel { width: @panel-width; } }', '.stale { .deep { .deeper { w: @nope; } } }',
               '.in() { width: @nope; }\n.out() { .in(); }\n.r { .out(); }', '.m() { .m(); }\n.x { .m(); }', '@media print { .u { left: @nope; } }']


def run(ctx, out, n, salt, label='inline_oracle'):
    rng = random.Random(ctx['seed'] * 1000003 + salt)
    progs = [any_program(rng) for _ in range(n)]
    opts = [rng.choice(SC.ALL_OPTS) for _ in progs]
    with impl.Pool() as pool:
        # one program in four runs right after a rejected compilation in the same worker process
        poison = [rng.choice(EVAL_POISON if rng.random() < 0.6 else SC.POISON) if rng.random() < 0.3 else None for _ in progs]
        raw = pool.run([({'kind': 'compile_many', 'texts': [ps, p[0]], 'opts': SC.impl_opts(o)} if ps else {'kind': 'compile', 'text': p[0], 'opts': SC.impl_opts(o)})
                        for p, o, ps in zip(progs, opts, poison)], timeout=20.0)
        a = [(x['results'][-1] if x.get('r') == 'many' else x) for x in raw]
        b = pool.run([{'kind': 'compile', 'text': p[1], 'opts': SC.impl_opts(o)} for p, o in zip(progs, opts)])
    skipped = 0
    for k, ((wc, inl), o, x, y) in enumerate(zip(progs, opts, a, b)):
        out['evaluations'] += 1
        if y.get('r') != 'ok':
            skipped += 1            # the hand-inlined text itself is not accepted (not a statement about calls)
            continue
        if x.get('r') != 'ok' or x['css'] != y['css']:
            out['spec_mismatch'].append({'input': {'text': wc, 'inlined': inl, 'opts': o, 'preceded_by': poison[k]}, 'impl': x,
                                         'spec': {'the hand-inlined program compiles to': y}, 'classes': []})
    out.setdefault('distribution', {})[label] = {'programs': len(progs), 'distinct': len({p[0] for p in progs}), 'inlined_text_rejected': skipped}
    return out
