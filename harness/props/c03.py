"""C03 — decided on generated stylesheets: byte-exact model correspondence + reference-semantics comparison."""
from . import sheetprop as P

FEATURES = "var,media,amp".split(',')
RULE = 'indirect references @@p at several nesting levels against the same program with the target written directly (real compiler on both sides); see harness/props/sheetprop.py: generated stylesheets with features %s; model compared byte-for-byte, reference semantics compared on the flat items read back from the output CSS by an independent reader' % FEATURES
ASSUMPTIONS = ['the LALR parser builds the node tree that harness/gens/sheet.py:tree() predicts (checked on every case through the byte-exact output comparison); independently of that prediction, the whole pipeline from the source TEXT (coq/Model/Lex.v + Parse.v + Eval.v: compile_text) is compared byte for byte with the real compiler on every case (abstentions counted in distribution.text_pipeline)',
               'harness/readcss.py reads the produced CSS back correctly']
TRUSTED = ['modelled by hand: Identifier.parse/root/fmt, Block.parse (media rotation), Property.parse/fmt, Block.fmt, Formatter, Scope (coq/Model/Ident.v, Eval.v, Fmt.v, Scope.v)',
           'reference semantics coq/Spec/Sem.v']


def nontrivial(sh):
    kind = "var"
    if kind == 'nest':
        return P.max_depth(sh) >= 2
    if kind == 'media':
        return P.count_kind(sh, 'media') >= 1 and P.max_depth(sh) >= 2
    if kind == 'at':
        return any(s[0] in ('keyframes', 'fontface', 'stmt') for s in sh)
    if kind == 'var':
        return P.count_kind(sh, 'var') >= 1
    return P.count_kind(sh, 'decl') >= 2


def shadow_pattern(g, rng):
    """an enclosing block that refers to a name AFTER a nested block defined and used the same name (and variations:
    several nested blocks, definitions at every level, chains of variable-to-variable references)"""
    k = rng.random()
    if k < 0.2:
        return g.mixin_program()          # variables as mixin arguments (named like the callee's parameters, forwarded, swapped)
    if k < 0.55:
        return g.sheet(nunits=rng.choice([1, 1, 2, 3]), depth=rng.randint(1, 3))
    names = ['@a', '@b', '@c']
    vals = ['1px', '2em', 'red', '#abc', '3px solid', '10%', 'bold']

    def val(scope):
        if scope and rng.random() < 0.3:
            return [('var', rng.choice(scope))]
        v = rng.choice(vals).split(' ')
        out = []
        for i, w in enumerate(v):
            if i:
                out.append(('sp',))
            out.append(('color', w) if w.startswith('#') else (('num', w) if w[0].isdigit() else ('word', w)))
        return out
    sheet = []
    top = []
    mentioned = set()          # names that occur inside some variable's value: never redefined afterwards (side condition)
    for nm in names:
        if rng.random() < 0.6:
            v = val([x for x in top])
            mentioned.update(it[1] for it in v if it[0] == 'var')
            sheet.append(('var', nm, v))
            top.append(nm)

    def block(depth, visible, sel):
        body = []
        here = list(visible)
        defined = set()

        def use():
            if here:
                body.append(('decl', rng.choice(['width', 'color', 'margin', 'top']), [('var', rng.choice(here))], False))
        for _ in range(rng.choice([1, 2, 3])):
            k = rng.random()
            if k < 0.35:
                cand = [n for n in names if n not in defined and n not in mentioned]
                if cand:
                    nm = rng.choice(cand)
                    # the value may refer to OTHER visible names only (no self reference)
                    v = val([x for x in here if x != nm])
                    mentioned.update(it[1] for it in v if it[0] == 'var')
                    body.append(('var', nm, v))
                    defined.add(nm)
                    if nm not in here:
                        here.append(nm)
            elif k < 0.7 and depth > 0:
                body.append(block(depth - 1, here, [[('class', '.n%d' % rng.randrange(9))]]))
                use()                    # a use directly after the nested block closed
            else:
                use()
        if not any(s[0] == 'decl' for s in body):
            body.append(('decl', 'top', [('num', '0')], False))
        return ('rule', sel, body, {'sp_brace': True})
    # a name may not be used inside a block before that block's own definition of it: `use` only picks visible names and
    # definitions come at most once, but a use of an outer binding followed by a local definition would violate the side
    # condition, so reject such bodies
    def ok(stmts):
        for s in stmts:
            if s[0] == 'rule':
                used = set()
                for c in s[2]:
                    if c[0] == 'decl':
                        used.update(it[1] for it in c[2] if it[0] == 'var')
                    elif c[0] == 'var':
                        if c[1] in used:
                            return False
                        used.update(it[1] for it in c[2] if it[0] == 'var')
                if not ok(s[2]):
                    return False
        return True
    for _ in range(rng.choice([1, 2])):
        sheet.append(block(rng.choice([1, 2, 3]), top, [[('class', '.r%d' % rng.randrange(9))]]))
    if rng.random() < 0.3 and top:
        sheet.append(('rule', [[('class', '.last')]], [('decl', 'width', [('var', rng.choice(top))], False)], {'sp_brace': True}))
    return sheet if ok(sheet) else None


# ---- indirect references @@p (outside the evaluator model): a program using @@p against the same program with @<target> written in
# its place, both through the real compiler.  The pointer and the target are defined at different nesting levels, the target is
# redefined between the pointer's level and the use, or defined only near the use.
def indirect_program(rng):
    tgt = rng.choice(['a', 'b', 'col'])
    q = rng.choice(['"', "'"])
    vals = ['1px', '2em', '3px solid', 'red', '#aabbcc', '10%']
    depth = rng.randint(1, 3)
    p_level = rng.randint(0, depth)                      # where the pointer is defined (0 = top level)
    t_levels = sorted(rng.sample(range(0, depth + 1), rng.randint(1, min(3, depth + 1))))   # where the target is (re)defined
    use_levels = [l for l in range(1, depth + 1) if l >= p_level and l >= t_levels[0]]
    if not use_levels:
        use_levels = [depth]; p_level = min(p_level, depth); t_levels = [0]

    def build(ref):
        def level(l):
            out = ''
            if l == p_level:
                out += '@p: %s%s%s;\n' % (q, tgt, q)
            if l in t_levels:
                out += '@%s: %s;\n' % (tgt, vals[(l + len(tgt)) % len(vals)])
            if l >= 1 and l in use_levels:
                out += 'width: %s;\n' % ref
            if l < depth:
                out += '.n%d {\n%s}\n' % (l + 1, level(l + 1))
                if l >= 1 and l in use_levels and rng_after[l]:
                    out += 'margin: %s;\n' % ref          # a use after the nested block closed
            return out
        return level(0)
    rng_after = {l: rng.random() < 0.5 for l in range(0, depth + 1)}
    return build('@@p'), build('@' + tgt)


def run(ctx):
    import random
    from .. import impl, sheetcases as SC
    out = P.run_sheets(ctx, 3, FEATURES, 160, 4000, depth=3, all_opts=False, wild=False, nontrivial=nontrivial, gen_hook=shadow_pattern)
    rng = random.Random(ctx['seed'] * 1000003 + 303)
    n = (60 if ctx['tier'] == 'quick' else 1500) * ctx.get('mult', 1)
    progs = [indirect_program(rng) for _ in range(n)]
    with impl.Pool() as pool:
        a = pool.run([{'kind': 'compile', 'text': p[0], 'opts': {}} for p in progs])
        b = pool.run([{'kind': 'compile', 'text': p[1], 'opts': {}} for p in progs])
    skipped = 0
    for (ind, direct), x, y in zip(progs, a, b):
        out['evaluations'] += 1
        if y.get('r') != 'ok':
            skipped += 1
            continue
        if x.get('r') != 'ok' or x['css'] != y['css']:
            out['spec_mismatch'].append({'input': {'text': ind, 'with_direct_reference': direct, 'opts': {}}, 'impl': x,
                                         'spec': {'the program with the target written directly compiles to': y}, 'classes': []})
    out.setdefault('distribution', {})['indirect_references'] = {'programs': len(progs), 'distinct': len({p[0] for p in progs}), 'direct_text_rejected': skipped}
    return out


replay = P.replay
exemplar_fails = P.exemplar_fails
