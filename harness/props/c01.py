"""C01 — decided on generated stylesheets: byte-exact model correspondence + reference-semantics comparison."""
from . import sheetprop as P

FEATURES = "attr,pseudo2,pseudofn,str,url,media,star".split(',')
RULE = 'see harness/props/sheetprop.py: generated stylesheets with features %s; model compared byte-for-byte, reference semantics compared on the flat items read back from the output CSS by an independent reader' % FEATURES
ASSUMPTIONS = ['the LALR parser builds the node tree that harness/gens/sheet.py:tree() predicts (checked on every case through the byte-exact output comparison); independently of that prediction, the whole pipeline from the source TEXT (coq/Model/Lex.v + Parse.v + Eval.v: compile_text) is compared byte for byte with the real compiler on every case (abstentions counted in distribution.text_pipeline)',
               'harness/readcss.py reads the produced CSS back correctly']
TRUSTED = ['modelled by hand: Identifier.parse/root/fmt, Block.parse (media rotation), Property.parse/fmt, Block.fmt, Formatter, Scope (coq/Model/Ident.v, Eval.v, Fmt.v, Scope.v)',
           'reference semantics coq/Spec/Sem.v']


def nontrivial(sh):
    kind = "plain"
    if kind == 'nest':
        return P.max_depth(sh) >= 2
    if kind == 'media':
        return P.count_kind(sh, 'media') >= 1 and P.max_depth(sh) >= 2
    if kind == 'at':
        return any(s[0] in ('keyframes', 'fontface', 'stmt') for s in sh)
    if kind == 'var':
        return P.count_kind(sh, 'var') >= 1
    return P.count_kind(sh, 'decl') >= 2


def run(ctx):
    def hook(g, rng):
        if rng.random() < 0.25:
            g.star_p = 0.8          # sheets with many universal selectors (several '*' in one selector list)
        return g.sheet(nunits=rng.choice([1, 1, 2, 3]), depth=rng.randint(1, 3))
    return P.run_sheets(ctx, 1, FEATURES, 120, 3000, depth=3, all_opts=True, wild=0.35, nontrivial=nontrivial, gen_hook=hook)


replay = P.replay
exemplar_fails = P.exemplar_fails
