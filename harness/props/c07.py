"""C07 — decided on generated stylesheets: byte-exact model correspondence + reference-semantics comparison."""
from . import sheetprop as P

FEATURES = "media,amp".split(',')
RULE = 'see harness/props/sheetprop.py: generated stylesheets with features %s; model compared byte-for-byte, reference semantics compared on the flat items read back from the output CSS by an independent reader' % FEATURES
ASSUMPTIONS = ['the LALR parser builds the node tree that harness/gens/sheet.py:tree() predicts (checked on every case through the byte-exact output comparison); independently of that prediction, the whole pipeline from the source TEXT (coq/Model/Lex.v + Parse.v + Eval.v: compile_text) is compared byte for byte with the real compiler on every case (abstentions counted in distribution.text_pipeline)',
               'harness/readcss.py reads the produced CSS back correctly']
TRUSTED = ['modelled by hand: Identifier.parse/root/fmt, Block.parse (media rotation), Property.parse/fmt, Block.fmt, Formatter, Scope (coq/Model/Ident.v, Eval.v, Fmt.v, Scope.v)',
           'reference semantics coq/Spec/Sem.v']


def nontrivial(sh):
    kind = "media"
    if kind == 'nest':
        return P.max_depth(sh) >= 2
    if kind == 'media':
        return P.count_kind(sh, 'media') >= 1 and P.max_depth(sh) >= 2
    if kind == 'at':
        return any(s[0] in ('keyframes', 'fontface', 'stmt') for s in sh)
    if kind == 'var':
        return P.count_kind(sh, 'var') >= 1
    return P.count_kind(sh, 'decl') >= 2


def hook(g, rng):
    """besides the free generator: (A) an @media that receives SEVERAL inner @media during rotation (written directly in it, through rules,
    through &-rules, mixed); (B) variables as media feature values, defined at top level and shadowed by rules lying between two @media"""
    k = rng.random()
    if k < 0.55:
        return g.sheet(nunits=rng.choice([1, 1, 2, 3]), depth=rng.randint(1, 3))

    pool = []          # queries already used in this sheet: the same query text comes back in sibling and nested positions

    def q(first, var=None):
        if not first and not var and pool and rng.random() < 0.45:
            return rng.choice(pool)
        typ, feats = g.query(allow_type=first)
        if not first and not var:
            pool.append((None if not first else typ, feats) if not first else (typ, feats))
        if var and rng.random() < 0.7:
            f = rng.choice(['min-width', 'max-width', 'min-height'])
            feats = feats[:1] + [(f, var)] if rng.random() < 0.5 else [(f, var)] + feats[:1]
            if not first:
                typ = None
        return (typ, feats)

    def inner(var, depth=0):
        body = [g.decl([])]
        if depth < 1 and rng.random() < 0.4:
            body.append(('media', q(False, var), [g.decl([])]))
        return ('media', q(False, var), body)

    var = '@mw' if k >= 0.8 else None
    kids = []
    for _ in range(rng.choice([2, 2, 3])):
        shape = rng.random()
        if shape < 0.4:
            kids.append(inner(var))
        else:
            body = []
            if var and rng.random() < 0.6:
                body.append(('var', var, [('num', rng.choice(['7px', '20em', '300px']))]))      # shadows the outer definition between the two @media
            if rng.random() < 0.5:
                body.append(g.decl([]))
            body.append(inner(var))
            if rng.random() < 0.3:
                body.append(inner(var))
            kids.append(('rule', g.selectors(nested=True), body, {'sp_brace': True}))
    if rng.random() < 0.5:
        kids.insert(rng.randint(0, len(kids)), g.decl([]) if rng.random() < 0.5 else g.rule(0, True, []))
    outer = ('media', q(True, var), kids)
    sh = []
    if not var and rng.random() < 0.5:
        # two different top-level rules whose bubbled queries are identical, the second one with unconditional declarations of its own
        qq = ('print' if rng.random() < 0.5 else None, [('min-width', '100px')] if rng.random() < 0.7 else [])
        if not qq[0] and not qq[1]:
            qq = ('print', [])
        r1 = ('rule', g.selectors(False), [('media', qq, [g.decl([])])], {'sp_brace': True})
        r2 = ('rule', g.selectors(False), [g.decl([]), ('media', qq, [g.decl([])]), g.decl([])], {'sp_brace': True})
        mid = [g.rule(0, False, [])] if rng.random() < 0.5 else []
        sh += [r1] + mid + [r2]
    if var:
        sh.append(('var', var, [('num', rng.choice(['5px', '10em', '640px']))]))
    if rng.random() < 0.6 or not all(x[0] == 'rule' for x in kids):
        pre = [('var', var, [('num', '9px')])] if (var and rng.random() < 0.4) else []
        top = ('rule', g.selectors(False), pre + [x for x in [g.decl([])] if rng.random() < 0.5] + [outer], {'sp_brace': True})
        # declarations directly inside an @media need an enclosing rule
        sh.append(top)
    else:
        sh.append(outer)
    return sh


def run(ctx):
    return P.run_sheets(ctx, 7, FEATURES, 120, 3000, depth=3, all_opts=False, wild=False, nontrivial=nontrivial, gen_hook=hook)


replay = P.replay
exemplar_fails = P.exemplar_fails
