"""C14 — @import of a LESS file equals textual inclusion; other imports are kept; a missing file is reported.

A generated program is cut, at top-level statement boundaries, into a random tree of files and sub-directories (nested cuts,
imports spelled with and without extension, with ./ and ../, 'sub/../x', both quote kinds, url("...")).  The real compiler runs
on the main file of the tree on disk.  Compared: (a) the property itself: the CSS of the tree == the CSS of the pasted,
single-text program (both through the real compiler, same options); (b) the import model (coq/Model/Import.v: which imports
are LESS imports, path resolution relative to the importing file, recursion limit, splice position) followed by the evaluator
model, byte for byte; (c) one imported file removed from the tree: must be CompilationError (model: Err too); (d) every
non-LESS import form stays in place (features 'stmt': part of the programs, checked through (a),(b) and C01)."""
import os, random, shutil, tempfile
from .. import impl, coqrun, sheetcases as SC
from ..gens import sheet as S
from . import sheetprop as P

FEATURES = 'media,amp,stmt,str,url,attr,var,isel,istr,keyframes,fontface'.split(',')
RULE = ('cases = (program, file tree, options); the tree is compiled from disk by the real compiler and compared with the pasted single text (real compiler) and with the import + evaluator '
        'model; one case in four has an imported file removed (must be an error); chains of nested imports of every depth up to the deepest accepted; a tree with a broken imported file compiled, repaired and compiled again in one process; distinct = distinct (program, tree); non-trivial = at least two files, or a sub-directory, or a nested import')
ASSUMPTIONS = ['files are cut at top-level statement boundaries (an @import statement stands where a top-level statement can stand)',
               'the temporary tree is the only thing on the import path (os.path.exists against real directories)']
TRUSTED = ['modelled by hand: p_statement_import (coq/Model/Import.v), evaluator (coq/Model/Eval.v)', 'the pasted text is what textual inclusion means (harness/gens/sheet.py show)']
LEVEL = 'other'
EXPLANATION = ('partial: proved on the import model (C14_position, C14_import_equals_paste, C14_missing_reported, C14_too_deep_reported, C14_other_imports_kept); that the real parser shares '
               'one scope across files and splices the units as the model says is decided by the correspondence against pasted text and against the model on random file trees')
MODS = ['Model.Ast', 'Model.Fmt', 'Model.Eval', 'Model.Import']
IMPORT_LIMIT = 8          # hops; compared with the regenerated Gen.PLimits.import_depth_limit by C20_limits


def rel_spelling(rng, from_dir, to_dir, name, made_dirs):
    """a path string that leads from from_dir to to_dir/name"""
    common = 0
    while common < len(from_dir) and common < len(to_dir) and from_dir[common] == to_dir[common]:
        common += 1
    parts = ['..'] * (len(from_dir) - common) + list(to_dir[common:])
    if rng.random() < 0.15 and len(to_dir) > common:           # a detour through an existing directory: sub/../sub/x
        parts = parts[:len(from_dir) - common] + [to_dir[common], '..'] + list(to_dir[common:])
    fname = name if rng.random() < 0.5 else name[:-5]            # extension optional
    s = '/'.join(parts + [fname])
    if rng.random() < 0.25 and not s.startswith('..'):
        s = './' + s
    return s


def split_files(rng, units, cur_dir, files, depth, counter, stats):
    out = []
    i = 0
    while i < len(units):
        if depth < 4 and rng.random() < (0.4 if depth == 0 else 0.3):
            k = rng.randint(1, min(3, len(units) - i))
            seg = units[i:i + k]
            choice = rng.random()
            if choice < 0.45:
                child_dir = list(cur_dir)
            elif choice < 0.85 or not cur_dir:
                child_dir = list(cur_dir) + ['s%d' % rng.randint(0, 2)]
                stats['subdirs'] += 1
            else:
                child_dir = list(cur_dir[:-1])
                stats['parent_dirs'] += 1
            # a small pool of names: the same relative name may exist in several directories of the tree
            name = rng.choice(['vars.less', 'f1.less', 'f2.less', 'index.less'])
            while tuple(child_dir + [name]) in files or (not child_dir and name == 'main.less'):
                counter[0] += 1
                name = 'f%d.less' % (counter[0] + 2)
            files[tuple(child_dir + [name])] = None           # reserved
            child_units = split_files(rng, seg, child_dir, files, depth + 1, counter, stats)
            files[tuple(child_dir + [name])] = child_units
            sp = rel_spelling(rng, cur_dir, child_dir, name, None)
            q = rng.choice(['"', "'"])
            text = ('@import url(%s%s%s);' if rng.random() < 0.2 else '@import %s%s%s;') % (q, sp, q)
            out.append(('import', sp, text, tuple(child_dir + [name])))
            stats['imports'] += 1
            stats['max_depth'] = max(stats['max_depth'], depth + 1)
            i += k
        else:
            out.append(('node', units[i]))
            i += 1
    return out


def file_text(units, L):
    parts = []
    for u in units:
        parts.append(u[2] if u[0] == 'import' else S.show_stmts([u[1]], L))
    return '\n'.join(parts) + '\n'


def fs_term(files):
    rows = []
    for path, units in files.items():
        us = []
        for u in units:
            if u[0] == 'import':
                us.append('UImport [] %s' % coqrun.coq_str(u[1]))
            else:
                us += ['UNode (%s)' % t for t in S.tree_stmts([u[1]])]
        rows.append('(%s, %s)' % (S.coq_list(coqrun.coq_str(c) for c in path), S.coq_list(us)))
    return S.coq_list(rows)


def gen_program(rng):
    g = S.Gen(rng, FEATURES)
    names = rng.sample(['@i1', '@i2', '@n'], rng.randint(0, 2))
    g.ivars = names
    prelude = [('var', nm, [rng.choice([('num', '5'), ('word', 'foo'), ('num', '12px')])]) for nm in names]
    sh = prelude + g.sheet(nunits=rng.choice([2, 3, 4, 5]), depth=rng.randint(1, 2))
    if rng.random() < 0.35:
        # a top-level variable defined twice, used after both definitions (the second definition often ends up in an imported file)
        nm = '@re%d' % rng.randint(0, 9)
        a, b = rng.choice([('1px', '2px'), ('red', 'blue'), ('10%', '20%')])
        i = rng.randint(0, len(sh))
        sh.insert(i, ('var', nm, [('num', a)]))
        j = rng.randint(i + 1, len(sh))
        sh.insert(j, ('var', nm, [('num', b)]))
        k = rng.randint(j + 1, len(sh))
        sh.insert(k, ('rule', [[('class', '.use-%s' % nm[1:])]], [('decl', 'width', [('var', nm)], False)], {'sp_brace': True}))
    if rng.random() < 0.35:
        # a top-level variable used BEFORE its (single) definition: when the use ends up in an imported file, the file needs a
        # definition the importer makes later
        nm = '@late%d' % rng.randint(0, 9)
        i = rng.randint(0, len(sh))
        sh.insert(i, ('rule', [[('class', '.early-%s' % nm[1:])]], [('decl', 'height', [('var', nm)], False)], {'sp_brace': True}))
        j = rng.randint(i + 1, len(sh))
        sh.insert(j, ('var', nm, [('num', rng.choice(['5px', '2em', '40%']))]))
    return sh


def run(ctx):
    rng = random.Random(ctx['seed'] * 1000003 + 14)
    quick = ctx['tier'] == 'quick'
    n = (90 if quick else 2500) * ctx.get('mult', 1)
    out = {'evaluations': 0, 'spec_mismatch': [], 'model_mismatch': [], 'harness_errors': []}
    base = tempfile.mkdtemp(prefix='lessverif-c14-')
    cases = []
    agg = {'imports': 0, 'subdirs': 0, 'parent_dirs': 0, 'max_depth': 0, 'missing_file_cases': 0, 'duplicate_imports': 0}
    try:
        tries = 0
        while len(cases) < n and tries < n * 20:
            tries += 1
            sh = gen_program(rng)
            if S.sel_count(sh) > 24 or S.has_amp_after_bracket(sh):
                continue
            files = {}
            stats = {'imports': 0, 'subdirs': 0, 'parent_dirs': 0, 'max_depth': 0}
            main_units = split_files(rng, sh, [], files, 0, [0], stats)
            if not stats['imports']:
                continue
            if rng.random() < 0.35:
                # the same file imported a second time, later in one of the files (pasting puts its text there twice)
                holders = [u for u in list(files.values()) + [main_units] if u and any(x[0] == 'import' for x in u)]
                if holders:
                    h = rng.choice(holders)
                    imp_units = [x for x in h if x[0] == 'import']
                    dup = rng.choice(imp_units)
                    at = rng.randint(h.index(dup) + 1, len(h))
                    h.insert(at, dup)
                    stats['duplicate_imports'] = stats.get('duplicate_imports', 0) + 1
            files[('main.less',)] = main_units
            L = S.Layout(rng)
            root = os.path.join(base, 'c%d' % len(cases))
            removed = None
            if rng.random() < 0.25:
                removed = rng.choice([p for p in files if p != ('main.less',)])
            for path, units in files.items():
                full = os.path.join(root, *path)
                os.makedirs(os.path.dirname(full), exist_ok=True)
                if path != removed:
                    open(full, 'w').write(file_text(units, L))
            model_files = {p: u for p, u in files.items() if p != removed}
            for k2, v2 in stats.items():
                agg[k2] = max(agg[k2], v2) if k2 == 'max_depth' else agg[k2] + v2
            agg['missing_file_cases'] += 1 if removed else 0
            def paste(units, cur_dir):
                out = []
                for u in units:
                    if u[0] == 'import':
                        out.append(paste(files[u[3]], list(u[3][:-1])))
                    else:
                        out.append(S.show_stmts([u[1]], L))
                return '\n'.join(out)
            cases.append({'sheet': sh, 'root': root, 'files': model_files, 'removed': removed, 'pasted': paste(main_units, []) + '\n', 'opts': rng.choice(SC.ALL_OPTS),
                          'tree_text': {'/'.join(p): (file_text(u, L) if p != removed else None) for p, u in files.items()}, 'stats': stats})
        with impl.Pool() as pool:
            a_tree = pool.run([{'kind': 'compile_file', 'path': os.path.join(c['root'], 'main.less'), 'opts': SC.impl_opts(c['opts'])} for c in cases], timeout=30)
            a_flat = pool.run([{'kind': 'compile', 'text': c['pasted'], 'opts': SC.impl_opts(c['opts'])} for c in cases], timeout=30)
        # ---- chains of nested imports up to the deepest level the code accepts (every file adds a variable and a rule and uses the
        # variable of the file it imports), and one level beyond: == the pasted text
        lim = IMPORT_LIMIT
        chain_cases = []
        for hops in list(range(1, lim + 2)) + [lim + 1]:
            root = os.path.join(base, 'chain%d_%d' % (hops, len(chain_cases)))
            os.makedirs(root)
            sub = rng.random() < 0.5
            texts = []
            for i in range(hops + 1):
                own = '@v%d: %dpx;\n.r%d { width: @v%d; %s }\n' % (i, i + 1, i, i, ('height: @v%d;' % (i + 1)) if i < hops else '')
                texts.append(own)
                d = os.path.join(root, *(['s'] * (i % 2 if sub else 0)))
                os.makedirs(d, exist_ok=True)
                imp = ''
                if i < hops:
                    nxt_in_sub = sub and ((i + 1) % 2 == 1)
                    here_in_sub = sub and (i % 2 == 1)
                    rel = ('s/' if nxt_in_sub and not here_in_sub else ('../' if here_in_sub and not nxt_in_sub else '')) + 'c%d' % (i + 1)
                    imp = '@import "%s";\n' % rel
                open(os.path.join(d, 'c%d.less' % i), 'w').write(imp + own)
            pasted = ''.join(reversed(texts))                 # the innermost file's text comes first (imports stand at the top)
            chain_cases.append({'root': root, 'hops': hops, 'pasted': pasted})
        # ---- a tree whose imported file is broken (rejected), then repaired, compiled again in the SAME process: == the pasted text
        hist_cases = []
        for k in range(6 if quick else 60):
            root = os.path.join(base, 'hist%d' % k)
            good = '@hv: %dpx;\n.imp%d { top: @hv; }\n' % (k + 1, k)
            bad = rng.choice(['.imp { top: ;\n', '@import "no-such-file-%d";\n' % k + good, '.imp { top: @undefined-%d; }\n' % k, good + '}\n'])
            main = '@import "%s";\n.main%d { left: @hv; }\n' % (rng.choice(['part', 'part.less', './part']), k)
            ops = [['write', os.path.join(root, 'main.less'), main], ['write', os.path.join(root, 'part.less'), bad], ['compile', os.path.join(root, 'main.less')],
                   ['write', os.path.join(root, 'part.less'), good], ['compile', os.path.join(root, 'main.less')]]
            hist_cases.append({'ops': ops, 'pasted': good + '.main%d { left: @hv; }\n' % k, 'bad': bad})
        with impl.Pool() as pool:
            c_tree = pool.run([{'kind': 'compile_file', 'path': os.path.join(c['root'], 'c0.less'), 'opts': {}} for c in chain_cases], timeout=30)
            c_flat = pool.run([{'kind': 'compile', 'text': c['pasted'], 'opts': {}} for c in chain_cases], timeout=30)
            h_res = pool.run([{'kind': 'file_history', 'ops': c['ops'], 'opts': {}} for c in hist_cases], timeout=60)
            h_flat = pool.run([{'kind': 'compile', 'text': c['pasted'], 'opts': {}} for c in hist_cases], timeout=30)
        for c, t, f in zip(chain_cases, c_tree, c_flat):
            out['evaluations'] += 1
            if c['hops'] <= lim + 1 and not (t.get('r') == 'ok' and f.get('r') == 'ok' and t.get('css') == f.get('css')):
                out['spec_mismatch'].append({'input': {'chain_of_nested_imports': c['hops'], 'pasted': c['pasted'], 'opts': {}}, 'impl': t,
                                             'spec': {'the pasted single text compiles to': f}, 'classes': []})
        for c, t, f in zip(hist_cases, h_res, h_flat):
            out['evaluations'] += 1
            rs = t.get('results') or [{}, {}]
            if not (len(rs) == 2 and rs[0].get('r') == 'error' and rs[1].get('r') == 'ok' and f.get('r') == 'ok' and rs[1].get('css') == f.get('css')):
                out['spec_mismatch'].append({'input': {'history': [[o[0], os.path.basename(o[1])] + o[2:] for o in c['ops']], 'pasted': c['pasted'], 'opts': {}}, 'impl': t,
                                             'spec': {'first compilation: error; second (file repaired): the pasted single text, which compiles to': f}, 'classes': []})
        agg['import_chains'] = len(chain_cases)
        agg['broken_then_repaired_histories'] = len(hist_cases)
        rows = []
        nontrivial = 0
        for c, t, f in zip(cases, a_tree, a_flat):
            out['evaluations'] += 1
            inp = {'files': c['tree_text'], 'opts': c['opts'], 'pasted': c['pasted']}
            if len(c['files']) >= 2 or c['stats']['subdirs']:
                nontrivial += 1
            if c['removed']:
                if t.get('r') != 'error':
                    out['spec_mismatch'].append({'input': dict(inp, removed='/'.join(c['removed'])), 'impl': t, 'spec': 'a missing .less file must be reported (CompilationError)', 'classes': []})
            else:
                same = t.get('r') == f.get('r') and t.get('css') == f.get('css')
                if t.get('r') == 'error' and f.get('r') == 'error':
                    same = True
                if not same:
                    out['spec_mismatch'].append({'input': inp, 'impl': t, 'spec': {'the pasted single text compiles to': f}, 'classes': P.classes_of(c['sheet'])})
            rows.append(('(compile_import_case %s 400 %s [%s])' % (SC.opts_term(c['opts']), fs_term(c['files']), coqrun.coq_str('main.less')), coqrun.coq_res(t)))
        if ctx.get('model_usable', True):
            bad, diag, errs = coqrun.evaluate(rows, MODS, os.path.join(ctx['scratch'], 'imp%d' % ctx.get('mult', 1)), tag='imp', shard=30)
            out['harness_errors'] += errs
            for i in bad:
                c = cases[i]
                out['model_mismatch'].append({'input': {'files': c['tree_text'], 'opts': c['opts']}, 'impl': a_tree[i], 'model': diag.get(i), 'classes': P.classes_of(c['sheet'])})
            out['evaluations'] += len(rows)
        out['distinct_nontrivial'] = nontrivial
        out['samples'] = [{'files': c['tree_text'], 'opts': c['opts']} for c in cases[:2]]
        out['distribution'] = dict(agg, programs=len(cases))
        out['traces_validated_against_impl'] = out['evaluations']
    finally:
        shutil.rmtree(base, ignore_errors=True)
    return out


def replay(case):
    inp = case['input']
    root = tempfile.mkdtemp(prefix='lessverif-c14r-')
    try:
        for p, txt in inp['files'].items():
            if txt is None:
                continue
            full = os.path.join(root, p)
            os.makedirs(os.path.dirname(full), exist_ok=True)
            open(full, 'w').write(txt)
        with impl.Pool(1) as pool:
            a = pool.run([{'kind': 'compile_file', 'path': os.path.join(root, 'main.less'), 'opts': SC.impl_opts(inp.get('opts', {}))}], timeout=30)[0]
            b = pool.run([{'kind': 'compile', 'text': inp['pasted'], 'opts': SC.impl_opts(inp.get('opts', {}))}], timeout=30)[0] if 'pasted' in inp else None
        return {'input': inp, 'tree_now': a, 'pasted_now': b, 'model_expected': case.get('model'),
                'still_fails': (b is not None and not inp.get('removed') and (a.get('r'), a.get('css')) != (b.get('r'), b.get('css')))}
    finally:
        shutil.rmtree(root, ignore_errors=True)


def exemplar_fails(ctx, finding):
    return None
