"""C08 — colour literals normalised; colour arithmetic channel-wise and clamped."""
import random, re
from .. import impl, coqrun, valuecases

MODS = ['Model.Color', 'Spec.ColorSpec']
RULE = ('cases = colour expressions `<lit> <op> <lit>` and bare literals placed in a declaration value, a variable or a '
        'function argument, and (3 in 10) evaluated a SECOND time: inside a mixin called before with other colours, or through a variable used before in a block where its operands have other values; literals of 3 or 6 digits with random letter case, channel values biased to 0, 1, 254, 255 and '
        'to operands whose result is exactly at / just across the clamp bounds; distinct = distinct (literal, op, literal, '
        'context); non-trivial = the two operands differ in at least one channel and the result is not equal to an operand')
ASSUMPTIONS = ['Python float a/b for 0<=a,b<=255 truncates like the exact quotient (checked exhaustively in the thorough tier)',
               'the front end (PLY lexer/parser) delivers colour literals to Color.fmt / Expression.parse as modelled; tied by correspondence']
TRUSTED = ['modelled by hand: Color.fmt, Color._hextorgb, Color.process, Color.operate, utility.is_color (coq/Model/Color.v)']


def lit(rng, ch=None):
    def chan():
        r = rng.random()
        if r < 0.25:
            return rng.choice([0, 1, 2, 127, 128, 254, 255])
        return rng.randrange(256)
    c = ch or (chan(), chan(), chan())
    short = all(x % 17 == 0 for x in c)
    if short and rng.random() < 0.7:
        s = ''.join('%x' % (x // 17) for x in c)
    else:
        s = ''.join('%02x' % x for x in c)
    s = ''.join(ch_.upper() if rng.random() < 0.4 else ch_ for ch_ in s)
    return '#' + s, c


def short_lit(rng):
    c = tuple(17 * rng.randrange(16) for _ in range(3))
    return lit(rng, c)


def spaced(rng, a, op, b):
    # '-' directly followed by text would lex differently ("#fff-#111" is fine, but keep blanks mostly)
    r = rng.random()
    if r < 0.7:
        return '%s %s %s' % (a, op, b)
    if r < 0.85 and op != '-':
        return '%s%s%s' % (a, op, b)
    return '%s  %s %s' % (a, op, b)


def gen_cases(rng, n):
    cases = []
    for k in range(n):
        kind = rng.random()
        if kind < 0.15:
            a, ca = (short_lit(rng) if rng.random() < 0.5 else lit(rng))
            cases.append({'expr': a, 'model': '(color_fmt %s)' % coqrun.coq_str(a),
                          'spec': '(spec_literal %s)' % coqrun.coq_str(a),
                          'nontrivial': a != '#%02x%02x%02x' % ca, 'key': ('lit', a), 'descr': 'literal'})
            continue
        if kind < 0.27:
            # chain (a o b) o' c: clamping after each step (theorem C08_chain); same-precedence operators
            # unparenthesised (left-associative) or an explicit parenthesis
            a, ca = (short_lit(rng) if rng.random() < 0.3 else lit(rng))
            o1, o2 = rng.choice([('+', '-'), ('-', '+'), ('+', '+'), ('-', '-'), ('*', '/'), ('*', '*'), ('+', '*'), ('*', '-'), ('-', '/')])
            def operand(o):
                while True:
                    if o == '*':
                        x = lit(rng, tuple(rng.choice([0, 1, 2, 3, 5, 17]) for _ in range(3)))
                    else:
                        x = short_lit(rng) if rng.random() < 0.3 else lit(rng)
                    if o != '/' or all(x[1]):
                        return x
            (b, cb), (c, cc) = operand(o1), operand(o2)
            same = (o1 in '+-') == (o2 in '+-')
            if same and rng.random() < 0.5:
                expr = '%s %s %s %s %s' % (a, o1, b, o2, c)
            else:
                expr = '(%s %s %s) %s %s' % (a, o1, b, o2, c)
            q = coqrun.coq_str
            cases.append({'expr': expr, 'wrap': None,
                          'model': '(opt_bind (color_expr %s %s %s) (fun w => color_expr w %s %s))' % (q(a), q(o1), q(b), q(o2), q(c)),
                          'spec': '(opt_bind (spec_color_expr %s %s %s) (fun w => spec_color_expr w %s %s))' % (q(a), q(o1), q(b), q(o2), q(c)),
                          'nontrivial': True, 'key': (a, o1, b, o2, c), 'descr': 'chain %s%s' % (o1, o2)})
            continue
        op = rng.choice('+-*/')
        a, ca = (short_lit(rng) if rng.random() < 0.3 else lit(rng))
        if op == '/':
            while True:
                b, cb = (short_lit(rng) if rng.random() < 0.3 else lit(rng))
                if all(cb):
                    break
        elif op == '*' and rng.random() < 0.6:
            b, cb = lit(rng, tuple(rng.choice([0, 1, 2, 3, 4, 5, 16, 17]) for _ in range(3)))
        elif op == '+' and rng.random() < 0.4:
            # land exactly on / next to the upper clamp bound
            cb = tuple(max(0, min(255, 255 - x + rng.choice([-1, 0, 1]))) for x in ca)
            b, cb = lit(rng, cb)
        elif op == '-' and rng.random() < 0.4:
            cb = tuple(max(0, min(255, x + rng.choice([-1, 0, 1]))) for x in ca)
            b, cb = lit(rng, cb)
        else:
            b, cb = (short_lit(rng) if rng.random() < 0.3 else lit(rng))
        wrap = None
        if rng.random() < 0.3:
            # evaluated a second time: in a mixin called before with other colours / through a variable used before where its operands differ
            while True:
                da, db = lit(rng)[0], lit(rng)
                if op != '/' or all(db[1]):
                    break
            wrap = {'kind': rng.choice(['mixin', 'lazy']), 'expr_fmt': '{0} %s {1}' % op, 'real': [a, b], 'decoy': [da, db[0]]}
        cases.append({'expr': spaced(rng, a, op, b), 'wrap': wrap,
                      'model': '(color_expr %s %s %s)' % (coqrun.coq_str(a), coqrun.coq_str(op), coqrun.coq_str(b)),
                      'spec': '(spec_color_expr %s %s %s)' % (coqrun.coq_str(a), coqrun.coq_str(op), coqrun.coq_str(b)),
                      'nontrivial': ca != cb, 'key': (a, op, b), 'descr': 'arith %s' % op})
    return cases


def run(ctx):
    rng = random.Random(ctx['seed'] * 1000003 + 8)
    n = (400 if ctx['tier'] == 'quick' else 6000) * ctx.get('mult', 1)
    cases = gen_cases(rng, n)
    out, answers = valuecases.correspond(ctx, cases, MODS)
    # the same expressions through a variable and through a function argument (unknown function keeps its arguments)
    sub = [c for c in cases if c['descr'] != 'literal'][: max(40, n // 5)]
    via_var = [dict(c, expr='@v%d' % i, wrap=None, descr=c['descr'] + ' via variable') for i, c in enumerate(sub)]
    prelude = ''.join('@v%d: %s;\n' % (i, c['expr']) for i, c in enumerate(sub))
    out2, _ = valuecases.correspond(dict(ctx, scratch=ctx['scratch'] + '/v'), via_var, MODS, batch=len(via_var) or 1, prelude=prelude)
    for k in ('spec_mismatch', 'model_mismatch', 'harness_errors'):
        out[k] += out2[k]
    out['evaluations'] += out2['evaluations']
    keys = {c['key'] for c in cases if c['nontrivial']}
    out['distinct_nontrivial'] = len(keys)
    out['samples'] = [{'expr': c['expr'], 'impl': a.get('css', a)} for c, a in list(zip(cases, answers))[:6]]
    ops = {}
    for c in cases:
        ops[c['descr']] = ops.get(c['descr'], 0) + 1
    out['distribution'] = ops
    if ctx['tier'] == 'thorough' and not ctx.get('search'):
        sw = sweep(ctx)
        out['sweeps'] = {'channel_sweep_256x256x4': sw['n']}
        out['evaluations'] += sw['n']
        out['spec_mismatch'] += sw['bad']
    return out


def sweep(ctx):
    """every (a, b) in 0..255^2 x 4 operators on a grey colour through Color().process directly, against
    python-side exact arithmetic (the Coq theorem covers the model side completely)."""
    bad, n = [], 0
    with impl.Pool() as pool:
        reqs = []
        for op in '+-*/':
            for lo in range(0, 256, 16):
                reqs.append({'kind': 'pycall', 'fn': 'color_process_sweep', 'args': [op, list(range(lo, lo + 16)), list(range(256))]})
        answers = pool.run(reqs, timeout=120)
    for rq, a in zip(reqs, answers):
        op, As, Bs = rq['args']
        if a.get('r') != 'ok':
            bad.append({'input': {'sweep': rq['args'][:1]}, 'impl': a, 'classes': []})
            continue
        for ai, row in zip(As, a['v']):
            for b, got in zip(Bs, row):
                n += 1
                if op == '/' and b == 0:
                    continue
                v = {'+': ai + b, '-': ai - b, '*': ai * b, '/': (ai // b if b else 0)}[op]
                v = max(0, min(255, v))
                exp = '#' + ('%02x' % v) * 3
                if got != exp:
                    bad.append({'input': {'expr': '#%02x%02x%02x %s #%02x%02x%02x' % (ai, ai, ai, op, b, b, b), 'prop': 'color', 'prelude': ''},
                                'impl': {'r': 'ok', 'css': got}, 'spec': 'Ok:' + exp, 'classes': []})
    return {'n': n, 'bad': bad[:50]}


def replay(case):
    inp = case['input']
    with impl.Pool(1) as pool:
        text = inp.get('prelude', '') + (inp['sheet'] + '\n' if inp.get('sheet') else '.c0{%s:%s}\n' % (inp.get('prop', 'color'), inp['expr']))
        a = pool.run([{'kind': 'compile', 'text': text, 'opts': {}}])[0]
    got = valuecases.split_sheet(a['css']).get(inp.get('index', 0) if inp.get('sheet') else 0) if a.get('r') == 'ok' else None
    exp = case.get('spec')
    still = (exp is None) or (('Ok:%s' % got) != exp)
    return {'input': text, 'impl_now': a, 'value_now': got, 'spec_expected': exp, 'still_fails': still}
