"""C19 — decided on generated stylesheets: byte-exact model correspondence + reference-semantics comparison."""
from . import sheetprop as P

FEATURES = "keyframes,fontface,viewport,stmt,media,var,framevar".split(',')
RULE = 'see harness/props/sheetprop.py: generated stylesheets with features %s; model compared byte-for-byte, reference semantics compared on the flat items read back from the output CSS by an independent reader' % FEATURES
ASSUMPTIONS = ['the LALR parser builds the node tree that harness/gens/sheet.py:tree() predicts (checked on every case through the byte-exact output comparison); independently of that prediction, the whole pipeline from the source TEXT (coq/Model/Lex.v + Parse.v + Eval.v: compile_text) is compared byte for byte with the real compiler on every case (abstentions counted in distribution.text_pipeline)',
               'harness/readcss.py reads the produced CSS back correctly']
TRUSTED = ['modelled by hand: Identifier.parse/root/fmt, Block.parse (media rotation), Property.parse/fmt, Block.fmt, Formatter, Scope (coq/Model/Ident.v, Eval.v, Fmt.v, Scope.v)',
           'reference semantics coq/Spec/Sem.v']


def nontrivial(sh):
    kind = "at"
    if kind == 'nest':
        return P.max_depth(sh) >= 2
    if kind == 'media':
        return P.count_kind(sh, 'media') >= 1 and P.max_depth(sh) >= 2
    if kind == 'at':
        return any(s[0] in ('keyframes', 'fontface', 'viewport', 'stmt') for s in sh)
    if kind == 'var':
        return P.count_kind(sh, 'var') >= 1
    return P.count_kind(sh, 'decl') >= 2


# ---- at-rules fed by variables that an imported LESS file declares again, and at-rules produced by mixins (real compiler only): the
# tree on disk against the pasted single text.  "variables and expressions inside them are still evaluated" -- with the value in force.
def import_program(rng, k):
    v = lambda: rng.choice(['1s', '2s', '300ms', '10px', '50%'])
    u = lambda: '"http://%s.example"' % rng.choice(['a', 'b', 'cdn', 'x1'])
    f = lambda: rng.choice(['"A"', '"Font B"', "'C'"])
    main_first = '@cdn: %s;\n@dur: %s;\n@fam: %s;\n' % (u(), v(), f())
    redecl = rng.sample(['@cdn: %s;\n' % u(), '@dur: %s;\n' % v(), '@fam: %s;\n' % f()], rng.randint(1, 3))
    theme = ''.join(redecl) + rng.choice(['', '.t%d { top: 0; }\n' % k])
    uses = ['@import "@{cdn}/x%d.css";\n' % k,
            '.kf%d() { @keyframes spin%d { from { top: @dur; } to { top: 0; } } }\n.kf%d();\n' % (k, k, k),
            '.ff%d() { @font-face { font-family: @fam; src: url("@{cdn}/f.woff"); } }\n.ff%d();\n' % (k, k),
            '@keyframes direct%d { from { left: @dur; } 50%% { left: (@dur * 2); } }\n' % k,
            '@font-face { font-family: @fam; src: url("@{cdn}/g.woff"); }\n',
            '@media print { @keyframes m%d { to { top: @dur; } } }\n' % k,
            '.vp%d() { @viewport { width: @dur; } }\n.vp%d();\n' % (k, k)]
    rng.shuffle(uses)
    uses = uses[:rng.randint(2, 5)]
    name = rng.choice(['theme', 'theme.less', './theme'])
    main = main_first + '@import "%s";\n' % name + ''.join(uses)
    pasted = main_first + theme + ''.join(uses)
    return main, theme, pasted


def run(ctx):
    import os, random, shutil, tempfile
    from .. import impl
    out = P.run_sheets(ctx, 19, FEATURES, 120, 3000, depth=3, all_opts=False, wild=True, nontrivial=nontrivial)
    rng = random.Random(ctx['seed'] * 1000003 + 1919)
    n = (30 if ctx['tier'] == 'quick' else 600) * ctx.get('mult', 1)
    base = tempfile.mkdtemp(prefix='lessverif-c19-')
    try:
        progs = []
        for k in range(n):
            main, theme, pasted = import_program(rng, k)
            d = os.path.join(base, 'p%d' % k); os.makedirs(d)
            open(os.path.join(d, 'main.less'), 'w').write(main)
            open(os.path.join(d, 'theme.less'), 'w').write(theme)
            progs.append((d, main, theme, pasted))
        with impl.Pool() as pool:
            a = pool.run([{'kind': 'compile_file', 'path': os.path.join(p[0], 'main.less'), 'opts': {}} for p in progs], timeout=30)
            b = pool.run([{'kind': 'compile', 'text': p[3], 'opts': {}} for p in progs], timeout=30)
        skipped = 0
        for (d, main, theme, pasted), x, y in zip(progs, a, b):
            out['evaluations'] += 1
            if y.get('r') != 'ok':
                skipped += 1
                continue
            if x.get('r') != 'ok' or x['css'] != y['css']:
                out['spec_mismatch'].append({'input': {'text': main, 'files': {'main.less': main, 'theme.less': theme}, 'pasted': pasted, 'opts': {}}, 'impl': x,
                                             'spec': {'the pasted single text compiles to': y}, 'classes': []})
        out.setdefault('distribution', {})['at_rules_after_import_redeclaration'] = {'programs': len(progs), 'pasted_text_rejected': skipped}
    finally:
        shutil.rmtree(base, ignore_errors=True)
    return out


replay = P.replay
exemplar_fails = P.exemplar_fails
