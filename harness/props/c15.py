"""C15 — malformed input is reported.

Every single corruption (from the classes the property lists) of generated programs, at every applicable position found by the
real lexer's own token positions, must raise CompilationError / SyntaxError; for the classes whose first offending token is
determined by the corruption itself the message must name its 1-based line, computed independently as 1 + the number of line
feeds before that token in the text (programs are laid out with multi-line comments, CRLF and multi-line strings in front
of the corruption).  The command line must print a diagnostic (it goes on after a syntax error and may print the CSS of the remaining rules: the property only asks for the diagnostic).  The lexer model is tied by token correspondence
(types, values, LINES) on texts with multi-line plain and interpolated strings; undefined-variable programs are also compared
with the evaluator model (bytes) and the reference semantics."""
import os, random, re, shutil, subprocess, tempfile
import concurrent.futures as cf
from .. import impl, coqrun, sheetcases as SC
from ..gens import sheet as S
from . import c12 as C12

FEATURES = 'media,amp,keyframes,fontface,str,url,attr,pseudo2,var,mixin'.split(',')
RULE = ('cases = (program, corruption class, position); classes: delete a closing brace / truncate inside a block (left open at end of input), unclosed string at end of input, '
        'stray closing brace at top level and inside blocks, delete an opening brace, colon of a declaration replaced by a blank, a character of no token inserted in a gap, '
        'a value replaced by an undefined variable; distinct = distinct corrupted texts; non-trivial = the corruption is preceded by a multi-line comment, a CRLF run or a multi-line string')
ASSUMPTIONS = ['a corruption from the listed classes leaves no valid program (by construction: brace balance, quote parity, a declaration without colon, a character of no token)',
               'the first offending token of a top-level stray brace is that brace, of an illegal character the character, of a missing colon the first value token (LALR(1) viable-prefix property)']
TRUSTED = ['lexer model coq/Model/Lex.v (line counting), evaluator model coq/Model/Eval.v (undefined variables)', 'PLY LALR tables as built from the grammar: parser-level detection is decided on the real parser only']
LEVEL = 'other'
EXPLANATION = ('partial: theorems cover what the lexer, reference-parser and evaluator models decide (C15_accepted_is_balanced, C15_declaration_needs_colon, C15_open_string_rejected, '
               'C15_illegal_character, C15_illegal_line, C15_lines_through_gap, C15_lines_through_string, C15_undefined_variable); on the real side unbalanced braces, open strings and '
               'missing braces/colons are detected by the LALR parser of PLY, which is not modelled: decided by exhaustive single corruptions of generated programs on the real compiler, '
               'with the model pipeline required to give the same verdict')

ILLEGAL = ['$', '?', '^', '`', '|', '\x7f', '\x01']
MLSTR = ['"two\nlines"', "'three\r\nlines\n here'", '"a@{v}\nb"', '"x\n@{v}"', '"@{v}\n"', "'q@{v}\r\n@{v}\n'"]


def line_of(text, pos):
    return text.count('\n', 0, pos) + 1


def err_line(a):
    m = re.search(r'line:? (\d+)', a.get('msg', ''))
    return int(m.group(1)) if m else None


def make_program(rng):
    """a valid program whose first part contains line-counting hazards: multi-line comments, CRLF, multi-line strings"""
    g = S.Gen(rng, FEATURES)
    sh = g.mixin_program() if rng.random() < 0.25 else g.sheet(nunits=rng.choice([1, 2, 3]), depth=rng.randint(1, 3))
    if sh is None or S.sel_count(sh) > 24:
        return None
    L = C12.VLayout(rng.randrange(1 << 30), random.Random(rng.randrange(1 << 30)))
    L.toggle_semi = False
    body = S.show(sh, L).replace(C12.MARK, 'c')
    pre = ''
    hazards = 0
    if rng.random() < 0.7:
        k = rng.randint(1, 3)
        for _ in range(k):
            s = rng.choice(MLSTR)
            pre += rng.choice(['@v: 1;\n', '@v: 1;\r\n']) if '@{v}' in s and '@v:' not in pre else ''
            pre += '.pre%d{content:%s%s}%s' % (rng.randint(0, 9), s, rng.choice([';', '', ' ;']), rng.choice(['\n', '\r\n', ' ', '/* m\n\n */']))
            hazards += 1
    return pre + body, hazards + L.stats['newline_only'] + L.stats['crlf'] + L.stats['comments']


def corruptions(text, toks, rng, per_class):
    """toks: raw tokens [type, value, line, pos] of the valid text.  yields (class, corrupted text, expected line or None, offending description)"""
    out = []
    depth = 0
    paren = 0
    info = []
    for i, (ty, val, ln, pos) in enumerate(toks):
        info.append((depth, paren))
        if ty == 't_bopen':
            depth += 1
        elif ty == 't_bclose':
            depth -= 1
        elif ty in ('t_popen', 'less_open_format'):
            paren += 1
        elif ty == 't_pclose':
            paren = max(0, paren - 1)
    idx = list(range(len(toks)))

    def pick(cands):
        cands = list(cands)
        rng.shuffle(cands)
        return cands[:per_class] if per_class else cands

    # 1. delete a closing brace -> a block is left open at end of input
    for i in pick(i for i in idx if toks[i][0] == 't_bclose'):
        p = toks[i][3]
        out.append(('delete-closing-brace', text[:p] + text[p + 1:], None, 'end of input'))
    # 2. truncate the text inside a block
    for i in pick(i for i in idx if info[i][0] >= 1 and toks[i][0] not in ('t_ws',)):
        p = toks[i][3]
        out.append(('truncate-in-block', text[:p], None, 'end of input'))
    # 3. a string left open at end of input
    for q in pick(['"', "'"]):
        out.append(('open-string-at-end', text + '\n.zz{content:%sabc def;\n}\n' % q, None, 'end of input'))
        out.append(('open-string-at-end', text + '\n.zz{content:%sab@{v} def;}' % q, None, 'end of input'))
    # 4. stray closing brace at top level: after a top-level '}' or at the very start
    tops = [toks[i][3] + 1 for i in idx if toks[i][0] == 't_bclose' and info[i][0] == 1] + [0]
    for p in pick(tops):
        out.append(('stray-brace-top', text[:p] + '}' + text[p:], line_of(text, p), 'the inserted brace'))
    # 4b. stray closing brace inside a block (after a ';' at depth >= 1, outside parentheses)
    for i in pick(i for i in idx if toks[i][0] == 't_semicolon' and info[i][0] >= 1 and info[i][1] == 0 and text[toks[i][3]] == ';'):
        p = toks[i][3] + 1
        out.append(('stray-brace-nested', text[:p] + '}' + text[p:], None, 'a later brace'))
    # 5. delete an opening brace
    for i in pick(i for i in idx if toks[i][0] == 't_bopen' and text[toks[i][3]] == '{'):
        p = toks[i][3]
        out.append(('delete-opening-brace', text[:p] + ' ' + text[p + 1:], None, 'a later token'))
    # 6. colon of a declaration replaced by a blank
    cands = []
    for i in idx:
        if toks[i][0] == 't_colon' and info[i][0] >= 1 and info[i][1] == 0 and i >= 1 and toks[i - 1][0] in ('css_property', 'css_vendor_property'):
            j = i + 1
            while j < len(toks) and toks[j][0] == 't_ws':
                j += 1
            if j < len(toks):
                cands.append((i, j))
    for i, j in pick(cands):
        p = toks[i][3]
        out.append(('colon-missing', text[:p] + ' ' + text[p + 1:], line_of(text, toks[j][3]), 'the first value token %r' % (toks[j][1],)))
    # 7. a character that belongs to no token, inserted where a gap is (whitespace token) or before a token outside strings / parentheses
    cands = [i for i in idx if toks[i][0] == 't_ws' or (info[i][1] == 0 and toks[i][0] in ('t_bopen', 't_bclose', 't_semicolon', 'css_class', 'css_property'))]
    for i in pick(cands):
        p = toks[i][3]
        if toks[i][0] == 't_ws':        # the END of the run: its start may still belong to a // comment that the run terminates
            p = re.compile(r'[ \t\f\v]+|[\n\r]+').match(text, p).end()
        c = rng.choice(ILLEGAL)
        out.append(('illegal-character', text[:p] + c + text[p:], line_of(text, p), 'the character %r' % c))
    return out


def run(ctx):
    rng = random.Random(ctx['seed'] * 1000003 + 15)
    quick = ctx['tier'] == 'quick'
    mult = ctx.get('mult', 1)
    out = {'evaluations': 0, 'spec_mismatch': [], 'model_mismatch': [], 'harness_errors': []}
    dist = {}
    nprog = (40 if quick else 400) * mult
    per_class = 3 if quick else 0          # thorough: every applicable position
    progs = []
    tries = 0
    while len(progs) < nprog and tries < nprog * 20:
        tries += 1
        r = make_program(rng)
        if r and len(r[0]) < 4000:
            progs.append(r)
    with impl.Pool() as pool:
        base = pool.run([{'kind': 'compile', 'text': t, 'opts': {}} for t, _ in progs])
        tks = pool.run([{'kind': 'tokens', 'text': t, 'filtered': False, 'pos': True} for t, _ in progs])
        cases = []
        valid = 0
        for (t, hz), b, tk in zip(progs, base, tks):
            if b.get('r') != 'ok' or tk.get('r') != 'ok':
                continue                    # only corruptions of programs that compile are single corruptions
            valid += 1
            for cls, ct, line, what in corruptions(t, tk['toks'], rng, per_class):
                cases.append({'class': cls, 'text': ct, 'line': line, 'what': what, 'hazards': hz, 'orig': t})
        dist['programs'] = len(progs)
        dist['programs_valid'] = valid
        ans = pool.run([{'kind': 'compile', 'text': c['text'], 'opts': {}} for c in cases], timeout=20)
        per = {}
        nontrivial = set()
        for c, a in zip(cases, ans):
            out['evaluations'] += 1
            per[c['class']] = per.get(c['class'], 0) + 1
            if c['hazards']:
                nontrivial.add(c['text'])
            if a.get('r') != 'error':
                out['spec_mismatch'].append({'input': {'text': c['text'], 'class': c['class']}, 'impl': a,
                                             'spec': 'must raise CompilationError / SyntaxError (offending: %s)' % c['what'], 'classes': ['c15:' + c['class'] + ':' + str(a.get('r'))]})
            elif c['line'] is not None and err_line(a) != c['line']:
                out['spec_mismatch'].append({'input': {'text': c['text'], 'class': c['class']}, 'impl': a,
                                             'spec': 'error must name line %d (%s)' % (c['line'], c['what']), 'classes': ['c15-line:' + c['class']]})
        dist['corruptions_by_class'] = per
        # ---- the model pipeline (Lex + reference parser) on the corrupted texts: it must reject what the real compiler rejects
        if ctx.get('model_usable', True):
            sel = list(range(len(cases)))
            rng.shuffle(sel)
            sel = sel[: (240 if quick else 6000) * mult]
            prow = []
            for i in sel:
                term = 'text_case (false, false, false, 1%%nat) %s %s' % (coqrun.coq_str(cases[i]['text']),
                                                                         '(Err %s)' % coqrun.coq_str('SyntaxError' if ans[i].get('cls') == 'SyntaxError' else 'CompilationError') if ans[i].get('r') == 'error' else coqrun.coq_res(ans[i]))
                prow.append(('bool', '(fst (%s))' % term, '(snd (%s))' % term))
            bad, diag, errs = coqrun.evaluate(prow, ['Model.Ast', 'Model.Fmt', 'Model.Eval', 'Model.Pipeline'], os.path.join(ctx['scratch'], 'pipe%d' % mult), shard=40, tag='pipe')
            out['harness_errors'] += errs
            pabst = 0
            for k in bad:
                if diag.get(k, '').startswith('ABSTAIN'):
                    pabst += 1
                    continue
                c = cases[sel[k]]
                out['model_mismatch'].append({'input': {'text': c['text'], 'class': c['class'], 'via': 'text pipeline (Lex + Parse)'}, 'impl': ans[sel[k]], 'model': diag.get(k, '')[:2000], 'classes': []})
            out['evaluations'] += len(prow)
            dist['pipeline_cases'] = len(prow)
            dist['pipeline_cases_model_abstains'] = pabst
        # ---- undefined variable: AST-level mutation, compared with model and reference semantics too
        uv = []
        nuv = (30 if quick else 600) * mult
        tries = 0
        while len(uv) < nuv and tries < nuv * 20:
            tries += 1
            g = S.Gen(rng, ['media', 'amp', 'var'])
            sh = g.sheet(nunits=rng.choice([1, 2]), depth=rng.randint(1, 3))
            if sh is None or S.sel_count(sh) > 20:
                continue
            decls = []

            def walk(stmts):
                for s in stmts:
                    if s[0] == 'decl':
                        decls.append(s)
                    elif s[0] in ('rule', 'media'):
                        walk(s[2])
            walk(sh)
            if not decls:
                continue
            kind = rng.random()
            if kind < 0.2:
                # an undefined variable interpolated in the selector of an ordinary rule
                rules = []

                def walk3(stmts):
                    for s in stmts:
                        if s[0] == 'rule':
                            rules.append(s)
                            walk3(s[2])
                        elif s[0] == 'media':
                            walk3(s[2])
                walk3(sh)
                if not rules:
                    continue
                r = rng.choice(rules)
                sel = rng.choice(r[1])
                parts = [('t', '.' + rng.choice(['col-', 'a', 'x_'])), ('v', '@undefined-%d' % rng.randint(0, 9))] + ([('t', '-z')] if rng.random() < 0.5 else [])
                pos = rng.randint(0, len(sel))
                ins = [('iclass', parts)]
                if pos > 0 and sel[pos - 1][0] not in ('desc', 'comb'):
                    ins = [('desc',)] + ins
                if pos < len(sel) and sel[pos][0] not in ('desc', 'comb'):
                    ins = ins + [('desc',)]
                sel[pos:pos] = ins
            elif kind < 0.6:
                d = rng.choice(decls)
                k = rng.randrange(len(d[2]) + 1)
                d[2][k:k] = ([('sp',)] if k and d[2][k - 1][0] != 'sp' else []) + [('var', '@undefined-%d' % rng.randint(0, 9))] + ([('sp',)] if k < len(d[2]) and d[2][k][0] != 'sp' else [])
            else:
                # the name IS defined and used, but in a block that is closed (or a sibling) where the reference stands
                rules = []

                def walk2(stmts, parent_is_rule):
                    for i, s in enumerate(stmts):
                        if s[0] == 'rule':
                            rules.append((stmts, i, s, parent_is_rule))
                            walk2(s[2], True)
                        elif s[0] == 'media':
                            walk2(s[2], parent_is_rule)
                walk2(sh, False)
                if not rules:
                    continue
                body, i, r, in_rule = rng.choice(rules)
                nm = '@loc-%d' % rng.randint(0, 9)
                r[2][0:0] = [('var', nm, [('num', '1px')]), ('decl', 'width', [('var', nm)], False)]
                ref = ('decl', 'height', [('var', nm)], False)
                if in_rule:
                    body.insert(rng.randint(i + 1, len(body)), ref)
                else:
                    sh.append(('rule', [[('class', '.zz')]], [ref], {}))
            uv.append({'sheet': sh, 'text': S.show(sh, S.Layout(rng)), 'opts': rng.choice(SC.ALL_OPTS), 'classes': []})
        o2, a2 = SC.run(dict(ctx, scratch=os.path.join(ctx['scratch'], 'uv')), uv, tag='uv')
        for k in ('spec_mismatch', 'model_mismatch', 'harness_errors'):
            out[k] += o2[k]
        for c, a in zip(uv, a2):
            out['evaluations'] += 1
            if a.get('r') != 'error':
                out['spec_mismatch'].append({'input': {'text': c['text'], 'class': 'undefined-variable', 'opts': c['opts']}, 'impl': a, 'spec': 'must raise CompilationError: unknown variable', 'classes': []})
        dist['undefined_variable_programs'] = len(uv)
        # ---- an undefined variable in the positions LESS features open (real compiler only): argument of a mixin call (plain and defaulted
        # parameter), default value, guard operand, arithmetic, built-in and unknown function, negation, media query, indirect reference,
        # string / url interpolation, frame of @keyframes, colour function, body of a mixin / of a rule used as mixin, @media in a rule
        UNDEF = ['.m(@a){w:@a}\n.b{.m(%s);}', '.pad(@size: 4px){padding:@size}\n.box{.pad(%s);}', '.m(@a; @b: 2px){w:@a @b}\n.b{.m(1px; %s);}',
                 '.m(@a: %s){w:@a}\n.b{.m();}', '.g(@a) when (@a > %s){w:1}\n.v{.g(1);}', '.a{width: (%s + 1)}', '.a{width: floor(%s)}', '.a{width: foo(%s)}',
                 '.a{width: -%s}', '@media (min-width: %s){.a{top:0}}\n.b{left:0}', '@media screen and (min-width: %s){.a{top:0}}', '.c{@media (max-width: %s){top:0}}',
                 '.a{content: "x@{%n}y"}', '.a{background: url("@{%n}/a.png")}', '@keyframes k{from{top:%s}}', '.a{width: darken(%s, 10%%)}',
                 '.m(){w:%s}\n.b{.m();}', '.a{@media print{top:%s}}', '.a{.b;}\n.b{w:%s}', '.m(@a){w:@a}\n.w(@x){.m(%s);}\n.b{.w(1);}',
                 '.m(@a){w:@a}\n.b{.m(%s);}\n.c{.m(2px);}', '@p: "%n";\n.a{width: @@p}', '.a{width: 1px %s, 2px}', '.x{.y{.z{top: %s}}}']
        ucases = []
        for tmpl in UNDEF:
            for k in range(1 if quick else 4):
                nm = 'undefined-%d' % rng.randint(0, 99)
                pre = rng.choice(['', '@defined: 1px;\n', '.ok{color:red}\n'])
                ucases.append(pre + tmpl.replace('%s', '@' + nm).replace('%n', nm).replace('%%', '%') + rng.choice(['\n', '\n.after{top:0}\n']))
        ua = pool.run([{'kind': 'compile', 'text': t, 'opts': {}} for t in ucases])
        for t, a in zip(ucases, ua):
            out['evaluations'] += 1
            if a.get('r') != 'error':
                out['spec_mismatch'].append({'input': {'text': t, 'class': 'undefined-variable (LESS position)', 'opts': {}}, 'impl': a, 'spec': 'must raise CompilationError: unknown variable', 'classes': []})
        dist['undefined_variable_less_positions'] = len(ucases)
        # ---- characters outside ASCII (name characters for the lexer; outside the models): whatever they do, no unrelated exception escapes
        NONASCII = ['\u00a0', '\u00e9', '\u2028', '\u3000', '\ufeff', '\u00ff', '\u0080']
        ncases = []
        for k in range(24 if quick else 300):
            base_t = rng.choice(['.a{color:red}', '.a .b{top:0; left:1px}', '@v: 1px;\n.c{width:@v}', '@media print{.d{top:0}}', '.m(@a){w:@a}\n.e{.m(1)}'])
            pos = rng.choice([0, len(base_t)] + [i for i, ch in enumerate(base_t) if ch in ' {};:'])
            ncases.append(base_t[:pos] + rng.choice(NONASCII) + base_t[pos:])
        na = pool.run([{'kind': 'compile', 'text': t, 'opts': {}} for t in ncases])
        for t, a in zip(ncases, na):
            out['evaluations'] += 1
            if a.get('r') not in ('ok', 'error'):
                out['spec_mismatch'].append({'input': {'text': t, 'class': 'non-ASCII character', 'opts': {}}, 'impl': a, 'spec': 'either compiles or raises CompilationError; never another exception', 'classes': []})
        dist['non_ascii_cases'] = len(ncases)
        # ---- the corruption sits in a file reached through @import (also through a second level): the importing compilation must fail
        itmp = tempfile.mkdtemp(prefix='lessverif-c15i-')
        try:
            icases = []
            pick = list(range(len(cases)))
            rng.shuffle(pick)
            for k, ci in enumerate(pick[: (40 if quick else 600) * mult]):
                c = cases[ci]
                d = os.path.join(itmp, 'i%d' % k)
                os.makedirs(os.path.join(d, 'sub'))
                two = rng.random() < 0.4
                open(os.path.join(d, 'sub' if two else '', 'part.less'), 'w', newline='').write(c['text'])
                if two:
                    open(os.path.join(d, 'mid.less'), 'w').write('.mid{top:0}\n@import "sub/part";\n')
                open(os.path.join(d, 'main.less'), 'w').write('.main{color:red}\n@import "%s";\n.after{left:0}\n' % ('mid' if two else rng.choice(['part', 'part.less', './part'])))
                icases.append((c, os.path.join(d, 'main.less')))
            ians = pool.run([{'kind': 'compile_file', 'path': p, 'opts': {}} for _, p in icases], timeout=30)
            for (c, p), a in zip(icases, ians):
                out['evaluations'] += 1
                if a.get('r') != 'error':
                    out['spec_mismatch'].append({'input': {'text': c['text'], 'class': c['class'] + ' (in an imported file)', 'main': open(p).read()}, 'impl': a,
                                                 'spec': 'a corruption in an imported .less file must make the importing compilation fail', 'classes': ['c15-import:' + c['class']]})
            dist['imported_corruptions'] = len(icases)
        finally:
            shutil.rmtree(itmp, ignore_errors=True)
        # ---- token correspondence with LINES (multi-line strings, interpolated chunks, comments, CRLF)
        if ctx.get('model_usable', True):
            texts = [t for t, _ in progs][: (60 if quick else 600) * mult]
            for _ in range((60 if quick else 1500) * mult):
                parts = []
                for _ in range(rng.randint(1, 6)):
                    parts.append(rng.choice(MLSTR + ['"a\nb', "'c\r\n", '/* x\n y */', '// z\n', '\n', '\r\n', ' ', '.a', '{', '}', 'color', ':', ';', '@v', '"p"', '$', '~"e\nf"', "~'@{v}\n'", 'url("u\nv")']))
                texts.append(''.join(parts))
            raw = pool.run([{'kind': 'tokens', 'text': t, 'filtered': False} for t in texts])
            fil = pool.run([{'kind': 'tokens', 'text': t, 'filtered': True} for t in texts])
            rows, meta = C12.tok_rows(texts, raw, fil)
            bad, diag, errs = coqrun.evaluate(rows, ['Model.Lex', 'Model.LexCases'], os.path.join(ctx['scratch'], 'tok%d' % mult), shard=60, tag='tok')
            out['harness_errors'] += errs
            abst = 0
            for i in bad:
                filtered, t, a = meta[i]
                if diag.get(i, '').startswith('ABSTAIN'):
                    abst += 1
                    continue
                out['model_mismatch'].append({'input': {'text': t, 'filtered': filtered}, 'impl': {'toks': a.get('toks'), 'r': a.get('r'), 'msg': a.get('msg')},
                                              'model': diag.get(i, '')[:3000], 'classes': []})
            out['evaluations'] += len(rows)
            dist['token_cases'] = len(rows)
            dist['token_cases_model_abstains'] = abst
    # ---- command line: a diagnostic
    scratch = tempfile.mkdtemp(prefix='lessverif-c15-')
    try:
        sample = []
        seen = set()
        for c in cases:
            if c['class'] not in seen or rng.random() < (0.02 if quick else 0.01):
                seen.add(c['class'])
                sample.append(c)
        sample = sample[: (16 if quick else 120)]
        env = dict(os.environ, PYTHONPATH=impl.REPO, PYTHONHASHSEED='0', TMPDIR=scratch)

        def one(item):
            i, c = item
            path = os.path.join(scratch, 'c%d.less' % i)
            open(path, 'w', newline='').write(c['text'])
            p = subprocess.run([impl.PY, '-W', 'ignore', '-m', 'lesscpy', path], capture_output=True, text=True, env=env, cwd=scratch, timeout=60)
            return p
        with cf.ThreadPoolExecutor(16) as ex:
            res = list(ex.map(one, list(enumerate(sample))))
        for c, p in zip(sample, res):
            out['evaluations'] += 1
            diagnostic = re.search(r'Error|E: |Illegal character', p.stderr + p.stdout)
            if not diagnostic:
                out['spec_mismatch'].append({'input': {'text': c['text'], 'class': c['class'], 'cli': True}, 'impl': {'stdout': p.stdout[:500], 'stderr': p.stderr[-500:], 'rc': p.returncode},
                                             'spec': 'the command line must print a diagnostic', 'classes': ['c15-cli:' + c['class']]})
        dist['cli_runs'] = len(sample)
    finally:
        shutil.rmtree(scratch, ignore_errors=True)
    out['distinct_nontrivial'] = len(nontrivial)
    out['samples'] = [{'class': c['class'], 'text': c['text'][:300], 'impl': a.get('msg', str(a))[:200]} for c, a in list(zip(cases, ans))[:3]]
    out['distribution'] = dist
    out['traces_validated_against_impl'] = out['evaluations']
    return out


def replay(case):
    inp = case['input']
    with impl.Pool(1) as pool:
        if 'filtered' in inp:
            a = pool.run([{'kind': 'tokens', 'text': inp['text'], 'filtered': inp['filtered']}])[0]
            return {'input': inp, 'impl_now': a, 'model_expected': case.get('model'), 'still_fails': None}
        a = pool.run([{'kind': 'compile', 'text': inp['text'], 'opts': SC.impl_opts(inp.get('opts', {}))}])[0]
    return {'input': inp, 'impl_now': a, 'expected': case.get('spec'), 'still_fails': a.get('r') != 'error' if 'must raise' in str(case.get('spec')) else None}


def exemplar_fails(ctx, finding):
    ex = finding.get('exemplar', {})
    if 'text' not in ex:
        return None
    with impl.Pool(1) as pool:
        a = pool.run([{'kind': 'compile', 'text': ex['text'], 'opts': {}}])[0]
    if 'line' in ex:
        return a.get('r') != 'error' or err_line(a) != ex['line']
    return a.get('r') != 'error'
