"""C17 — numeric built-ins agree with exact arithmetic; unknown functions pass through."""
import random
from fractions import Fraction
from .. import impl, coqrun, valuecases

MODS = ['Model.NumLex', 'Model.Number', 'Spec.NumSpec']
SPEC_MODS = ['Model.NumLex']
RULE = ('cases = builtin(arg) with builtin in round/ceil/floor/increment/decrement/percentage and arg on a grid around integers '
        'and half-integers of both signs (k, k+-1/2, k+-eps for several eps, small and large k), with and without a unit, given as '
        'literal, variable or arithmetic expression; plus calls of functions lesscpy does not define (about 90 names: real CSS functions and invented ones) with 1-4 arguments that are numbers, words, variables, parenthesised arithmetic or colours, expected copied with the arguments evaluated, in order; distinct = distinct (builtin, argument text, form); non-trivial = the argument '
        'is not an integer (so rounding/ceil/floor actually move it) or the builtin changes the value')
ASSUMPTIONS = ['python float arithmetic on the grid values is exact enough that |impl - exact| <= 1e-9 relative',
               'Call.parse dispatch, analyze_number and with_unit are hand-modelled (coq/Model/NumLex.v, Number.v); the arithmetic of each built-in is translated from the source']
TRUSTED = ['translated from source on every run: Call.round/ceil/floor/increment/decrement/percentage, utility.away_from_zero_round (py2coq in gen_params.py)',
           'modelled by hand: utility.split_unit/analyze_number/with_unit']
BUILTINS = ['round', 'ceil', 'floor', 'increment', 'decrement', 'percentage']
UNITS = ['', '', 'px', 'em', '%', 'deg', 's', 'pt']


def fmt_dec(fr):
    """decimal text of a Fraction with a terminating expansion"""
    sign = '-' if fr < 0 else ''
    fr = abs(fr)
    ip = fr.numerator // fr.denominator
    rest = fr - ip
    if rest == 0:
        return '%s%d' % (sign, ip)
    digits = ''
    while rest and len(digits) < 14:
        rest *= 10
        d = rest.numerator // rest.denominator
        digits += str(d)
        rest -= d
    return '%s%d.%s' % (sign, ip, digits)


def grid_value(rng):
    k = rng.choice([0, 1, 2, 3, 7, 10, 99, 100, 1000, 12345])
    off = rng.choice([Fraction(0), Fraction(1, 2), Fraction(1, 2), Fraction(1, 4), Fraction(3, 4), Fraction(1, 10), Fraction(9, 10),
                      Fraction(49, 100), Fraction(51, 100), Fraction(499, 1000), Fraction(501, 1000), Fraction(1, 1000),
                      Fraction(999, 1000), Fraction(29, 100), Fraction(57, 100), Fraction(7, 100), Fraction(1, 8), Fraction(3, 8)])
    v = k + off
    if rng.random() < 0.5:
        v = -v
    return v


def cmp_num(model_term, ans):
    if ans.get('r') == 'ok':
        printed = coqrun.coq_str(ans['css'])
        return ('bool', '(num_matches %s %s false)' % (model_term, printed), '(show_num %s)' % model_term)
    return ('bool', 'false', '(show_num %s)' % model_term)


def gen_cases(rng, n):
    cases = []
    for _ in range(n):
        b = rng.choice(BUILTINS)
        v = grid_value(rng)
        u = rng.choice(UNITS)
        txt = fmt_dec(v) + u
        form = rng.random()
        arg = coqrun.coq_str(txt)
        c = {'model': '(call_builtin %s %s)' % (coqrun.coq_str(b), arg), 'spec': '(spec_call %s %s)' % (coqrun.coq_str(b), arg),
             'cmp': cmp_num, 'prop': 'width', 'nontrivial': v.denominator != 1 or b in ('increment', 'decrement', 'percentage'),
             'key': (b, txt), 'descr': b}
        if form < 0.6 or v == 0:
            c['expr'] = '%s(%s)' % (b, txt)
        elif form < 0.8:
            # the same value written as an expression: (v - d) + d with d a small terminating decimal
            d = rng.choice([Fraction(1), Fraction(2), Fraction(1, 2), Fraction(1, 4)])
            a = v - d
            if a == 0:
                c['expr'] = '%s(%s)' % (b, txt)
            else:
                c['expr'] = '%s(%s%s + %s)' % (b, fmt_dec(a), u, fmt_dec(d))
                c['descr'] = b + ' expr-arg'
        else:
            c['expr'] = '%s(@a)' % b
            c['var'] = txt
            c['descr'] = b + ' var-arg'
        if rng.random() < 0.3:
            # blanks inside the parentheses do not matter
            o, cl = rng.choice(['', ' ', '  ']), rng.choice([' ', '  ', ' ', ''])
            head, rest = c['expr'].split('(', 1)
            c['expr'] = head + '(' + o + rest[:-1] + cl + ')'
            c['descr'] += ' blanks'
        cases.append(c)
    return cases


def gen_mixin_cases(rng, n):
    """the same call site evaluated several times with different bindings: `.m(@x){width: f(ARG(@x))}` called from
    2-3 rules.  Returns list of (less_text, [(rule_index, model, spec)])"""
    sheets = []
    for i in range(n):
        b = rng.choice(BUILTINS)
        form = rng.choice(['@x', '@x + 1', '-(@x / 2)', '-(@x)', '(@x * 2)', '@x / 4', '-(@x + 0.5)'])
        u = rng.choice(UNITS)
        vals = []
        while len(vals) < rng.choice([2, 3]):
            v = grid_value(rng)
            if v != 0 and v not in vals:
                vals.append(v)
        def arg_value(v):
            return {'@x': v, '@x + 1': v + 1, '-(@x / 2)': -(v / 2), '-(@x)': -v, '(@x * 2)': v * 2, '@x / 4': v / 4,
                    '-(@x + 0.5)': -(v + Fraction(1, 2))}[form]
        if any(arg_value(v) == 0 for v in vals):
            continue
        less = '.m%d(@x) { width: %s(%s); }\n' % (i, b, form)
        rows = []
        for k, v in enumerate(vals):
            less += '.r%d_%d { .m%d(%s%s); }\n' % (i, k, i, fmt_dec(v), u)
            arg = coqrun.coq_str(fmt_dec(arg_value(v)) + u)
            rows.append(('r%d_%d' % (i, k), '(call_builtin %s %s)' % (coqrun.coq_str(b), arg), '(spec_call %s %s)' % (coqrun.coq_str(b), arg)))
        sheets.append((less, rows, b + ' in mixin ' + form))
    return sheets


def run_mixin_family(ctx, rng, n, out):
    import re, os
    sheets = gen_mixin_cases(rng, n)
    with impl.Pool() as pool:
        ans = pool.run([{'kind': 'compile', 'text': s[0], 'opts': {}} for s in sheets])
    rows_m, rows_s, recs = [], [], []
    for (less, rows, descr), a in zip(sheets, ans):
        for rule, m, s in rows:
            if a.get('r') == 'ok':
                mm = re.search(r'^\.%s \{\n width: ?(.*?);\n\}$' % rule, a['css'], re.M)
                aa = {'r': 'ok', 'css': mm.group(1)} if mm else {'r': 'escaped', 'type': 'missing rule', 'msg': a['css'][:200]}
            else:
                aa = a
            rows_m.append(cmp_num(m, aa)); rows_s.append(cmp_num(s, aa))
            recs.append({'input': {'less': less, 'rule': rule}, 'impl': aa, 'classes': [], 'descr': descr})
    wd = os.path.join(ctx['scratch'], 'mix%d' % ctx.get('mult', 1))
    bs, ds, es = coqrun.evaluate(rows_s, ['Spec.NumSpec', 'Model.NumLex'], wd, tag='s')
    bm, dm, em = (coqrun.evaluate(rows_m, MODS, wd, tag='m') if ctx.get('model_usable', True) else ([], {}, []))
    out['harness_errors'] += es + em
    for i, rec in enumerate(recs):
        if i in bs:
            rec['spec'] = ds.get(i); out['spec_mismatch'].append(rec)
        elif i in bm:
            rec['model'] = dm.get(i); out['model_mismatch'].append(rec)
    out['evaluations'] += len(recs)
    out.setdefault('distribution', {})['call site re-evaluated in mixin (rules)'] = len(recs)
    return len({r['input']['less'] for r in recs})


# ---- the second half of the property, on the real compiler: a function lesscpy does not define is copied to the output with its
# arguments evaluated (variables replaced, arithmetic carried out, colours normalised) and otherwise unchanged, in the same order.
# Names: real CSS functions and invented ones, none of which lesscpy defines (the list of what it defines is written out here, not
# read from the tree under test: a method that appears there under the name of a CSS function must not hide itself).
LESSCPY_DEFINES = {'add', 'ceil', 'decrement', 'escape', 'e', 'floor', 'increment', 'iscolor', 'iskeyword', 'isnumber', 'isstring', 'isurl',
                   'percentage', 'round', 'sformat', 'argb', 'darken', 'desaturate', 'grayscale', 'greyscale', 'hsl',
                   'hsla', 'hue', 'lighten', 'lightness', 'mix', 'opacity', 'rgb', 'rgba', 'saturate', 'saturation', 'spin', 'url'}
CSS_FUNCS = ['clamp', 'min', 'max', 'minmax', 'translate', 'translateX', 'translateY', 'translate3d', 'rotate', 'rotateX', 'scale', 'scaleX', 'skew', 'skewY',
             'matrix', 'perspective', 'attr', 'counter', 'counters', 'steps', 'cubic-bezier', 'linear-gradient', 'radial-gradient', 'repeat', 'fit-content',
             'var', 'env', 'blur', 'brightness', 'contrast', 'drop-shadow', 'hue-rotate', 'invert', 'sepia', 'rect', 'inset', 'circle', 'ellipse', 'polygon',
             'image-set', 'element', 'format', 'local', 'symbols', 'hwb', 'lab', 'lch', 'color-mix', 'abs', 'sign', 'mod', 'rem', 'sin', 'cos', 'pow', 'sqrt',
             'hypot', 'log', 'exp', 'foo', 'my-fn', 'x1', 'tint', 'shade', 'fade', 'unit', 'convert', 'lookup', 'name', 'tokens', 'call', 'swap', 'update',
             'hextorgb', 'value', 'lineno', 'clip', 'snap', 'span', 'line', 'area', 'fmt', 'parse', 'process', 'copy', 'replace_variables', 'operate', 'parsed', 'raw']


def unknown_cases(rng, n):
    out = []
    names = [f for f in CSS_FUNCS if f not in LESSCPY_DEFINES]
    for i in range(n):
        name = rng.choice(names)
        nargs = rng.choice([1, 1, 2, 2, 3, 4])
        src, exp, variables = [], [], []
        for k in range(nargs):
            kind = rng.random()
            u = rng.choice(['', 'px', 'em', '%', 'deg'])
            a = rng.randint(1, 40); b = rng.randint(1, 9)
            if kind < 0.3:
                src.append('%d%s' % (a, u)); exp.append('%d%s' % (a, u))
            elif kind < 0.4:
                src.append(fmt_dec(Fraction(a, 4)) + u); exp.append(fmt_dec(Fraction(a, 4)) + u)
            elif kind < 0.55:
                w = rng.choice(['end', 'start', 'auto', 'data-x', 'to', 'left', 'top', 'closest-side', 'x', 'bold'])
                src.append(w); exp.append(w)
            elif kind < 0.7:
                v = '@u%d_%d' % (i, k)
                variables.append((v, '%d%s' % (a, u)))
                src.append(v); exp.append('%d%s' % (a, u))
            elif kind < 0.85:
                op = rng.choice(['+', '-', '*'])
                val = {'+': a + b, '-': a - b, '*': a * b}[op]
                if val == 0:
                    val, op = a + b, '+'
                if rng.random() < 0.5:
                    v = '@u%d_%d' % (i, k)
                    variables.append((v, '%d%s' % (a, u)))
                    src.append('(%s %s %d)' % (v, op, b))
                else:
                    src.append('(%d%s %s %d)' % (a, u, op, b))
                exp.append('%d%s' % (val, u))
            else:
                c = ''.join(rng.choice('0123456789abcdefABCDEF') for _ in range(rng.choice([3, 6])))
                full = c if len(c) == 6 else ''.join(ch * 2 for ch in c)
                src.append('#' + c); exp.append('#' + full.lower())
        sep = rng.choice([', ', ',', ' , ', ',  '])
        lead = rng.choice(['', '', 'solid ', '1px '])
        prelude = ''.join('%s: %s;\n' % vv for vv in variables)
        out.append({'name': name, 'text': prelude + '.c0{width: %s%s(%s%s%s)}\n' % (lead, name, rng.choice(['', ' ']), sep.join(src), rng.choice(['', ' '])),
                    'expected': '%s%s(%s)' % (lead, name, ','.join(exp)), 'nargs': nargs})
    return out


def run_unknown_family(ctx, rng, n, out):
    import re
    cases = unknown_cases(rng, n)
    with impl.Pool() as pool:
        ans = pool.run([{'kind': 'compile', 'text': c['text'], 'opts': {}} for c in cases])
    squeeze = lambda t: re.sub(r'\s*([(),])\s*', r'\1', t.strip())
    for c, a in zip(cases, ans):
        out['evaluations'] += 1
        got = valuecases.split_sheet(a['css']).get(0) if a.get('r') == 'ok' else None
        if got is None or squeeze(got) != squeeze(c['expected']):
            out['spec_mismatch'].append({'input': {'less': c['text'], 'rule': 'c0'}, 'impl': a, 'spec': 'the call is copied with its arguments evaluated: ' + c['expected'],
                                         'classes': [], 'descr': 'unknown function ' + c['name']})
    out.setdefault('distribution', {})['unknown functions (calls / distinct names)'] = [len(cases), len({c['name'] for c in cases})]
    return len({c['text'] for c in cases if c['nargs'] >= 2})


def run(ctx):
    ctx = dict(ctx, spec_mods=SPEC_MODS)
    rng = random.Random(ctx['seed'] * 1000003 + 17)
    n = (360 if ctx['tier'] == 'quick' else 5000) * ctx.get('mult', 1)
    cases = gen_cases(rng, n)
    plain = [c for c in cases if 'var' not in c]
    out, answers = valuecases.correspond(ctx, plain, MODS)
    # variable arguments: one sheet per case (each has its own @a)
    var = [c for c in cases if 'var' in c]
    with impl.Pool() as pool:
        ans = pool.run([{'kind': 'compile', 'text': '@a: %s;\n.c0{width:%s}\n' % (c['var'], c['expr']), 'opts': {}} for c in var])
    rows_m, rows_s, a2 = [], [], []
    for c, a in zip(var, ans):
        if a.get('r') == 'ok':
            v = valuecases.split_sheet(a['css']).get(0)
            a = {'r': 'ok', 'css': v} if v is not None else {'r': 'escaped', 'type': 'unsplit', 'msg': a['css']}
        a2.append(a)
        rows_m.append(cmp_num(c['model'], a)); rows_s.append(cmp_num(c['spec'], a))
    import os
    wd = os.path.join(ctx['scratch'], 'var%d' % ctx.get('mult', 1))
    bs, ds, es = coqrun.evaluate(rows_s, ['Spec.NumSpec', 'Model.NumLex'], wd, tag='s')
    bm, dm, em = (coqrun.evaluate(rows_m, MODS, wd, tag='m') if ctx.get('model_usable', True) else ([], {}, []))
    out['harness_errors'] += es + em
    for i, (c, a) in enumerate(zip(var, a2)):
        rec = {'input': {'expr': c['expr'], 'prop': 'width', 'prelude': '@a: %s;\n' % c['var']}, 'impl': a, 'classes': [], 'descr': c['descr']}
        if i in bs:
            rec['spec'] = ds.get(i); out['spec_mismatch'].append(rec)
        elif i in bm:
            rec['model'] = dm.get(i); out['model_mismatch'].append(rec)
    out['evaluations'] += len(var)
    out['distinct_nontrivial'] = len({c['key'] + (c['descr'],) for c in cases if c['nontrivial']})
    out['samples'] = [{'expr': c['expr'], 'impl': a.get('css', a)} for c, a in list(zip(plain, answers))[:6]]
    dist = {}
    for c in cases:
        dist[c['descr']] = dist.get(c['descr'], 0) + 1
    out['distribution'] = dist
    extra = run_mixin_family(ctx, rng, max(40, n // 6), out)
    out['distinct_nontrivial'] += extra
    out['distinct_nontrivial'] += run_unknown_family(ctx, rng, max(150, n // 3), out)
    return out


def replay(case):
    inp = case['input']
    if 'less' in inp:
        with impl.Pool(1) as pool:
            a = pool.run([{'kind': 'compile', 'text': inp['less'], 'opts': {}}])[0]
        return {'input': inp['less'], 'rule': inp.get('rule'), 'impl_now': a, 'spec_expected': case.get('spec'), 'still_fails': None}
    text = inp.get('prelude', '') + '.c0{%s:%s}\n' % (inp.get('prop', 'width'), inp['expr'])
    with impl.Pool(1) as pool:
        a = pool.run([{'kind': 'compile', 'text': text, 'opts': {}}])[0]
    got = valuecases.split_sheet(a['css']).get(0) if a.get('r') == 'ok' else None
    return {'input': text, 'impl_now': a, 'value_now': got, 'spec_expected': case.get('spec'),
            'still_fails': True if got is None else None, 'note': 'compare value_now with spec_expected (exact rational n/d unit=...)'}
