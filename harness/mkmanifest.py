#!/venv/bin/python
"""Regenerate MANIFEST.json from the table below (kept here so the manifest stays valid and in sync)."""
import json, os
VERIF = os.path.dirname(os.path.dirname(os.path.abspath(__file__)))

CHECKS = {
 'C08': dict(
   technique='Coq proof (complete 256x256x4 channel sweep by vm_compute lifted with forallb_forall; structural lemmas for literals) + generated-parameter table facts + correspondence impl/model/spec',
   text='Theorems C08_literal_normalised, C08_arithmetic, C08_process, C08_wellformed about the Gallina model of Color.fmt/_hextorgb/process/operate for all 3- and 6-digit literals in every letter case and all pairs of colours x 4 operators; constants (clamp bounds, comparison operators, operator map, format string) are regenerated from /repo on every run and re-checked as table facts; the model is tied to the code by correspondence on generated stylesheets (values, variables) and, in the thorough tier, a complete 256x256x4 channel sweep through Color().process.',
   note='Trusted: Coq kernel + vm_compute; gen_params.py; hand-written model of color.py; correspondence harness. Python float division a/b for a,b<=255 assumed to truncate like the exact quotient (checked exhaustively in thorough). Front end (PLY) tied by correspondence only.',
   design='3/C08'),
}

CHECKS['C17'] = dict(
   technique='Coq proof over Q about arithmetic TRANSLATED from the python source on every run (py2coq) + correspondence impl/model/spec on a signed grid',
   text='Theorem C17_unknown_function (a function name lesscpy does not define is copied with its arguments evaluated where the call stands, in order; on the evaluator model). Theorem C17_builtins: for every number token (any rational value, either sign, any unit) round/ceil/floor/increment/decrement return the exact result with the unit preserved (zero prints bare), percentage returns 100x with unit % for arguments with at most 12 decimals; C17_round_spec_near/_ties pin the reference rounding (within 1/2, ties away from zero). The arithmetic bodies (builtin_*_py, away_from_zero_round_py) are regenerated from lesscpy/plib/call.py and lesscpy/lessc/utility.py by the translator on every run, so the theorem is re-checked against what the code says now. Correspondence: grid around integers and half-integers of both signs, literal / variable / expression arguments. Unknown-function pass-through is covered by correspondence only so far (see level_note).',
   note='Trusted: Coq kernel; py2coq translator in gen_params.py (arithmetic expression subset, python numbers as exact rationals); hand model of analyze_number/with_unit; python float vs exact rational gap covered by correspondence at 1e-9. Partial: the unknown-function half of the property has no theorem yet.',
   design='3/C17')

CHECKS['C06'] = dict(
   technique='Coq proof by induction over guard structure (unbounded comma lists of and-chains) + regenerated operator tables as table facts + correspondence impl/model/spec',
   text='Theorems C06_condition (each of the five comparisons, optionally negated, has its arithmetic meaning on all pairs of rationals; the stored operator goes through the regenerated reverse_guard and Expression.operate maps), C06_guard (Mixin.parse_guards on the flat list the parser builds equals "some and-chain holds entirely" for every comma list of and-chains of any length), C06_exclusive (first-match selection picks the mixin whose guard holds when guards are mutually exclusive). Correspondence: generated guards x argument pairs through the real compiler, compared inside Coq with the model and with the DNF spec.',
   note='Trusted: Coq kernel; gen_params.py (dict extraction); hand model of parse_guards / p_mixin_guard_cond_rev / Deferred first-match; argument binding and numeric operand evaluation tied by correspondence only.',
   design='3/C06')

CHECKS['C04'] = dict(
   technique='Coq proof by induction over rendering derivations (parser round trip, unbounded) and over expression trees (evaluation) + operator-pair matrix read off the real LALR automaton as a table fact + correspondence impl/model/spec',
   text='Theorems C04_parse_any_rendering (the shift/reduce parser driven by the operator-pair matrix that gen_params.py reads off the REAL generated automaton reads back every expression tree from every rendering: minimal or redundant parentheses, -( ), any size), C04_parse_minimal, C04_eval (Expression.parse/NegatedExpression.parse = ordinary arithmetic over Q with the unit of the first operand that has one, under the property own exclusions). Table facts: behavioural matrix = declared matrix = two left-associative levels; operator map of Expression.operate. Correspondence: random trees and all operator sequences, literals and variables, compared numerically to 1e-9 and on units and integer syntax.',
   note='Trusted: Coq kernel; gen_params.py (matrix extraction by parsing 16 probes with the real parser); hand model of Expression.parse/with_units/analyze_number; python float vs exact rationals covered by correspondence (1e-9). Modelling assumption: an LR automaton treats operator sequences as its operator-pair decisions dictate.',
   design='3/C04')

CHECKS['C09'] = dict(
   technique='Coq proof over exact rationals (model of color.py with constants, rounding functions, clamp, spin hue arithmetic and mix weights translated from source) + exhaustive-grid correspondence against the float implementation',
   text='Theorems C09_shift/_greyscale/_spin/_mix/_hsl/_rgb: for every colour and every rational amount/angle/weight the model result is a well-formed #rrggbb whose channels are the exactly computed values (hand-transcribed colorsys = the standard conversion; named component shifted and clamped; hue modulo 360; weighted average) rounded to the nearest integer (mix: within one unit); C09_spin_periodic; C09_rgba_zero (decimal channels). The nearness predicate proved of the model is the same executable predicate the correspondence applies to the real code on all 4096 short colours x the amount/angle grid (thorough) or a sample (quick).',
   note='PARTIAL: the code computes in binary floating point, the model in exact rationals; no theorem relates the two, the gap is covered by the grid correspondence (ties on the grid are exact or >= 1e-7 away). Trusted: Coq kernel; gen_params.py/py2coq; hand transcription of colorsys and of the Color method wiring.',
   design='3/C09')

CHECKS['C02'] = dict(
   technique='Coq proof by nested induction over the rule tree (evaluator = preorder flattening; printer = concatenation of groups) and over selector token lists (Identifier.root) + byte-exact model correspondence + reference-semantics comparison through an independent CSS reader',
   text='Theorems C02_flatten (for every tree of ordinary nested rules, any depth/width, the evaluator model succeeds and the printed groups are exactly the preorder flattening: own declarations first, nested rules depth-first in source order, each rule with a declaration once, empty rules omitted), C02_text (the text is the concatenation of the printed groups for every option vector), C02_one_rule_each, C02_selector_count / C02_descendant / C02_ampersand (every parent x every child selector, child-major, |parents|^k tuples in itertools.product order for k ampersands), C02_ampersand_textual_partial (substitution is textual unless a token ends in ] : known finding F25). Correspondence: generated nesting trees through the real compiler, compared byte-for-byte with the Coq model under vm_compute and item-by-item with the reference semantics Spec/Sem.v.',
   note='Trusted: Coq kernel; hand model of Identifier.parse/root/fmt, Block.parse/fmt, Property.fmt, Formatter (tied to the code by byte-exact correspondence on every generated case); harness/gens/sheet.py tree() as the stand-in for the LALR parser (validated by the same comparison); harness/readcss.py. Known finding F25 (blank inserted when & follows an attribute selector).',
   design='3/C02')

CHECKS['C07'] = dict(
   technique='Coq proof by nested induction over trees of rules and @media blocks (the rotation in Block.parse = reference flattening with conditions merged outer-to-inner) + byte-exact model correspondence + reference-semantics comparison',
   text='Theorem C07_rotation: for every tree of rules and @media blocks (any depth, @media in @media to any depth, selector lists, &-rules) the evaluator model returns unconditional rule trees followed by flat @media blocks and the printed groups are those of the reference flattening mflat: every declaration list under exactly the (media, selector) pair it was written under, nested conditions merged outer-to-inner, unconditional part first, source order. C07_no_media_inside_rule_*: no @media remains inside a rule. C07_conjunction: the merged condition is outer + and + inner. Correspondence: generated placements through the real compiler vs model (bytes) and vs Spec/Sem.v (items).',
   note='Trusted: Coq kernel; hand model of Identifier/Block/Property/Formatter/Scope tied to the code by byte-exact correspondence on every generated case; harness/gens/sheet.py tree() as stand-in for the LALR parser (validated by the same comparison) and, independently, the reference parser coq/Model/Parse.v run from the source text inside Coq (compile_text) against the real compiler on every case; harness/readcss.py; reference semantics Spec/Sem.v.' + ' Variables in feature values and media inside mixin bodies are covered by correspondence only.',
   design='3/C07')
CHECKS['C11'] = dict(
   technique='Coq proof on the formatter model that any two option vectors give outputs equal up to whitespace characters, for every object tree (induction over the printers), + facts about the regenerated 72-row fill table (complete finite option space) + shape checks of the real output under all 72 vectors + command line == library + model/spec correspondence',
   text='Theorems C11_whitespace_only (for all option vectors o1, o2 and every evaluated program, erase(format o1) = erase(format o2), erase = remove every whitespace character; by induction over Property.fmt / Identifier.fmt / Block.fmt with the @media re-indentation / Formatter.format), C11_whitespace_only_any_fills, C11_option_space_covered, C11_minify_shape, C11_default_shape, C11_fills_are_whitespace over the fill table that gen_params.py obtains by running the real Formatter on all 72 option vectors. Correspondence: every generated sheet under a random vector vs the byte-exact model and vs the reference semantics (identical items under every vector = whitespace-only differences); for a sample of sheets ALL 72 vectors: documented shape of the real output (indentation = unit x depth, one declaration per line; no newline/optional blank when minified; no newline at all with xminify); command-line flags vs library call.',
   note='Trusted: Coq kernel; hand model of Identifier/Block/Property/Formatter/Scope tied to the code by byte-exact correspondence on every generated case; harness/gens/sheet.py tree() as stand-in for the LALR parser (validated by the same comparison) and, independently, the reference parser coq/Model/Parse.v run from the source text inside Coq (compile_text) against the real compiler on every case; harness/readcss.py; reference semantics Spec/Sem.v.' + ' PARTIAL: the whitespace-only theorem erases whitespace inside string literals too (that strings are verbatim is C18) and is about the formatter model; the parser and evaluator are option independent in the code (options only reach Formatter), which the correspondence over the complete option space confirms.',
   design='3/C11')
CHECKS['C19'] = dict(
   technique='Coq lemmas (header kept, frames keep declarations in order, table fact keyframes at-words are sub-parse identifiers) + byte-exact model correspondence + reference-semantics comparison',
   text='Theorems C19_keyframes_names (every reserved css_keyframes at-word, incl. vendor prefixes, is in Identifier._subp: re-decided on the regenerated tables), C19_header_kept, C19_frame. Correspondence: generated @keyframes / @font-face / @charset / @import css at top level, in @media and next to rules, compared byte-for-byte with the model and item-by-item with Spec/Sem.v.',
   note='Trusted: Coq kernel; hand model of Identifier/Block/Property/Formatter/Scope tied to the code by byte-exact correspondence on every generated case; harness/gens/sheet.py tree() as stand-in for the LALR parser (validated by the same comparison) and, independently, the reference parser coq/Model/Parse.v run from the source text inside Coq (compile_text) against the real compiler on every case; harness/readcss.py; reference semantics Spec/Sem.v.' + ' PARTIAL: whole-stylesheet statement by correspondence.',
   design='3/C19')
CHECKS['C01'] = dict(
   technique='Coq proof (evaluator+printer on trees without LESS features: same rules, same order, same declarations) + C08 for colours + byte-exact model correspondence + reference-semantics comparison over all option vectors',
   text='Theorem C01_rules_in_order: for every list of plain rules (any number, any selector tokens, any literal values) the evaluator model emits one group per rule with declarations, in source order, with the declarations in order; C01_media_kept (from C07_rotation). Colour normalisation is C08. Correspondence: generated plain sheets (all selector forms, comma/space lists, strings, url(), !important, @media) x random option vectors vs model (bytes) and Spec/Sem.v (items).',
   note='Trusted: Coq kernel; hand model of Identifier/Block/Property/Formatter/Scope tied to the code by byte-exact correspondence on every generated case; harness/gens/sheet.py tree() as stand-in for the LALR parser (validated by the same comparison) and, independently, the reference parser coq/Model/Parse.v run from the source text inside Coq (compile_text) against the real compiler on every case; harness/readcss.py; reference semantics Spec/Sem.v.' + ' PARTIAL: the LALR parser is not modelled; the lexer/filter model belongs to C12.',
   design='3/C01')
CHECKS['C03'] = dict(
   technique='Coq lemmas about the scope model (innermost lookup, shadowing, block locality, unbound = error) + byte-exact model correspondence + reference-semantics (lexical environment) comparison',
   text='Theorems C03_lookup_innermost, C03_block_local, C03_definition_shadows, C03_unbound_fails about the model of lessc/scope.py and Node.process. Correspondence: generated programs with definitions at every depth, shadowing, variable-to-variable chains, uses in values, compared with the model (bytes) and with Spec/Sem.v (lexical substitution, top level: last definition wins). Known finding F12 (top-level name used between two of its definitions takes the earlier one; pinned by a fixture).',
   note='Trusted: Coq kernel; hand model of Identifier/Block/Property/Formatter/Scope tied to the code by byte-exact correspondence on every generated case; harness/gens/sheet.py tree() as stand-in for the LALR parser (validated by the same comparison) and, independently, the reference parser coq/Model/Parse.v run from the source text inside Coq (compile_text) against the real compiler on every case; harness/readcss.py; reference semantics Spec/Sem.v.' + ' PARTIAL: the end-to-end substitution theorem is not proved; uses in selectors / media conditions / mixin arguments are covered by C18/C05 correspondence.',
   design='3/C03')

CHECKS['C10'] = dict(
   technique='metamorphic correspondence on the real compiler (plain-CSS detector, compile(compile(s)) == compile(s), cross-option equality) over generated programs and the project corpus + Coq normal-form theorems (no rule / no @media inside a rule, unbound variable = error)',
   text='Decided on the real compiler: for generated programs of all fragments under random option vectors and for every file of test/less, the output contains no LESS construct, compiling it again returns it unchanged (when the front end accepts it), and compiling it with other options equals compiling the source with them. Coq obligations: C10_flat_output / C10_no_media_in_rule (the evaluator returns ordinary rules followed by @media blocks holding ordinary rules only, for every tree of rules and @media blocks), C10_no_unresolved_variable.',
   note='PARTIAL: the fixed-point statements have no theorem (the text->tree front end is modelled only at token level); known findings F24a/F24b (two corpus files, escapes / progid filter) and F5b (query starting with a feature prints )and( : pinned by a fixture). Trusted: the plain-CSS detector in harness/props/c10.py.',
   design='3/C10')

CHECKS['C16'] = dict(
   technique='Coq proof by induction over file lists and over operation histories (state machine of ldirectory over an abstract file system, compiler as an oracle) + correspondence on real scratch directories with the real command line',
   text='Theorems C16_level_spec (an output is rewritten with the compilation of THAT file alone iff --force, missing or older than its source, and not a dry run), C16_stale_means (staleness comparison regenerated from the source), C16_others_untouched (independent of other files), C16_dry_run_identity, C16_history (over every history of modify/touch/run with any flags an output at least as new as its source is the compilation of the current source, both naming schemes), C16_after_run, C16_scope_isolated (table fact: per-file copy of the include scope). Correspondence: histories of create/modify/touch/re-stamp/run with random flag subsets on a two-level tree with hidden directory; after every run the whole output tree is compared with the model whose compile oracle is a single-file run of the real CLI with the same options and includes; single-file CLI vs library.',
   note='Trusted: Coq kernel; hand model of ldirectory; the oracle (real single-file command line); os.utime-controlled logical clock. PARTIAL: creation of new source names inside a history is outside C16_history (fixed name set), covered by the correspondence; OS glob order and mtime granularity are outside the model.',
   design='3/C16')

CHECKS['C13'] = dict(
   category='other',
   technique='Coq proof of the cache protocol (invariant by induction over all interleaved schedules, PLY as an oracle) + correspondence on real processes, threads, hash seeds and damaged cache files',
   text='Theorem C13_cache_irrelevant: for every number of processes, every schedule of the sub-steps of their parser constructions and every initial state of the shared table file (absent, valid, truncated at any prefix, foreign), if no table module sits in the package directory every parse uses freshly generated tables. The rest of the property is about real processes and is decided by correspondence: histories of valid and failing compilations (including ones that stop inside parentheses, url(, a media query, a string) in one process vs fresh-process compiles; stream vs file object; five hash seeds; 8 threads; 6 (quick) / 16 (thorough) processes started together on one temporary directory for every cache state: cold, warm, every file a compile leaves there truncated at sampled (quick) / dense (thorough) prefix lengths, foreign text, well-formed-but-wrong tables.',
   note='PARTIAL (category other): OS scheduling, partial writes below chunk granularity, CPython import locks are runtime behaviour outside any executable model. PLY 3.11 contract is an oracle (Section variables of Model/Cache.v), checked by experiment: the temp-dir table is written, never read.',
   design='3/C13')

CHECKS['C20'] = dict(
   technique='Coq proof (model total by construction; variable cycles exhaust every amount of fuel; acyclic chains evaluate with fuel k+1; limits regenerated from the source) + exhaustive small-shape correspondence under a hard wall-clock limit',
   text='Theorems C20_variable_cycle_reported (a set of variables closed under "defined as one variable of the set" - a cycle of any length/shape - yields fuel exhaustion for every fuel), C20_chain_terminates, C20_limits (round / depth / import limits and the RecursionError handler re-read from the source). Correspondence: mixin cycles of length 1-6 in four shapes, guarded recursion at depths limit-4..limit+4, import cycles of length 1-6 in three path styles and chains around the import limit, variable cycles 1-6, branching variable cycles (each variable mentions the next 2-3 times, which multiplies the token list every round) and chains around the round limit (also against the Coq model), each under a 20 s limit: runaway references must be CompilationError, everything below the limits must expand completely.',
   note='PARTIAL: wall-clock time bounds are about the interpreter; mixin recursion and import cycles are decided by correspondence only (the mixin/import evaluators are not yet in the model).',
   design='3/C20')

CHECKS['C05'] = dict(
   technique='Coq lemmas about the call mechanism of the evaluator model (positional binding with defaults, arity, silent definitions, a call = the callee body evaluated at the call site) + byte-exact model correspondence + reference-semantics (inlining) comparison',
   text='Theorems C05_bind, C05_arity, C05_definition_silent, C05_call_is_body, C05_unknown_call_adds_nothing about call_mixin / bind_params (the model of Deferred.parse, Mixin.call, parse_args). Correspondence: generated mixin programs (arity 0-3, defaults, bodies with declarations, nested rules, &-selectors, @media, nested calls, @arguments; calls before/after definitions, , or ; separated; ordinary rule used as mixin) vs the model (bytes) and vs Spec/Sem.v sem_call (inlining with parameters in their own frame).',
   note='PARTIAL: the whole-program theorem evaluation = evaluation of the inlined program is not proved (decided by correspondence); guards are C06, recursion C20. Known finding F27 (a nested call rebinds @arguments / same-named parameters for the rest of the calling body). Hygiene: parameter names are not names of other variables (granted by the property). Trusted: Coq kernel; hand model; harness/gens/sheet.py tree().',
   design='3/C05')

CHECKS['C12'] = dict(
   category='other',
   technique='Coq proof on a Gallina model of the PLY lexer (all rules, all modes, rule order regenerated from the built lexer) and of LessLexer.token(): gap theorem, layout-independence theorem, last-semicolon theorem + token-stream correspondence with the real lexer + base-vs-variant compilation on the real compiler (generated programs and the example corpus)',
   text='Theorems C12_compile_layout_independent (END TO END on the model pipeline text -> CSS, coq/Model/Pipeline.v: whatever was lexed before, replacing a gap by another gap that also contains / lacks whitespace leaves the compiled CSS unchanged), C12_gap_raw (in every lexer state outside an interpolated string, any gap of blank runs, line-break runs, block comments and line comments lexes to one whitespace token per run; comment text yields no token and consumes exactly itself), C12_gap_filtered (what LessLexer.token() passes on, for every token history), C12_layout_independent (two gaps at the same place that both contain / both lack whitespace give the same token types and values for the whole rest of the input), C12_last_semicolon (written or omitted, the parser receives ; } and the same continuation), C12_rule_order (the model rule order = the order of the lexer PLY builds). Correspondence: (a) raw and filtered token streams (type, value, line) model vs real lexer on generated sheets in wild layouts, token soups and corpus files; (a2) the whole model pipeline (lexer + filter + reference parser + evaluator + formatter) on the wild-layout texts vs the real compiler, byte for byte; (b) each generated program in a base layout vs 3 variants differing only in whitespace-run content, comments (bodies with ; { } quotes //) at statement boundaries and last semicolons must compile to identical bytes under the same options; (c) the same on every corpus file with runs located by the real lexer token positions.',
   note='PARTIAL (category other): the end-to-end theorem is about the model pipeline, whose parser is a hand-written reference parser for the fragment (coq/Model/Parse.v), not the LALR tables of PLY; the tie is the byte-exact text-level correspondence (a2) and (b),(c) on the real compiler. The model abstains (counted in the evidence) on backslash escapes, non-ASCII names and unquoted URL shapes inside parentheses. Trusted: Coq kernel; hand-written matchers for each rule expression (Python re semantics); PLY rule-order contract (checked by C12_rule_order against lexer.lexstatere).',
   design='3/C12')

CHECKS['C15'] = dict(
   category='other',
   technique='Coq proof on the lexer model (characters of no token are rejected in every state outside strings, with the line counted through any gap and through multi-line strings) and on the evaluator model (undefined variable = error) + exhaustive single corruptions of generated programs on the real compiler with independently computed line numbers + token correspondence including lines',
   text='Theorems C15_accepted_is_balanced (every token stream the reference parser of the model pipeline accepts has balanced braces: an open block at end of input or a stray closing brace is never compiled), C15_declaration_needs_colon, C15_open_string_rejected, C15_illegal_character, C15_illegal_line (line = start line of the preceding gap + line feeds in it, through block comments, line comments, CR/LF/CRLF), C15_lines_through_gap, C15_lines_through_string, C15_undefined_variable. Correspondence: every generated program (with multi-line plain and interpolated strings, multi-line comments and CRLF in front) is corrupted once per class and position (quick: 3 positions per class and program; thorough: every position): closing brace deleted, truncated inside a block, string left open at end of input, stray closing brace at top level (line checked) and nested, opening brace deleted, declaration colon replaced by a blank (line of the first value token checked), character of no token inserted in a gap (line checked), value replaced by an undefined variable (also against the evaluator model and the reference semantics); the command line must print a diagnostic; the verdict of the model pipeline (Lex + reference parser) on a sample of the corrupted texts vs the real compiler; raw/filtered token streams with lines model vs real lexer.',
   note='PARTIAL (category other): on the real side unbalanced braces, open strings, missing braces and colons are detected by the LALR parser of PLY, which is not modelled (the theorems are about the reference parser coq/Model/Parse.v); they are decided by the corruption sweep on the real parser, where the reference parser has to give the same verdict. The command line keeps going after a syntax error and also prints the CSS of the remaining rules; the property only asks for the diagnostic there. Trusted: Coq kernel; lexer and evaluator hand models; the line oracle 1 + count of LF before the offending token.',
   design='3/C15')

CHECKS['C18'] = dict(
   category='other',
   technique='Coq proof on the lexer / evaluator / formatter models (a string is one token whatever its body, evaluates to itself, is printed verbatim under every option vector; @{name} = the value of @name = what a plain use gives; selector substitution) + byte-exact model correspondence + reference semantics + verbatim and inertness checks on the real output',
   text='Theorems C18_string_is_one_token (value position and inside parentheses), C18_string_evaluates_to_itself, C18_string_printed_verbatim (all fills), C18_interpolation_value, C18_same_value_everywhere, C18_selector_interpolation, C18_selector_interpolation_unbound. Correspondence: generated sheets with random string bodies over all printable characters except the quote, backslash and @ (both quote kinds; braces, semicolons, comment marks, commas, repeated blanks, url(..) look-alikes), interpolated strings and interpolated class selectors over 1-3 identifier/number-valued variables that are also used plainly; every case vs the evaluator model (bytes) and vs Spec/Sem.v; plus on the real output: replacing every string body by a placeholder changes nothing but the placeholder.',
   note='PARTIAL (category other): the parser step between the lexer token and the declaration value is not modelled (decided by the byte-exact correspondence). Interpolation inside mixin bodies with parameters in selectors is outside the model (selectors are resolved at call time there). String-valued variables are outside the property quantifier (the implementation strips their quotes in place on interpolation). Trusted: Coq kernel; hand models; harness/gens/sheet.py tree(); harness/readcss.py.',
   design='3/C18')

CHECKS['C14'] = dict(
   category='other',
   technique='Coq proof on a model of p_statement_import (splice position, an import = the inlined file looked up relative to the importing file, missing file and depth limit are errors, other imports kept) + correspondence on random file trees on disk: real compiler on the tree vs real compiler on the pasted text vs import+evaluator model',
   text='Theorems C14_position, C14_import_equals_paste, C14_missing_reported, C14_too_deep_reported, C14_other_imports_kept (and computed examples of the path functions). Correspondence: generated programs (variables incl. a name defined twice across the cut, interpolation in selectors and strings, media, at-rules, non-LESS import statements) cut at top-level statement boundaries into random trees of files and sub-directories (nested cuts to depth 4, spellings with/without extension, ./ ../ sub/../x, both quotes, url()); the CSS of the tree must equal the CSS of the pasted text byte for byte under the same options, and equal the model; one case in four has an imported file removed and must fail.',
   note='PARTIAL (category other): the theorems are about the model of the import statement; the shared scope and the splice in the real parser are decided by the correspondence. Imports inside blocks and import cycles (C20) are outside this check. Trusted: Coq kernel; hand models (Import.v, Eval.v); the temporary directory tree being the only import path.',
   design='3/C14')

NOT_YET = {}


def main():
    props = [json.loads(l) for l in open(os.path.join(VERIF, 'properties.jsonl'))]
    checks, na = [], []
    for p in props:
        pid = p['id']
        if pid in CHECKS:
            c = CHECKS[pid]
            checks.append({
                'property_id': pid,
                'quick_cmd': '/venv/bin/python check.py %s quick' % pid,
                'thorough_cmd': '/venv/bin/python check.py %s thorough' % pid,
                'evidence_file': '/verif/evidence/%s.json' % pid,
                'replay_cmd_template': '/venv/bin/python check.py --replay {path}',
                'engine': 'coq-proof+correspondence',
                'level_claimed': {'category': c.get('category', 'proof'), 'text': c['text'], 'design_ref': c['design']},
                'level_note': c['note'],
                'technique': c['technique'],
            })
        else:
            na.append({'property_id': pid, 'reason': NOT_YET.get(pid, 'check not built yet in this session (planned: see DESIGN.md section 3); not claimed until its theorem and correspondence exist')})
    m = {
        'version': 1,
        'setup_cmd': '/venv/bin/python check.py --setup',
        'hooks': {'guard': 'LESSCPY_VERIF', 'enable': 'no hooks are needed: checks import /repo directly (env LESSCPY_VERIF=1 is set but unused)',
                  'baseline_off_cmd': 'cd /repo && /venv/bin/python -m pytest -ra -q -p no:cacheprovider --timeout=900 --continue-on-collection-errors',
                  'source_commits': [], 'add_only': True},
        'engines': [{'name': 'coq-proof+correspondence', 'path': '/verif/check.py', 'serves_properties': sorted(CHECKS),
                     'kind_free_text': 'Coq 8.16 development (coq/), parameters regenerated from /repo by harness/gen_params.py, correspondence by generated cases files evaluated with vm_compute'}],
        'checks': checks,
        'notes': 'See DESIGN.md. Every check regenerates coq/Gen/Params.v from /repo, rebuilds the Coq development, re-checks Props/<id>.v and runs the correspondence (implementation vs model vs spec).',
        'not_applicable': na,
    }
    with open(os.path.join(VERIF, 'MANIFEST.json'), 'w') as f:
        json.dump(m, f, indent=1)


if __name__ == '__main__':
    main()
