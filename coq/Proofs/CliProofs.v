(* CliProofs.v — C16: directory mode rewrites exactly the stale outputs, with the bytes of compiling each file
   alone, leaves everything else untouched, does nothing on a dry run; over operation histories an output that
   is at least as new as its source always is the compilation of the current source. *)
From Coq Require Import String.
From Coq Require Import List Ascii Bool NArith ZArith Lia.
Require Import Model.Text Model.ParamTypes Gen.PCli Model.Cli.
Import ListNotations.
Local Open Scope Z_scope.

Lemma tf_staleness : cmp_eqb staleness_cmp CLt = true.
Proof. vm_compute. reflexivity. Qed.
Lemma staleness_is_lt : staleness_cmp = CLt.
Proof. pose proof tf_staleness as H. destruct staleness_cmp; try discriminate; reflexivity. Qed.

Section S.
  Variable compile : str -> str.

  Lemma stale_spec fl src out :
    stale fl src out = fl_force fl || match out with None => true | Some o => f_mtime o <? f_mtime src end.
  Proof. unfold stale. rewrite staleness_is_lt. destruct (fl_force fl); [reflexivity|]. destruct out; reflexivity. Qed.

  Lemma str_eqb_refl x : str_eqb x x = true.
  Proof. induction x as [|c t IH]; simpl; [reflexivity|now rewrite Ascii.eqb_refl]. Qed.
  Lemma str_eqb_eq a b : str_eqb a b = true -> a = b.
  Proof.
    revert b; induction a as [|x a IH]; destruct b as [|y b]; simpl; intros H; try discriminate; auto.
    apply andb_true_iff in H as [H1 H2]. apply Ascii.eqb_eq in H1. subst. f_equal. auto.
  Qed.
  Lemma str_eqb_neq a b : a <> b -> str_eqb a b = false.
  Proof. intros H. destruct (str_eqb a b) eqn:E; [apply str_eqb_eq in E; contradiction|reflexivity]. Qed.

  Lemma lookup_set_same o f fs : lookup_file o (set_file o f fs) = Some f.
  Proof.
    unfold lookup_file. induction fs as [|[n g] r IH]; cbn [set_file assoc]; [now rewrite str_eqb_refl|].
    destruct (str_eqb n o) eqn:E; cbn [assoc].
    - apply str_eqb_eq in E. subst. now rewrite str_eqb_refl.
    - assert (str_eqb o n = false) as -> by (apply str_eqb_neq; intros ->; rewrite str_eqb_refl in E; discriminate). exact IH.
  Qed.
  Lemma lookup_set_other o o' f fs : o' <> o -> lookup_file o' (set_file o f fs) = lookup_file o' fs.
  Proof.
    intros Hne. unfold lookup_file. induction fs as [|[n g] r IH]; cbn [set_file assoc].
    - now rewrite (str_eqb_neq o' o Hne).
    - destruct (str_eqb n o) eqn:E; cbn [assoc].
      + apply str_eqb_eq in E. subst. now rewrite (str_eqb_neq o' o Hne).
      + destruct (str_eqb o' n); [reflexivity|exact IH].
  Qed.

  (* --dry-run changes nothing *)
  Lemma dry_run_level now fl srcs out : fl_dry fl = true -> compile_level compile now fl srcs out = out.
  Proof.
    intros Hd. revert out. induction srcs as [|[name f] r IH]; intros out; [reflexivity|].
    cbn [compile_level]. rewrite Hd, andb_false_r. destruct (is_less name); apply IH.
  Qed.

  (* an output name no remaining source maps to is left untouched *)
  Lemma level_untouched now fl srcs : forall out o,
    (forall name f, In (name, f) srcs -> is_less name = true -> out_name fl name <> o) ->
    lookup_file o (compile_level compile now fl srcs out) = lookup_file o out.
  Proof.
    induction srcs as [|[name f] r IH]; intros out o Hno; [reflexivity|].
    cbn [compile_level]. destruct (is_less name) eqn:El.
    - rewrite IH by (intros n g Hin; apply (Hno n g); now right).
      destruct (stale fl f (lookup_file (out_name fl name) out) && negb (fl_dry fl)); [|reflexivity].
      apply lookup_set_other. intros Heq. exact (Hno name f (or_introl eq_refl) El (eq_sym Heq)).
    - apply IH. intros n g Hin. apply (Hno n g). now right.
  Qed.

  Definition outs (fl : flags) (srcs : list (str * file)) : list str :=
    map (fun nf => out_name fl (fst nf)) (filter (fun nf => is_less (fst nf)) srcs).

  Lemma in_outs fl srcs name f : In (name, f) srcs -> is_less name = true -> In (out_name fl name) (outs fl srcs).
  Proof.
    intros Hin Hl. unfold outs. apply in_map_iff. exists (name, f). split; [reflexivity|].
    apply filter_In. split; [assumption|exact Hl].
  Qed.

  (* what happens to the output of one source: rewritten with the compilation of that file alone iff stale *)
  Lemma level_spec now fl srcs : forall out name f,
    NoDup (outs fl srcs) -> In (name, f) srcs -> is_less name = true ->
    lookup_file (out_name fl name) (compile_level compile now fl srcs out) =
      if stale fl f (lookup_file (out_name fl name) out) && negb (fl_dry fl)
      then Some (MkFile (compile (f_bytes f)) now) else lookup_file (out_name fl name) out.
  Proof.
    induction srcs as [|[n0 f0] r IH]; intros out name f Hnd Hin Hl; [contradiction|].
    cbn [compile_level]. unfold outs in Hnd. cbn [filter fst] in Hnd.
    destruct (is_less n0) eqn:E0.
    - cbn [map fst] in Hnd. inversion Hnd as [|? ? Hnotin Hnd']; subst. fold (outs fl r) in Hnotin, Hnd'.
      destruct Hin as [Heq|Hin].
      + injection Heq as -> ->.
        rewrite level_untouched.
        * destruct (stale fl f (lookup_file (out_name fl name) out) && negb (fl_dry fl)); [apply lookup_set_same|reflexivity].
        * intros n g Hin' Hl' Heq'. apply Hnotin. rewrite <- Heq'. now apply (in_outs fl r n g).
      + assert (out_name fl name <> out_name fl n0) as Hne.
        { intros Heq. apply Hnotin. rewrite <- Heq. now apply (in_outs fl r name f). }
        rewrite (IH _ name f Hnd' Hin Hl).
        destruct (stale fl f0 (lookup_file (out_name fl n0) out) && negb (fl_dry fl)); [|reflexivity].
        now rewrite lookup_set_other by exact Hne.
    - fold (outs fl r) in Hnd. destruct Hin as [Heq|Hin]; [injection Heq as -> ->; congruence|].
      now apply IH.
  Qed.

  (* ---- histories: create / modify / touch a source, run ---- *)
  Inductive op := OWrite (name : str) (bytes : str) | OTouch (name : str) | ORun (fl : flags).
  Record state := MkState { st_src : list (str * file); st_out : list (str * file); st_clock : Z }.

  Definition step (s : state) (o : op) : state :=
    let t := st_clock s + 1 in
    match o with
    | OWrite name bytes => MkState (set_file name (MkFile bytes t) (st_src s)) (st_out s) t
    | OTouch name => match lookup_file name (st_src s) with
                     | Some f => MkState (set_file name (MkFile (f_bytes f) t) (st_src s)) (st_out s) t
                     | None => MkState (st_src s) (st_out s) t
                     end
    | ORun fl => MkState (st_src s) (compile_level compile t fl (st_src s) (st_out s)) t
    end.

  (* ---- invariant ---- *)
  Definition with_min (m : bool) : flags := MkFlags false false m false.
  Lemma out_name_min fl name : out_name fl name = out_name (with_min (fl_min fl)) name.
  Proof. reflexivity. Qed.
  Lemma outs_min fl srcs : outs fl srcs = outs (with_min (fl_min fl)) srcs.
  Proof. reflexivity. Qed.

  (* an output that is at least as new as its source is the compilation of the source as it is now *)
  Definition CInv (m : bool) (src out : list (str * file)) : Prop :=
    forall name f o, lookup_file name src = Some f -> is_less name = true ->
      lookup_file (out_name (with_min m) name) out = Some o -> f_mtime f <= f_mtime o -> f_bytes o = compile (f_bytes f).

  Definition names_ok (src : list (str * file)) : Prop :=
    NoDup (map fst src) /\ NoDup (outs (with_min false) src ++ outs (with_min true) src).

  Record Inv (s : state) : Prop := {
    inv_names : names_ok (st_src s);
    inv_src_old : forall name f, lookup_file name (st_src s) = Some f -> f_mtime f <= st_clock s;
    inv_out_old : forall o g, lookup_file o (st_out s) = Some g -> f_mtime g <= st_clock s;
    inv_content : forall m, CInv m (st_src s) (st_out s) }.

  Lemma lookup_In name f (l : list (str * file)) : NoDup (map fst l) -> (lookup_file name l = Some f <-> In (name, f) l).
  Proof.
    unfold lookup_file. induction l as [|[n g] r IH]; intros Hnd; [split; [discriminate|contradiction]|].
    cbn [map fst] in Hnd. inversion Hnd as [|? ? Hni Hnd']; subst. cbn [assoc].
    destruct (str_eqb name n) eqn:E.
    - apply str_eqb_eq in E. subst. split.
      + intros H. injection H as ->. now left.
      + intros [H|H]; [now injection H as ->|]. exfalso. apply Hni. apply in_map_iff. exists (n, f). auto.
    - rewrite (IH Hnd'). split; [now right|]. intros [H|H]; [|exact H]. injection H as -> ->. rewrite str_eqb_refl in E. discriminate.
  Qed.

  Lemma set_file_keys name f l : lookup_file name l <> None -> map fst (set_file name f l) = map fst l.
  Proof.
    unfold lookup_file. induction l as [|[n g] r IH]; cbn [assoc set_file map fst]; [congruence|].
    intros H. destruct (str_eqb name n) eqn:E.
    - apply str_eqb_eq in E. subst. now rewrite str_eqb_refl.
    - assert (str_eqb n name = false) as -> by (apply str_eqb_neq; intros ->; rewrite str_eqb_refl in E; discriminate).
      cbn [map fst]. now rewrite IH.
  Qed.
  Lemma set_file_outs fl name f l : lookup_file name l <> None -> outs fl (set_file name f l) = outs fl l.
  Proof.
    unfold lookup_file, outs. induction l as [|[n g] r IH]; cbn [assoc set_file]; [congruence|].
    intros H. destruct (str_eqb name n) eqn:E.
    - apply str_eqb_eq in E. subst. rewrite str_eqb_refl. cbn [filter fst]. destruct (is_less n); reflexivity.
    - assert (str_eqb n name = false) as -> by (apply str_eqb_neq; intros ->; rewrite str_eqb_refl in E; discriminate).
      cbn [filter fst]. destruct (is_less n); cbn [map fst]; now rewrite IH.
  Qed.

  Lemma NoDup_app_l {A} (a b : list A) : NoDup (a ++ b) -> NoDup a.
  Proof. induction a as [|x a IH]; intros H; [constructor|]. inversion H as [|? ? Hn Hd]; subst. constructor; [intro Hi; apply Hn; apply in_or_app; now left|auto]. Qed.
  Lemma NoDup_app_r {A} (a b : list A) : NoDup (a ++ b) -> NoDup b.
  Proof. induction a as [|x a IH]; intros H; [exact H|]. inversion H; subst. auto. Qed.
  Lemma NoDup_app_disj {A} (a b : list A) x : NoDup (a ++ b) -> In x a -> In x b -> False.
  Proof.
    induction a as [|y a IH]; intros H Ha Hb; [contradiction|]. inversion H as [|? ? Hn Hd]; subst.
    destruct Ha as [->|Ha]; [apply Hn; apply in_or_app; now right|eauto].
  Qed.

  Lemma outs_of_scheme m srcs : NoDup (outs (with_min false) srcs ++ outs (with_min true) srcs) -> NoDup (outs (with_min m) srcs).
  Proof. destruct m; [apply NoDup_app_r|apply NoDup_app_l]. Qed.

  Lemma run_preserves s fl : Inv s -> Inv (step s (ORun fl)).
  Proof.
    intros [[Hn Ho] Hs Hout Hc]. set (t := st_clock s + 1).
    constructor; cbn [step st_src st_out st_clock].
    - split; assumption.
    - intros name f H. specialize (Hs name f H). lia.
    - (* every output is either old or written now *)
      intros o g H.
      destruct (in_dec (list_eq_dec Ascii.ascii_dec) o (outs fl (st_src s))) as [Hin|Hnin].
      + unfold outs in Hin. apply in_map_iff in Hin as ([name f] & <- & Hf). apply filter_In in Hf as [Hin Hl]. cbn [fst] in *.
        rewrite (level_spec (st_clock s + 1) fl (st_src s) (st_out s) name f) in H; [|rewrite outs_min; apply outs_of_scheme; exact Ho|exact Hin|exact Hl].
        destruct (stale fl f _ && negb (fl_dry fl)); [injection H as <-; cbn; lia|]. specialize (Hout _ _ H). lia.
      + rewrite level_untouched in H.
        * specialize (Hout _ _ H). lia.
        * intros name f Hin Hl Heq. apply Hnin. rewrite <- Heq. now apply (in_outs fl (st_src s) name f).
    - intros m name f o Hf Hl Ho' Hle.
      pose proof (proj1 (lookup_In name f (st_src s) Hn) Hf) as Hin.
      destruct (Bool.bool_dec m (fl_min fl)) as [->|Hm].
      + rewrite <- out_name_min in Ho'.
        rewrite (level_spec (st_clock s + 1) fl (st_src s) (st_out s) name f) in Ho'; [|rewrite outs_min; apply outs_of_scheme; exact Ho|exact Hin|exact Hl].
        destruct (stale fl f _ && negb (fl_dry fl)).
        * injection Ho' as <-. reflexivity.
        * rewrite out_name_min in Ho'. exact (Hc (fl_min fl) name f o Hf Hl Ho' Hle).
      + (* the other naming scheme: its files are not written by this run *)
        rewrite level_untouched in Ho'; [exact (Hc m name f o Hf Hl Ho' Hle)|].
        intros n g Hin' Hl' Heq.
        assert (In (out_name (with_min m) name) (outs (with_min m) (st_src s))) as I1 by now apply (in_outs _ _ name f).
        assert (In (out_name fl n) (outs (with_min (fl_min fl)) (st_src s))) as I2 by (rewrite <- outs_min; now apply (in_outs _ _ n g)).
        rewrite Heq in I2.
        destruct m, (fl_min fl); try congruence.
        * exact (NoDup_app_disj _ _ _ Ho I2 I1).
        * exact (NoDup_app_disj _ _ _ Ho I1 I2).
  Qed.

  Lemma modify_preserves s name bytes : Inv s -> lookup_file name (st_src s) <> None -> Inv (step s (OWrite name bytes)).
  Proof.
    intros [[Hn Ho] Hs Hout Hc] Hex. set (t := st_clock s + 1).
    constructor; cbn [step st_src st_out st_clock].
    - split; [rewrite set_file_keys by assumption; exact Hn|rewrite !set_file_outs by assumption; exact Ho].
    - intros n f H. destruct (list_eq_dec Ascii.ascii_dec n name) as [->|Hne].
      + rewrite lookup_set_same in H. injection H as <-. cbn. lia.
      + rewrite lookup_set_other in H by assumption. specialize (Hs _ _ H). lia.
    - intros o g H. specialize (Hout _ _ H). lia.
    - intros m n f o Hf Hl Ho' Hle. destruct (list_eq_dec Ascii.ascii_dec n name) as [->|Hne].
      + rewrite lookup_set_same in Hf. injection Hf as <-. cbn [f_mtime] in Hle. specialize (Hout _ _ Ho'). lia.
      + rewrite lookup_set_other in Hf by assumption. exact (Hc m n f o Hf Hl Ho' Hle).
  Qed.

  Lemma touch_preserves s name : Inv s -> Inv (step s (OTouch name)).
  Proof.
    intros HI. cbn [step]. destruct (lookup_file name (st_src s)) as [f|] eqn:E.
    - apply (modify_preserves s name (f_bytes f) HI). congruence.
    - destruct HI as [Hn Hs Hout Hc]. constructor; cbn [st_src st_out st_clock]; auto.
      + intros n g H. specialize (Hs _ _ H). lia.
      + intros o g H. specialize (Hout _ _ H). lia.
  Qed.

  Definition op_ok (s : state) (o : op) : Prop :=
    match o with OWrite name _ => lookup_file name (st_src s) <> None | _ => True end.

  Theorem history_inv ops : forall s, Inv s ->
    (* every write in the history modifies a file that exists (creation changes the name set: see Props/C16.v) *)
    (forall s' o, op_ok s' o \/ True) ->
    (fix ok (s : state) (l : list op) : Prop := match l with [] => True | o :: r => op_ok s o /\ ok (step s o) r end) s ops ->
    Inv (fold_left step ops s).
  Proof.
    induction ops as [|o r IH]; intros s HI _ Hok; [exact HI|]. destruct Hok as [H1 H2]. cbn [fold_left].
    apply IH; [|intros; now right|exact H2].
    destruct o as [name bytes|name|fl]; [now apply modify_preserves|now apply touch_preserves|now apply run_preserves].
  Qed.

  (* after a run that is not a dry run every source has an output at least as new as itself *)
  Lemma run_post s fl name f :
    Inv s -> fl_dry fl = false -> lookup_file name (st_src s) = Some f -> is_less name = true ->
    exists o, lookup_file (out_name fl name) (st_out (step s (ORun fl))) = Some o /\ f_mtime f <= f_mtime o /\ f_bytes o = compile (f_bytes f).
  Proof.
    intros HI Hd Hf Hl. pose proof (run_preserves s fl HI) as HI'.
    destruct HI as [[Hn Ho] Hs Hout Hc].
    pose proof (proj1 (lookup_In name f (st_src s) Hn) Hf) as Hin.
    cbn [step st_out].
    rewrite (level_spec (st_clock s + 1) fl (st_src s) (st_out s) name f); [|rewrite outs_min; apply outs_of_scheme; exact Ho|exact Hin|exact Hl].
    rewrite Hd, andb_true_r. rewrite stale_spec.
    destruct (fl_force fl) eqn:Ef; cbn [orb].
    - eexists. split; [reflexivity|]. cbn. specialize (Hs _ _ Hf). split; [lia|reflexivity].
    - destruct (lookup_file (out_name fl name) (st_out s)) as [o|] eqn:Eo.
      + destruct (f_mtime o <? f_mtime f) eqn:Elt.
        * eexists. split; [reflexivity|]. cbn. specialize (Hs _ _ Hf). split; [lia|reflexivity].
        * exists o. split; [reflexivity|]. apply Z.ltb_ge in Elt. split; [exact Elt|].
          rewrite out_name_min in Eo. exact (Hc (fl_min fl) name f o Hf Hl Eo Elt).
      + eexists. split; [reflexivity|]. cbn. specialize (Hs _ _ Hf). split; [lia|reflexivity].
  Qed.
End S.
