(* ParseProofs.v — C15 on the reference parser: a token stream it accepts has balanced braces (so a block left open at the end
   of input or a stray closing brace is never compiled), a declaration needs its colon, a string left open is rejected. *)
From Coq Require Import String.
From Coq Require Import List Ascii Bool NArith Lia.
Require Import Model.Text Model.Paths Model.Ast Model.Lex Model.Parse Proofs.FmtProofs.
Import ListNotations.
Local Open Scope char_scope.

Definition is_open (t : tok) : bool := is_ty ($"t_bopen") t.
Definition is_close (t : tok) : bool := is_ty ($"t_bclose") t.
Definition nonbrace (t : tok) : bool := negb (is_open t || is_close t).
Fixpoint bal (d : nat) (ts : list tok) : bool :=
  match ts with
  | [] => Nat.eqb d 0
  | t :: r => if is_open t then bal (S d) r
              else if is_close t then match d with O => false | S d' => bal d' r end
              else bal d r
  end.

(* [seg ts rest]: ts = pre ++ rest where pre is brace balanced (and never closes more than it opened) *)
Definition balanced_seg (pre : list tok) : Prop := forall d r, bal d (pre ++ r) = bal d r.
Definition seg (ts rest : list tok) : Prop := exists pre, ts = pre ++ rest /\ balanced_seg pre.

Lemma seg_refl ts : seg ts ts.
Proof. exists []. split; [reflexivity|]. intros d r. reflexivity. Qed.
Lemma seg_trans a b c : seg a b -> seg b c -> seg a c.
Proof.
  intros (p1 & -> & H1) (p2 & -> & H2). exists (p1 ++ p2). split; [now rewrite app_assoc|].
  intros d r. now rewrite <- app_assoc, H1, H2.
Qed.
Lemma seg_cons t r : nonbrace t = true -> seg (t :: r) r.
Proof.
  intros H. exists [t]. split; [reflexivity|]. intros d r'. cbn [app bal]. unfold nonbrace in H. apply negb_true_iff, orb_false_iff in H as [Ho Hc].
  now rewrite Ho, Hc.
Qed.
Lemma seg_cons_then t r rest : nonbrace t = true -> seg r rest -> seg (t :: r) rest.
Proof. intros H Hs. eapply seg_trans; [now apply seg_cons | exact Hs]. Qed.
Lemma seg_block b body_ts c r2 : is_open b = true -> is_close c = true -> seg body_ts (c :: r2) -> seg (b :: body_ts) r2.
Proof.
  intros Ho Hc (pre & -> & Hp). exists (b :: pre ++ [c]). split; [cbn; now rewrite <- app_assoc|].
  intros d r. cbn [app bal]. rewrite Ho, <- app_assoc, Hp. cbn [app bal].
  assert (is_open c = false) as ->.
  { unfold is_open, is_close, is_ty in *. apply str_eqb_eq0 in Hc. rewrite Hc. reflexivity. }
  now rewrite Hc.
Qed.

(* token types *)
Lemma is_ty_nonbrace s t : is_ty s t = true -> str_eqb s ($"t_bopen") = false -> str_eqb s ($"t_bclose") = false -> nonbrace t = true.
Proof.
  unfold nonbrace, is_open, is_close, is_ty. intros H Ho Hc. apply str_eqb_eq0 in H. rewrite H, Ho, Hc. reflexivity.
Qed.
Lemma mem_str_eq x y l : x = y -> mem_str x l = mem_str y l.
Proof. now intros ->. Qed.
Lemma ty_in_nonbrace l t : ty_in l t = true -> mem_str ($"t_bopen") l = false -> mem_str ($"t_bclose") l = false -> nonbrace t = true.
Proof.
  unfold nonbrace, is_open, is_close, is_ty, ty_in. intros H Ho Hc.
  destruct (str_eqb (tty t) ($"t_bopen")) eqn:E1; [apply str_eqb_eq0 in E1; rewrite E1 in H; congruence|].
  destruct (str_eqb (tty t) ($"t_bclose")) eqn:E2; [apply str_eqb_eq0 in E2; rewrite E2 in H; congruence|].
  reflexivity.
Qed.
Ltac nb := match goal with
  | H : is_ty ?s ?t = true |- nonbrace ?t = true => exact (is_ty_nonbrace s t H eq_refl eq_refl)
  | H : ty_in ?l ?t = true |- nonbrace ?t = true => exact (ty_in_nonbrace l t H eq_refl eq_refl)
  end.

Lemma skip_ws_seg ts : seg ts (skip_ws ts).
Proof.
  unfold skip_ws. destruct ts as [|t r]; [apply seg_refl|]. destruct (is_ty ($"t_ws") t) eqn:E; [|apply seg_refl].
  apply seg_cons. nb.
Qed.

Lemma istring_parts_seg : forall ts ps rest, istring_parts ts = POk (ps, rest) -> seg ts rest.
Proof.
  induction ts as [|t r IH]; intros ps rest H; cbn [istring_parts] in H; [discriminate|].
  destruct (is_ty ($"t_isclose") t) eqn:E1.
  - injection H as _ <-. apply seg_cons. nb.
  - destruct (is_ty ($"css_string") t) eqn:E2.
    + destruct (istring_parts r) as [[ps' rest']| |] eqn:E; cbn [pbind] in H; try discriminate. injection H as _ <-.
      eapply seg_cons_then; [nb | exact (IH _ _ eq_refl)].
    + destruct (is_ty ($"less_variable") t) eqn:E3; [|discriminate].
      destruct (istring_parts r) as [[ps' rest']| |] eqn:E; cbn [pbind] in H; try discriminate. injection H as _ <-.
      eapply seg_cons_then; [nb | exact (IH _ _ eq_refl)].
Qed.

Definition stops_ok (stops : list str) : Prop := mem_str ($"t_bopen") stops = false /\ mem_str ($"t_bclose") stops = false.

Lemma parse_value_seg : forall f stops ts v imp stop rest,
  stops_ok stops -> parse_value f stops ts = POk (v, imp, stop, rest) -> seg ts rest.
Proof.
  induction f as [|f IH]; intros stops ts v imp stop rest [So Sc] H; [discriminate|].
  cbn [parse_value] in H. destruct ts as [|t r]; [discriminate|].
  destruct (ty_in stops t) eqn:Es.
  { injection H as _ _ _ <-. apply seg_cons. exact (ty_in_nonbrace stops t Es So Sc). }
  assert (Hc : forall here r0, pbind (parse_value f stops r0) (fun '(vs, imp1, stop1, rest') => POk (here ++ vs, imp1, stop1, rest')) = POk (v, imp, stop, rest) -> seg r0 rest).
  { intros here r0 Hh. destruct (parse_value f stops r0) as [[[[vs i1] s1] r1]| |] eqn:E; cbn [pbind] in Hh; try discriminate.
    injection Hh as _ _ _ <-. exact (IH stops r0 vs i1 s1 r1 (conj So Sc) E). }
  destruct (is_ty ($"t_ws") t) eqn:E1; [eapply seg_cons_then; [nb | exact (Hc _ _ H)]|].
  destruct (is_ty ($"t_comma") t) eqn:E2; [eapply seg_cons_then; [nb | exact (Hc _ _ H)]|].
  destruct (is_ty ($"css_important") t) eqn:E3.
  { destruct r as [|s0 r']; [discriminate|]. destruct (ty_in stops s0) eqn:Es0; [|discriminate].
    injection H as _ _ _ <-. eapply seg_cons_then; [nb|]. apply seg_cons. exact (ty_in_nonbrace stops s0 Es0 So Sc). }
  destruct (is_ty ($"css_color") t) eqn:E4.
  { destruct (Color.color_fmt (tval t)); [|discriminate]. eapply seg_cons_then; [nb | exact (Hc _ _ H)]. }
  destruct (is_ty ($"less_variable") t) eqn:E5.
  { destruct (starts_with ($"@{") (tval t)); [discriminate|]. eapply seg_cons_then; [nb | exact (Hc _ _ H)]. }
  destruct (is_ty ($"less_arguments") t) eqn:E6; [eapply seg_cons_then; [nb | exact (Hc _ _ H)]|].
  destruct (is_ty ($"t_isopen") t) eqn:E7.
  { destruct (istring_parts r) as [[ps rest0]| |] eqn:Ei; cbn [pbind] in H; try discriminate.
    eapply seg_cons_then; [nb|]. eapply seg_trans; [exact (istring_parts_seg _ _ _ Ei) | exact (Hc _ _ H)]. }
  destruct (ty_in word_types t) eqn:E8; [|discriminate].
  destruct r as [|p r1]; [eapply seg_cons_then; [nb | exact (Hc _ _ H)]|].
  destruct (is_ty ($"t_popen") p) eqn:E9; [|eapply seg_cons_then; [nb | exact (Hc _ _ H)]].
  destruct r1 as [|s0 [|c0 r2]]; try discriminate.
  destruct (str_eqb (tval t) ($"url") && is_ty ($"css_string") s0 && is_ty ($"t_pclose") c0) eqn:E10; [|discriminate].
  apply andb_true_iff in E10 as [E10 Ec]. apply andb_true_iff in E10 as [_ Es1].
  eapply seg_cons_then; [nb|]. eapply seg_cons_then; [nb|]. eapply seg_cons_then; [nb|]. eapply seg_cons_then; [nb|]. exact (Hc _ _ H).
Qed.

Lemma stops3_ok : stops_ok [$"t_comma"; $"t_semicolon"; $"t_pclose"].
Proof. split; reflexivity. Qed.
Lemma stops1_ok : stops_ok [$"t_semicolon"].
Proof. split; reflexivity. Qed.

Lemma parse_args_seg : forall f ts args rest, parse_args f ts = POk (args, rest) -> seg ts rest.
Proof.
  induction f as [|f IH]; intros ts args rest H; [discriminate|].
  cbn [parse_args] in H. destruct ts as [|t r]; [discriminate|].
  destruct (is_ty ($"t_pclose") t) eqn:E1.
  { injection H as _ <-. apply seg_cons. nb. }
  destruct (parse_value f [$"t_comma"; $"t_semicolon"; $"t_pclose"] (t :: r)) as [[[[v imp] stop] rest0]| |] eqn:Ev; cbn [pbind] in H; try discriminate.
  pose proof (parse_value_seg _ _ _ _ _ _ _ stops3_ok Ev) as Hs.
  destruct imp; [discriminate|].
  destruct (str_eqb stop ($"t_pclose")); [injection H as _ <-; exact Hs|].
  destruct (parse_args f (skip_ws rest0)) as [[more rest']| |] eqn:Ea; cbn [pbind] in H; try discriminate.
  injection H as _ <-. eapply seg_trans; [exact Hs|]. eapply seg_trans; [apply skip_ws_seg | exact (IH _ _ _ Ea)].
Qed.

Lemma parse_params_seg : forall f ts ps rest, parse_params f ts = POk (ps, rest) -> seg ts rest.
Proof.
  induction f as [|f IH]; intros ts ps rest H; [discriminate|].
  cbn [parse_params] in H. destruct ts as [|t r]; [discriminate|].
  destruct (is_ty ($"t_pclose") t) eqn:E1.
  { injection H as _ <-. apply seg_cons. nb. }
  destruct (is_ty ($"less_variable") t) eqn:E2; [|discriminate].
  eapply seg_cons_then; [nb|]. eapply seg_trans; [apply skip_ws_seg|].
  destruct (skip_ws r) as [|s0 r1]; [discriminate|].
  destruct (is_ty ($"t_colon") s0) eqn:E3.
  { eapply seg_cons_then; [nb|].
    destruct (parse_value f [$"t_comma"; $"t_semicolon"; $"t_pclose"] r1) as [[[[v imp] stop] rest0]| |] eqn:Ev; cbn [pbind] in H; try discriminate.
    pose proof (parse_value_seg _ _ _ _ _ _ _ stops3_ok Ev) as Hs.
    destruct imp; [discriminate|].
    destruct (str_eqb stop ($"t_pclose")); [injection H as _ <-; exact Hs|].
    destruct (parse_params f (skip_ws rest0)) as [[more rest']| |] eqn:Ea; cbn [pbind] in H; try discriminate.
    injection H as _ <-. eapply seg_trans; [exact Hs|]. eapply seg_trans; [apply skip_ws_seg | exact (IH _ _ _ Ea)]. }
  destruct (is_ty ($"t_pclose") s0) eqn:E4.
  { injection H as _ <-. apply seg_cons. nb. }
  destruct (is_ty ($"t_comma") s0 || is_ty ($"t_semicolon") s0) eqn:E5; [|discriminate].
  destruct (parse_params f (skip_ws r1)) as [[more rest']| |] eqn:Ea; cbn [pbind] in H; try discriminate.
  injection H as _ <-.
  assert (Hn : nonbrace s0 = true) by (apply orb_true_iff in E5 as [E5|E5]; nb).
  eapply seg_cons_then; [exact Hn|]. eapply seg_trans; [apply skip_ws_seg | exact (IH _ _ _ Ea)].
Qed.

(* a header: tokens without braces, then the opening brace *)
Lemma take_header_split : forall ts h rest, take_header ts = POk (h, rest) ->
  exists b, ts = h ++ b :: rest /\ is_open b = true /\ forallb nonbrace h = true.
Proof.
  induction ts as [|t r IH]; intros h rest H; cbn [take_header] in H; [discriminate|].
  destruct (is_ty ($"t_bopen") t) eqn:E1.
  { injection H as <- <-. exists t. repeat split; assumption. }
  destruct (is_ty ($"t_semicolon") t || is_ty ($"t_bclose") t) eqn:E2; [discriminate|].
  destruct (take_header r) as [[h' rest']| |] eqn:E; cbn [pbind] in H; try discriminate.
  injection H as <- <-. destruct (IH _ _ eq_refl) as (b & -> & Hb & Hh).
  exists b. repeat split; [assumption|]. cbn [forallb]. rewrite Hh, andb_true_r.
  apply orb_false_iff in E2 as [_ Ec]. unfold nonbrace, is_open, is_close. now rewrite E1, Ec.
Qed.
Lemma nobrace_seg h rest : forallb nonbrace h = true -> seg (h ++ rest) rest.
Proof.
  induction h as [|t h IH]; cbn [forallb app]; intros H; [apply seg_refl|].
  apply andb_true_iff in H as [Ht Hh]. eapply seg_cons_then; [exact Ht | now apply IH].
Qed.

Lemma media_tokens_nobrace : forall ts ht sa pc q, media_tokens ht sa pc ts = POk q -> forallb nonbrace ts = true.
Proof.
  induction ts as [|t r IH]; intros ht sa pc q H; [reflexivity|]. cbn [media_tokens] in H. cbn [forallb].
  destruct (is_ty ($"t_and") t) eqn:E1.
  { destruct (media_tokens ht true false r) eqn:E; cbn [pbind] in H; try discriminate. rewrite (IH _ _ _ _ E), andb_true_r. nb. }
  destruct (ty_in [$"css_media_type"; $"t_ws"; $"t_popen"; $"css_media_feature"; $"t_colon"; $"css_number"; $"css_ident"; $"less_variable"; $"t_not"; $"t_only"] t) eqn:E2.
  { destruct (media_tokens ht sa false r) eqn:E; cbn [pbind] in H; try discriminate. rewrite (IH _ _ _ _ E), andb_true_r. nb. }
  destruct (is_ty ($"t_pclose") t) eqn:E3; [|discriminate].
  destruct (media_tokens ht sa true r) eqn:E; cbn [pbind] in H; try discriminate. rewrite (IH _ _ _ _ E), andb_true_r. nb.
Qed.
Lemma upto_semicolon_split : forall l m rest, upto_semicolon l = POk (m, rest) -> exists s, l = m ++ s :: rest /\ is_ty ($"t_semicolon") s = true.
Proof.
  induction l as [|x l IH]; intros m rest H; cbn [upto_semicolon] in H; [discriminate|].
  destruct (is_ty ($"t_semicolon") x) eqn:E; [injection H as <- <-; now exists x|].
  destruct (upto_semicolon l) as [[h r']| |] eqn:Eu; cbn [pbind] in H; try discriminate. injection H as <- <-.
  destruct (IH _ _ eq_refl) as (s & -> & Hs). now exists s.
Qed.

Section Pieces.
  Variable rec : prec.
  Hypothesis Hrec : forall ts ns rest, rec ts = POk (ns, rest) -> seg ts rest.

  Lemma p_after_seg n rest out rest' : p_after rec n rest = POk (out, rest') -> seg rest rest'.
  Proof.
    unfold p_after. destruct (rec rest) as [[ns r']| |] eqn:E; cbn [pbind]; intros H; try discriminate.
    injection H as _ <-. exact (Hrec _ _ _ E).
  Qed.
  Lemma p_block_seg b mk rest out rest' : is_open b = true -> p_block rec mk rest = POk (out, rest') -> seg (b :: rest) rest'.
  Proof.
    intros Hb. unfold p_block. destruct (rec rest) as [[body rest1]| |] eqn:E; cbn [pbind]; intros H; try discriminate.
    destruct rest1 as [|c rest2]; [discriminate|]. destruct (is_ty ($"t_bclose") c) eqn:Ec; [|discriminate].
    eapply seg_trans; [|exact (p_after_seg _ _ _ _ H)]. apply (seg_block b rest c rest2 Hb Ec). exact (Hrec _ _ _ E).
  Qed.

  Lemma p_decl_seg f t r out rest' : nonbrace t = true -> p_decl f rec t r = POk (out, rest') -> seg (t :: r) rest'.
  Proof.
    intros Ht. unfold p_decl. intros H. eapply seg_cons_then; [exact Ht|]. eapply seg_trans; [apply skip_ws_seg|].
    destruct (skip_ws r) as [|c r1]; [discriminate|]. destruct (is_ty ($"t_colon") c) eqn:Ec; [|discriminate].
    eapply seg_cons_then; [nb|].
    destruct (parse_value f [$"t_semicolon"] r1) as [[[[v imp] stop] rest0]| |] eqn:Ev; cbn [pbind] in H; try discriminate.
    eapply seg_trans; [exact (parse_value_seg _ _ _ _ _ _ _ stops1_ok Ev) | exact (p_after_seg _ _ _ _ H)].
  Qed.
  Lemma p_vardecl_seg f t r out rest' : nonbrace t = true -> p_vardecl f rec t r = POk (out, rest') -> seg (t :: r) rest'.
  Proof.
    intros Ht. unfold p_vardecl. intros H. eapply seg_cons_then; [exact Ht|]. eapply seg_trans; [apply skip_ws_seg|].
    destruct (skip_ws r) as [|c r1]; [discriminate|]. destruct (is_ty ($"t_colon") c) eqn:Ec; [|discriminate].
    eapply seg_cons_then; [nb|].
    destruct (parse_value f [$"t_semicolon"] r1) as [[[[v imp] stop] rest0]| |] eqn:Ev; cbn [pbind] in H; try discriminate.
    destruct imp; [discriminate|].
    eapply seg_trans; [exact (parse_value_seg _ _ _ _ _ _ _ stops1_ok Ev) | exact (p_after_seg _ _ _ _ H)].
  Qed.
  Lemma header_block_seg t r h rest0 mk out rest' :
    nonbrace t = true -> take_header r = POk (h, rest0) -> p_block rec mk rest0 = POk (out, rest') -> seg (t :: r) rest'.
  Proof.
    intros Ht Hh Hb. destruct (take_header_split _ _ _ Hh) as (b & -> & Hob & Hnb).
    eapply seg_cons_then; [exact Ht|]. eapply seg_trans; [apply (nobrace_seg h (b :: rest0) Hnb)|]. exact (p_block_seg b mk rest0 out rest' Hob Hb).
  Qed.
  Lemma p_media_seg t r out rest' : nonbrace t = true -> p_media rec t r = POk (out, rest') -> seg (t :: r) rest'.
  Proof.
    intros Ht. unfold p_media. destruct (take_header r) as [[h rest0]| |] eqn:Eh; cbn [pbind]; intros H; try discriminate.
    destruct (media_tokens (media_has_type h) false false h) as [q| |]; cbn [pbind] in H; try discriminate.
    exact (header_block_seg t r h rest0 _ out rest' Ht Eh H).
  Qed.
  Lemma p_atblock_seg t r out rest' : nonbrace t = true -> p_atblock rec t r = POk (out, rest') -> seg (t :: r) rest'.
  Proof.
    intros Ht. unfold p_atblock. destruct (take_header r) as [[h rest0]| |] eqn:Eh; cbn [pbind]; intros H; try discriminate.
    destruct (forallb (ty_in [$"t_ws"; $"css_ident"]) h); [|discriminate].
    exact (header_block_seg t r h rest0 _ out rest' Ht Eh H).
  Qed.
  Lemma p_charset_seg t r out rest' : nonbrace t = true -> p_charset rec t r = POk (out, rest') -> seg (t :: r) rest'.
  Proof.
    intros Ht. unfold p_charset. destruct r as [|w [|s0 [|e rest0]]]; try discriminate.
    destruct (is_ty ($"t_ws") w && is_ty ($"css_string") s0 && is_ty ($"t_semicolon") e) eqn:E; [|discriminate].
    apply andb_true_iff in E as [E E3]. apply andb_true_iff in E as [E1 E2]. intros H.
    eapply seg_cons_then; [exact Ht|]. eapply seg_cons_then; [nb|]. eapply seg_cons_then; [nb|]. eapply seg_cons_then; [nb|].
    exact (p_after_seg _ _ _ _ H).
  Qed.
  Lemma p_import_finish_seg t target path rest out rest' : p_import_finish rec t target path rest = POk (out, rest') -> seg rest rest'.
  Proof.
    unfold p_import_finish. destruct (is_less_import _); [discriminate|].
    destruct (upto_semicolon rest) as [[m rest0]| |] eqn:Eu; cbn [pbind]; intros H; try discriminate.
    destruct (upto_semicolon_split _ _ _ Eu) as (s0 & -> & Hs).
    destruct m as [|x m].
    - cbn [app]. eapply seg_cons_then; [nb | exact (p_after_seg _ _ _ _ H)].
    - destruct (media_tokens true false false (x :: m)) as [q| |] eqn:Em; cbn [pbind] in H; try discriminate.
      eapply seg_trans; [apply (nobrace_seg (x :: m) (s0 :: rest0) (media_tokens_nobrace _ _ _ _ _ Em))|].
      eapply seg_cons_then; [nb | exact (p_after_seg _ _ _ _ H)].
  Qed.
  Lemma p_import_seg t r out rest' : nonbrace t = true -> p_import rec t r = POk (out, rest') -> seg (t :: r) rest'.
  Proof.
    intros Ht. unfold p_import. destruct r as [|w [|s0 rest0]]; try discriminate.
    destruct (is_ty ($"t_ws") w && is_ty ($"css_string") s0) eqn:E1.
    { apply andb_true_iff in E1 as [Ew Es]. intros H.
      eapply seg_cons_then; [exact Ht|]. eapply seg_cons_then; [nb|]. eapply seg_cons_then; [nb|]. exact (p_import_finish_seg _ _ _ _ _ _ H). }
    destruct (is_ty ($"t_ws") w && is_ty ($"css_ident") s0 && str_eqb (tval s0) ($"url")) eqn:E2; [|discriminate].
    apply andb_true_iff in E2 as [E2 _]. apply andb_true_iff in E2 as [Ew Es].
    destruct rest0 as [|p [|u [|c rest1]]]; try discriminate.
    destruct (is_ty ($"t_popen") p && is_ty ($"css_string") u && is_ty ($"t_pclose") c) eqn:E3; [|discriminate].
    apply andb_true_iff in E3 as [E3 Ec]. apply andb_true_iff in E3 as [Ep Eu]. intros H.
    eapply seg_cons_then; [exact Ht|]. do 5 (eapply seg_cons_then; [nb|]). exact (p_import_finish_seg _ _ _ _ _ _ H).
  Qed.
  Lemma p_rule_seg ts out rest' : p_rule rec ts = POk (out, rest') -> seg ts rest'.
  Proof.
    unfold p_rule. destruct (take_header ts) as [[h rest0]| |] eqn:Eh; cbn [pbind]; intros H; try discriminate.
    destruct (forallb selector_ok h); [|discriminate].
    destruct (take_header_split _ _ _ Eh) as (b & -> & Hob & Hnb).
    eapply seg_trans; [apply (nobrace_seg h (b :: rest0) Hnb)|]. exact (p_block_seg b _ rest0 out rest' Hob H).
  Qed.
  Lemma p_call_tail_seg f t r1 out rest' : p_call_tail f rec t r1 = POk (out, rest') -> seg r1 rest'.
  Proof.
    unfold p_call_tail. intros H. eapply seg_trans; [apply skip_ws_seg|].
    destruct (parse_args f (skip_ws r1)) as [[args rest0]| |] eqn:Ea; cbn [pbind] in H; try discriminate.
    eapply seg_trans; [exact (parse_args_seg _ _ _ _ Ea)|].
    destruct rest0 as [|s0 rest2]; [discriminate|]. destruct (is_ty ($"t_semicolon") s0) eqn:Es; [|discriminate].
    eapply seg_cons_then; [nb | exact (p_after_seg _ _ _ _ H)].
  Qed.
  Lemma p_class_seg f t r out rest' : nonbrace t = true -> p_class f rec t r = POk (out, rest') -> seg (t :: r) rest'.
  Proof.
    intros Ht. unfold p_class. intros H.
    destruct (skip_ws r) as [|p r1] eqn:Esk; [exact (p_rule_seg _ _ _ H)|].
    destruct (is_ty ($"t_semicolon") p) eqn:E1.
    { eapply seg_cons_then; [exact Ht|]. eapply seg_trans; [apply skip_ws_seg|]. rewrite Esk.
      eapply seg_cons_then; [nb | exact (p_after_seg _ _ _ _ H)]. }
    destruct (is_ty ($"t_popen") p && match r with q :: _ => is_ty ($"t_popen") q | [] => false end) eqn:E2; [|exact (p_rule_seg _ _ _ H)].
    apply andb_true_iff in E2 as [Ep _].
    assert (Hpre : seg (t :: r) r1).
    { eapply seg_cons_then; [exact Ht|]. eapply seg_trans; [apply skip_ws_seg|]. rewrite Esk. apply seg_cons. nb. }
    destruct (parse_params f (skip_ws r1)) as [[ps rest0]| |] eqn:Epar; try (eapply seg_trans; [exact Hpre | exact (p_call_tail_seg _ _ _ _ _ H)]).
    destruct (skip_ws rest0) as [|b rest1] eqn:Es2; [discriminate|].
    destruct (is_ty ($"t_bopen") b) eqn:Eb; [|eapply seg_trans; [exact Hpre | exact (p_call_tail_seg _ _ _ _ _ H)]].
    eapply seg_trans; [exact Hpre|]. eapply seg_trans; [apply skip_ws_seg|]. eapply seg_trans; [exact (parse_params_seg _ _ _ _ Epar)|].
    eapply seg_trans; [apply skip_ws_seg|]. rewrite Es2. exact (p_block_seg b _ rest1 out rest' Eb H).
  Qed.
End Pieces.

Theorem parse_body_seg : forall f ts ns rest, parse_body f ts = POk (ns, rest) -> seg ts rest.
Proof.
  induction f as [|f IH]; intros ts ns rest H; [discriminate|].
  cbn [parse_body] in H. destruct ts as [|t r]; [injection H as _ <-; apply seg_refl|].
  destruct (is_ty ($"t_bclose") t) eqn:E0; [injection H as _ <-; apply seg_refl|].
  destruct (ty_in [$"css_property"; $"css_vendor_property"; $"css_user_property"] t) eqn:E1; [apply (p_decl_seg _ IH f t r ns rest); [nb | exact H]|].
  destruct (is_ty ($"less_variable") t) eqn:E2; [apply (p_vardecl_seg _ IH f t r ns rest); [nb | exact H]|].
  destruct (is_ty ($"css_media") t) eqn:E3; [apply (p_media_seg _ IH t r ns rest); [nb | exact H]|].
  destruct (is_ty ($"css_keyframes") t || is_ty ($"css_font_face") t || is_ty ($"css_viewport") t) eqn:E4.
  { apply (p_atblock_seg _ IH t r ns rest); [|exact H]. apply orb_true_iff in E4 as [E4|E4]; [apply orb_true_iff in E4 as [E4|E4]|]; nb. }
  destruct (is_ty ($"css_charset") t) eqn:E5; [apply (p_charset_seg _ IH t r ns rest); [nb | exact H]|].
  destruct (is_ty ($"css_import") t) eqn:E6; [apply (p_import_seg _ IH t r ns rest); [nb | exact H]|].
  destruct (ty_in [$"css_namespace"; $"css_page"] t); [discriminate|].
  destruct (is_ty ($"css_class") t) eqn:E7; [apply (p_class_seg _ IH f t r ns rest); [nb | exact H]|].
  exact (p_rule_seg _ IH _ _ _ H).
Qed.

(* BALANCE: whatever the reference parser accepts has balanced braces: a block left open at the end of input and a stray
   closing brace are never compiled *)
Theorem accepted_is_balanced : forall ts ns, parse_tokens ts = POk ns -> bal 0 (map (fun t => (tk_type t, tk_val t)) ts) = true.
Proof.
  intros ts ns H. unfold parse_tokens in H. set (toks := map (fun t => (tk_type t, tk_val t)) ts) in *.
  destruct (parse_body (S (S (List.length toks))) toks) as [[ns' rest]| |] eqn:E; try discriminate.
  destruct rest as [|x rest]; [|discriminate].
  destruct (parse_body_seg _ _ _ _ E) as (pre & Hp & Hb). rewrite app_nil_r in Hp. rewrite Hp, <- (app_nil_r pre), Hb. reflexivity.
Qed.

(* a declaration without its colon, and a string left open, are rejected *)
Theorem declaration_needs_colon f rec t c r1 :
  is_ty ($"t_colon") c = false -> is_ty ($"t_ws") c = false -> exists w, p_decl f rec t (c :: r1) = PSyntax w.
Proof. intros Hc Hw. unfold p_decl, skip_ws. rewrite Hw, Hc. eauto. Qed.
Theorem open_string_rejected : forall ts, forallb (fun t => is_ty ($"css_string") t || is_ty ($"less_variable") t) ts = true ->
  exists w, istring_parts ts = PSyntax w.
Proof.
  induction ts as [|t r IH]; intros H; [cbn; eauto|]. cbn [forallb] in H. apply andb_true_iff in H as [Ht Hr].
  destruct (IH Hr) as [w Hw]. cbn [istring_parts].
  assert (E0 : is_ty ($"t_isclose") t = false).
  { apply orb_true_iff in Ht as [Ht|Ht]; unfold is_ty in *; apply str_eqb_eq0 in Ht; rewrite Ht; reflexivity. }
  rewrite E0. destruct (is_ty ($"css_string") t); [rewrite Hw; cbn; eauto|].
  cbn [orb] in Ht. rewrite Ht, Hw. cbn. eauto.
Qed.

Corollary unbalanced_rejected ts : bal 0 (map (fun t => (tk_type t, tk_val t)) ts) = false -> forall ns, parse_tokens ts <> POk ns.
Proof. intros H ns Hp. apply accepted_is_balanced in Hp. congruence. Qed.

(* a string token is handed to the declaration unchanged: `name : "..." ;` parses to the declaration whose value is that one token *)
Lemma string_value_parsed f s rest : 
  parse_value (S (S f)) [$"t_semicolon"] (($"css_string", s) :: ($"t_semicolon", [";"]) :: rest) = POk ([VT s], false, $"t_semicolon", rest).
Proof. reflexivity. Qed.
