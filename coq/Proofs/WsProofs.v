(* WsProofs.v — C11: the printers use the fills only as whitespace.  [erase] removes every whitespace character; for any two
   fill records made of whitespace the erased outputs of the whole formatter coincide, for every object tree. *)
From Coq Require Import String.
From Coq Require Import List Ascii Bool NArith Lia.
Require Import Model.Text Model.Ident Gen.PFmt Model.Fmt Proofs.FmtProofs Proofs.EvalProofs.
Import ListNotations.
Local Open Scope char_scope.

Definition erase (x : str) : str := filter (fun c => negb (is_space c)) x.
Definition wsp (x : str) : Prop := forallb is_space x = true.
Definition ws_fills (fl : fills) : Prop := wsp (f_nl fl) /\ wsp (f_tab fl) /\ wsp (f_ws fl) /\ wsp (f_eb fl).

Lemma erase_app a b : erase (a ++ b) = erase a ++ erase b.
Proof. apply filter_app. Qed.
Lemma erase_ws x : wsp x -> erase x = [].
Proof.
  unfold wsp, erase. induction x as [|c x IH]; [reflexivity|]. cbn [forallb filter]. intros H.
  apply andb_true_iff in H as [Hc Hx]. rewrite Hc. cbn. now apply IH.
Qed.
Lemma erase_nil_ws x : erase x = [] -> wsp x.
Proof.
  unfold wsp, erase. induction x as [|c x IH]; [reflexivity|]. cbn [forallb filter].
  destruct (is_space c); cbn; [exact IH | discriminate].
Qed.
Lemma forallb_space_erase x : forallb is_space x = match erase x with [] => true | _ => false end.
Proof.
  unfold erase. induction x as [|c x IH]; [reflexivity|]. cbn [forallb filter].
  destruct (is_space c); cbn; [exact IH | reflexivity].
Qed.
Lemma erase_cons_ws c x : is_space c = true -> erase (c :: x) = erase x.
Proof. intros H. unfold erase. cbn [filter]. now rewrite H. Qed.
Lemma erase_rev x : erase (rev x) = rev (erase x).
Proof.
  unfold erase. induction x as [|c x IH]; [reflexivity|]. cbn [rev filter]. rewrite filter_app, IH. cbn [filter].
  destruct (negb (is_space c)); cbn [rev]; [reflexivity | now rewrite app_nil_r].
Qed.
Lemma erase_concat l : erase (concat_str l) = concat_str (map erase l).
Proof. induction l as [|x l IH]; [reflexivity|]. cbn [concat_str map]. now rewrite erase_app, IH. Qed.

(* stripping characters that are whitespace *)
Lemma erase_drop_while p x : (forall c, p c = true -> is_space c = true) -> erase (drop_while p x) = erase x.
Proof.
  intros Hp. induction x as [|c x IH]; [reflexivity|]. cbn [drop_while]. destruct (p c) eqn:E; [|reflexivity].
  rewrite IH. symmetry. apply erase_cons_ws. now apply Hp.
Qed.
Lemma erase_strip_right p x : (forall c, p c = true -> is_space c = true) -> erase (strip_right p x) = erase x.
Proof. intros Hp. unfold strip_right. rewrite erase_rev, erase_drop_while, erase_rev, rev_involutive by exact Hp. reflexivity. Qed.
Lemma erase_strip p x : (forall c, p c = true -> is_space c = true) -> erase (strip p x) = erase x.
Proof. intros Hp. unfold strip, strip_left. now rewrite erase_strip_right, erase_drop_while. Qed.
Lemma erase_strip_ws x : erase (strip_ws x) = erase x.
Proof. apply erase_strip. auto. Qed.

(* ---- Identifier.fmt ---- *)
Lemma erase_cons c x y : erase x = erase y -> erase (c :: x) = erase (c :: y).
Proof. intros H. unfold erase in *. cbn [filter]. now rewrite H. Qed.
Lemma erase_sub_comb : forall f ws x, wsp ws -> erase (sub_comb_fuel f ws x) = erase (sub_comb_fuel f [] x).
Proof.
  induction f as [|f IH]; intros ws x Hw; [reflexivity|].
  cbn [sub_comb_fuel]. destruct x as [|a r]; [reflexivity|].
  destruct (Ascii.eqb a "[").
  { destruct (span (fun d => negb (Ascii.eqb d "]")) r) as [inside rest]. destruct rest as [|d rest'].
    - apply erase_cons. now apply IH.
    - apply erase_cons. rewrite !erase_app. f_equal. apply erase_cons. now apply IH. }
  destruct r as [|c [|b r']]; try (apply erase_cons; now apply IH).
  destruct (Ascii.eqb a "?" && Ascii.eqb b "?"); [|apply erase_cons; now apply IH].
  destruct (is_nl c); [apply erase_cons; now apply IH|].
  rewrite !erase_app, (erase_ws ws Hw), (IH ws) by exact Hw. reflexivity.
Qed.

Lemma span_eq p : forall x a b, span p x = (a, b) -> x = a ++ b.
Proof.
  induction x as [|c x IH]; intros a b H; cbn [span] in H.
  - now injection H as <- <-.
  - destruct (p c); [|now injection H as <- <-].
    destruct (span p x) as [a' b'] eqn:E. injection H as <- <-. cbn. f_equal. now apply IH.
Qed.
Lemma erase_squeeze : forall f x, erase (squeeze_blanks f x) = erase x.
Proof.
  induction f as [|f IH]; intros x; [reflexivity|].
  cbn [squeeze_blanks]. destruct x as [|c r]; [reflexivity|].
  destruct (Ascii.eqb c "[").
  - destruct (span (fun d => negb (Ascii.eqb d "]")) r) as [inside rest] eqn:E.
    pose proof (span_eq _ _ _ _ E) as Hr. destruct rest as [|d rest'].
    + apply erase_cons, IH.
    + subst r. apply erase_cons. rewrite !erase_app. f_equal. apply erase_cons, IH.
  - destruct r as [|d r']; [apply erase_cons, IH|].
    destruct (Ascii.eqb c " " && Ascii.eqb d " ") eqn:E; [|apply erase_cons, IH].
    apply andb_true_iff in E as [Ec Ed]. apply Ascii.eqb_eq in Ec, Ed. subst c d.
    rewrite !erase_cons_ws by reflexivity. apply IH.
Qed.

Lemma erase_join sep : forall l, erase (join sep l) = join (erase sep) (map erase l).
Proof.
  induction l as [|x l IH]; [reflexivity|]. destruct l as [|y l]; [reflexivity|].
  change (join sep (x :: y :: l)) with (x ++ sep ++ join sep (y :: l)).
  change (map erase (x :: y :: l)) with (erase x :: map erase (y :: l)).
  rewrite !erase_app, IH. reflexivity.
Qed.

Lemma erase_ident_fmt ws nl parsed : wsp ws -> wsp nl ->
  erase (ident_fmt ws nl parsed) = join [","] (map (fun p => erase (sub_comb [] (strip_ws (concat_str p)))) parsed).
Proof.
  intros Hw Hn. unfold ident_fmt. rewrite erase_squeeze, erase_join, map_map.
  assert (erase ("," :: nl) = [","]) as -> by (unfold erase; cbn [filter]; fold (erase nl); now rewrite (erase_ws nl Hn)).
  f_equal. apply map_ext. intros p. unfold sub_comb. now apply erase_sub_comb.
Qed.

(* ---- Property.fmt ---- *)
Lemma erase_comma_ws ws : wsp ws -> forall parsed q, erase (concat_str (comma_ws ws q parsed)) = erase (concat_str parsed).
Proof.
  intros Hw. induction parsed as [|p r IH]; intros q; [reflexivity|].
  cbn [comma_ws]. destruct q as [q|].
  - destruct (str_eqb p q); cbn [concat_str]; now rewrite !erase_app, IH.
  - destruct (str_eqb p [""""] || str_eqb p ["'"]); [cbn [concat_str]; now rewrite !erase_app, IH|].
    destruct (str_eqb p [","]) eqn:E; cbn [concat_str]; rewrite !erase_app, IH; [|reflexivity].
    apply str_eqb_eq0 in E. subst p. f_equal. unfold erase. cbn [filter]. fold (erase ws). now rewrite (erase_ws ws Hw).
Qed.

Lemma skip_string_eq q : forall x s r, skip_string q x = Some (s, r) -> x = s ++ r.
Proof.
  induction x as [|c x IH]; intros s r H; cbn [skip_string] in H; [discriminate|].
  destruct (Ascii.eqb c q); [now injection H as <- <-|].
  destruct (skip_string q x) as [[a b]|] eqn:E; [|discriminate]. injection H as <- <-. cbn. f_equal. now apply IH.
Qed.
Lemma skip_url_inside_eq : forall f x s r, skip_url_inside f x = Some (s, r) -> x = s ++ r.
Proof.
  induction f as [|f IH]; intros x s r H; cbn [skip_url_inside] in H; [discriminate|].
  destruct x as [|c x]; [discriminate|].
  destruct (Ascii.eqb c ")"); [now injection H as <- <-|].
  destruct (is_quote c).
  - destruct (skip_string c x) as [[s1 r1]|] eqn:E1; [|discriminate].
    destruct (skip_url_inside f r1) as [[a b]|] eqn:E2; [|discriminate]. injection H as <- <-.
    apply skip_string_eq in E1. apply IH in E2. subst. cbn. now rewrite <- app_assoc.
  - destruct (skip_url_inside f x) as [[a b]|] eqn:E2; [|discriminate]. injection H as <- <-. cbn. f_equal. now apply IH.
Qed.
Lemma erase_url_fix : forall f x, erase (url_fix f x) = erase x.
Proof.
  induction f as [|f IH]; intros x; [reflexivity|].
  cbn [url_fix]. destruct x as [|c r]; [reflexivity|].
  destruct (is_quote c).
  - destruct (skip_string c r) as [[s r']|] eqn:E; [|apply erase_cons, IH].
    apply skip_string_eq in E. subst r. apply erase_cons. now rewrite !erase_app, IH.
  - set (m := match c :: r with
              | "u" :: "r" :: "l" :: "(" :: r4 => skip_url_inside (S (List.length r4)) r4
              | _ => None
              end).
    assert (Hm : forall inside rest, m = Some (inside, rest) -> c :: r = "u" :: "r" :: "l" :: "(" :: inside ++ rest).
    { intros inside rest Hm. unfold m in Hm.
      destruct c as [[] [] [] [] [] [] [] []]; try discriminate.
      destruct r as [|c1 r]; [discriminate|]. destruct c1 as [[] [] [] [] [] [] [] []]; try discriminate.
      destruct r as [|c2 r]; [discriminate|]. destruct c2 as [[] [] [] [] [] [] [] []]; try discriminate.
      destruct r as [|c3 r]; [discriminate|]. destruct c3 as [[] [] [] [] [] [] [] []]; try discriminate.
      apply skip_url_inside_eq in Hm. now subst r. }
    fold m. destruct m as [[inside rest]|]; [|apply erase_cons, IH].
    destruct rest as [|d rest']; [apply erase_cons, IH|].
    destruct (is_space d || Ascii.eqb d ","); [apply erase_cons, IH|].
    rewrite (Hm inside (d :: rest') eq_refl).
    do 4 apply erase_cons. rewrite !erase_app. f_equal. rewrite erase_cons_ws by reflexivity. apply IH.
Qed.

Lemma erase_prop_fmt fl name parsed imp : ws_fills fl ->
  erase (prop_fmt fl name parsed imp)
  = erase name ++ [":"] ++ erase (concat_str parsed) ++ (if imp then $"!important" else []) ++ [";"].
Proof.
  intros (Hn & Ht & Hw & He). unfold prop_fmt.
  rewrite !erase_app, (erase_ws _ Ht), (erase_ws _ Hw), (erase_ws _ Hn), erase_strip_ws, erase_url_fix.
  assert (E : erase (concat_str (match f_nl fl with [] => parsed | _ :: _ => comma_ws (f_ws fl) None parsed end)) = erase (concat_str parsed)).
  { destruct (f_nl fl); [reflexivity|]. now apply erase_comma_ws. }
  rewrite E. cbn [app]. rewrite app_nil_r. do 3 f_equal. destruct imp; reflexivity.
Qed.

(* ---- Block.fmt ---- *)
Lemma starts_with_split : forall p x, starts_with p x = true -> x = p ++ skipn (List.length p) x.
Proof.
  induction p as [|a p IH]; intros x H; [reflexivity|].
  destruct x as [|b x]; cbn [starts_with] in H; [discriminate|].
  apply andb_true_iff in H as [Hab Hp]. apply Ascii.eqb_eq in Hab. subst b. cbn. f_equal. now apply IH.
Qed.
Lemma erase_replace_all pat rep : wsp pat -> wsp rep -> forall f x, erase (replace_all pat rep x f) = erase x.
Proof.
  intros Hp Hr. induction f as [|f IH]; intros x; [reflexivity|].
  cbn [replace_all]. destruct x as [|c r]; [reflexivity|].
  destruct (starts_with pat (c :: r) && negb (Nat.eqb (List.length pat) 0)) eqn:E; [|apply erase_cons, IH].
  apply andb_true_iff in E as [Es _]. apply starts_with_split in Es.
  rewrite erase_app, (erase_ws _ Hr), IH. cbn [app]. rewrite Es at 2. now rewrite erase_app, (erase_ws _ Hp).
Qed.
Lemma wsp_app a b : wsp a -> wsp b -> wsp (a ++ b).
Proof. unfold wsp. intros Ha Hb. now rewrite forallb_app, Ha, Hb. Qed.
Lemma in_set_ws t c : wsp t -> in_set t c = true -> is_space c = true.
Proof.
  unfold wsp, in_set. induction t as [|a t IH]; cbn [existsb forallb]; intros Ht H; [discriminate|].
  apply andb_true_iff in Ht as [Ha Ht']. apply orb_true_iff in H as [H|H]; [|now apply IH].
  apply Ascii.eqb_eq in H. now subst.
Qed.
Lemma erase_interleave t : wsp t -> forall x, erase (concat_str (map (fun c => t ++ [c]) x) ++ t) = erase x.
Proof.
  intros Ht x. rewrite erase_app, (erase_ws _ Ht), app_nil_r.
  induction x as [|c x IH]; [reflexivity|]. cbn [map concat_str]. rewrite !erase_app, (erase_ws _ Ht), IH. cbn [app].
  change (c :: x) with ([c] ++ x). now rewrite erase_app.
Qed.
Lemma erase_reindent fl x : ws_fills fl -> erase (reindent fl x) = erase x.
Proof.
  intros (Hn & Ht & Hw & He). unfold reindent.
  assert (Hs : forall c, in_set (f_tab fl) c = true -> is_space c = true) by (intros c Hc; now apply (in_set_ws (f_tab fl))).
  destruct (f_nl fl) as [|n0 nl].
  - rewrite erase_strip_ws, erase_strip_right by exact Hs. clear Hs.
    destruct (f_tab fl) as [|t0 tl]; [reflexivity|]. now apply erase_interleave.
  - rewrite erase_strip_right by exact Hs. unfold str_replace. apply erase_replace_all; [exact Hn | now apply wsp_app].
Qed.

Lemma erase_name_fmt fl1 fl2 n : ws_fills fl1 -> ws_fills fl2 -> erase (name_fmt fl1 n) = erase (name_fmt fl2 n).
Proof.
  intros (Hn1 & Ht1 & Hw1 & He1) (Hn2 & Ht2 & Hw2 & He2). destruct n as [b parsed|s]; [|reflexivity].
  cbn [name_fmt]. now rewrite !erase_ident_fmt.
Qed.

(* WHITESPACE ONLY: two records of whitespace fills give outputs that differ in whitespace characters only *)
Theorem obj_fmt_whitespace_only fl1 fl2 : ws_fills fl1 -> ws_fills fl2 -> forall o, erase (obj_fmt fl1 o) = erase (obj_fmt fl2 o).
Proof.
  intros W1 W2. pose proof W1 as (Hn1 & Ht1 & Hw1 & He1). pose proof W2 as (Hn2 & Ht2 & Hw2 & He2).
  induction o as [n p i|p| |name props inner IHp IHi] using obj_ind'.
  - cbn [obj_fmt]. now rewrite !erase_prop_fmt.
  - cbn [obj_fmt]. now rewrite !erase_app, (erase_ws _ He1), (erase_ws _ He2).
  - reflexivity.
  - cbn [obj_fmt].
    assert (Hl : forall l, Forall (fun o => erase (obj_fmt fl1 o) = erase (obj_fmt fl2 o)) l ->
                 erase (concat_str (map (obj_fmt fl1) l)) = erase (concat_str (map (obj_fmt fl2) l))).
    { induction 1 as [|x l Hx Hl' IHl]; [reflexivity|]. cbn [map concat_str]. now rewrite !erase_app, Hx, IHl. }
    pose proof (Hl _ IHp) as Ep. pose proof (Hl _ IHi) as Ei.
    pose proof (erase_name_fmt fl1 fl2 name W1 W2) as En.
    rewrite !erase_app. f_equal.
    + destruct (existsb (fun p => match p with OVar => false | _ => true end) props); [|reflexivity].
      rewrite !erase_app, En, Ep, (erase_ws _ Hw1), (erase_ws _ Hw2), (erase_ws _ Hn1), (erase_ws _ Hn2), (erase_ws _ He1), (erase_ws _ He2).
      reflexivity.
    + destruct (name_subparse name && negb (Nat.eqb (List.length inner) 0)); [|exact Ei].
      rewrite !forallb_space_erase, Ei.
      destruct (erase (concat_str (map (obj_fmt fl2) inner))) eqn:Ee; [reflexivity|].
      rewrite !erase_app, En, !erase_reindent by assumption. rewrite Ei, Ee.
      rewrite (erase_ws _ Hw1), (erase_ws _ Hw2), (erase_ws _ Hn1), (erase_ws _ Hn2), (erase_ws _ He1), (erase_ws _ He2), (erase_ws _ Ht1), (erase_ws _ Ht2).
      reflexivity.
Qed.

Theorem format_whitespace_only fl1 fl2 objs : ws_fills fl1 -> ws_fills fl2 -> erase (format fl1 objs) = erase (format fl2 objs).
Proof.
  intros W1 W2. unfold format. rewrite !erase_strip_ws, !erase_concat, !map_map. f_equal.
  apply map_ext. intros o. now apply obj_fmt_whitespace_only.
Qed.

(* every fill record of the regenerated table consists of whitespace *)
Lemma ws_char_space c : is_ws_char c = true -> is_space c = true.
Proof. destruct c as [[] [] [] [] [] [] [] []]; cbv; intros H; try discriminate; reflexivity. Qed.
Lemma ws_only_wsp x : ws_only x = true -> wsp x.
Proof.
  unfold ws_only, wsp. induction x as [|c x IH]; [reflexivity|]. cbn [forallb]. intros H. apply andb_true_iff in H as [Hc Hx].
  now rewrite (ws_char_space c Hc), IH.
Qed.
Theorem table_fills_are_ws m x t s fl : s <= 8 -> fills_of (m, x, t, s) = Some fl -> ws_fills fl.
Proof.
  intros Hs Hf. pose proof (fills_row_ok m x t s Hs) as H. unfold row_ok in H. rewrite Hf in H.
  repeat (apply andb_true_iff in H as [H ?]). repeat split; now apply ws_only_wsp.
Qed.

(* the statement of the property on the model: any two option vectors, any evaluated program *)
Theorem options_change_whitespace_only :
  forall m1 x1 t1 s1 m2 x2 t2 s2 fl1 fl2 objs, s1 <= 8 -> s2 <= 8 ->
    fills_of (m1, x1, t1, s1) = Some fl1 -> fills_of (m2, x2, t2, s2) = Some fl2 ->
    erase (format fl1 objs) = erase (format fl2 objs).
Proof.
  intros m1 x1 t1 s1 m2 x2 t2 s2 fl1 fl2 objs H1 H2 F1 F2.
  apply format_whitespace_only; [exact (table_fills_are_ws m1 x1 t1 s1 fl1 H1 F1) | exact (table_fills_are_ws m2 x2 t2 s2 fl2 H2 F2)].
Qed.
