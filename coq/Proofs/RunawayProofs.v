(* RunawayProofs.v — C20: mixins that call each other without a base case are reported, whatever the depth limit.
   If every definition takes no parameter and its body reaches, after literal declarations only, an unconditional call of
   some definition of the sheet, then every call of any of them ends in an error for EVERY amount of expansion fuel
   (the code's limit is one such amount): cycles of any length and any shape of call graph. *)
From Coq Require Import String.
From Coq Require Import List Ascii Bool NArith.
Require Import Model.Text Model.Ast Model.Scope Model.Ident Model.Fmt Model.Eval Proofs.EvalProofs.
Import ListNotations.

Definition lit_prop (n : node) : Prop := match n with NProp _ v _ => forallb is_VT v = true | _ => False end.
Definition runaway (defs : list mixin_def) (d : mixin_def) : Prop :=
  m_params d = [] /\
  exists pre nxt post, m_body d = pre ++ NCall nxt [] :: post /\ Forall lit_prop pre /\ In nxt (map m_name defs).
Definition is_err {A} (r : outcome A) : Prop := match r with RError _ _ => True | _ => False end.

Lemma eval_body_reaches_call (callf : call_handler) parent nxt post :
  (forall p sc, is_err (callf nxt [] p sc)) ->
  forall pre sc, Forall lit_prop pre -> is_err (eval_body callf parent sc (pre ++ NCall nxt [] :: post)).
Proof.
  intros Hcall. induction pre as [|p pre IH]; intros sc Hpre.
  - cbn [app eval_body eval_node_g rmap_list rbind]. specialize (Hcall parent sc).
    destruct (callf nxt [] parent sc); try contradiction. exact I.
  - inversion Hpre as [|? ? Hp Hrest]; subst. destruct p as [nm v i| | | | | |]; try contradiction. cbn [lit_prop] in Hp.
    cbn [app eval_body eval_node_g]. rewrite (preprocess_plain nm v Hp), (eval_value_plain_vf sc v Hp). cbn [rbind].
    specialize (IH sc Hrest). destruct (eval_body callf parent sc (pre ++ NCall nxt [] :: post)); try contradiction. exact I.
Qed.

Lemma str_eqb_same a : str_eqb a a = true.
Proof. induction a as [|c a IH]; [reflexivity|]. simpl. now rewrite Ascii.eqb_refl. Qed.

Lemma try_defs_runaway defs (callrec : call_handler) name parent sc :
  (forall nxt, In nxt (map m_name defs) -> forall p s, is_err (callrec nxt [] p s)) ->
  forall ds, Forall (runaway defs) ds -> In name (map m_name ds) -> is_err (try_defs callrec name [] parent sc ds).
Proof.
  intros Hrec. induction ds as [|d rest IH]; intros Hall Hin; [contradiction|].
  inversion Hall as [|? ? Hd Hrest]; subst. cbn [try_defs].
  destruct (str_eqb (m_name d) name) eqn:E.
  - destruct Hd as (Hp & pre & nxt & post & Hb & Hpre & Hnxt). rewrite Hp. cbn [bind_params].
    rewrite Hb. destruct pre as [|p pre']; cbn [app].
    + apply (eval_body_reaches_call callrec parent nxt post (Hrec nxt Hnxt) [] _ (Forall_nil _)).
    + apply (eval_body_reaches_call callrec parent nxt post (Hrec nxt Hnxt) (p :: pre') _ Hpre).
  - apply IH; [exact Hrest|]. cbn [map] in Hin. destruct Hin as [Heq|Hin]; [|exact Hin].
    rewrite Heq, str_eqb_same in E. discriminate.
Qed.

Theorem runaway_reported defs : Forall (runaway defs) defs ->
  forall fuel name parent sc, In name (map m_name defs) -> is_err (call_mixin defs fuel name [] parent sc).
Proof.
  intros Hall. induction fuel as [|f IH]; intros name parent sc Hin; [exact I|].
  cbn [call_mixin]. apply (try_defs_runaway defs); [|exact Hall|exact Hin].
  intros nxt Hnxt p s. apply IH. exact Hnxt.
Qed.
