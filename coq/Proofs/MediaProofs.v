(* MediaProofs.v — C07: the rotation in Block.parse. For every tree of rules and @media blocks the evaluator
   returns unconditional rule trees followed by flat @media blocks (never a @media inside a rule), and the
   printed groups are those of the reference flattening [mflat]: every declaration under exactly the
   (media, selector) pair it was written under, conditions of nested @media merged outer-to-inner, a
   rule's unconditional part before its media-conditional part, both in source order. *)
From Coq Require Import String.
From Coq Require Import List Ascii Bool NArith Arith Lia.
Require Import Model.Text Model.Ast Model.Scope Model.Ident Model.Fmt Model.Eval Gen.PIdent Proofs.EvalProofs.
Import ListNotations.
Local Open Scope char_scope.

Definition mgroup := (option oname * list part * list obj)%type.
Definition tagm (m : oname) (g : group) : mgroup := (Some m, fst g, snd g).
Definition untagged (g : group) : mgroup := (None, fst g, snd g).
Definition settag (m : oname) (g : mgroup) : mgroup := let '(_, s, p) := g in (Some m, s, p).
Definition retag (m : oname) (g : mgroup) : mgroup :=
  let '(t, s, p) := g in (match t with Some m2 => Some (merge_media m m2) | None => Some m end, s, p).
Definition psel (parent : option (list part)) : list part := match parent with Some p => p | None => [] end.

(* ---- the fragment: rules and @media blocks with literal declaration values ---- *)
Definition media_sel (sel : list str) : bool :=
  match sel with t :: _ => str_eqb t $"@media" && Nat.eqb (count_amp sel) 0 | [] => false end.
Fixpoint rm_only (n : node) : Prop :=
  match n with
  | NProp _ v _ => forallb is_VT v = true
  | NBlock sel body =>
      (plain_sel sel = true \/ media_sel sel = true)
      /\ (fix all (l : list node) : Prop := match l with [] => True | x :: r => rm_only x /\ all r end) body
  | _ => False
  end.
Lemma rm_only_body sel body :
  rm_only (NBlock sel body) <-> (plain_sel sel = true \/ media_sel sel = true) /\ Forall rm_only body.
Proof.
  cbn [rm_only]. split; intros [H1 H2]; split; auto.
  - induction body as [|x r IH]; constructor; [apply H2|apply IH, H2].
  - induction H2 as [|x r Hx Hr IH]; [exact I|split; assumption].
Qed.

(* ---- reference flattening ---- *)
Fixpoint mflat (parent : option (list part)) (n : node) : list mgroup * list mgroup :=
  match n with
  | NBlock sel body =>
      let me := ident_parse parent sel in
      let p' := if media_sel sel then parent else Some me in
      let kids := (fix go (l : list node) : list mgroup * list mgroup :=
                     match l with
                     | [] => ([], [])
                     | x :: r => let '(u, c) := mflat p' x in let '(u2, c2) := go r in (u ++ u2, c ++ c2)
                     end) body in
      let own := own_props body in
      if media_sel sel then
        let m := ONIdent true me in
        ([], (match own with [] => [] | _ => [(Some m, psel parent, own)] end)
             ++ map (settag m) (fst kids) ++ map (retag m) (snd kids))
      else
        ((match own with [] => [] | _ => [(None, me, own)] end) ++ fst kids, snd kids)
  | _ => ([], [])
  end.
Definition mflat_list (p' : option (list part)) : list node -> list mgroup * list mgroup :=
  fix go (l : list node) : list mgroup * list mgroup :=
    match l with
    | [] => ([], [])
    | x :: r => let '(u, c) := mflat p' x in let '(u2, c2) := go r in (u ++ u2, c ++ c2)
    end.

(* ---- normal form of what the evaluator returns ---- *)
Definition media_nf (o : obj) : bool :=
  match o with
  | OBlock (ONIdent true ((t :: _) :: _)) props inner => str_eqb t $"@media" && forallb is_prop_obj props && forallb plain_tree inner
  | _ => false
  end.
Definition mgroups_media (sel_for_props : list part) (o : obj) : list mgroup :=
  match o with
  | OBlock m props inner => (match props with [] => [] | _ => [(Some m, sel_for_props, props)] end) ++ map (tagm m) (flat_map groups inner)
  | _ => []
  end.

Lemma media_nf_facts o : media_nf o = true -> obj_is_block o = true /\ obj_is_media o = true.
Proof.
  destruct o as [| [[] [|[|t p] ps]|s] props inner | |]; try discriminate. cbn. intros H.
  apply andb_true_iff in H as [H _]. apply andb_true_iff in H as [H _]. now rewrite H.
Qed.

Lemma filters_split us ms :
  Forall (fun o => plain_tree o = true) us -> Forall (fun o => media_nf o = true) ms ->
  filter (fun o => negb (obj_is_block o)) (us ++ ms) = [] /\
  filter obj_is_media (us ++ ms) = ms /\
  filter (fun o => obj_is_block o && negb (obj_is_media o)) (us ++ ms) = us.
Proof.
  intros Hu Hm. rewrite !filter_app. destruct (filter_blocks_all us Hu) as (A & B & C). rewrite A, B, C.
  assert (filter (fun o => negb (obj_is_block o)) ms = [] /\ filter obj_is_media ms = ms /\
          filter (fun o => obj_is_block o && negb (obj_is_media o)) ms = []) as (D & E & F).
  { induction Hm as [|o l Ho Hl (D & E & F)]; [auto|]. destruct (media_nf_facts o Ho) as [E1 E2].
    cbn [filter]. rewrite E1, E2. cbn [negb andb]. rewrite D, E, F. auto. }
  rewrite D, E, F. split; [reflexivity|split; [reflexivity|apply app_nil_r]].
Qed.

(* ---- names ---- *)
Lemma tf_media_subp : is_subp $"@media" = true.
Proof. vm_compute. reflexivity. Qed.

Lemma str_eqb_true_eq a b : str_eqb a b = true -> a = b.
Proof.
  revert b; induction a as [|x a IH]; destruct b as [|y b]; simpl; intros H; try discriminate; auto.
  apply andb_true_iff in H as [H1 H2]. apply Ascii.eqb_eq in H1. subst. f_equal. auto.
Qed.

Lemma media_sel_subparse sel : media_sel sel = true -> is_subparse sel = true /\ is_media_name sel = true /\ sets_current sel = false.
Proof.
  destruct sel as [|t r]; [discriminate|]. unfold media_sel, is_subparse, is_media_name, sets_current. intros H.
  apply andb_true_iff in H as [H _]. rewrite H. apply str_eqb_true_eq in H. subst t. rewrite tf_media_subp. auto.
Qed.

Lemma pairwise_filter_head t r : is_blank_tok t = false -> exists r', pairwise_filter (t :: r) = t :: r'.
Proof.
  intros Ht. destruct r as [|j r2]; cbn [pairwise_filter]; rewrite Ht; [now exists []|]. cbn [andb]. eauto.
Qed.

Lemma media_name_head parent sel :
  media_sel sel = true -> exists rest, ident_parse parent sel = [ $"@media" :: rest ].
Proof.
  intros H. destruct sel as [|t r]; [discriminate|]. unfold media_sel in H. apply andb_true_iff in H as [H Hamp].
  apply str_eqb_true_eq in H. subst t. apply Nat.eqb_eq in Hamp.
  unfold ident_parse, names_of. rewrite tf_media_subp.
  assert (root parent [$"@media" :: r] = [$"@media" :: r]) as ->.
  { destruct parent as [[|p ps]|]; try reflexivity. cbn [root flat_map]. rewrite app_nil_r.
    unfold root_one. rewrite Hamp. reflexivity. }
  cbn [map]. destruct (pairwise_filter_head $"@media" r eq_refl) as (r' & ->). eauto.
Qed.

(* ---- small algebra of the group lists ---- *)
Lemma mflat_list_cons p' x r :
  mflat_list p' (x :: r) = (fst (mflat p' x) ++ fst (mflat_list p' r), snd (mflat p' x) ++ snd (mflat_list p' r)).
Proof. cbn [mflat_list]. destruct (mflat p' x) as [u c]. fold (mflat_list p'). destruct (mflat_list p' r) as [u2 c2]. reflexivity. Qed.

Lemma mflat_block parent sel body :
  mflat parent (NBlock sel body) =
    let me := ident_parse parent sel in
    let p' := if media_sel sel then parent else Some me in
    let kids := mflat_list p' body in
    let own := own_props body in
    if media_sel sel then
      ([], (match own with [] => [] | _ => [(Some (ONIdent true me), psel parent, own)] end)
           ++ map (settag (ONIdent true me)) (fst kids) ++ map (retag (ONIdent true me)) (snd kids))
    else ((match own with [] => [] | _ => [(None, me, own)] end) ++ fst kids, snd kids).
Proof. reflexivity. Qed.

Lemma settag_untagged m gs : map (settag m) (map untagged gs) = map (tagm m) gs.
Proof. rewrite map_map. apply map_ext. intros [s p]. reflexivity. Qed.

Lemma plain_not_media sel : plain_sel sel = true -> media_sel sel = false.
Proof.
  destruct sel as [|t r]; [reflexivity|]. unfold plain_sel, media_sel. destruct t as [|c t']; [reflexivity|].
  destruct c as [[] [] [] [] [] [] [] []]; try reflexivity; discriminate.
Qed.

Definition wrap_media (name : oname) (mb : obj) : list obj :=
  match mb with
  | OBlock mname mprops minner => if Nat.eqb (length (printable mprops ++ minner)) 0 then [] else [OBlock mname [] [OBlock name mprops minner]]
  | _ => []
  end.
Definition merge_into (name : oname) (mb : obj) : list obj :=
  match mb with
  | OBlock mname mprops minner => if Nat.eqb (length (printable mprops ++ minner)) 0 then [] else [OBlock (merge_media name mname) mprops minner]
  | _ => []
  end.

Lemma wrap_media_ok me mb :
  media_nf mb = true ->
  Forall (fun o => media_nf o = true) (wrap_media (ONIdent false me) mb) /\
  forall sp, flat_map (mgroups_media sp) (wrap_media (ONIdent false me) mb) = mgroups_media me mb.
Proof.
  destruct mb as [| [[] [|[|t p] ps]|s] mp mi | |]; try discriminate. cbn [media_nf]. intros H.
  apply andb_true_iff in H as [H Hmi]. apply andb_true_iff in H as [Ht Hmp].
  cbn [wrap_media]. rewrite (printable_id mp Hmp). destruct (mp ++ mi) as [|x l] eqn:E.
  - apply app_eq_nil in E as [-> ->]. cbn. split; [constructor|reflexivity].
  - cbn [length Nat.eqb]. split.
    + constructor; [|constructor]. cbn [media_nf forallb plain_tree]. rewrite Ht, plain_tree_all, Hmp, Hmi. reflexivity.
    + intros sp. cbn [flat_map mgroups_media groups app]. rewrite groups_go, !app_nil_r, map_app.
      destruct mp; reflexivity.
Qed.

Lemma merge_into_ok name sp mb :
  (exists rest, name = ONIdent true [ $"@media" :: rest ]) -> media_nf mb = true ->
  Forall (fun o => media_nf o = true) (merge_into name mb) /\
  flat_map (mgroups_media sp) (merge_into name mb) = map (retag name) (mgroups_media sp mb).
Proof.
  intros (rest & ->). destruct mb as [| [[] [|[|t p] ps]|s] mp mi | |]; try discriminate. cbn [media_nf]. intros H.
  apply andb_true_iff in H as [H Hmi]. apply andb_true_iff in H as [Ht Hmp].
  cbn [merge_into]. rewrite (printable_id mp Hmp). destruct (mp ++ mi) as [|x l] eqn:E.
  - apply app_eq_nil in E as [-> ->]. cbn. split; [constructor|reflexivity].
  - cbn [length Nat.eqb]. split.
    + constructor; [|constructor]. unfold merge_media.
      match goal with |- context [pairwise_filter (?h :: ?r)] => destruct (pairwise_filter_head h r eq_refl) as (r' & ->) end.
      cbn [media_nf]. rewrite Hmp, Hmi. reflexivity.
    + cbn [flat_map mgroups_media app]. rewrite app_nil_r, map_app, map_map.
      destruct mp; reflexivity.
Qed.

Definition node_result (parent : option (list part)) (n : node) (os : list obj) : Prop :=
  match n with
  | NProp nm v i => os = [OProp nm (map tok_str v) i]
  | _ => exists us ms, os = us ++ ms /\ Forall (fun o => plain_tree o = true) us /\ Forall (fun o => media_nf o = true) ms /\
                       map untagged (flat_map groups us) = fst (mflat parent n) /\
                       flat_map (mgroups_media (psel parent)) ms = snd (mflat parent n)
  end.

Lemma flat_map_wrap me medias sp :
  Forall (fun o => media_nf o = true) medias ->
  Forall (fun o => media_nf o = true) (flat_map (wrap_media (ONIdent false me)) medias) /\
  flat_map (mgroups_media sp) (flat_map (wrap_media (ONIdent false me)) medias) = flat_map (mgroups_media me) medias.
Proof.
  induction 1 as [|mb l Hmb Hl (A & B)]; [split; [constructor|reflexivity]|].
  destruct (wrap_media_ok me mb Hmb) as (W1 & W2). cbn [flat_map]. split.
  - apply Forall_app. auto.
  - rewrite flat_map_app, W2, B. reflexivity.
Qed.
Lemma flat_map_merge name medias sp :
  (exists rest, name = ONIdent true [ $"@media" :: rest ]) ->
  Forall (fun o => media_nf o = true) medias ->
  Forall (fun o => media_nf o = true) (flat_map (merge_into name) medias) /\
  flat_map (mgroups_media sp) (flat_map (merge_into name) medias) = map (retag name) (flat_map (mgroups_media sp) medias).
Proof.
  intros Hn. induction 1 as [|mb l Hmb Hl (A & B)]; [split; [constructor|reflexivity]|].
  destruct (merge_into_ok name sp mb Hn Hmb) as (W1 & W2). cbn [flat_map]. split.
  - apply Forall_app. auto.
  - rewrite flat_map_app, W2, B, map_app. reflexivity.
Qed.

Theorem eval_rm_only :
  forall n, rm_only n -> forall parent sc,
    exists os, eval_node parent sc n = ROk (os, sc) /\ node_result parent n os.
Proof.
  induction n as [nm v i|nm v|t|s body IH|sel body IH|mn mp mb IH|cn ca] using node_ind'; intros Hro parent sc; try contradiction.
  - cbn [rm_only] in Hro. eexists. split.
    + cbn [eval_node_g]. rewrite preprocess_plain by assumption. rewrite eval_value_plain_vf by assumption. reflexivity.
    + reflexivity.
  - apply rm_only_body in Hro as [Hsel Hbody].
    cbn [eval_node_g].
    set (me := ident_parse parent sel).
    set (p' := if sets_current sel then Some me else parent).
    (* the body loop, for whichever parent the children see *)
    assert (forall sc1, exists inner,
      (fix go (sc1 : scope) (l : list node) : outcome (list obj) :=
         match l with
         | [] => ROk []
         | c :: r => rbind (eval_node p' sc1 c) (fun '(os, sc2) => rbind (go sc2 r) (fun rest => ROk (os ++ rest)))
         end) sc1 body = ROk inner /\
      filter (fun o => negb (obj_is_block o)) inner = own_props body /\
      Forall (fun o => plain_tree o = true) (filter (fun o => obj_is_block o && negb (obj_is_media o)) inner) /\
      Forall (fun o => media_nf o = true) (filter obj_is_media inner) /\
      map untagged (flat_map groups (filter (fun o => obj_is_block o && negb (obj_is_media o)) inner)) = fst (mflat_list p' body) /\
      flat_map (mgroups_media (psel p')) (filter obj_is_media inner) = snd (mflat_list p' body)) as Hloop.
    { clear Hsel. induction body as [|c r IHr]; intros sc1.
      - exists []. repeat split; try reflexivity; constructor.
      - inversion IH as [|? ? IHc IHrest]; subst. inversion Hbody as [|? ? Hc Hrest]; subst.
        destruct (IHc Hc p' sc1) as (os & Ec & Rc). destruct (IHr IHrest Hrest sc1) as (rest & Er & P1 & P2 & P3 & P4 & P5).
        exists (os ++ rest). rewrite Ec. cbn [rbind]. rewrite Er. cbn [rbind]. split; [reflexivity|].
        rewrite !filter_app, !flat_map_app, map_app, mflat_list_cons. cbn [fst snd].
        destruct c as [nm v i|nm v|t|s b|s b|mn mp mb|cn ca]; cbn [node_result] in Rc; try (cbn [rm_only] in Hc; contradiction).
        + subst os. cbn [filter obj_is_block negb obj_is_media andb flat_map app own_props mflat fst snd map].
          rewrite P1, P4, P5. auto.
        + destruct Rc as (us & ms & -> & Hus & Hms & G1 & G2).
          destruct (filters_split us ms Hus Hms) as (A & B & C). rewrite A, B, C, P1, P4, P5, G1, G2.
          cbn [own_props flat_map app]. repeat split; try reflexivity; apply Forall_app; auto. }
    destruct (Hloop (push sc)) as (inner & Ego & P1 & P2 & P3 & P4 & P5).
    fold p'. rewrite Ego. cbn [rbind].
    set (props := filter (fun o => negb (obj_is_block o)) inner) in *.
    set (blocks := filter (fun o => obj_is_block o && negb (obj_is_media o)) inner) in *.
    set (medias := filter obj_is_media inner) in *.
    pose proof (mflat_block parent sel body) as Hmf. cbv zeta in Hmf. fold me in Hmf.
    destruct Hsel as [Hplain|Hmedia].
    + (* an ordinary rule: media children are rotated out, wrapped around a copy of this rule *)
      pose proof (plain_not_media sel Hplain) as Hnm. rewrite Hnm in *.
      assert (is_media_name sel = false) as ->.
      { destruct sel as [|t r]; [reflexivity|]. unfold is_media_name, plain_sel in *.
        destruct t as [|c t']; [reflexivity|]. destruct c as [[] [] [] [] [] [] [] []]; try reflexivity; discriminate. }
      rewrite (plain_not_subparse sel Hplain).
      assert (sets_current sel = true) as Hsc.
      { destruct sel as [|t r]; [reflexivity|]. unfold sets_current, plain_sel in *.
        destruct t as [|c t']; [reflexivity|]. destruct c as [[] [] [] [] [] [] [] []]; try reflexivity; discriminate. }
      assert (p' = Some me) as Hp' by (unfold p'; now rewrite Hsc). rewrite Hp' in *. cbv zeta. cbn [psel] in P5.
      assert (flat_map (fun mb => match mb with
                | OBlock mname mprops minner => if Nat.eqb (length (printable mprops ++ minner)) 0 then [] else [OBlock mname [] [OBlock (ONIdent false me) mprops minner]]
                | _ => [] end) medias = flat_map (wrap_media (ONIdent false me)) medias) as -> by reflexivity.
      destruct (flat_map_wrap me medias (psel parent) P3) as (W1 & W2).
      eexists. split; [reflexivity|]. cbn [node_result].
      exists (if Nat.eqb (length (printable props ++ blocks)) 0 then [] else [OBlock (ONIdent false me) props blocks]),
             (flat_map (wrap_media (ONIdent false me)) medias).
      rewrite Hmf. split; [reflexivity|]. split; [|split; [exact W1|split]].
      * rewrite P1, (printable_id _ (own_props_all body)), <- P1. destruct (props ++ blocks) as [|x l] eqn:E; [constructor|]. cbn [length Nat.eqb]. constructor; [|constructor].
        cbn [plain_tree]. rewrite plain_tree_all. rewrite P1, own_props_all.
        apply forallb_forall. intros o Ho. exact (proj1 (Forall_forall _ _) P2 o Ho).
      * cbn [fst]. rewrite <- P4. rewrite P1. rewrite (printable_id _ (own_props_all body)).
        destruct (own_props body ++ blocks) as [|x l] eqn:E.
        -- apply app_eq_nil in E as [E1 E2]. rewrite E1, E2. reflexivity.
        -- cbn [length Nat.eqb flat_map groups]. rewrite groups_go, app_nil_r, map_app. destruct (own_props body); reflexivity.
      * cbn [snd]. rewrite W2. exact P5.
    + (* a @media block: nested @media children are merged with it and become its siblings *)
      destruct (media_sel_subparse sel Hmedia) as (Hsub & Hmn & Hsc). rewrite Hmedia, Hsub, Hmn in *.
      assert (p' = parent) as Hp' by (unfold p'; now rewrite Hsc). rewrite Hp' in *. cbv zeta.
      destruct (media_name_head parent sel Hmedia) as (rest & Hme). fold me in Hme.
      assert (flat_map (fun mb => match mb with
                | OBlock mname mprops minner => if Nat.eqb (length (printable mprops ++ minner)) 0 then [] else [OBlock (merge_media (ONIdent true me) mname) mprops minner]
                | _ => [] end) medias = flat_map (merge_into (ONIdent true me)) medias) as -> by reflexivity.
      assert (exists rest0, ONIdent true me = ONIdent true [$"@media" :: rest0]) as Hname by (exists rest; now rewrite Hme).
      destruct (flat_map_merge (ONIdent true me) medias (psel parent) Hname P3) as (W1 & W2).
      eexists. split; [reflexivity|]. cbn [node_result].
      exists [], ((if Nat.eqb (length (printable props ++ blocks)) 0 then [] else [OBlock (ONIdent true me) props blocks])
                  ++ flat_map (merge_into (ONIdent true me)) medias).
      rewrite Hmf. split; [reflexivity|]. split; [constructor|]. split; [|split; [reflexivity|]].
      * apply Forall_app. split; [|exact W1].
        rewrite P1, (printable_id _ (own_props_all body)), <- P1. destruct (props ++ blocks) as [|x l] eqn:E; [constructor|]. cbn [length Nat.eqb]. constructor; [|constructor].
        rewrite Hme. cbn [media_nf]. rewrite P1, own_props_all. cbn [andb str_eqb].
        replace (str_eqb $"@media" $"@media") with true by reflexivity. cbn [andb].
        apply forallb_forall. intros o Ho. exact (proj1 (Forall_forall _ _) P2 o Ho).
      * cbn [snd]. rewrite flat_map_app, W2, P5, <- P4, settag_untagged. rewrite app_assoc. f_equal.
        rewrite P1. rewrite (printable_id _ (own_props_all body)).
        destruct (own_props body ++ blocks) as [|x l] eqn:E.
        -- apply app_eq_nil in E as [E1 E2]. rewrite E1, E2. reflexivity.
        -- cbn [length Nat.eqb flat_map mgroups_media]. rewrite app_nil_r. destruct (own_props body); reflexivity.
Qed.

(* ---- consequences ---- *)
Definition all_groups (parent : option (list part)) (os : list obj) : list mgroup :=
  flat_map (fun o => if media_nf o then mgroups_media (psel parent) o else map untagged (groups o)) os.

Lemma plain_tree_not_media_nf o : plain_tree o = true -> media_nf o = false.
Proof. destruct o as [| [[] p|s] ps inner | |]; try discriminate; reflexivity. Qed.

Theorem rotation_normal_form n parent sc :
  rm_only n -> match n with NBlock _ _ => True | _ => False end ->
  exists us ms, eval_node parent sc n = ROk (us ++ ms, sc) /\
                Forall (fun o => plain_tree o = true) us /\ Forall (fun o => media_nf o = true) ms /\
                all_groups parent (us ++ ms) = fst (mflat parent n) ++ snd (mflat parent n).
Proof.
  intros Hro Hb. destruct (eval_rm_only n Hro parent sc) as (os & E & R). destruct n; try contradiction.
  cbn [node_result] in R. destruct R as (us & ms & -> & Hus & Hms & G1 & G2). exists us, ms.
  split; [exact E|]. split; [exact Hus|]. split; [exact Hms|].
  unfold all_groups. rewrite flat_map_app, <- G1, <- G2. f_equal.
  - clear -Hus. induction Hus as [|o l Ho Hl IH]; [reflexivity|]. cbn [flat_map]. rewrite (plain_tree_not_media_nf o Ho), map_app, IH. reflexivity.
  - clear -Hms. induction Hms as [|o l Ho Hl IH]; [reflexivity|]. cbn [flat_map]. rewrite Ho, IH. reflexivity.
Qed.

(* no @media block is ever left inside a rule: a plain tree contains ordinary rules only, and a media block
   in normal form contains plain trees only *)
Fixpoint has_media_inside_rule (in_rule : bool) (o : obj) : bool :=
  match o with
  | OBlock name props inner =>
      let is_m := obj_is_media o in
      (in_rule && is_m) || (fix any (l : list obj) := match l with [] => false | x :: r => has_media_inside_rule (negb is_m || in_rule) x || any r end) inner
  | _ => false
  end.
Lemma plain_tree_no_media o : plain_tree o = true -> forall b, has_media_inside_rule b o = false.
Proof.
  induction o as [n p i|p| |name props inner IHp IHi] using obj_ind'; try discriminate.
  destruct name as [[] parsed|s]; try discriminate. cbn [plain_tree]. rewrite plain_tree_all. intros H b.
  apply andb_true_iff in H as [_ Hinner]. cbn [has_media_inside_rule obj_is_media]. rewrite andb_false_r. cbn [orb negb].
  induction inner as [|x r IHr]; [reflexivity|]. simpl in Hinner. apply andb_true_iff in Hinner as [Hx Hr].
  inversion IHi as [|? ? Ix Ir]; subst. rewrite (Ix Hx), (IHr Ir Hr). reflexivity.
Qed.
Lemma media_nf_no_media o : media_nf o = true -> has_media_inside_rule false o = false.
Proof.
  destruct o as [| [[] [|[|t p] ps]|s] props inner | |]; try discriminate. cbn [media_nf]. intros H.
  apply andb_true_iff in H as [H Hinner]. apply andb_true_iff in H as [Ht Hp].
  cbn [has_media_inside_rule obj_is_media andb orb]. rewrite Ht. cbn [negb orb].
  induction inner as [|x r IHr]; [reflexivity|]. simpl in Hinner. apply andb_true_iff in Hinner as [Hx Hr].
  rewrite (plain_tree_no_media x Hx false), (IHr Hr). reflexivity.
Qed.
