(* IdentProofs.v — Identifier.root: every parent selector is combined with every child selector, once,
   in child-major order; without & by a descendant blank, with & by substitution over all parent tuples. *)
From Coq Require Import String.
From Coq Require Import List Ascii Bool NArith Arith Lia.
Require Import Model.Text Model.Ident Gen.PIdent.
Import ListNotations.
Local Open Scope char_scope.
Local Open Scope nat_scope.

Definition usable (p : part) : bool := match p with t :: _ => negb (is_subp t) | [] => false end.
Definition not_media_name (name : part) : bool := match name with t :: _ => negb (str_eqb t $"@media") | [] => false end.

Lemma usable_filter_id pp : forallb usable pp = true -> usable_parent_parts pp = pp.
Proof.
  unfold usable_parent_parts. induction pp as [|p r IH]; [reflexivity|]. simpl. intros H.
  apply andb_true_iff in H as [Hp Hr]. unfold usable in Hp. destruct p as [|t q]; [discriminate|].
  rewrite Hp, IH by assumption. reflexivity.
Qed.

Lemma flat_map_length_const {A B} (f : A -> list B) (l : list A) (n : nat) :
  (forall x, In x l -> length (f x) = n) -> length (flat_map f l) = length l * n.
Proof.
  induction l as [|x r IH]; intros H; [reflexivity|]. cbn [flat_map length]. rewrite app_length, H by (now left).
  rewrite IH by (intros y Hy; apply H; now right). lia.
Qed.
Lemma product_rep_length {A} (pool : list A) k : length (product_rep pool k) = length pool ^ k.
Proof.
  induction k as [|k IH]; [reflexivity|]. cbn [product_rep Nat.pow].
  rewrite (flat_map_length_const _ _ (length pool ^ k)); [reflexivity|].
  intros x _. now rewrite map_length.
Qed.

(* ---- without & : one result per parent, parent ++ blank ++ child, parents in order ---- *)
Definition join_desc (p name : part) : part :=
  p ++ (match last_tok p with Some l => if is_blank_tok l then [] else [blank_tok] | None => [blank_tok] end) ++ name.

Lemma root_one_no_amp pp name :
  count_amp name = 0 -> not_media_name name = true -> forallb usable pp = true ->
  root_one pp name = map (fun p => join_desc p name) pp.
Proof.
  intros Hk Hm Hu. unfold root_one. rewrite Hk. cbn [Nat.ltb Nat.leb].
  destruct name as [|t r]; [discriminate|]. unfold not_media_name in Hm. apply negb_true_iff in Hm. rewrite Hm.
  apply map_ext_in. intros p Hp. pose proof (proj1 (forallb_forall _ _) Hu p Hp) as Up.
  unfold usable in Up. destruct p as [|pt q]; [discriminate|]. rewrite Up. reflexivity.
Qed.

(* ---- with & : one result per tuple of parents (itertools.product order), by substitution ---- *)
Lemma root_one_amp pp name :
  0 < count_amp name -> forallb usable pp = true ->
  root_one pp name = map (fun perm => subst_amp name perm []) (product_rep pp (count_amp name)).
Proof.
  intros Hk Hu. unfold root_one. destruct (Nat.ltb_spec 0 (count_amp name)); [|lia].
  now rewrite usable_filter_id.
Qed.

(* ---- how many selectors a nested rule gets: nothing dropped, nothing duplicated ---- *)
Definition combos (n_parents : nat) (name : part) : nat :=
  match count_amp name with 0 => n_parents | k => n_parents ^ k end.

Lemma root_one_length pp name :
  not_media_name name = true -> forallb usable pp = true ->
  length (root_one pp name) = combos (length pp) name.
Proof.
  intros Hm Hu. unfold combos. destruct (count_amp name) as [|k] eqn:E.
  - rewrite root_one_no_amp by assumption. apply map_length.
  - rewrite root_one_amp by (try lia; assumption). rewrite map_length, product_rep_length, E. reflexivity.
Qed.

Theorem root_length pp names :
  pp <> [] -> forallb usable pp = true -> forallb not_media_name names = true ->
  length (root (Some pp) names) = fold_right (fun name acc => combos (length pp) name + acc) 0 names.
Proof.
  intros Hne Hu Hn. destruct pp as [|p0 pr]; [congruence|]. cbn [root].
  induction names as [|name r IH]; [reflexivity|]. simpl in Hn. apply andb_true_iff in Hn as [H1 H2].
  cbn [flat_map fold_right]. rewrite app_length, root_one_length, IH by assumption. reflexivity.
Qed.

(* child-major order: all combinations of the first child selector come before those of the second *)
Theorem root_child_major pp n1 names :
  pp <> [] -> root (Some pp) (n1 :: names) = root_one pp n1 ++ root (Some pp) names.
Proof. intros Hne. destruct pp; [congruence|]. reflexivity. Qed.

(* substitution is textual when no bracket rule interferes: the printed text of the result is the child's
   text with each & replaced by the corresponding parent's text *)
Fixpoint subst_text (name : part) (perm : list part) : str :=
  match name with
  | [] => []
  | n :: r => if str_eqb n ["&"] then match perm with pp :: perm' => concat_str (strip_trailing_blank pp) ++ subst_text r perm' | [] => subst_text r [] end
              else n ++ subst_text r perm
  end.
Definition no_bracket (t : str) : bool := negb (ends_with_bracket t).

Lemma concat_str_app' a b : concat_str (a ++ b) = concat_str a ++ concat_str b.
Proof. induction a as [|x a IH]; simpl; [reflexivity|]. now rewrite IH, app_assoc. Qed.

Lemma subst_amp_text name : forall perm acc,
  forallb no_bracket name = true -> forallb (forallb no_bracket) perm = true ->
  (match last_tok acc with Some l => no_bracket l = true | None => True end) ->
  concat_str (subst_amp name perm acc) = concat_str acc ++ subst_text name perm.
Proof.
  induction name as [|n r IH]; intros perm acc Hn Hp Hacc.
  - cbn. now rewrite app_nil_r.
  - simpl in Hn. apply andb_true_iff in Hn as [Hn1 Hn2]. cbn [subst_amp subst_text].
    destruct (str_eqb n ["&"]) eqn:E.
    + destruct perm as [|pp perm'].
      * apply IH; auto.
      * simpl in Hp. apply andb_true_iff in Hp as [Hp1 Hp2].
        assert (match last_tok acc with Some l => if ends_with_bracket l then acc ++ [blank_tok] else acc | None => acc end = acc) as ->.
        { destruct (last_tok acc) as [l|]; [|reflexivity]. unfold no_bracket in Hacc. apply negb_true_iff in Hacc. now rewrite Hacc. }
        rewrite IH; auto.
        -- now rewrite concat_str_app', app_assoc.
        -- (* last token of acc ++ stripped parent has no bracket *)
           assert (forallb no_bracket (strip_trailing_blank pp) = true) as Hs.
           { unfold strip_trailing_blank. destruct (last_tok pp) as [l|]; [|assumption].
             destruct (is_blank_tok l); [|assumption]. unfold drop_last.
             apply forallb_forall. intros x Hx. apply in_rev in Hx.
             assert (In x (rev pp)) as Hx' by (destruct (rev pp); [contradiction|now right]).
             apply in_rev in Hx'. exact (proj1 (forallb_forall _ _) Hp1 x Hx'). }
           unfold last_tok. rewrite rev_app_distr.
           destruct (rev (strip_trailing_blank pp)) as [|y ys] eqn:Er.
           ++ cbn [app]. exact Hacc.
           ++ cbn [app]. apply (proj1 (forallb_forall _ _) Hs). apply in_rev. rewrite Er. now left.
    + rewrite IH; auto.
      * rewrite concat_str_app'. cbn [concat_str]. now rewrite app_nil_r, app_assoc.
      * unfold last_tok. rewrite rev_app_distr. cbn [rev app]. exact Hn1.
Qed.
