(* EvalProofs.v — structure theorems about the evaluator (C02): for nested rules, what is printed is the
   preorder flattening of the source: own declarations first, nested rules depth-first in source order,
   every rule with at least one declaration exactly once, rules without declarations not at all. *)
From Coq Require Import String.
From Coq Require Import List Ascii Bool NArith Lia.
Require Import Model.Text Model.Ast Model.Scope Model.Ident Model.Fmt Model.Eval Gen.PIdent.
Import ListNotations.
Local Open Scope char_scope.

(* ---- nested induction over nodes ---- *)
Section node_ind.
  Variable P : node -> Prop.
  Hypothesis HProp : forall n v i, P (NProp n v i).
  Hypothesis HVar : forall n v, P (NVar n v).
  Hypothesis HStmt : forall t, P (NStmt t).
  Hypothesis HFrame : forall s body, Forall P body -> P (NFrame s body).
  Hypothesis HBlock : forall s body, Forall P body -> P (NBlock s body).
  Hypothesis HMixin : forall n p body, Forall P body -> P (NMixin n p body).
  Hypothesis HCall : forall n a, P (NCall n a).
  Fixpoint node_ind' (n : node) : P n :=
    let fix go (l : list node) : Forall P l :=
      match l with [] => Forall_nil _ | x :: r => Forall_cons _ (node_ind' x) (go r) end in
    match n with
    | NProp a b c => HProp a b c
    | NVar a b => HVar a b
    | NStmt t => HStmt t
    | NFrame s body => HFrame s body (go body)
    | NBlock s body => HBlock s body (go body)
    | NMixin n p body => HMixin n p body (go body)
    | NCall n a => HCall n a
    end.
End node_ind.

(* ---- the fragment of this theorem: ordinary rules (no at-rule selector) with literal values ---- *)
Definition is_VT (t : vtok) : bool := match t with VT _ => true | _ => false end.
Definition tok_str (t : vtok) : str := match t with VT s => s | _ => [] end.
Definition plain_sel (sel : list str) : bool := match sel with ("@" :: _) :: _ => false | [] => false | _ => true end.

Fixpoint rules_only (n : node) : Prop :=
  match n with
  | NProp _ v _ => forallb is_VT v = true
  | NBlock sel body => plain_sel sel = true /\ (fix all (l : list node) : Prop := match l with [] => True | x :: r => rules_only x /\ all r end) body
  | _ => False
  end.
Definition all_rules_only (l : list node) : Prop := Forall rules_only l.
Lemma rules_only_body sel body : rules_only (NBlock sel body) <-> plain_sel sel = true /\ Forall rules_only body.
Proof.
  cbn [rules_only]. split; intros [H1 H2]; split; auto.
  - induction body as [|x r IH]; constructor; [apply H2|apply IH, H2].
  - induction H2 as [|x r Hx Hr IH]; [exact I|split; assumption].
Qed.

(* table fact: every name that makes an identifier "subparse" is an at-word *)
Lemma tf_subp_at : forallb (fun s => match s with "@" :: _ => true | _ => false end) subp_names = true.
Proof. vm_compute. reflexivity. Qed.

Lemma plain_not_subparse sel : plain_sel sel = true -> is_subparse sel = false.
Proof.
  destruct sel as [|t r]; [discriminate|]. unfold plain_sel, is_subparse, is_subp. intros H.
  destruct (mem_str t subp_names) eqn:E; [|reflexivity]. exfalso.
  assert (exists s, In s subp_names /\ str_eqb t s = true) as (s & Hin & He).
  { clear H. induction subp_names as [|y l IH]; [discriminate|]. simpl in E. apply orb_true_iff in E as [E|E].
    - exists y. split; [now left|assumption].
    - destruct (IH E) as (s & A & B). exists s. split; [now right|assumption]. }
  pose proof (proj1 (forallb_forall _ _) tf_subp_at s Hin) as Hs.
  assert (t = s) as -> by (clear -He; revert s He; induction t as [|c t IH]; destruct s; simpl; intros; try discriminate; auto;
                           apply andb_true_iff in He as [A B]; apply Ascii.eqb_eq in A; subst; f_equal; auto).
  destruct s as [|c s']; [discriminate|]. destruct c as [[] [] [] [] [] [] [] []]; try discriminate.
Qed.

(* ---- literal values evaluate to themselves ---- *)
Lemma preprocess_plain name v : forallb is_VT v = true -> preprocess name v = v.
Proof.
  intros H. unfold preprocess. destruct (str_eqb name $"font"); [reflexivity|].
  induction v as [|t r IH]; [reflexivity|]. simpl in H. apply andb_true_iff in H as [Ht Hr].
  destruct t; try discriminate. simpl. now rewrite IH.
Qed.
Lemma eval_toks_plain lookup rec v : forallb is_VT v = true -> eval_toks lookup rec v = ROk (map tok_str v).
Proof.
  induction v as [|t r IH]; [reflexivity|]. simpl. intros H. apply andb_true_iff in H as [Ht Hr].
  destruct t; try discriminate. cbn [eval_tok rbind tok_str]. rewrite IH by assumption. reflexivity.
Qed.
Lemma eval_value_plain fuel sc v :
  forallb is_VT v = true -> eval_value (S fuel) sc v = ROk (map tok_str v).
Proof. intros H. cbn [eval_value]. now apply eval_toks_plain. Qed.

(* table fact: the round limit of Node.process is positive (the regenerated constant) *)
Lemma tf_value_fuel_pos : Nat.ltb 0 value_fuel = true.
Proof. vm_compute. reflexivity. Qed.
Lemma eval_value_plain_vf sc v : forallb is_VT v = true -> eval_value value_fuel sc v = ROk (map tok_str v).
Proof.
  pose proof tf_value_fuel_pos as H. destruct value_fuel as [|f]; [discriminate|]. apply eval_value_plain.
Qed.

(* ---- what gets printed, as a list of (selector, declarations) groups ---- *)
Definition group := (list part * list obj)%type.
Fixpoint groups (o : obj) : list group :=
  match o with
  | OBlock (ONIdent false parsed) props inner =>
      (match props with [] => [] | _ => [(parsed, props)] end)
      ++ (fix go (l : list obj) := match l with [] => [] | x :: r => groups x ++ go r end) inner
  | _ => []
  end.
Lemma groups_go l : (fix go (l : list obj) := match l with [] => [] | x :: r => groups x ++ go r end) l = flat_map groups l.
Proof. induction l; simpl; congruence. Qed.

(* SPEC: preorder flattening *)
Definition own_props (body : list node) : list obj :=
  flat_map (fun c => match c with NProp n v i => [OProp n (map tok_str v) i] | _ => [] end) body.
Fixpoint flat (parent : option (list part)) (n : node) : list group :=
  match n with
  | NBlock sel body =>
      let me := ident_parse parent sel in
      (match own_props body with [] => [] | ps => [(me, ps)] end)
      ++ (fix go (l : list node) := match l with [] => [] | x :: r => flat (Some me) x ++ go r end) body
  | _ => []
  end.
Lemma flat_go me l : (fix go (l : list node) := match l with [] => [] | x :: r => flat (Some me) x ++ go r end) l = flat_map (flat (Some me)) l.
Proof. induction l; simpl; congruence. Qed.

Definition is_prop_obj (o : obj) : bool := match o with OProp _ _ _ => true | _ => false end.
Lemma printable_id ps : forallb is_prop_obj ps = true -> printable ps = ps.
Proof.
  unfold printable. induction ps as [|p r IH]; [reflexivity|]. simpl. intros H. apply andb_true_iff in H as [Hp Hr].
  destruct p; try discriminate. now rewrite IH.
Qed.
Lemma own_props_all body : forallb is_prop_obj (own_props body) = true.
Proof. unfold own_props. induction body as [|c r IH]; [reflexivity|]. destruct c; cbn [flat_map app forallb is_prop_obj]; auto. Qed.
Definition plain_block_obj (o : obj) : bool := match o with OBlock (ONIdent false _) _ _ => true | _ => false end.
(* an output block tree made of ordinary rules whose own list holds declarations only *)
Fixpoint plain_tree (o : obj) : bool :=
  match o with
  | OBlock (ONIdent false _) props inner =>
      forallb is_prop_obj props && (fix all (l : list obj) := match l with [] => true | x :: r => plain_tree x && all r end) inner
  | _ => false
  end.
Lemma plain_tree_all l : (fix all (l : list obj) := match l with [] => true | x :: r => plain_tree x && all r end) l = forallb plain_tree l.
Proof. induction l; simpl; congruence. Qed.
Lemma plain_tree_block o : plain_tree o = true -> plain_block_obj o = true.
Proof. destruct o as [| [[] p|s] ps inner | |]; try discriminate; auto. Qed.

(* the result of evaluating one statement of a rule body *)
Definition stmt_result (me : option (list part)) (sc : scope) (c : node) (os : list obj) : Prop :=
  match c with
  | NProp n v i => os = [OProp n (map tok_str v) i]
  | _ => Forall (fun o => plain_tree o = true) os /\ flat_map groups os = flat me c
  end.

Lemma filter_app_props (a b : list obj) :
  filter (fun o => negb (obj_is_block o)) (a ++ b) = filter (fun o => negb (obj_is_block o)) a ++ filter (fun o => negb (obj_is_block o)) b.
Proof. apply filter_app. Qed.

Lemma plain_block_facts o : plain_block_obj o = true -> obj_is_block o = true /\ obj_is_media o = false.
Proof. destruct o as [| [[] p|s] ps inner | |]; try discriminate; auto. Qed.

Lemma filter_blocks_all os :
  Forall (fun o => plain_tree o = true) os ->
  filter (fun o => negb (obj_is_block o)) os = [] /\ filter obj_is_media os = [] /\
  filter (fun o => obj_is_block o && negb (obj_is_media o)) os = os.
Proof.
  induction 1 as [|o l Ho Hl (A & B & C)]; [auto|]. destruct (plain_block_facts o (plain_tree_block o Ho)) as [E1 E2].
  cbn [filter]. rewrite E1, E2. cbn [negb andb]. rewrite A, B, C. auto.
Qed.

Theorem eval_rules_only :
  forall n, rules_only n -> forall parent sc,
    exists os, eval_node parent sc n = ROk (os, sc) /\ stmt_result parent sc n os.
Proof.
  induction n as [nm v i|nm v|t|s body IH|sel body IH|mn mp mb IH|cn ca] using node_ind'; intros Hro parent sc; try contradiction.
  - cbn [rules_only] in Hro. eexists. split.
    + cbn [eval_node_g]. rewrite preprocess_plain by assumption. rewrite eval_value_plain_vf by assumption. reflexivity.
    + reflexivity.
  - apply rules_only_body in Hro as [Hsel Hbody].
    cbn [eval_node_g]. rewrite (plain_not_subparse sel Hsel).
    assert (sets_current sel = true) as ->.
    { destruct sel as [|t r]; [reflexivity|]. unfold sets_current, plain_sel in *.
      destruct t as [|c t']; [reflexivity|]. destruct c as [[] [] [] [] [] [] [] []]; try reflexivity; discriminate. }
    assert (is_media_name sel = false) as Hnm.
    { destruct sel as [|t r]; [reflexivity|]. unfold is_media_name, plain_sel in *.
      destruct t as [|c t']; [reflexivity|]. destruct c as [[] [] [] [] [] [] [] []]; try reflexivity; discriminate. }
    set (me := ident_parse parent sel).
    (* the body loop *)
    assert (forall sc1, exists inner,
      (fix go (sc1 : scope) (l : list node) : outcome (list obj) :=
         match l with
         | [] => ROk []
         | c :: r => rbind (eval_node (Some me) sc1 c) (fun '(os, sc2) => rbind (go sc2 r) (fun rest => ROk (os ++ rest)))
         end) sc1 body = ROk inner /\
      filter (fun o => negb (obj_is_block o)) inner = own_props body /\
      filter obj_is_media inner = [] /\
      forallb plain_tree (filter (fun o => obj_is_block o && negb (obj_is_media o)) inner) = true /\
      flat_map groups (filter (fun o => obj_is_block o && negb (obj_is_media o)) inner) = flat_map (flat (Some me)) body) as Hloop.
    { clear Hnm. induction body as [|c r IHr]; intros sc1.
      - exists []. repeat split; reflexivity.
      - inversion IH as [|? ? IHc IHrest]; subst. inversion Hbody as [|? ? Hc Hrest]; subst.
        destruct (IHc Hc (Some me) sc1) as (os & Ec & Rc). destruct (IHr IHrest Hrest sc1) as (rest & Er & P1 & P2 & P4 & P3).
        exists (os ++ rest). rewrite Ec. cbn [rbind]. rewrite Er. cbn [rbind]. split; [reflexivity|].
        rewrite !filter_app, flat_map_app, forallb_app.
        destruct c as [nm v i|nm v|t|s b|s b|mn mp mb|cn ca]; cbn [stmt_result] in Rc; try (cbn [rules_only] in Hc; contradiction).
        + subst os. cbn [filter obj_is_block negb obj_is_media andb flat_map app own_props flat forallb].
          rewrite P1, P2, P3, P4. auto.
        + destruct Rc as [Hall Hg]. destruct (filter_blocks_all os Hall) as (A & B & C).
          rewrite A, B, C, P1, P2, P3, P4, Hg. cbn [own_props flat_map app].
          rewrite (proj2 (forallb_forall _ _) (proj1 (Forall_forall _ _) Hall)). auto. }
    destruct (Hloop (push sc)) as (inner & Ego & P1 & P2 & P4 & P3).
    rewrite Ego. cbn [rbind]. rewrite P2. cbn [flat_map app]. rewrite app_nil_r.
    eexists. split; [reflexivity|]. cbn [stmt_result].
    set (blocks := filter (fun o => obj_is_block o && negb (obj_is_media o)) inner) in *.
    cbn [flat]. fold me. rewrite P1. rewrite (printable_id _ (own_props_all body)). rewrite (flat_go me body). rewrite <- P3.
    destruct (own_props body ++ blocks) as [|x l] eqn:E.
    + apply app_eq_nil in E as [E1 E2]. rewrite E1, E2. cbn. split; [constructor|reflexivity].
    + cbn [length Nat.eqb]. split.
      { constructor; [|constructor]. cbn [plain_tree]. rewrite plain_tree_all, P4, andb_true_r.
        unfold own_props. clear. induction body as [|c r IH]; [reflexivity|]. destruct c; cbn [flat_map app forallb is_prop_obj]; auto. }
      cbn [flat_map groups]. rewrite groups_go, app_nil_r. destruct (own_props body); reflexivity.
Qed.

(* ---- the text printed for such a tree is the concatenation of its groups, in order ---- *)
Definition group_fmt (fl : fills) (g : group) : str :=
  let '(parsed, props) := g in
  ident_fmt (f_ws fl) (f_nl fl) parsed ++ f_ws fl ++ ["{"] ++ f_nl fl ++ concat_str (map (obj_fmt fl) props) ++ ["}"] ++ f_eb fl.

Section obj_ind.
  Variable P : obj -> Prop.
  Hypothesis HP : forall n p i, P (OProp n p i).
  Hypothesis HS : forall p, P (OStmt p).
  Hypothesis HV : P OVar.
  Hypothesis HB : forall name props inner, Forall P props -> Forall P inner -> P (OBlock name props inner).
  Fixpoint obj_ind' (o : obj) : P o :=
    let fix go (l : list obj) : Forall P l :=
      match l with [] => Forall_nil _ | x :: r => Forall_cons _ (obj_ind' x) (go r) end in
    match o with
    | OProp n p i => HP n p i
    | OStmt p => HS p
    | OVar => HV
    | OBlock name props inner => HB name props inner (go props) (go inner)
    end.
End obj_ind.

Lemma concat_str_app a b : concat_str (a ++ b) = concat_str a ++ concat_str b.
Proof. induction a as [|x a IH]; simpl; [reflexivity|]. now rewrite IH, app_assoc. Qed.
Lemma concat_map_flat_map {A} (f : A -> list group) (g : group -> str) l :
  concat_str (map g (flat_map f l)) = concat_str (map (fun x => concat_str (map g (f x))) l).
Proof. induction l as [|x l IH]; simpl; [reflexivity|]. now rewrite map_app, concat_str_app, IH. Qed.

Lemma props_printable props : forallb is_prop_obj props = true ->
  existsb (fun p => match p with OVar => false | _ => true end) props = match props with [] => false | _ => true end.
Proof. destruct props as [|p r]; [reflexivity|]. simpl. intros H. apply andb_true_iff in H as [Hp _]. destruct p; try discriminate; reflexivity. Qed.

Theorem fmt_plain_tree fl o : plain_tree o = true -> obj_fmt fl o = concat_str (map (group_fmt fl) (groups o)).
Proof.
  induction o as [n p i|p| |name props inner IHp IHi] using obj_ind'; try discriminate.
  destruct name as [[] parsed|s]; try discriminate. cbn [plain_tree]. rewrite plain_tree_all. intros H.
  apply andb_true_iff in H as [Hprops Hinner].
  cbn [obj_fmt groups name_subparse name_fmt andb]. rewrite groups_go, map_app, concat_str_app.
  rewrite (props_printable props Hprops).
  assert (concat_str (map (obj_fmt fl) inner) = concat_str (map (group_fmt fl) (flat_map groups inner))) as ->.
  { rewrite concat_map_flat_map. clear Hprops IHp. induction inner as [|x r IHr]; [reflexivity|].
    simpl in Hinner. apply andb_true_iff in Hinner as [Hx Hr]. inversion IHi as [|? ? Ix Ir]; subst.
    cbn [map concat_str]. rewrite (Ix Hx), (IHr Ir Hr). reflexivity. }
  destruct props as [|p r]; [reflexivity|]. cbn [map concat_str group_fmt]. rewrite app_nil_r. reflexivity.
Qed.

(* ---- every source rule with at least one declaration yields exactly one group ---- *)
Fixpoint rules_with_decls (n : node) : nat :=
  match n with
  | NBlock _ body =>
      (match own_props body with [] => 0 | _ => 1 end)
      + (fix go (l : list node) := match l with [] => 0 | x :: r => rules_with_decls x + go r end) body
  | _ => 0
  end.
Lemma flat_count n : forall parent, length (flat parent n) = rules_with_decls n.
Proof.
  induction n as [nm v i|nm v|t|s body IH|sel body IH|mn mp mb IH|cn ca] using node_ind'; intros parent; try reflexivity.
  cbn [flat rules_with_decls]. rewrite app_length. f_equal; [destruct (own_props body); reflexivity|].
  generalize (ident_parse parent sel) as me. intros me. induction body as [|x r IHr]; [reflexivity|].
  inversion IH as [|? ? Hx Hr]; subst. rewrite app_length, Hx. f_equal. now apply IHr.
Qed.

(* top level: a stylesheet of ordinary nested rules *)
Theorem eval_units_rules_only units sc :
  Forall rules_only units ->
  (forall n, In n units -> match n with NBlock _ _ => True | _ => False end) ->
  exists os, eval_units sc units = ROk os /\ forallb plain_tree os = true /\
             flat_map groups os = flat_map (flat None) units.
Proof.
  induction units as [|n r IH]; intros Hall Hblk.
  - exists []. repeat split; reflexivity.
  - inversion Hall as [|? ? Hn Hr]; subst.
    destruct (eval_rules_only n Hn None sc) as (os & E & R).
    destruct (IH Hr (fun m Hm => Hblk m (or_intror Hm))) as (rest & Er & Pt & Pg).
    exists (os ++ rest). cbn [eval_units_g]. rewrite E. cbn [rbind]. rewrite Er. cbn [rbind]. split; [reflexivity|].
    pose proof (Hblk n (or_introl eq_refl)) as Hb. destruct n; try contradiction. cbn [stmt_result] in R. destruct R as [Ra Rg].
    rewrite forallb_app, flat_map_app, Pt, Pg, Rg. cbn [flat_map]. split; [|reflexivity].
    rewrite (proj2 (forallb_forall _ _) (proj1 (Forall_forall _ _) Ra)). reflexivity.
Qed.
