(* StringProofs.v — C18: string literals are one token, evaluate to themselves and are printed verbatim; an interpolation
   @{name} evaluates to the value of @name, the same value a plain use of @name gives; selectors are substituted. *)
From Coq Require Import String.
From Coq Require Import List Ascii Bool NArith Lia.
Require Import Model.Text Model.ParamTypes Gen.Params Model.Lex Model.Ast Model.Scope Model.Ident Model.Fmt Model.Eval.
Require Import Proofs.LexProofs Proofs.EvalProofs.
Import ListNotations.
Local Open Scope char_scope.

Definition free_of (q : ascii) (body : str) : bool := forallb (fun c => negb (Ascii.eqb c q)) body.

(* ---- lexer: inside parentheses (url("..."), function arguments) a plain string is one token as well ---- *)
Lemma step_string_parn stk ip q body rest :
  top stk = MParn -> (q = """" \/ q = "'") -> forallb (fun c => negb (ch_eqb c q || ch_eqb c "@")) body = true ->
  step (LS stk ip) (q :: body ++ q :: rest) = Emit ($"css_string", q :: body ++ [q]) (LS stk ip) (count_nl (q :: body ++ [q])) rest.
Proof.
  intros Ht Hq Hb.
  assert (Hs : span (fun c => negb (ch_eqb c q || ch_eqb c "@")) (body ++ q :: rest) = (body, q :: rest)).
  { apply span_app; [exact Hb|]. cbn. destruct Hq as [-> | ->]; reflexivity. }
  unfold step. cbn [ls_stack]. rewrite Ht.
  destruct Hq as [-> | ->]; cbn; rewrite Hs; cbn; reflexivity.
Qed.

(* ---- formatter ---- *)
Lemma skip_string_body q body rest : free_of q body = true -> skip_string q (body ++ q :: rest) = Some (body ++ [q], rest).
Proof.
  induction body as [|c b IH]; cbn [free_of forallb app skip_string]; intros H.
  - now rewrite Ascii.eqb_refl.
  - apply andb_true_iff in H as [Hc Hb]. apply negb_true_iff in Hc. rewrite Hc. unfold free_of in IH. now rewrite IH.
Qed.
Lemma url_fix_nil f : url_fix f [] = [].
Proof. destruct f; reflexivity. Qed.
Lemma url_fix_string f q body rest : is_quote q = true -> free_of q body = true ->
  url_fix (S f) (q :: body ++ q :: rest) = q :: body ++ q :: url_fix f rest.
Proof.
  intros Hq Hb. cbn [url_fix]. rewrite Hq, (skip_string_body q body rest Hb). now rewrite <- app_assoc.
Qed.
Lemma drop_while_head p (c : ascii) r : p c = false -> drop_while p (c :: r) = c :: r.
Proof. intros H. cbn. now rewrite H. Qed.
Lemma strip_quoted p q body : p q = false -> strip p (q :: body ++ [q]) = q :: body ++ [q].
Proof.
  intros H. unfold strip, strip_left, strip_right. rewrite drop_while_head by exact H.
  assert (E : rev (q :: body ++ [q]) = q :: rev body ++ [q]).
  { cbn [rev]. rewrite rev_app_distr. reflexivity. }
  rewrite E, drop_while_head by exact H.
  cbn [rev]. rewrite rev_app_distr, rev_involutive. reflexivity.
Qed.

Theorem string_printed_verbatim fl name q body imp :
  is_quote q = true -> free_of q body = true ->
  prop_fmt fl name [q :: body ++ [q]] imp
  = f_tab fl ++ name ++ [":"] ++ f_ws fl ++ (q :: body ++ [q]) ++ (if imp then $" !important" else []) ++ [";"] ++ f_nl fl.
Proof.
  intros Hq Hb. unfold prop_fmt. cbv zeta.
  assert (Hc : str_eqb (q :: body ++ [q]) [","] = false).
  { unfold is_quote in Hq. apply orb_true_iff in Hq as [H | H]; apply Ascii.eqb_eq in H; subst q; reflexivity. }
  assert (Hs : strip_ws (url_fix (S (List.length (concat_str [q :: body ++ [q]]))) (concat_str [q :: body ++ [q]])) = q :: body ++ [q]).
  { cbn [concat_str]. rewrite app_nil_r.
    change (q :: body ++ [q]) with (q :: body ++ q :: []) at 2.
    rewrite url_fix_string by assumption. rewrite url_fix_nil.
    unfold strip_ws. apply strip_quoted.
    unfold is_quote in Hq. apply orb_true_iff in Hq as [H | H]; apply Ascii.eqb_eq in H; subst q; reflexivity. }
  assert (Hl : str_eqb (q :: body ++ [q]) [""""] || str_eqb (q :: body ++ [q]) ["'"] = false).
  { unfold is_quote in Hq. apply orb_true_iff in Hq as [H | H]; apply Ascii.eqb_eq in H; subst q; destruct body; reflexivity. }
  destruct (f_nl fl) as [|n0 nl] eqn:En; [rewrite Hs; reflexivity|].
  cbn [comma_ws]. rewrite Hl, Hc. cbn [comma_ws]. do 4 f_equal. apply (f_equal (fun z => z ++ _)). exact Hs.
Qed.

(* ---- interpolation ---- *)
Theorem interpolation_value fuel sc x v :
  is_interp x = true -> variables (interp_name x) sc = Some v -> forallb is_VT v = true -> destring_first v = v ->
  eval_value (S (S fuel)) sc [VVar x] = ROk (map tok_str v).
Proof.
  intros Hi Hv Hp Hd. cbn [eval_value eval_toks eval_tok]. unfold lookup_with at 1. rewrite Hi, Hv, Hd.
  change (eval_toks (lookup_with (eval_value fuel sc) sc) (eval_value fuel sc) v) with (eval_value (S fuel) sc v).
  rewrite eval_value_plain by assumption. cbn [rbind]. now rewrite app_nil_r.
Qed.

(* the plain use @name of the same variable evaluates to the same tokens *)
Theorem plain_use_value fuel sc y v :
  is_interp y = false -> (match y with "@" :: "@" :: _ => False | _ => True end) -> variables y sc = Some v -> forallb is_VT v = true ->
  eval_value (S (S fuel)) sc [VVar y] = ROk (map tok_str v).
Proof.
  intros Hi Hn Hv Hp. cbn [eval_value eval_toks eval_tok]. unfold lookup_with at 1. rewrite Hi.
  assert (E : (match y with
               | "@" :: "@" :: _ => RError $"SyntaxError" $"indirect variable not modelled"
               | _ => match variables y sc with
                      | Some v0 => eval_toks (lookup_with (eval_value fuel sc) sc) (eval_value fuel sc) v0
                      | None => RError $"SyntaxError" ($"Unknown variable " ++ y)
                      end
               end) = eval_value (S fuel) sc v).
  { rewrite Hv. destruct y as [|c [|d r]]; try reflexivity.
    - destruct c as [[] [] [] [] [] [] [] []]; reflexivity.
    - destruct c as [[] [] [] [] [] [] [] []]; try reflexivity; destruct d as [[] [] [] [] [] [] [] []]; try reflexivity; contradiction. }
  rewrite E, eval_value_plain by assumption. cbn [rbind]. now rewrite app_nil_r.
Qed.

Theorem same_value_everywhere fuel sc x v :
  is_interp x = true -> is_interp (interp_name x) = false -> (match interp_name x with "@" :: "@" :: _ => False | _ => True end) ->
  variables (interp_name x) sc = Some v -> forallb is_VT v = true -> destring_first v = v ->
  eval_value (S (S fuel)) sc [VVar x] = eval_value (S (S fuel)) sc [VVar (interp_name x)].
Proof.
  intros. rewrite (interpolation_value fuel sc x v), (plain_use_value fuel sc (interp_name x) v); auto.
Qed.

(* ---- selectors: the pre-pass replaces every @{name} token by the tokens of the value and touches nothing else ---- *)
Lemma subst_sel_cons sc t r :
  subst_sel sc (t :: r) = rbind (subst_sel sc r) (fun rest =>
      if is_interp t then
        match variables (interp_name t) sc with
        | Some v => if vt_only v then ROk (vt_strs (destring_first v) ++ rest) else REscaped $"NoModel: structured value in a selector"
        | None => RError $"SyntaxError" ($"Unknown escaped variable " ++ t)
        end
      else ROk (t :: rest)).
Proof. reflexivity. Qed.
Lemma subst_sel_plain sc l : forallb (fun t => negb (is_interp t)) l = true -> subst_sel sc l = ROk l.
Proof.
  induction l as [|t r IH]; [reflexivity|]. cbn [forallb]. intros H. apply andb_true_iff in H as [Ht Hr].
  rewrite subst_sel_cons, IH by assumption. cbn [rbind]. apply negb_true_iff in Ht. now rewrite Ht.
Qed.
Theorem selector_interpolation sc pre x post v :
  forallb (fun t => negb (is_interp t)) pre = true -> forallb (fun t => negb (is_interp t)) post = true ->
  is_interp x = true -> variables (interp_name x) sc = Some v -> vt_only v = true ->
  subst_sel sc (pre ++ x :: post) = ROk (pre ++ vt_strs (destring_first v) ++ post).
Proof.
  intros Hpre Hpost Hi Hv Hp. induction pre as [|t r IH].
  - cbn [app]. rewrite subst_sel_cons, subst_sel_plain by assumption. cbn [rbind]. now rewrite Hi, Hv, Hp.
  - cbn [forallb] in Hpre. apply andb_true_iff in Hpre as [Ht Hr]. cbn [app]. rewrite subst_sel_cons, IH by assumption.
    cbn [rbind]. apply negb_true_iff in Ht. now rewrite Ht.
Qed.
Theorem selector_interpolation_unbound sc pre x post :
  forallb (fun t => negb (is_interp t)) post = true -> is_interp x = true -> variables (interp_name x) sc = None ->
  exists m, subst_sel sc (pre ++ x :: post) = RError $"SyntaxError" m.
Proof.
  intros Hpost Hi Hv. induction pre as [|t r [m IH]].
  - cbn [app]. rewrite subst_sel_cons, subst_sel_plain by assumption. cbn [rbind]. rewrite Hi, Hv. eauto.
  - cbn [app]. rewrite subst_sel_cons, IH. cbn [rbind]. eauto.
Qed.
