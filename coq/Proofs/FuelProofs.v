(* FuelProofs.v — C20 / C03: the bound on substitution rounds matters for cycles only.  A value that evaluates with some
   amount of fuel evaluates to the same token list with any larger amount (arithmetic, calls and interpolation included):
   raising the code's round limit can never change the result of a compilation that succeeded. *)
From Coq Require Import String.
From Coq Require Import List Ascii Bool NArith PeanoNat Lia.
Require Import Model.Text Model.Ast Model.Scope Model.Ident Model.Fmt Model.Eval.
Import ListNotations.

Definition ok_le {A} (r1 r2 : outcome A) : Prop := forall a, r1 = ROk a -> r2 = ROk a.

Lemma rbind_ok_inv {A B} (r : outcome A) (k : A -> outcome B) y : rbind r k = ROk y -> exists x, r = ROk x /\ k x = ROk y.
Proof. destruct r; cbn [rbind]; intros H; try discriminate. eauto. Qed.

Lemma xexpr_mono (l1 l2 : str -> outcome (list str)) :
  (forall x, ok_le (l1 x) (l2 x)) -> forall e, ok_le (eval_xexpr l1 e) (eval_xexpr l2 e).
Proof.
  intros H. induction e as [s0|x|o a IHa b IHb|e1 IH]; intros r Hr; cbn [eval_xexpr] in *.
  - exact Hr.
  - apply rbind_ok_inv in Hr as (l & Hl & Hr). rewrite (H x l Hl). exact Hr.
  - apply rbind_ok_inv in Hr as (ra & Ha & Hr). apply rbind_ok_inv in Hr as (rb & Hb & Hr).
    rewrite (IHa ra Ha). cbn [rbind]. rewrite (IHb rb Hb). exact Hr.
  - apply rbind_ok_inv in Hr as (ra & Ha & Hr). rewrite (IH ra Ha). exact Hr.
Qed.

Lemma toks_mono (l1 l2 : str -> outcome (list str)) (r1 r2 : list vtok -> outcome (list str)) :
  (forall x, ok_le (l1 x) (l2 x)) -> (forall v, ok_le (r1 v) (r2 v)) ->
  forall ts, ok_le (eval_toks l1 r1 ts) (eval_toks l2 r2 ts).
Proof.
  intros Hl Hr. induction ts as [|t rest IH]; intros res H; [exact H|].
  cbn [eval_toks] in *. apply rbind_ok_inv in H as (here & Hh & H). apply rbind_ok_inv in H as (more & Hm & H).
  assert (eval_tok l2 r2 t = ROk here) as ->.
  { destruct t as [s0|x|e|nm args]; cbn [eval_tok] in *.
    - exact Hh.
    - exact (Hl x here Hh).
    - apply rbind_ok_inv in Hh as (s1 & Hs & Hh). rewrite (xexpr_mono l1 l2 Hl e s1 Hs). exact Hh.
    - apply rbind_ok_inv in Hh as (a & Ha & Hh). rewrite (Hr args a Ha). exact Hh. }
  cbn [rbind]. rewrite (IH more Hm). exact H.
Qed.

Lemma lookup_mono sc (r1 r2 : list vtok -> outcome (list str)) :
  (forall v, ok_le (r1 v) (r2 v)) -> forall x, ok_le (lookup_with r1 sc x) (lookup_with r2 sc x).
Proof.
  intros Hr x res H. unfold lookup_with in *. destruct (is_interp x).
  - destruct (variables (interp_name x) sc) as [v|]; [exact (Hr _ res H)|discriminate H].
  - assert (forall y, match variables y sc with Some v => r1 v | None => RError $"SyntaxError" ($"Unknown variable " ++ y) end = ROk res ->
                      match variables y sc with Some v => r2 v | None => RError $"SyntaxError" ($"Unknown variable " ++ y) end = ROk res) as Hv.
    { intros y Hy. destruct (variables y sc) as [v|]; [exact (Hr _ res Hy)|discriminate Hy]. }
    destruct x as [|c1 [|c2 r]]; [exact (Hv _ H)| |].
    + destruct c1 as [[] [] [] [] [] [] [] []]; exact (Hv _ H).
    + destruct c1 as [[] [] [] [] [] [] [] []]; try exact (Hv _ H).
      destruct c2 as [[] [] [] [] [] [] [] []]; try exact (Hv _ H). discriminate H.
Qed.

Theorem eval_value_step sc : forall f ts, ok_le (eval_value f sc ts) (eval_value (S f) sc ts).
Proof.
  induction f as [|f IH]; intros ts res H; [discriminate|].
  change (eval_value (S (S f)) sc ts) with (eval_toks (lookup_with (eval_value (S f) sc) sc) (eval_value (S f) sc) ts).
  change (eval_value (S f) sc ts) with (eval_toks (lookup_with (eval_value f sc) sc) (eval_value f sc) ts) in H.
  exact (toks_mono _ _ _ _ (lookup_mono sc _ _ IH) IH ts res H).
Qed.

Theorem eval_value_mono sc f g ts res : f <= g -> eval_value f sc ts = ROk res -> eval_value g sc ts = ROk res.
Proof.
  intros Hle. induction Hle as [|g Hle IH]; intros H; [exact H|]. apply eval_value_step. exact (IH H).
Qed.
