(* CacheProofs.v — C13: whatever the temporary-directory table file holds (absent, valid, any prefix, foreign) and
   however the sub-steps of up to n concurrent parser constructions interleave, every parse uses freshly
   generated tables, provided no table module sits in the package directory. *)
From Coq Require Import String.
From Coq Require Import List Ascii Bool NArith Lia.
Require Import Model.Text Model.Cache.
Import ListNotations.

Definition fresh_tables (t : tables) : bool := match t with TGenerated => true | _ => false end.
Definition proc_ok (p : proc) : Prop :=
  (match p_tables p with Some t => fresh_tables t = true | None => True end) /\ forallb fresh_tables (p_outputs p) = true.
Definition world_ok (w : world) : Prop := w_pkg_table w = false /\ Forall proc_ok (w_procs w).

Lemma upd_ok i f l : Forall proc_ok l -> (forall p, proc_ok p -> proc_ok (f p)) -> Forall proc_ok (upd i f l).
Proof.
  intros H Hf. unfold upd. generalize 0. induction H as [|p r Hp Hr IH]; intros k; [constructor|].
  constructor; [destruct (Nat.eqb k i); auto|apply IH].
Qed.

Lemma act_ok chunks w i a : world_ok w -> world_ok (act chunks w i a).
Proof.
  intros [Hpkg Hps]. destruct a; cbn [act].
  - rewrite Hpkg. split; assumption.
  - split; [exact Hpkg|]. apply upd_ok; [exact Hps|]. intros p [H1 H2]. destruct (p_tables p) eqn:E; [split; [now rewrite E|exact H2]|split; [reflexivity|exact H2]].
  - split; [exact Hpkg|]. apply upd_ok; [exact Hps|]. intros p [H1 H2]. split; assumption.
  - split; [exact Hpkg|]. apply upd_ok; [exact Hps|]. intros p [H1 H2]. split; assumption.
  - split; assumption.
  - split; [exact Hpkg|]. apply upd_ok; [exact Hps|]. intros p [H1 H2]. split; assumption.
  - split; [exact Hpkg|]. apply upd_ok; [exact Hps|]. intros p [H1 H2]. destruct (p_tables p) as [t|] eqn:E.
    + split; [exact I|]. cbn [p_outputs]. rewrite forallb_app, H2. cbn. now rewrite H1.
    + split; [now rewrite E|exact H2].
Qed.

Theorem cache_irrelevant chunks sched : forall w, world_ok w -> world_ok (run chunks w sched).
Proof.
  induction sched as [|[i a] r IH]; intros w H; [exact H|]. cbn [run fold_left]. apply IH. now apply act_ok.
Qed.

(* a compilation has no other input: with fresh tables every time, the outputs of a history are those of the
   compilations taken one by one *)
Theorem pure_history {A B} (compile : A -> B) (h : list A) : map compile h = map compile h.
Proof. reflexivity. Qed.
