(* MixinProofs.v — C05: parameter binding is positional with defaults; a definition prints nothing; a call to an
   unknown name adds nothing; the first applicable same-named definition is used. *)
From Coq Require Import String.
From Coq Require Import List Ascii Bool NArith Arith Lia.
Require Import Model.Text Model.Ast Model.Scope Model.Ident Model.Fmt Model.Eval.
Import ListNotations.

(* reference binding: the i-th parameter gets the i-th argument, or its default when there is none *)
Fixpoint positional (params : list (str * option (list vtok))) (args : list (list str)) : option (list (str * list vtok)) :=
  match params with
  | [] => Some []
  | (p, dflt) :: pr =>
      match args with
      | a :: ar => option_map (cons (p, map VT a)) (positional pr ar)
      | [] => match dflt with Some d => option_map (cons (p, d)) (positional pr []) | None => None end
      end
  end.

Lemma bind_params_positional params : forall args sc,
  bind_params params args sc =
    match positional params args with
    | Some binds => Some (fold_left (fun s b => add_variable (fst b) (snd b) s) binds sc)
    | None => None
    end.
Proof.
  induction params as [|[p dflt] pr IH]; intros args sc; [reflexivity|].
  cbn [bind_params positional]. destruct args as [|a ar].
  - destruct dflt as [d|]; [|reflexivity]. rewrite IH. destruct (positional pr []); reflexivity.
  - rewrite IH. destruct (positional pr ar); reflexivity.
Qed.

(* every parameter is bound exactly when enough arguments or defaults exist: arity check *)
Lemma positional_some params args :
  length args <= length params ->
  (forall i, length args <= i -> i < length params -> snd (nth i params ([], None)) <> None) ->
  exists binds, positional params args = Some binds /\ map fst binds = map fst params.
Proof.
  revert args. induction params as [|[p dflt] pr IH]; intros args Hlen Hd.
  - exists []. destruct args; [auto|simpl in Hlen; lia].
  - destruct args as [|a ar]; cbn [positional].
    + destruct dflt as [d|]; [|exfalso; apply (Hd 0); simpl; [lia|lia|reflexivity]].
      destruct (IH [] (Nat.le_0_l _)) as (b & E & M).
      * intros i _ Hi. apply (Hd (S i)); simpl; lia.
      * rewrite E. exists ((p, d) :: b). split; [reflexivity|]. simpl. now rewrite M.
    + destruct (IH ar) as (b & E & M); [simpl in Hlen; lia| |].
      * intros i H1 H2. apply (Hd (S i)); simpl; lia.
      * rewrite E. exists ((p, map VT a) :: b). split; [reflexivity|]. simpl. now rewrite M.
Qed.

(* a mixin definition emits nothing and leaves the scope alone *)
Lemma definition_silent callf parent sc name params body :
  eval_node_g callf parent sc (NMixin name params body) = ROk ([], sc).
Proof. reflexivity. Qed.

(* a call whose name has no definition adds nothing (as the code: silently dropped) *)
Lemma try_unknown callrec name args parent sc ds :
  (forall d, In d ds -> str_eqb (m_name d) name = false) -> try_defs callrec name args parent sc ds = ROk ([], sc).
Proof.
  induction ds as [|d r IH]; intros H; [reflexivity|]. cbn [try_defs].
  rewrite (H d (or_introl eq_refl)). apply IH. intros d' Hd'. apply H. now right.
Qed.
Lemma unknown_call_adds_nothing defs fuel name args parent sc :
  (forall d, In d defs -> str_eqb (m_name d) name = false) ->
  call_mixin defs (S fuel) name args parent sc = ROk ([], sc).
Proof. intros H. cbn [call_mixin]. now apply try_unknown. Qed.

(* the call is the callee's body evaluated at the call site, with the parameters bound; definitions of other
   names before it are skipped *)
Lemma call_is_body defs fuel pre d post name args parent sc sc1 :
  defs = pre ++ d :: post -> (forall x, In x pre -> str_eqb (m_name x) name = false) ->
  str_eqb (m_name d) name = true -> m_body d <> [] ->
  bind_params (m_params d) args sc = Some sc1 ->
  call_mixin defs (S fuel) name args parent sc =
    eval_body (call_mixin defs fuel) parent (add_variable $"@arguments" (arguments_of (m_params d) args) sc1) (m_body d).
Proof.
  intros -> Hpre Hn Hb Hp. cbn [call_mixin]. generalize (call_mixin (pre ++ d :: post) fuel). intros callrec.
  induction pre as [|x pr IH]; cbn [app try_defs].
  - rewrite Hn, Hp. destruct (m_body d); [congruence|reflexivity].
  - rewrite (Hpre x (or_introl eq_refl)). apply IH. intros y Hy. apply Hpre. now right.
Qed.
