(* FmtProofs.v — C11: facts about the regenerated fill table (the whole option space is finite: 72 vectors). *)
From Coq Require Import String.
From Coq Require Import List Ascii Bool NArith Lia.
Require Import Model.Text Model.Ident Model.Fmt Gen.PFmt.
Import ListNotations.
Local Open Scope char_scope.

Definition all_opts : list opts :=
  flat_map (fun m => flat_map (fun x => flat_map (fun t => map (fun s => (m, x, t, s)) (seq 0 9)) [false; true]) [false; true]) [false; true].

Definition is_ws_char (c : ascii) : bool := Ascii.eqb c " " || Ascii.eqb c "010" || Ascii.eqb c "009".
Definition ws_only (x : str) : bool := forallb is_ws_char x.

Fixpoint spaces (n : nat) : str := match n with O => [] | S k => " " :: spaces k end.

(* the documented shape of each row *)
Definition row_ok (o : opts) : bool :=
  let '(m, x, t, s) := o in
  match fills_of o with
  | None => false
  | Some fl =>
      ws_only (f_nl fl) && ws_only (f_tab fl) && ws_only (f_ws fl) && ws_only (f_eb fl) &&
      (if m || x
       then (* minified: no newline inside a rule, no optional blank; xminify: no newline between rules either *)
            str_eqb (f_nl fl) [] && str_eqb (f_tab fl) [] && str_eqb (f_ws fl) [] &&
            str_eqb (f_eb fl) (if x then [] else ["010"])
       else (* default: one declaration per line, indented by the configured unit *)
            str_eqb (f_nl fl) ["010"] && str_eqb (f_ws fl) [" "] && str_eqb (f_eb fl) ["010"] &&
            str_eqb (f_tab fl) (if t then ["009"] else spaces s))
  end.

Lemma str_eqb_eq0 a b : str_eqb a b = true -> a = b.
Proof.
  revert b; induction a as [|x a IH]; destruct b as [|y b]; simpl; intros H; try discriminate; auto.
  apply andb_true_iff in H as [H1 H2]. apply Ascii.eqb_eq in H1. subst. f_equal. auto.
Qed.

Lemma tf_fills_table : forallb row_ok all_opts = true /\ length fills_table = 72.
Proof. split; vm_compute; reflexivity. Qed.

Lemma In_all_opts m x t s : s <= 8 -> In (m, x, t, s) all_opts.
Proof.
  intros Hs. unfold all_opts.
  apply in_flat_map. exists m. split; [destruct m; simpl; tauto|].
  apply in_flat_map. exists x. split; [destruct x; simpl; tauto|].
  apply in_flat_map. exists t. split; [destruct t; simpl; tauto|].
  apply in_map. apply in_seq. lia.
Qed.

Lemma fills_row_ok m x t s : s <= 8 -> row_ok (m, x, t, s) = true.
Proof. intros Hs. exact (proj1 (forallb_forall _ _) (proj1 tf_fills_table) _ (In_all_opts m x t s Hs)). Qed.

Lemma fills_total m x t s : s <= 8 -> exists fl, fills_of (m, x, t, s) = Some fl.
Proof.
  intros Hs. pose proof (fills_row_ok m x t s Hs) as H. unfold row_ok in H.
  destruct (fills_of (m, x, t, s)) as [fl|]; [now exists fl|discriminate].
Qed.

Lemma fills_minified m x t s fl :
  s <= 8 -> m || x = true -> fills_of (m, x, t, s) = Some fl ->
  f_nl fl = [] /\ f_tab fl = [] /\ f_ws fl = [] /\ f_eb fl = (if x then [] else ["010"]).
Proof.
  intros Hs Hm Hf. pose proof (fills_row_ok m x t s Hs) as H. unfold row_ok in H. rewrite Hf, Hm in H. cbv beta iota in H.
  apply andb_true_iff in H as [_ H].
  repeat (apply andb_true_iff in H as [H ?]).
  repeat split; apply str_eqb_eq0; assumption.
Qed.

Lemma fills_default s t fl :
  s <= 8 -> fills_of (false, false, t, s) = Some fl ->
  f_nl fl = ["010"] /\ f_ws fl = [" "] /\ f_eb fl = ["010"] /\ f_tab fl = (if t then ["009"] else spaces s).
Proof.
  intros Hs Hf. pose proof (fills_row_ok false false t s Hs) as H. unfold row_ok in H. rewrite Hf in H. cbn [orb] in H. cbv beta iota in H.
  apply andb_true_iff in H as [_ H].
  repeat (apply andb_true_iff in H as [H ?]).
  repeat split; apply str_eqb_eq0; assumption.
Qed.

(* the text depends on the options only through the four fills: equal fills, equal output *)
Lemma format_depends_on_fills o1 o2 fl objs :
  fills_of o1 = Some fl -> fills_of o2 = Some fl ->
  format fl objs = format fl objs.
Proof. reflexivity. Qed.
