(* TrailProofs.v — a trailing blank token in the value of a declaration changes nothing in the printed CSS.  This is the link
   between C12_last_semicolon (omitting the last semicolon may leave one whitespace token in front of the injected ';') and
   the compiled output. *)
From Coq Require Import String.
From Coq Require Import List Ascii Bool NArith Arith Lia.
Require Import Model.Text Model.Ident Gen.PFmt Model.Fmt Proofs.WsProofs.
Import ListNotations.
Local Open Scope char_scope.

Lemma skip_string_nonempty q : forall x s r, skip_string q x = Some (s, r) -> s <> [].
Proof.
  induction x as [|c x IH]; intros s r H; cbn [skip_string] in H; [discriminate|].
  destruct (Ascii.eqb c q); [injection H as <- _; discriminate|].
  destruct (skip_string q x) as [[a b]|]; [|discriminate]. injection H as <- _. discriminate.
Qed.
Lemma skip_string_len q x s r : skip_string q x = Some (s, r) -> List.length r < List.length x.
Proof.
  intros H. pose proof (skip_string_nonempty _ _ _ _ H) as Hn. apply skip_string_eq in H. subst x. rewrite app_length.
  destruct s; [contradiction|cbn; lia].
Qed.
Lemma skip_string_app q b : Ascii.eqb b q = false -> forall x,
  skip_string q (x ++ [b]) = match skip_string q x with Some (s, r) => Some (s, r ++ [b]) | None => None end.
Proof.
  intros Hb. induction x as [|c x IH]; cbn [app skip_string]; [now rewrite Hb|].
  destruct (Ascii.eqb c q); [reflexivity|]. rewrite IH. destruct (skip_string q x) as [[s r]|]; reflexivity.
Qed.

Lemma skip_url_inside_nonempty : forall f x s r, skip_url_inside f x = Some (s, r) -> s <> [].
Proof.
  destruct f as [|f]; intros x s r H; cbn [skip_url_inside] in H; [discriminate|].
  destruct x as [|c x]; [discriminate|]. destruct (Ascii.eqb c ")"); [injection H as <- _; discriminate|].
  destruct (is_quote c).
  - destruct (skip_string c x) as [[s1 r1]|]; [|discriminate]. destruct (skip_url_inside f r1) as [[a b]|]; [|discriminate].
    injection H as <- _. discriminate.
  - destruct (skip_url_inside f x) as [[a b]|]; [|discriminate]. injection H as <- _. discriminate.
Qed.
(* enough fuel: the result does not depend on it *)
Lemma skip_url_inside_fuel : forall f1 f2 x, List.length x < f1 -> List.length x < f2 -> skip_url_inside f1 x = skip_url_inside f2 x.
Proof.
  induction f1 as [|f1 IH]; intros f2 x H1 H2; [lia|]. destruct f2 as [|f2]; [lia|].
  cbn [skip_url_inside]. destruct x as [|c x]; [reflexivity|]. cbn [List.length] in *.
  destruct (Ascii.eqb c ")"); [reflexivity|]. destruct (is_quote c).
  - destruct (skip_string c x) as [[s1 r1]|] eqn:E; [|reflexivity]. pose proof (skip_string_len _ _ _ _ E).
    rewrite (IH f2 r1) by lia. reflexivity.
  - rewrite (IH f2 x) by lia. reflexivity.
Qed.
Lemma skip_url_inside_S f c x :
  skip_url_inside (S f) (c :: x) =
  if Ascii.eqb c ")" then Some ([c], x)
  else if is_quote c then
    match skip_string c x with
    | Some (s, r') => match skip_url_inside f r' with Some (a, b) => Some (c :: s ++ a, b) | None => None end
    | None => None
    end
  else match skip_url_inside f x with Some (a, b) => Some (c :: a, b) | None => None end.
Proof. reflexivity. Qed.
Lemma skip_url_inside_app : forall f x, List.length x < f ->
  skip_url_inside (S f) (x ++ [" "]) = match skip_url_inside f x with Some (s, r) => Some (s, r ++ [" "]) | None => None end.
Proof.
  induction f as [|f IH]; intros x H; [lia|].
  destruct x as [|c x].
  - reflexivity.
  - cbn [List.length] in H. change ((c :: x) ++ [" "]) with (c :: (x ++ [" "])). rewrite !skip_url_inside_S.
    destruct (Ascii.eqb c ")"); [reflexivity|]. destruct (is_quote c) eqn:Eq.
    + assert (Hb : Ascii.eqb " " c = false).
      { unfold is_quote in Eq. apply orb_true_iff in Eq as [E|E]; apply Ascii.eqb_eq in E; subst c; reflexivity. }
      rewrite (skip_string_app c " " Hb). destruct (skip_string c x) as [[s1 r1]|] eqn:E; [|reflexivity].
      cbv iota beta. pose proof (skip_string_len _ _ _ _ E).
      rewrite (IH r1) by lia. destruct (skip_url_inside f r1) as [[a b]|]; reflexivity.
    + rewrite IH by lia. destruct (skip_url_inside f x) as [[a b]|]; reflexivity.
Qed.

(* the "url(" look-ahead on x ++ " " *)
Definition url_probe (x : str) : option (str * str) :=
  match x with
  | "u" :: "r" :: "l" :: "(" :: r4 => skip_url_inside (S (List.length r4)) r4
  | _ => None
  end.
Lemma url_fix_S f c r :
  url_fix (S f) (c :: r) =
  if is_quote c then
    match skip_string c r with
    | Some (s, r') => c :: s ++ url_fix f r'
    | None => c :: url_fix f r
    end
  else
    match url_probe (c :: r) with
    | Some (inside, rest) =>
        match rest with
        | d :: _ => if is_space d || Ascii.eqb d "," then c :: url_fix f r
                    else "u" :: "r" :: "l" :: "(" :: inside ++ " " :: url_fix f rest
        | [] => c :: url_fix f r
        end
    | None => c :: url_fix f r
    end.
Proof. reflexivity. Qed.

Lemma url_probe_app c r : url_probe ((c :: r) ++ [" "]) = match url_probe (c :: r) with Some (s, rest) => Some (s, rest ++ [" "]) | None => None end.
Proof.
  unfold url_probe.
  destruct (Ascii.eqb c "u") eqn:E1; [apply Ascii.eqb_eq in E1; subst c | destruct c as [[] [] [] [] [] [] [] []]; try discriminate E1; reflexivity].
  destruct r as [|c1 r]; [reflexivity|].
  destruct (Ascii.eqb c1 "r") eqn:E2; [apply Ascii.eqb_eq in E2; subst c1 | destruct c1 as [[] [] [] [] [] [] [] []]; try discriminate E2; reflexivity].
  destruct r as [|c2 r]; [reflexivity|].
  destruct (Ascii.eqb c2 "l") eqn:E3; [apply Ascii.eqb_eq in E3; subst c2 | destruct c2 as [[] [] [] [] [] [] [] []]; try discriminate E3; reflexivity].
  destruct r as [|c3 r]; [reflexivity|].
  destruct (Ascii.eqb c3 "(") eqn:E4; [apply Ascii.eqb_eq in E4; subst c3 | destruct c3 as [[] [] [] [] [] [] [] []]; try discriminate E4; reflexivity].
  cbn [app]. rewrite app_length. cbn [List.length]. rewrite Nat.add_1_r.
  now rewrite (skip_url_inside_app (S (List.length r)) r) by lia.
Qed.
Lemma url_probe_inv x s rest : url_probe x = Some (s, rest) ->
  exists r4, x = "u" :: "r" :: "l" :: "(" :: r4 /\ skip_url_inside (S (List.length r4)) r4 = Some (s, rest).
Proof.
  unfold url_probe. intros H.
  destruct x as [|c0 x]; [discriminate|].
  destruct (Ascii.eqb c0 "u") eqn:E0; [apply Ascii.eqb_eq in E0; subst c0 | destruct c0 as [[] [] [] [] [] [] [] []]; try discriminate E0; discriminate H].
  destruct x as [|c1 x]; [discriminate|].
  destruct (Ascii.eqb c1 "r") eqn:E1; [apply Ascii.eqb_eq in E1; subst c1 | destruct c1 as [[] [] [] [] [] [] [] []]; try discriminate E1; discriminate H].
  destruct x as [|c2 x]; [discriminate|].
  destruct (Ascii.eqb c2 "l") eqn:E2; [apply Ascii.eqb_eq in E2; subst c2 | destruct c2 as [[] [] [] [] [] [] [] []]; try discriminate E2; discriminate H].
  destruct x as [|c3 x]; [discriminate|].
  destruct (Ascii.eqb c3 "(") eqn:E3; [apply Ascii.eqb_eq in E3; subst c3 | destruct c3 as [[] [] [] [] [] [] [] []]; try discriminate E3; discriminate H].
  exists x. split; [reflexivity | exact H].
Qed.
Lemma url_probe_len x s rest : url_probe x = Some (s, rest) -> List.length rest < List.length x.
Proof.
  intros H. destruct (url_probe_inv _ _ _ H) as (r4 & -> & Hs).
  pose proof (skip_url_inside_nonempty _ _ _ _ Hs) as Hn. apply skip_url_inside_eq in Hs. subst r4. cbn [List.length]. rewrite app_length.
  destruct s; [contradiction|cbn; lia].
Qed.

(* enough fuel: the result does not depend on it *)
Lemma url_fix_fuel : forall f1 f2 x, List.length x < f1 -> List.length x < f2 -> url_fix f1 x = url_fix f2 x.
Proof.
  induction f1 as [|f1 IH]; intros f2 x H1 H2; [lia|]. destruct f2 as [|f2]; [lia|].
  destruct x as [|c r]; [reflexivity|]. rewrite !url_fix_S. cbn [List.length] in *.
  destruct (is_quote c).
  - destruct (skip_string c r) as [[s r']|] eqn:E.
    + pose proof (skip_string_len _ _ _ _ E). now rewrite (IH f2 r') by lia.
    + now rewrite (IH f2 r) by lia.
  - destruct (url_probe (c :: r)) as [[inside rest]|] eqn:E.
    + pose proof (url_probe_len _ _ _ E) as Hl. cbn [List.length] in Hl.
      destruct rest as [|d rest'].
      * rewrite (IH f2 r) by lia. reflexivity.
      * destruct (is_space d || Ascii.eqb d ",").
        -- rewrite (IH f2 r) by lia. reflexivity.
        -- rewrite (IH f2 (d :: rest')) by lia. reflexivity.
    + rewrite (IH f2 r) by lia. reflexivity.
Qed.

Lemma url_fix_app_blank : forall f x, List.length x < f -> url_fix (S f) (x ++ [" "]) = url_fix f x ++ [" "].
Proof.
  induction f as [|f IH]; intros x H; [lia|].
  destruct x as [|c r]; [reflexivity|]. cbn [List.length] in H.
  change ((c :: r) ++ [" "]) with (c :: (r ++ [" "])). rewrite !url_fix_S.
  destruct (is_quote c) eqn:Eq.
  - assert (Hb : Ascii.eqb " " c = false).
    { unfold is_quote in Eq. apply orb_true_iff in Eq as [E|E]; apply Ascii.eqb_eq in E; subst c; reflexivity. }
    rewrite (skip_string_app c " " Hb). destruct (skip_string c r) as [[s r']|] eqn:E.
    + pose proof (skip_string_len _ _ _ _ E). rewrite (IH r') by lia. cbn [app]. now rewrite <- app_assoc.
    + rewrite (IH r) by lia. reflexivity.
  - change (url_probe (c :: r ++ [" "])) with (url_probe ((c :: r) ++ [" "])). rewrite url_probe_app. destruct (url_probe (c :: r)) as [[inside rest]|] eqn:E; [|rewrite (IH r) by lia; reflexivity].
    pose proof (url_probe_len _ _ _ E) as Hl. cbn [List.length] in Hl.
    destruct rest as [|d rest']; cbn [app].
    + (* url(...) at the very end: followed by nothing before, by the blank now: no blank is inserted either way *)
      rewrite (IH r) by lia. reflexivity.
    + destruct (is_space d || Ascii.eqb d ","); [rewrite (IH r) by lia; reflexivity|].
      change (d :: rest' ++ [" "]) with ((d :: rest') ++ [" "]). rewrite (IH (d :: rest')) by lia.
      cbn [app]. rewrite <- app_assoc. reflexivity.
Qed.

Lemma strip_ws_app_blank x : strip_ws (x ++ [" "]) = strip_ws x.
Proof.
  unfold strip_ws, strip, strip_left, strip_right.
  assert (H : forall y, rev (drop_while is_space (rev (y ++ [" "]))) = rev (drop_while is_space (rev y))).
  { intros y. rewrite rev_app_distr. reflexivity. }
  induction x as [|c x IH]; [reflexivity|]. cbn [app drop_while].
  destruct (is_space c); [exact IH|]. apply (H (c :: x)).
Qed.

Lemma comma_ws_app_blank ws : forall parsed q, comma_ws ws q (parsed ++ [[" "]]) = comma_ws ws q parsed ++ [[" "]].
Proof.
  induction parsed as [|p r IH]; intros q.
  - cbn [app comma_ws]. destruct q as [q|].
    + destruct (str_eqb [" "] q); reflexivity.
    + reflexivity.
  - cbn [app comma_ws]. destruct q as [q|].
    + destruct (str_eqb p q); now rewrite IH.
    + destruct (str_eqb p [""""] || str_eqb p ["'"]); [now rewrite IH|]. destruct (str_eqb p [","]); now rewrite IH.
Qed.

(* a trailing blank token in the value of a declaration is not printed *)
Theorem trailing_blank_not_printed fl name parsed imp : prop_fmt fl name (parsed ++ [[" "]]) imp = prop_fmt fl name parsed imp.
Proof.
  unfold prop_fmt.
  assert (E : forall l, strip_ws (url_fix (S (List.length (concat_str (l ++ [[" "]])))) (concat_str (l ++ [[" "]])))
                      = strip_ws (url_fix (S (List.length (concat_str l))) (concat_str l))).
  { intros l. rewrite EvalProofs.concat_str_app. cbn [concat_str]. rewrite app_nil_r, app_length. cbn [List.length]. rewrite Nat.add_1_r.
    rewrite url_fix_app_blank by lia. apply strip_ws_app_blank. }
  destruct (f_nl fl); [now rewrite E|]. rewrite comma_ws_app_blank. now rewrite E.
Qed.
