(* HslBase.v — table facts and channel-printing lemmas for C09. *)
From Coq Require Import String.
From Coq Require Import List Ascii Bool NArith ZArith QArith Qround Qabs Lia Lqa.
Require Import Model.Text Model.ParamTypes Model.Num Model.NumLex Model.PyNum Model.Colorsys Model.Color Model.Hsl.
Require Import Gen.PColor Gen.PNumeric Gen.PHsl.
Require Import Spec.ColorSpec Spec.NumSpec Spec.HslSpec Proofs.ColorBase Proofs.NumProofs.
Import ListNotations.
Local Open Scope Q_scope.

(* ---- table facts ---- *)
Lemma tf_ophsl_table :
  list_eqb (fun a b => str_eqb (fst a) (fst b) && Nat.eqb (fst (snd a)) (fst (snd b)) && pyop_eqb (snd (snd a)) (snd (snd b)))
    ophsl_table [($"lighten", (1%nat, PArith OAdd)); ($"darken", (1%nat, PArith OSub));
                 ($"saturate", (2%nat, PArith OAdd)); ($"desaturate", (2%nat, PArith OSub))] = true.
Proof. vm_compute. reflexivity. Qed.
Lemma tf_rounders :
  str_eqb ophsl_round $"away_from_zero_round" && str_eqb spin_round $"convergent_round" && str_eqb hsl_round $"convergent_round" = true.
Proof. vm_compute. reflexivity. Qed.
Lemma tf_greyscale :
  str_eqb (fst greyscale_call) $"desaturate" && Z.eqb (Qnum (snd greyscale_call)) 100 && Pos.eqb (Qden (snd greyscale_call)) 1 = true.
Proof. vm_compute. reflexivity. Qed.
Lemma tf_rgbatohex :
  list_eqb clamp_step_eqb rgbatohex_clamp_steps [ClampStep CGt 255 255; ClampStep CLt 0 0]
  && str_eqb rgbatohex_fmt $"%02x"
  && list_eqb clamp_step_eqb rgbatohex_raw_clamp_steps [ClampStep CGt 255 255; ClampStep CLt 0 0]
  && str_eqb rgbatohex_raw_fmt $"%d" = true.
Proof. vm_compute. reflexivity. Qed.

Lemma list_eqb_eq {A} (e : A -> A -> bool) (He : forall x y, e x y = true -> x = y) l1 l2 :
  list_eqb e l1 l2 = true -> l1 = l2.
Proof.
  revert l2; induction l1 as [|x l1 IH]; destruct l2 as [|y l2]; simpl; intros H; try discriminate; auto.
  apply andb_true_iff in H as [H1 H2]. f_equal; auto.
Qed.
Lemma clamp_step_eqb_eq a b : clamp_step_eqb a b = true -> a = b.
Proof.
  destruct a as [c1 b1 a1], b as [c2 b2 a2]. unfold clamp_step_eqb. simpl. intros H.
  apply andb_true_iff in H as [H H3]. apply andb_true_iff in H as [H1 H2].
  apply Z.eqb_eq in H2, H3. subst. destruct c1, c2; try discriminate; reflexivity.
Qed.
Lemma rgbatohex_steps : rgbatohex_clamp_steps = [ClampStep CGt 255 255; ClampStep CLt 0 0].
Proof.
  pose proof tf_rgbatohex as T. apply andb_true_iff in T as [T T4]. apply andb_true_iff in T as [T T3].
  apply andb_true_iff in T as [T1 T2]. exact (list_eqb_eq _ clamp_step_eqb_eq _ _ T1).
Qed.
Lemma rgbatohex_fmt_eq : rgbatohex_fmt = $"%02x".
Proof.
  pose proof tf_rgbatohex as T. apply andb_true_iff in T as [T T4]. apply andb_true_iff in T as [T T3].
  apply andb_true_iff in T as [T1 T2]. now apply str_eqb_eq.
Qed.

(* ---- clamp to 0..255 over Q ---- *)
Definition clampQ (v : Q) : Q := if Qlt_bool 255 v then 255 else if Qlt_bool v 0 then 0 else v.

Lemma Qlt_bool_true a b : Qlt_bool a b = true -> a < b.
Proof. unfold Qlt_bool. rewrite negb_true_iff. intros H. apply Qnot_le_lt. intro C. apply Qle_bool_iff in C. congruence. Qed.
Lemma Qlt_bool_false' a b : Qlt_bool a b = false -> b <= a.
Proof. unfold Qlt_bool. rewrite negb_false_iff. apply Qle_bool_iff. Qed.

Lemma apply_clamp_std v : apply_clamp rgbatohex_clamp_steps v == clampQ v.
Proof.
  rewrite rgbatohex_steps. unfold apply_clamp, clampQ. cbn [fold_left]. unfold apply_clamp_step. cbn [cs_cmp cs_bound cs_assign cmp_Q].
  change (inject_Z 255) with 255. change (inject_Z 0) with 0.
  destruct (Qlt_bool 255 v) eqn:E1.
  - replace (Qlt_bool 255 0) with false by reflexivity. reflexivity.
  - destruct (Qlt_bool v 0); reflexivity.
Qed.
Lemma clampQ_range v : 0 <= clampQ v /\ clampQ v <= 255.
Proof.
  unfold clampQ. destruct (Qlt_bool 255 v) eqn:E1; [split; lra|].
  destruct (Qlt_bool v 0) eqn:E2; [split; lra|].
  apply Qlt_bool_false' in E1, E2. split; lra.
Qed.

Lemma Qtrunc_nonneg q : 0 <= q -> Qtrunc q = Qfloor q.
Proof. intros H. unfold Qtrunc. apply Qle_bool_iff in H. now rewrite H. Qed.

Lemma floor_range q : 0 <= q -> q <= 255 -> (0 <= Qfloor q <= 255)%Z.
Proof.
  intros H0 H1. split.
  - change 0%Z with (Qfloor 0). now apply Qfloor_resp_le.
  - change 255%Z with (Qfloor 255). now apply Qfloor_resp_le.
Qed.

(* "%02x" on 0..255, complete sweep *)
Lemma fmt02x_sweep : forallb (fun n => match pyfmt_int $"%02x" (Z.of_N n) with Some s => str_eqb s (hex2 n) | None => false end) (upto 256) = true.
Proof. vm_compute. reflexivity. Qed.
Lemma fmt02x z : (0 <= z <= 255)%Z -> pyfmt_int $"%02x" z = Some (hex2 (Z.to_N z)).
Proof.
  intros H. assert (Z.to_N z < 256)%N as Hn by lia.
  pose proof (proj1 (forallb_forall _ _) fmt02x_sweep (Z.to_N z) (upto_In 256 _ Hn)) as E. cbv beta in E.
  rewrite Z2N.id in E by lia. destruct (pyfmt_int $"%02x" z); [|discriminate]. apply str_eqb_eq in E. now subst.
Qed.

Definition chan_of (v : Q) : N := Z.to_N (Qfloor (clampQ v)).
Lemma chan_of_lt v : (chan_of v < 256)%N.
Proof. unfold chan_of. destruct (clampQ_range v) as [A B]. pose proof (floor_range _ A B). lia. Qed.

Lemma Qtrunc_comp' a b : a == b -> Qtrunc a = Qtrunc b.
Proof. apply Qtrunc_comp. Qed.

Lemma rgbatohex_channel_eq v : rgbatohex_channel v = Some (hex2 (chan_of v)).
Proof.
  unfold rgbatohex_channel. rewrite rgbatohex_fmt_eq.
  rewrite (Qtrunc_comp _ _ (apply_clamp_std v)).
  destruct (clampQ_range v) as [A B]. rewrite Qtrunc_nonneg by assumption.
  apply fmt02x. now apply floor_range.
Qed.

Lemma rgbatohex_eq r g b : rgbatohex (r, g, b) = Some (hex6 (chan_of r) (chan_of g) (chan_of b)).
Proof. unfold rgbatohex. now rewrite !rgbatohex_channel_eq. Qed.

(* decoding what was printed *)
Lemma colour_value_hex6 r g b : (r < 256)%N -> (g < 256)%N -> (b < 256)%N -> colour_value (hex6 r g b) = Some (r, g, b).
Proof.
  intros Hr Hg Hb.
  destruct (hex2_digits r Hr) as (r1 & r2 & Hr1 & Hr2 & ->).
  destruct (hex2_digits g Hg) as (g1 & g2 & Hg1 & Hg2 & ->).
  destruct (hex2_digits b Hb) as (b1 & b2 & Hb1 & Hb2 & ->).
  unfold hex6. rewrite !hex2_pair by assumption. cbn [app colour_value].
  now rewrite !hexval_hexdigit by assumption.
Qed.

(* ---- nearness of a printed channel ---- *)
Lemma Qabs'_le q d : - d <= q -> q <= d -> Qabs' q <= d.
Proof. intros A B. unfold Qabs'. destruct (Qle_bool 0 q); lra. Qed.

Lemma spec_clamp_eq x : qmin 255 (qmax 0 x) == clampQ x.
Proof.
  unfold clampQ, qmin, qmax.
  destruct (Qlt_bool 255 x) eqn:E1; [apply Qlt_bool_true in E1|apply Qlt_bool_false' in E1];
  (destruct (Qle_bool 0 x) eqn:E3; [apply Qle_bool_iff in E3|apply Qle_bool_false in E3]).
  - destruct (Qle_bool 255 x) eqn:E4; [reflexivity|apply Qle_bool_false in E4; lra].
  - lra.
  - destruct (Qlt_bool x 0) eqn:E2; [apply Qlt_bool_true in E2; lra|].
    destruct (Qle_bool 255 x) eqn:E4; [apply Qle_bool_iff in E4; lra|reflexivity].
  - destruct (Qlt_bool x 0) eqn:E2; [|apply Qlt_bool_false' in E2; lra].
    replace (Qle_bool 255 0) with false by reflexivity. reflexivity.
Qed.

Lemma Qabs'_comp a b : a == b -> Qabs' a == Qabs' b.
Proof. intros H. unfold Qabs'. rewrite (Qleb_comp 0 0 (Qeq_refl 0) a b H). destruct (Qle_bool 0 b); now rewrite H. Qed.

Lemma chan_near_intro (slack : bool) (x : Q) (k : Z) (d : Q) :
  d == (if slack then 1 else 1#2) -> - d <= inject_Z k - clampQ x -> inject_Z k - clampQ x <= d -> chan_near slack x k = true.
Proof.
  intros Hd A B. unfold chan_near.
  assert (Qabs' (inject_Z k - qmin 255 (qmax 0 x)) <= d) as H.
  { rewrite (Qabs'_comp _ (inject_Z k - clampQ x)) by (now rewrite spec_clamp_eq). now apply Qabs'_le. }
  destruct slack; apply Qle_bool_iff; rewrite <- Hd; exact H.
Qed.

Lemma clampQ_cases v :
  (255 < v /\ clampQ v = 255) \/ (v < 0 /\ clampQ v = 0) \/ (0 <= v /\ v <= 255 /\ clampQ v = v).
Proof.
  unfold clampQ. destruct (Qlt_bool 255 v) eqn:E1; [apply Qlt_bool_true in E1; now left|apply Qlt_bool_false' in E1].
  destruct (Qlt_bool v 0) eqn:E2; [apply Qlt_bool_true in E2; right; now left|apply Qlt_bool_false' in E2].
  right; right. auto.
Qed.

Lemma chan_of_int_near (m : Z) (x : Q) :
  Qabs' (inject_Z m - x) <= 1#2 -> chan_near false x (Z.of_N (chan_of (inject_Z m))) = true.
Proof.
  intros H.
  assert (- (1#2) <= inject_Z m - x /\ inject_Z m - x <= 1#2) as [H1 H2].
  { unfold Qabs' in H. destruct (Qle_bool 0 (inject_Z m - x)) eqn:E.
    - apply Qle_bool_iff in E. split; lra.
    - apply Qle_bool_false in E. split; lra. }
  unfold chan_of. apply (chan_near_intro false _ _ (1#2)); [reflexivity| |];
  destruct (clampQ_cases (inject_Z m)) as [(M1 & ->)|[(M1 & ->)|(M1 & M2 & ->)]];
  try (change (Qfloor 255) with 255%Z); try (change (Qfloor 0) with 0%Z); try rewrite Qfloor_inject_Z;
  try (change (Z.of_N (Z.to_N 255)) with 255%Z); try (change (Z.of_N (Z.to_N 0)) with 0%Z);
  try (rewrite Z2N.id by (rewrite Zle_Qle; exact M1));
  try (change (inject_Z 255) with 255); try (change (inject_Z 0) with 0);
  destruct (clampQ_cases x) as [(Y1 & ->)|[(Y1 & ->)|(Y1 & Y2 & ->)]]; lra.
Qed.

Lemma chan_of_trunc_near (v : Q) : chan_near true v (Z.of_N (chan_of v)) = true.
Proof.
  unfold chan_of. destruct (clampQ_range v) as [A B]. pose proof (floor_range _ A B) as R.
  rewrite Z2N.id by lia. destruct (floor_bounds (clampQ v)) as [F1 F2].
  apply (chan_near_intro true _ _ 1); [reflexivity| |]; remember (inject_Z (Qfloor (clampQ v))) as f; lra.
Qed.
