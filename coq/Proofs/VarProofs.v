(* VarProofs.v — C03 end to end: on programs made of nested rules, variable definitions at any depth and
   declarations whose values are words, variable references and calls of unknown functions over those, the
   evaluator MODEL (Model/Eval.v: frames pushed per block, innermost-first lookup, values evaluated where
   they are used, re-registration of the top-level definitions) yields exactly the declarations the
   reference semantics Spec/Sem.v gives (lexical environment; top level: every definition visible
   everywhere), rule by rule, in the same order; and one fails iff the other fails. *)
From Coq Require Import String.
From Coq Require Import List Ascii Bool NArith PeanoNat Lia.
Require Import Model.Text Model.Ast Model.Scope Model.Ident Model.Fmt Model.Eval Spec.Sem.
Require Import Proofs.EvalProofs Proofs.ScopeProofs.
Import ListNotations.
Local Open Scope char_scope.

(* ---- the value fragment: words, plain variable references, calls over those (no arithmetic: C04) ---- *)
Definition plain_var (x : str) : bool :=
  negb (is_interp x) && negb (match x with "@" :: "@" :: _ => true | _ => false end).

Fixpoint vv_ok (t : vtok) : bool :=
  match t with
  | VT _ => true
  | VVar x => plain_var x
  | VExpr _ => false
  | VCall _ args => (fix all (l : list vtok) : bool := match l with [] => true | a :: r => vv_ok a && all r end) args
  end.
Definition val_ok (v : list vtok) : bool := forallb vv_ok v.
Lemma vv_ok_call n args : vv_ok (VCall n args) = val_ok args.
Proof. cbn [vv_ok]. unfold val_ok. induction args as [|a r IH]; [reflexivity|]. cbn [forallb]. now rewrite IH. Qed.

Definition frame_ok (f : frame) : bool := forallb (fun p => val_ok (snd p)) f.
Definition scope_ok (sc : scope) : bool := forallb frame_ok sc.

Lemma assoc_ok x f v : frame_ok f = true -> assoc x f = Some v -> val_ok v = true.
Proof.
  induction f as [|[k w] r IH]; [discriminate|]. cbn [frame_ok forallb snd assoc]. intros H. apply andb_true_iff in H as [Hw Hr].
  destruct (str_eqb x k); [intros E; injection E as <-; exact Hw|apply IH, Hr].
Qed.
Lemma lookup_ok x sc v : scope_ok sc = true -> variables x sc = Some v -> val_ok v = true.
Proof.
  induction sc as [|f r IH]; [discriminate|]. cbn [scope_ok forallb variables]. intros H. apply andb_true_iff in H as [Hf Hr].
  unfold frame_lookup. destruct (assoc x f) as [w|] eqn:E; [intros E2; injection E2 as <-; exact (assoc_ok x f w Hf E)|apply IH, Hr].
Qed.
Lemma add_variable_ok x v sc : val_ok v = true -> scope_ok sc = true -> scope_ok (add_variable x v sc) = true.
Proof.
  intros Hv Hs. destruct sc as [|f r]; cbn [add_variable scope_ok forallb frame_ok frame_set snd]; [now rewrite Hv|].
  cbn [scope_ok forallb] in Hs. apply andb_true_iff in Hs as [Hf Hr]. unfold frame_ok in Hf. now rewrite Hv, Hf, Hr.
Qed.
Lemma push_ok sc : scope_ok sc = true -> scope_ok (push sc) = true.
Proof. intros H. exact H. Qed.

(* the two environments are the same data structure; they are related by what a lookup returns *)
Definition lookup_equiv (sc : scope) (e : senv) : Prop := forall x, variables x sc = slookup x e.
Lemma variables_slookup x sc : variables x sc = slookup x sc.
Proof. induction sc as [|f r IH]; [reflexivity|]. cbn [variables slookup]. unfold frame_lookup. now rewrite IH. Qed.
Lemma lookup_equiv_refl sc : lookup_equiv sc sc.
Proof. intros x. apply variables_slookup. Qed.
Lemma lookup_equiv_push sc e : lookup_equiv sc e -> lookup_equiv (push sc) ([] :: e).
Proof. intros H x. cbn [push variables slookup frame_lookup assoc]. apply H. Qed.

Lemma str_eqb_eq1 a b : str_eqb a b = true -> a = b.
Proof.
  revert b. induction a as [|c a IH]; destruct b as [|d b]; simpl; intros H; try discriminate; [reflexivity|].
  apply andb_true_iff in H as [A B]. apply Ascii.eqb_eq in A. subst. f_equal. auto.
Qed.
Lemma str_eqb_refl1 a : str_eqb a a = true.
Proof. induction a as [|c a IH]; [reflexivity|]. simpl. now rewrite Ascii.eqb_refl. Qed.

Lemma variables_add y x v sc : variables y (add_variable x v sc) = if str_eqb y x then Some v else variables y sc.
Proof.
  destruct sc as [|f r]; cbn [add_variable variables frame_lookup frame_set assoc]; destruct (str_eqb y x); reflexivity.
Qed.
Lemma slookup_add y x v e :
  slookup y (match e with f :: r => ((x, v) :: f) :: r | [] => [[(x, v)]] end) = if str_eqb y x then Some v else slookup y e.
Proof. destruct e as [|f r]; cbn [slookup assoc]; destruct (str_eqb y x); reflexivity. Qed.
Lemma lookup_equiv_add x v sc e :
  lookup_equiv sc e -> lookup_equiv (add_variable x v sc) (match e with f :: r => ((x, v) :: f) :: r | [] => [[(x, v)]] end).
Proof. intros H y. rewrite variables_add, slookup_add, H. reflexivity. Qed.

(* ---- results correspond: same value, or both fail ---- *)
Definition same_val (r : outcome (list str)) (s : sres (list str)) : Prop :=
  match r, s with
  | ROk a, SOk b => a = b
  | RError _ _, SErr _ => True
  | RFuel, SErr _ => True
  | _, _ => False
  end.
Lemma same_val_bind {B C} (R : outcome B -> sres C -> Prop) r s (f : list str -> outcome B) (g : list str -> sres C) :
  same_val r s -> (forall a, R (f a) (g a)) ->
  (forall c m w, R (RError c m) (SErr w)) -> (forall w, R RFuel (SErr w)) ->
  R (rbind r f) (sbind s g).
Proof.
  intros H Hf He Hu. destruct r as [a|c m|t|], s as [b|w]; cbn [same_val] in H; try contradiction; cbn [rbind sbind]; subst; auto.
Qed.

Lemma lookup_with_plain rec sc x : plain_var x = true ->
  lookup_with rec sc x = match variables x sc with Some v => rec v | None => RError $"SyntaxError" ($"Unknown variable " ++ x) end.
Proof.
  unfold plain_var, lookup_with. intros H. apply andb_true_iff in H as [H1 H2].
  apply negb_true_iff in H1. rewrite H1. apply negb_true_iff in H2.
  destruct x as [|c1 [|c2 r]]; [reflexivity| |].
  - destruct c1 as [[] [] [] [] [] [] [] []]; reflexivity.
  - destruct c1 as [[] [] [] [] [] [] [] []]; try reflexivity.
    destruct c2 as [[] [] [] [] [] [] [] []]; try reflexivity. cbv in H2. discriminate H2.
Qed.
Lemma interp_name_plain x : is_interp x = false -> match x with "@" :: "{" :: r => "@" :: removelast r | _ => x end = x.
Proof.
  unfold is_interp. destruct x as [|c1 [|c2 r]]; [reflexivity| |].
  - destruct c1 as [[] [] [] [] [] [] [] []]; reflexivity.
  - destruct c1 as [[] [] [] [] [] [] [] []]; try reflexivity.
    destruct c2 as [[] [] [] [] [] [] [] []]; try reflexivity. intros H; cbv in H; discriminate H.
Qed.

(* VALUES: with equivalent environments, the model's Node.process / Scope.swap loop and the reference substitution agree *)
Theorem value_refines fuel : forall sc e ts,
  lookup_equiv sc e -> scope_ok sc = true -> val_ok ts = true ->
  same_val (eval_value fuel sc ts) (sval_toks fuel e ts).
Proof.
  induction fuel as [|f IH]; intros sc e ts Heq Hok Hts; [exact I|].
  cbn [eval_value sval_toks].
  induction ts as [|t r IHr].
  - reflexivity.
  - cbn [val_ok forallb] in Hts. apply andb_true_iff in Hts as [Ht Hr]. specialize (IHr Hr).
    cbn [eval_toks].
    match goal with |- same_val (rbind ?a ?k) (sbind ?b ?k') =>
      assert (same_val a b) as Hhead end.
    { destruct t as [s0|x|ex|nm args]; cbn [eval_tok].
      - reflexivity.
      - cbn [vv_ok] in Ht. rewrite (lookup_with_plain _ sc x Ht).
        unfold plain_var in Ht. apply andb_true_iff in Ht as [Hi _]. apply negb_true_iff in Hi.
        rewrite (interp_name_plain x Hi). rewrite <- Heq.
        destruct (variables x sc) as [v|] eqn:Ev; [|exact I].
        apply IH; [exact Heq|exact Hok|exact (lookup_ok x sc v Hok Ev)].
      - discriminate.
      - rewrite vv_ok_call in Ht.
        apply (same_val_bind same_val); [apply IH; assumption|intros a; reflexivity|intros; exact I|intros; exact I]. }
    apply (same_val_bind same_val); [exact Hhead| |intros; exact I|intros; exact I].
    intros here.
    apply (same_val_bind same_val); [exact IHr|intros a; reflexivity|intros; exact I|intros; exact I].
Qed.

(* table fact: the reference semantics allows as many substitution rounds as the code does (regenerated constant) *)
Lemma tf_value_fuel_spec : Nat.eqb Eval.value_fuel Sem.value_fuel = true.
Proof. vm_compute. reflexivity. Qed.

Lemma preprocess_noexpr name v : val_ok v = true -> preprocess name v = v.
Proof.
  intros H. unfold preprocess. destruct (str_eqb name $"font"); [reflexivity|].
  induction v as [|t r IH]; [reflexivity|]. cbn [val_ok forallb] in H. apply andb_true_iff in H as [Ht Hr].
  destruct t; try discriminate; cbn [flat_map app]; now rewrite (IH Hr).
Qed.

(* ---- the statement fragment ---- *)
Definition no_at (t : str) : bool := match t with "@" :: _ => false | _ => true end.
Fixpoint vr_only (n : node) : Prop :=
  match n with
  | NProp _ v _ => val_ok v = true
  | NVar _ v => val_ok v = true
  | NBlock sel body => plain_sel sel = true /\ forallb no_at sel = true /\
                       (fix all (l : list node) : Prop := match l with [] => True | x :: r => vr_only x /\ all r end) body
  | _ => False
  end.
Lemma vr_only_body sel body : vr_only (NBlock sel body) <-> plain_sel sel = true /\ forallb no_at sel = true /\ Forall vr_only body.
Proof.
  cbn [vr_only]. split; intros (H1 & H0 & H2); repeat split; auto.
  - induction body as [|x r IH]; constructor; [apply H2|apply IH, H2].
  - induction H2 as [|x r Hx Hr IH]; [exact I|split; assumption].
Qed.

(* what a list of output objects declares *)
Definition decls_of (props : list obj) : list decl :=
  flat_map (fun o => match o with OProp n v i => [(n, norm_val (concat_str v), i)] | _ => [] end) props.
Fixpoint mdecls (o : obj) : list (list decl) :=
  match o with
  | OBlock _ props inner =>
      (match decls_of props with [] => [] | d => [d] end)
      ++ (fix go (l : list obj) := match l with [] => [] | x :: r => mdecls x ++ go r end) inner
  | _ => []
  end.
Lemma mdecls_go l : (fix go (l : list obj) := match l with [] => [] | x :: r => mdecls x ++ go r end) l = flat_map mdecls l.
Proof. induction l; simpl; congruence. Qed.

Definition nonblock (o : obj) : bool := negb (obj_is_block o).
Definition rule_block (o : obj) : bool := obj_is_block o && negb (obj_is_media o).

Definition node_rel (r : outcome (list obj * scope)) (s : sres contrib) : Prop :=
  match r, s with
  | ROk (os, sc'), SOk (e', d, u, c) =>
      lookup_equiv sc' e' /\ scope_ok sc' = true /\ c = [] /\
      decls_of (filter nonblock os) = d /\ filter obj_is_media os = [] /\
      flat_map mdecls (filter rule_block os) = map fi_decls u
  | RError _ _, SErr _ => True
  | RFuel, SErr _ => True
  | _, _ => False
  end.

Definition body_rel (r : outcome (list obj)) (s : sres (list decl * list fitem * list fitem)) : Prop :=
  match r, s with
  | ROk inner, SOk (d, u, c) =>
      c = [] /\ decls_of (filter nonblock inner) = d /\ filter obj_is_media inner = [] /\
      flat_map mdecls (filter rule_block inner) = map fi_decls u
  | RError _ _, SErr _ => True
  | RFuel, SErr _ => True
  | _, _ => False
  end.

Lemma smap_sel_id (sel0 : list str) (F : str -> sres str) :
  (forall t, no_at t = true -> F t = SOk t) -> forallb no_at sel0 = true -> smap F sel0 = SOk sel0.
Proof.
  intros HF. induction sel0 as [|t r IH]; [reflexivity|]. cbn [forallb]. intros H. apply andb_true_iff in H as [Ht Hr].
  cbn [smap]. rewrite (HF t Ht). cbn [sbind]. rewrite (IH Hr). reflexivity.
Qed.

Lemma plain_sel_not_at sel : plain_sel sel = true -> is_media_sel sel = false /\ is_at_sel sel = false.
Proof.
  destruct sel as [|t r]; [discriminate|]. unfold plain_sel, is_media_sel, is_at_sel, is_tok.
  destruct t as [|c t']; [split; reflexivity|].
  destruct c as [[] [] [] [] [] [] [] []]; try (split; reflexivity). discriminate.
Qed.
Lemma plain_sel_model sel : plain_sel sel = true -> sets_current sel = true /\ is_media_name sel = false.
Proof.
  destruct sel as [|t r]; [discriminate|]. unfold sets_current, is_media_name, plain_sel.
  destruct t as [|c t']; [split; reflexivity|]. destruct c as [[] [] [] [] [] [] [] []]; try (split; reflexivity); discriminate.
Qed.

Lemma printable_nil_decls ps : printable ps = [] -> decls_of ps = [].
Proof.
  unfold printable, decls_of. induction ps as [|p r IH]; [reflexivity|]. cbn [filter flat_map].
  destruct p; try discriminate. cbn [app]. exact IH.
Qed.

Lemma filter_nonblock_app a b : filter nonblock (a ++ b) = filter nonblock a ++ filter nonblock b.
Proof. apply filter_app. Qed.
Lemma decls_of_app a b : decls_of (a ++ b) = decls_of a ++ decls_of b.
Proof. unfold decls_of. apply flat_map_app. Qed.

Theorem vr_node :
  forall n, vr_only n -> forall parent sc callf media at_ parent' e,
    lookup_equiv sc e -> scope_ok sc = true ->
    node_rel (eval_node parent sc n) (sem_node callf media at_ parent' e n).
Proof.
  induction n as [nm v i|nm v|t|s body IH|sel body IH|mn mp mb IH|cn ca] using node_ind';
    intros Hvr parent sc callf media at_ parent' e Heq Hok; try contradiction.
  - (* declaration *)
    cbn [vr_only] in Hvr. cbn [eval_node_g sem_node]. rewrite (preprocess_noexpr nm v Hvr).
    pose proof tf_value_fuel_spec as Hf. apply Nat.eqb_eq in Hf. rewrite <- Hf.
    apply (same_val_bind node_rel); [apply value_refines; assumption| |intros; exact I|intros; exact I].
    intros a. cbn [node_rel filter nonblock obj_is_block negb rule_block obj_is_media andb decls_of flat_map app map].
    repeat split; auto.
  - (* definition *)
    cbn [vr_only] in Hvr. cbn [eval_node_g sem_node node_rel filter nonblock obj_is_block negb rule_block obj_is_media andb decls_of flat_map app map].
    repeat split; auto; [apply lookup_equiv_add, Heq|apply add_variable_ok; assumption].
  - (* rule *)
    apply vr_only_body in Hvr as (Hsel & Hnoat & Hbody).
    cbn [eval_node_g sem_node].
    rewrite (smap_sel_id sel _); [|intros t0 Ht0; destruct t0 as [|c0 t0']; [reflexivity|];
      destruct c0 as [[] [] [] [] [] [] [] []]; try reflexivity; discriminate|exact Hnoat].
    cbn [sbind]. destruct (plain_sel_not_at sel Hsel) as [Hm Ha]. rewrite Hm, Ha.
    rewrite (plain_not_subparse sel Hsel). destruct (plain_sel_model sel Hsel) as [Hcur Hmn]. rewrite Hcur.
    set (me := ident_parse parent sel). set (sels := combine parent' sel).
    assert (forall sc1 e1, lookup_equiv sc1 e1 -> scope_ok sc1 = true ->
      body_rel
        ((fix go (sc1 : scope) (l : list node) : outcome (list obj) :=
           match l with
           | [] => ROk []
           | c :: r => rbind (eval_node (Some me) sc1 c) (fun '(os, sc2) => rbind (go sc2 r) (fun rest => ROk (os ++ rest)))
           end) sc1 body)
        ((fix body (media1 at1 : str) (parent1 : option (list str)) (e1 : senv) (l : list node) {struct l}
            : sres (list decl * list fitem * list fitem) :=
           match l with
           | [] => SOk ([], [], [])
           | x :: r =>
               sbind (sem_node callf media1 at1 parent1 e1 x) (fun '(e2, d, u, c) =>
                 sbind (body media1 at1 parent1 e2 r) (fun '(d2, u2, c2) => SOk (d ++ d2, u ++ u2, c ++ c2)))
           end) media at_ (Some sels) e1 body)) as Hloop.
    { clear Hmn. induction body as [|c r IHr]; intros sc1 e1 Heq1 Hok1.
      - cbn [body_rel filter flat_map map decls_of]. repeat split; reflexivity.
      - inversion IH as [|? ? IHc IHrest]; subst. inversion Hbody as [|? ? Hc Hrest]; subst.
        specialize (IHc Hc (Some me) sc1 callf media at_ (Some sels) e1 Heq1 Hok1).
        destruct (eval_node (Some me) sc1 c) as [[os sc2]|cl ms|ty|];
          destruct (sem_node callf media at_ (Some sels) e1 c) as [[[[e2 d] u] cc]|w]; cbn [node_rel] in IHc; try contradiction;
          cbn [rbind sbind]; try exact I.
        destruct IHc as (Heq2 & Hok2 & Hc0 & Hd & Hmed & Hu).
        specialize (IHr IHrest Hrest sc2 e2 Heq2 Hok2).
        match goal with |- body_rel (rbind ?a _) (sbind ?b _) => destruct a as [rest|cl ms|ty|]; destruct b as [[[d2 u2] c2]|w] end;
          cbn [body_rel] in IHr; try contradiction; cbn [rbind sbind body_rel]; try exact I.
        destruct IHr as (Hc2 & Hd2 & Hmed2 & Hu2). subst cc c2.
        rewrite !filter_app, decls_of_app, flat_map_app, map_app. fold nonblock. rewrite Hd, Hd2, Hmed, Hmed2, Hu, Hu2.
        repeat split; reflexivity. }
    specialize (Hloop (push sc) ([] :: e) (lookup_equiv_push sc e Heq) (push_ok sc Hok)).
    match goal with |- node_rel (rbind ?a _) (sbind ?b _) => destruct a as [inner|cl ms|ty|]; destruct b as [[[d u] c]|w] end;
      cbn [body_rel] in Hloop; try contradiction; cbn [rbind sbind node_rel]; try exact I.
    destruct Hloop as (Hc0 & Hd & Hmed & Hu). subst c.
    fold nonblock. fold rule_block.
    rewrite Hmed. cbn [flat_map app]. rewrite app_nil_r.
    set (props := filter nonblock inner) in *. set (blocks := filter rule_block inner) in *.
    split; [exact Heq|]. split; [exact Hok|]. split; [reflexivity|].
    destruct (printable props ++ blocks) as [|x l] eqn:E.
    + apply app_eq_nil in E as [E1 E2]. cbn [length Nat.eqb filter decls_of flat_map].
      repeat split; try reflexivity.
      rewrite <- Hd, (printable_nil_decls props E1). rewrite E2 in Hu. cbn [flat_map] in Hu.
      destruct u; [reflexivity|discriminate].
    + cbn [length Nat.eqb]. cbn [filter nonblock rule_block obj_is_block obj_is_media negb andb decls_of flat_map].
      repeat split; try reflexivity.
      cbn [mdecls]. rewrite mdecls_go, app_nil_r, Hd, Hu, map_app.
      destruct d; reflexivity.
Qed.

(* ---- top level ---- *)
Lemma mdecls_filter os : filter obj_is_media os = [] -> flat_map mdecls os = flat_map mdecls (filter rule_block os).
Proof.
  induction os as [|o r IH]; [reflexivity|]. cbn [filter]. unfold rule_block at 1.
  destruct (obj_is_media o) eqn:Em; [discriminate|]. intros H. cbn [negb]. rewrite andb_true_r.
  destruct (obj_is_block o) eqn:Eb; cbn [flat_map]; rewrite (IH H); [reflexivity|].
  destruct o; try discriminate; reflexivity.
Qed.

Definition top_item (n : node) : Prop := match n with NVar _ _ | NBlock _ _ => vr_only n | _ => False end.
(* every top-level definition is the one the whole-sheet environment reports (no top-level name is redefined: see F12) *)
Definition top_defs_final (e : senv) (units : list node) : Prop :=
  forall x v, In (NVar x v) units -> slookup x e = Some v.

Definition sheet_rel (r : outcome (list obj)) (s : sres (list fitem)) : Prop :=
  match r, s with
  | ROk os, SOk items => flat_map mdecls os = map fi_decls items
  | RError _ _, SErr _ => True
  | RFuel, SErr _ => True
  | _, _ => False
  end.

Theorem vr_units callf : forall units sc e,
  Forall top_item units -> lookup_equiv sc e -> scope_ok sc = true -> top_defs_final e units ->
  sheet_rel (eval_units sc units) (sem_units callf e units).
Proof.
  induction units as [|n r IH]; intros sc e Hall Heq Hok Hfin; [reflexivity|].
  inversion Hall as [|? ? Hn Hr]; subst.
  assert (top_defs_final e r) as Hfin' by (intros x v Hin; apply Hfin; now right).
  destruct n as [nm v i|nm v|sel body|s body|t|mn mp mb|cn ca]; try contradiction; cbn [top_item] in Hn.
  - (* a top-level definition: re-registered by the code, already in the environment of the reference semantics *)
    cbn [eval_units_g eval_node_g rbind sem_units].
    assert (lookup_equiv (add_variable nm v sc) e) as Heq'.
    { intros y. rewrite variables_add. destruct (str_eqb y nm) eqn:E; [|apply Heq].
      apply str_eqb_eq1 in E. subst y. symmetry. apply Hfin. now left. }
    cbn [vr_only] in Hn. specialize (IH (add_variable nm v sc) e Hr Heq' (add_variable_ok nm v sc Hn Hok) Hfin').
    destruct (eval_units (add_variable nm v sc) r) as [rest|cl ms|ty|]; destruct (sem_units callf e r) as [items|w];
      cbn [sheet_rel] in IH; try contradiction; cbn [rbind sheet_rel]; try exact I.
    cbn [app flat_map mdecls]. exact IH.
  - (* a top-level rule *)
    cbn [eval_units_g sem_units].
    pose proof (vr_node (NBlock sel body) Hn None sc callf [] [] None e Heq Hok) as Hnode.
    destruct (eval_node None sc (NBlock sel body)) as [[os sc2]|cl ms|ty|] eqn:Em;
      destruct (sem_node callf [] [] None e (NBlock sel body)) as [[[[e2 d] u] c]|w]; cbn [node_rel] in Hnode; try contradiction;
      cbn [rbind sbind sheet_rel]; try exact I.
    destruct Hnode as (_ & _ & Hc & _ & Hmed & Hu). subst c.
    pose proof (block_scope_local None sc sel body os sc2 Em) as ->.
    specialize (IH sc e Hr Heq Hok Hfin').
    destruct (eval_units sc r) as [rest|cl ms|ty|]; destruct (sem_units callf e r) as [items|w];
      cbn [sheet_rel] in IH; try contradiction; cbn [rbind sbind sheet_rel]; try exact I.
    rewrite flat_map_app, map_app, (mdecls_filter os Hmed), Hu, IH. reflexivity.
Qed.

(* a readable sufficient condition: no top-level name is defined twice *)
Definition top_names (units : list node) : list str :=
  flat_map (fun n => match n with NVar x _ => [x] | _ => [] end) units.
Definition top_step (f : list (str * list vtok)) (n : node) : list (str * list vtok) :=
  match n with NVar x v => (x, v) :: f | _ => f end.
Lemma assoc_fold_other x units : ~ In x (top_names units) -> forall acc, assoc x (fold_left top_step units acc) = assoc x acc.
Proof.
  induction units as [|n r IH]; intros Hni acc; [reflexivity|]. cbn [fold_left].
  rewrite IH by (intros Hin; apply Hni; unfold top_names; cbn [flat_map]; apply in_or_app; now right).
  destruct n; try reflexivity. cbn [top_step assoc].
  destruct (str_eqb x name) eqn:E; [|reflexivity]. exfalso. apply Hni. apply str_eqb_eq1 in E. subst. now left.
Qed.
Lemma assoc_fold_unique x v units : NoDup (top_names units) -> In (NVar x v) units ->
  forall acc, assoc x (fold_left top_step units acc) = Some v.
Proof.
  induction units as [|n r IH]; intros Hnd Hin acc; [contradiction|]. cbn [fold_left]. destruct Hin as [->|Hin].
  - cbn [top_names flat_map app] in Hnd. inversion Hnd as [|? ? Hni Hnd']; subst.
    rewrite (assoc_fold_other x r Hni). cbn [top_step assoc]. now rewrite str_eqb_refl1.
  - apply IH; [|exact Hin]. destruct n; try exact Hnd. cbn [top_names flat_map app] in Hnd. now inversion Hnd.
Qed.
Lemma unique_names_final units : NoDup (top_names units) -> top_defs_final (top_env units) units.
Proof.
  intros Hnd x v Hin. unfold top_env. cbn [slookup].
  change (fun f n => match n with NVar x0 v0 => (x0, v0) :: f | _ => f end) with top_step.
  now rewrite (assoc_fold_unique x v units Hnd Hin []).
Qed.

Lemma top_env_ok units : Forall top_item units -> scope_ok (top_env units) = true.
Proof.
  intros H. unfold top_env. cbn [scope_ok forallb]. rewrite andb_true_r.
  change (fun f n => match n with NVar x0 v0 => (x0, v0) :: f | _ => f end) with top_step.
  assert (forall acc, frame_ok acc = true -> frame_ok (fold_left top_step units acc) = true) as G; [|apply G; reflexivity].
  induction H as [|n r Hn Hr IH]; intros acc Hacc; [exact Hacc|]. cbn [fold_left]. apply IH.
  destruct n; try exact Hacc. cbn [top_item vr_only] in Hn. cbn [top_step frame_ok forallb snd]. now rewrite Hn.
Qed.

(* END TO END: the whole evaluation of a stylesheet, as compile_nodes runs it *)
Theorem lexical_end_to_end callf units :
  Forall top_item units -> NoDup (top_names units) ->
  sheet_rel (eval_units (initial_scope units) units) (sem_units callf (top_env units) units).
Proof.
  intros Hall Hnd. apply vr_units; [exact Hall|apply lookup_equiv_refl|exact (top_env_ok units Hall)|exact (unique_names_final units Hnd)].
Qed.
