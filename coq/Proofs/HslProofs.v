(* HslProofs.v — lemmas for C09: every colour function returns a well-formed colour whose channels are
   the exactly computed values rounded to the nearest integer (mix: within one unit). *)
From Coq Require Import String.
From Coq Require Import List Ascii Bool NArith ZArith QArith Qround Qabs Lia Lqa.
Require Import Model.Text Model.ParamTypes Model.Num Model.NumLex Model.PyNum Model.Colorsys Model.Color Model.Hsl.
Require Import Gen.PColor Gen.PNumeric Gen.PHsl.
Require Import Spec.ColorSpec Spec.NumSpec Spec.HslSpec Proofs.ColorBase Proofs.ColorProofs Proofs.NumProofs Proofs.HslBase.
Import ListNotations.
Local Open Scope Q_scope.

Lemma clampQ_comp a b : a == b -> clampQ a == clampQ b.
Proof.
  intros H. unfold clampQ, Qlt_bool.
  rewrite (Qleb_comp a b H 255 255 (Qeq_refl _)), (Qleb_comp 0 0 (Qeq_refl _) a b H).
  destruct (negb (Qle_bool b 255)); [reflexivity|]. destruct (negb (Qle_bool 0 b)); [reflexivity|exact H].
Qed.
Lemma chan_of_comp a b : a == b -> chan_of a = chan_of b.
Proof. intros H. unfold chan_of. now rewrite (Qfloor_comp _ _ (clampQ_comp _ _ H)). Qed.

Lemma printed_near (v x : Q) (m : Z) :
  v == inject_Z m -> - (1#2) <= inject_Z m - x -> inject_Z m - x <= 1#2 ->
  chan_near false x (Z.of_N (chan_of v)) = true.
Proof.
  intros Hv A B. rewrite (chan_of_comp _ _ Hv). apply chan_of_int_near. now apply Qabs'_le.
Qed.

Definition rounds_to (v x : Q) : Prop := exists m : Z, v == inject_Z m /\ - (1#2) <= inject_Z m - x /\ inject_Z m - x <= 1#2.

Lemma rgbatohex_near v1 v2 v3 x1 x2 x3 :
  rounds_to v1 x1 -> rounds_to v2 x2 -> rounds_to v3 x3 ->
  exists s, rgbatohex (v1, v2, v3) = Some s /\ colour_near false (x1, x2, x3) s = true.
Proof.
  intros (m1 & E1 & A1 & B1) (m2 & E2 & A2 & B2) (m3 & E3 & A3 & B3).
  rewrite rgbatohex_eq. eexists. split; [reflexivity|].
  unfold colour_near. rewrite colour_value_hex6 by apply chan_of_lt.
  rewrite hex6_wellformed by apply chan_of_lt.
  rewrite (printed_near v1 x1 m1), (printed_near v2 x2 m2), (printed_near v3 x3 m3) by assumption. reflexivity.
Qed.

Lemma rgbatohex_trunc_near v1 v2 v3 :
  exists s, rgbatohex (v1, v2, v3) = Some s /\ colour_near true (v1, v2, v3) s = true.
Proof.
  rewrite rgbatohex_eq. eexists. split; [reflexivity|].
  unfold colour_near. rewrite colour_value_hex6 by apply chan_of_lt.
  rewrite hex6_wellformed by apply chan_of_lt. now rewrite !chan_of_trunc_near.
Qed.

(* ---- the two rounding functions round to the nearest integer ---- *)
Lemma away_rounds x : rounds_to (away_from_zero_round_py x 0) x.
Proof.
  exists (round_haz x). split; [apply away_round_correct|].
  pose proof (round_haz_near x) as H. apply Qabs_Qle_condition in H. destruct H. split; assumption.
Qed.

Lemma py_round0_rounds x : rounds_to (py_round0 x) x.
Proof.
  unfold py_round0. destruct (floor_bounds x) as [F1 F2].
  destruct (Qlt_bool (x - inject_Z (Qfloor x)) (1#2)) eqn:E1.
  - apply Qlt_bool_true in E1. exists (Qfloor x). split; [reflexivity|]. split; lra.
  - apply Qlt_bool_false' in E1.
    destruct (Qlt_bool (1#2) (x - inject_Z (Qfloor x))) eqn:E2.
    + apply Qlt_bool_true in E2. exists (Qfloor x + 1)%Z. split; [reflexivity|].
      rewrite inject_Z_plus. change (inject_Z 1) with 1. split; lra.
    + apply Qlt_bool_false' in E2. destruct (Z.even (Qfloor x)).
      * exists (Qfloor x). split; [reflexivity|]. split; lra.
      * exists (Qfloor x + 1)%Z. split; [reflexivity|]. rewrite inject_Z_plus. change (inject_Z 1) with 1. split; lra.
Qed.

Lemma convergent_rounds x : rounds_to (convergent_round_py x 0) x.
Proof.
  unfold convergent_round_py, py_round. change (py_pow 10 0) with 1.
  destruct (py_round0_rounds (x * 1)) as (m & E & A & B).
  exists m. split; [rewrite E; field|]. split; lra.
Qed.

Lemma round_by_rounds name x :
  name = $"away_from_zero_round" \/ name = $"convergent_round" -> rounds_to (round_by name x) x.
Proof.
  intros [-> | ->]; unfold round_by; cbn [str_eqb]; [apply away_rounds|apply convergent_rounds].
Qed.

Lemma rounders_names :
  ophsl_round = $"away_from_zero_round" /\ spin_round = $"convergent_round" /\ hsl_round = $"convergent_round".
Proof.
  pose proof tf_rounders as T. apply andb_true_iff in T as [T T3]. apply andb_true_iff in T as [T1 T2].
  repeat split; now apply str_eqb_eq.
Qed.

Lemma scaled_near name c :
  name = $"away_from_zero_round" \/ name = $"convergent_round" ->
  exists s, rgbatohex (scale255 name c) = Some s /\ colour_near false (exact255 c) s = true.
Proof.
  intros Hn. destruct c as [[r g] b]. unfold scale255, exact255.
  apply rgbatohex_near; now apply round_by_rounds.
Qed.

(* ---- lighten / darken / saturate / desaturate / greyscale ---- *)
Lemma hextohls_hex6 r g b : (r < 256)%N -> (g < 256)%N -> (b < 256)%N -> hextohls (hex6 r g b) = Some (hls_of (r, g, b)).
Proof. intros. unfold hextohls. now rewrite hextorgb_hex6. Qed.

Lemma ophsl_table_eq :
  ophsl_table = [($"lighten", (1%nat, PArith OAdd)); ($"darken", (1%nat, PArith OSub));
                 ($"saturate", (2%nat, PArith OAdd)); ($"desaturate", (2%nat, PArith OSub))].
Proof.
  refine (list_eqb_eq _ _ _ _ tf_ophsl_table).
  intros [k1 [i1 o1]] [k2 [i2 o2]]. cbn [fst snd]. intros H.
  apply andb_true_iff in H as [H H3]. apply andb_true_iff in H as [H1 H2].
  apply str_eqb_eq in H1. apply Nat.eqb_eq in H2. subst.
  destruct o1 as [x|x], o2 as [y|y]; try discriminate; destruct x, y; try discriminate; reflexivity.
Qed.

Lemma shift_correct name which neg r g b amount :
  shift_of name = Some (which, neg) -> (r < 256)%N -> (g < 256)%N -> (b < 256)%N ->
  exists s, color_fn_ophsl name (hex6 r g b) amount = Some s /\
            colour_near false (spec_shift (r, g, b) which neg amount) s = true.
Proof.
  intros Hs Hr Hg Hb. destruct rounders_names as (R1 & R2 & R3).
  unfold color_fn_ophsl. rewrite ophsl_table_eq. unfold shift_of in Hs.
  cbn [assoc] in Hs |- *.
  destruct (str_eqb name $"lighten") eqn:N1; [injection Hs as <- <-|
  destruct (str_eqb name $"darken") eqn:N2; [injection Hs as <- <-|
  destruct (str_eqb name $"saturate") eqn:N3; [injection Hs as <- <-|
  destruct (str_eqb name $"desaturate") eqn:N4; [injection Hs as <- <-|discriminate]]]];
  unfold ophsl; rewrite hextohls_hex6 by assumption; unfold spec_shift;
  destruct (hls_of (r, g, b)) as [[h l] s0]; cbn [apply_pyop arith_Q option_map];
  rewrite R1; apply scaled_near; now left.
Qed.

Lemma greyscale_correct r g b :
  (r < 256)%N -> (g < 256)%N -> (b < 256)%N ->
  exists s, greyscale (hex6 r g b) = Some s /\ colour_near false (spec_shift (r, g, b) CompS true 100) s = true.
Proof.
  intros Hr Hg Hb. unfold greyscale.
  pose proof tf_greyscale as T. apply andb_true_iff in T as [T T3]. apply andb_true_iff in T as [T1 T2].
  apply str_eqb_eq in T1. apply Z.eqb_eq in T2. apply Pos.eqb_eq in T3.
  rewrite T1.
  assert (snd greyscale_call = 100) as E100.
  { destruct (snd greyscale_call) as [n d]. cbn [Qnum Qden] in T2, T3. now subst. }
  rewrite E100. exact (shift_correct $"desaturate" CompS true r g b 100 eq_refl Hr Hg Hb).
Qed.

(* ---- spin ---- *)
Lemma py_mod_nonneg a : 0 <= py_mod a 360.
Proof.
  unfold py_mod. destruct (floor_bounds (a / 360)) as [F1 F2].
  assert (a == 360 * (a / 360)) as Ha by field.
  remember (inject_Z (Qfloor (a / 360))) as f. remember (a / 360) as y. lra.
Qed.
Lemma py_mod_lt a : py_mod a 360 < 360.
Proof.
  unfold py_mod. destruct (floor_bounds (a / 360)) as [F1 F2].
  assert (a == 360 * (a / 360)) as Ha by field.
  remember (inject_Z (Qfloor (a / 360))) as f. remember (a / 360) as y. lra.
Qed.

Lemma spin_hue_eq h d : spin_hue_py h d = py_mod (h * 360 + d) 360.
Proof.
  unfold spin_hue_py. cbv zeta.
  assert (py_lt (py_mod (h * 360 + d) 360) 0 = false) as ->; [|reflexivity].
  unfold py_lt, Qlt_bool. apply negb_false_iff. apply Qle_bool_iff. apply py_mod_nonneg.
Qed.

Lemma spin_correct r g b d :
  (r < 256)%N -> (g < 256)%N -> (b < 256)%N ->
  exists s, spin (hex6 r g b) d = Some s /\ colour_near false (spec_spin (r, g, b) d) s = true.
Proof.
  intros Hr Hg Hb. destruct rounders_names as (R1 & R2 & R3).
  unfold spin. rewrite hextohls_hex6 by assumption. unfold spec_spin.
  destruct (hls_of (r, g, b)) as [[h l] s0]. rewrite spin_hue_eq, R2. apply scaled_near. now right.
Qed.

(* the hue a spin produces is periodic in the angle with period 360 *)
Lemma spin_periodic h d (k : Z) : py_mod (h * 360 + (d + 360 * inject_Z k)) 360 == py_mod (h * 360 + d) 360.
Proof.
  unfold py_mod.
  assert (Qfloor ((h * 360 + (d + 360 * inject_Z k)) / 360) = (Qfloor ((h * 360 + d) / 360) + k)%Z) as ->.
  { apply Qfloor_unique; destruct (floor_bounds ((h * 360 + d) / 360)) as [F1 F2];
      rewrite inject_Z_plus; remember (inject_Z (Qfloor ((h * 360 + d) / 360))) as f;
      assert ((h * 360 + (d + 360 * inject_Z k)) / 360 == (h * 360 + d) / 360 + inject_Z k) as -> by field; lra. }
  rewrite inject_Z_plus. ring.
Qed.

(* ---- mix ---- *)
Lemma chan_near_comp slack x y k : x == y -> chan_near slack x k = chan_near slack y k.
Proof.
  intros H. unfold chan_near.
  assert (Qabs' (inject_Z k - qmin 255 (qmax 0 x)) == Qabs' (inject_Z k - qmin 255 (qmax 0 y))) as E.
  { apply Qabs'_comp. rewrite !spec_clamp_eq. now rewrite (clampQ_comp _ _ H). }
  destruct slack; now rewrite (Qleb_comp _ _ E _ _ (Qeq_refl _)).
Qed.

Lemma mix_weights_eq w : fst (mix_weights_py w) == w / 100 /\ snd (mix_weights_py w) == 1 - w / 100.
Proof.
  unfold mix_weights_py. cbn [fst snd].
  set (w' := w / 100 * 2 - 1).
  assert (1 + w' * 0 == 1) as D by ring.
  destruct (py_eq (w' * 0) (- (1))) eqn:E.
  - exfalso. unfold py_eq in E. apply Qeq_bool_iff in E. assert (w' * 0 == 0) as Z0 by ring. rewrite Z0 in E. discriminate.
  - split; rewrite D; unfold w'; field.
Qed.

Lemma mix_correct r1 g1 b1 r2 g2 b2 w :
  (r1 < 256)%N -> (g1 < 256)%N -> (b1 < 256)%N -> (r2 < 256)%N -> (g2 < 256)%N -> (b2 < 256)%N ->
  exists s, mix (hex6 r1 g1 b1) (hex6 r2 g2 b2) w = Some s /\
            colour_near true (spec_mix (r1, g1, b1) (r2, g2, b2) w) s = true.
Proof.
  intros. unfold mix. rewrite !hextorgb_hex6 by assumption.
  destruct (mix_weights_eq w) as [W1 W2]. destruct (mix_weights_py w) as [w1 w2]. cbn [fst snd] in W1, W2.
  match goal with |- exists s, rgbatohex (?a, ?b, ?c) = _ /\ _ => destruct (rgbatohex_trunc_near a b c) as (s & E & Hn) end.
  exists s. split; [exact E|].
  unfold colour_near in *. destruct (colour_value s) as [[[x y] z]|]; [|discriminate].
  unfold spec_mix.
  rewrite (chan_near_comp true _ (inject_Z (Z.of_N r1) * w1 + inject_Z (Z.of_N r2) * w2)) by (rewrite W1, W2; reflexivity).
  rewrite (chan_near_comp true (inject_Z (Z.of_N g1) * (w / 100) + _) (inject_Z (Z.of_N g1) * w1 + inject_Z (Z.of_N g2) * w2)) by (rewrite W1, W2; reflexivity).
  rewrite (chan_near_comp true (inject_Z (Z.of_N b1) * (w / 100) + _) (inject_Z (Z.of_N b1) * w1 + inject_Z (Z.of_N b2) * w2)) by (rewrite W1, W2; reflexivity).
  exact Hn.
Qed.

(* ---- hsl(), rgb() ---- *)
Lemma hsl_correct h s l : exists c, hsl h s l = Some c /\ colour_near false (spec_hsl h s l) c = true.
Proof.
  destruct rounders_names as (R1 & R2 & R3). unfold hsl, spec_hsl, py_int. rewrite R3. apply scaled_near. now right.
Qed.

Lemma rgb_correct r g b :
  exists c, rgb r g b = Some c /\ colour_near false (py_int r, py_int g, py_int b) c = true.
Proof.
  unfold rgb. apply rgbatohex_near; unfold py_int;
    match goal with |- rounds_to (inject_Z ?m) _ => exists m; split; [reflexivity|split; lra] end.
Qed.

Lemma near_wellformed slack e s : colour_near slack e s = true -> wellformed_colour s = true.
Proof.
  unfold colour_near. destruct (colour_value s) as [[[x y] z]|]; [|discriminate]. destruct e as [[a b] c].
  intros H. repeat (apply andb_true_iff in H as [H ?]). exact H.
Qed.

(* rgba() with zero alpha prints decimal channels *)
Lemma rgba_raw_decimal : rgbatohex_raw_fmt = $"%d".
Proof.
  pose proof tf_rgbatohex as T. apply andb_true_iff in T as [T T4]. now apply str_eqb_eq.
Qed.

(* ---- rgba(r,g,b,0) ---- *)
Lemma fmtd_sweep : forallb (fun n => match pyfmt_int $"%d" (Z.of_N n) with Some s => str_eqb s (dec_of_Z (Z.of_N n)) | None => false end) (upto 256) = true.
Proof. vm_compute. reflexivity. Qed.
Lemma fmtd z : (0 <= z <= 255)%Z -> pyfmt_int $"%d" z = Some (dec_of_Z z).
Proof.
  intros H. assert (Z.to_N z < 256)%N as Hn by lia.
  pose proof (proj1 (forallb_forall _ _) fmtd_sweep (Z.to_N z) (upto_In 256 _ Hn)) as E. cbv beta in E.
  rewrite Z2N.id in E by lia. destruct (pyfmt_int $"%d" z); [|discriminate]. apply str_eqb_eq in E. now subst.
Qed.
Lemma rgbatohex_raw_steps : rgbatohex_raw_clamp_steps = [ClampStep CGt 255 255; ClampStep CLt 0 0].
Proof.
  pose proof tf_rgbatohex as T. apply andb_true_iff in T as [T T4]. apply andb_true_iff in T as [T T3].
  exact (list_eqb_eq _ clamp_step_eqb_eq _ _ T3).
Qed.
Lemma rgba_raw_channel_int (z : Z) : rgba_raw_channel (inject_Z z) = Some (dec_of_Z (Z.min 255 (Z.max 0 z))).
Proof.
  unfold rgba_raw_channel. rewrite rgba_raw_decimal, rgbatohex_raw_steps.
  unfold apply_clamp. cbn [fold_left]. unfold apply_clamp_step. cbn [cs_cmp cs_bound cs_assign cmp_Q].
  destruct (Qlt_bool (inject_Z 255) (inject_Z z)) eqn:E1.
  - apply Qlt_bool_true in E1. rewrite <- Zlt_Qlt in E1.
    replace (Qlt_bool (inject_Z 255) (inject_Z 0)) with false by reflexivity.
    rewrite Qtrunc_inject_Z. replace (Z.min 255 (Z.max 0 z)) with 255%Z by lia. now apply fmtd.
  - apply Qlt_bool_false' in E1. rewrite <- Zle_Qle in E1.
    destruct (Qlt_bool (inject_Z z) (inject_Z 0)) eqn:E2.
    + apply Qlt_bool_true in E2. rewrite <- Zlt_Qlt in E2. rewrite Qtrunc_inject_Z.
      replace (Z.min 255 (Z.max 0 z)) with 0%Z by lia. now apply fmtd.
    + apply Qlt_bool_false' in E2. rewrite <- Zle_Qle in E2. rewrite Qtrunc_inject_Z.
      replace (Z.min 255 (Z.max 0 z)) with z by lia. apply fmtd. lia.
Qed.
Lemma rgba_zero_correct (r g b : Z) :
  rgba_zero (inject_Z r) (inject_Z g) (inject_Z b) = Some (spec_rgba_zero r g b).
Proof.
  unfold rgba_zero, py_int. rewrite !Qtrunc_inject_Z, !rgba_raw_channel_int.
  change 0 with (inject_Z 0). rewrite rgba_raw_channel_int. unfold spec_rgba_zero.
  change (dec_of_Z (Z.min 255 (Z.max 0 0))) with $"0". f_equal.
Qed.
