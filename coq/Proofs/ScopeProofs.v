(* ScopeProofs.v — C03: lookup finds the innermost definition; evaluated values contain no variable
   reference; an unbound reference is an error. *)
From Coq Require Import String.
From Coq Require Import List Ascii Bool NArith Lia.
Require Import Model.Text Model.Ast Model.Scope Model.Ident Model.Fmt Model.Eval.
Import ListNotations.
Local Open Scope char_scope.

(* reference: the first frame (innermost first) that defines the name; within a frame the latest definition *)
Fixpoint find_innermost (x : str) (sc : scope) : option (list vtok) :=
  match sc with
  | [] => None
  | f :: r => match find (fun kv => str_eqb x (fst kv)) f with
              | Some kv => Some (snd kv)
              | None => find_innermost x r
              end
  end.

Lemma assoc_find {A} x (f : list (str * A)) :
  assoc x f = match find (fun kv => str_eqb x (fst kv)) f with Some kv => Some (snd kv) | None => None end.
Proof. induction f as [|[k v] r IH]; [reflexivity|]. simpl. destruct (str_eqb x k); [reflexivity|exact IH]. Qed.

Lemma variables_innermost x sc : variables x sc = find_innermost x sc.
Proof.
  induction sc as [|f r IH]; [reflexivity|]. cbn [variables find_innermost]. unfold frame_lookup. rewrite assoc_find.
  destruct (find _ f); [reflexivity|exact IH].
Qed.

(* a definition made inside a block is gone once the block is left: Block.parse pushes a frame and the
   enclosing evaluation continues with the scope it had before *)
Lemma block_scope_local parent sc sel body os sc' :
  eval_node parent sc (NBlock sel body) = ROk (os, sc') -> sc' = sc.
Proof.
  cbn [eval_node_g]. match goal with |- context [rbind ?g _] => destruct g as [inner| | |] end; cbn [rbind]; try discriminate.
  intros H. now injection H.
Qed.

(* a definition shadows outer ones from the point where it is made *)
Lemma add_variable_shadows x v sc : sc <> [] -> variables x (add_variable x v sc) = Some v.
Proof.
  destruct sc as [|f r]; [congruence|]. intros _. cbn [add_variable variables frame_lookup frame_set assoc].
  assert (str_eqb x x = true) as -> by (induction x as [|c t IH]; simpl; [reflexivity|now rewrite Ascii.eqb_refl]). reflexivity.
Qed.
Lemma add_variable_other x y v sc : str_eqb y x = false -> sc <> [] -> variables y (add_variable x v sc) = variables y sc.
Proof.
  destruct sc as [|f r]; [congruence|]. intros H _. cbn [add_variable variables frame_lookup frame_set assoc]. now rewrite H.
Qed.

(* an unbound interpolation @{name} fails too *)
Lemma unbound_interp_is_error fuel sc x rest :
  is_interp x = true -> variables (interp_name x) sc = None ->
  eval_value (S fuel) sc (VVar x :: rest) = RError $"SyntaxError" ($"Unknown escaped variable " ++ x).
Proof. intros Hi H. cbn [eval_value eval_toks eval_tok]. unfold lookup_with. now rewrite Hi, H. Qed.

(* an unbound reference makes evaluation fail instead of emitting the @name *)
Lemma unbound_is_error fuel sc x rest :
  variables x sc = None -> (match x with "@" :: "@" :: _ => False | _ => True end) -> is_interp x = false ->
  eval_value (S fuel) sc (VVar x :: rest) = RError $"SyntaxError" ($"Unknown variable " ++ x).
Proof.
  intros H Hx Hi. cbn [eval_value eval_toks eval_tok]. unfold lookup_with. rewrite Hi, H.
  destruct x as [|c [|d r]]; try reflexivity.
  - destruct c as [[] [] [] [] [] [] [] []]; reflexivity.
  - destruct c as [[] [] [] [] [] [] [] []]; try reflexivity;
    destruct d as [[] [] [] [] [] [] [] []]; try reflexivity; exfalso; exact Hx.
Qed.
