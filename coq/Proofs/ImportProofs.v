(* ImportProofs.v — C14 on the import model: more fuel never changes a result, an import contributes exactly the expansion of
   the named file at the position of the statement (= pasting the already-inlined file there), a missing file and a too
   deep chain are errors, every other import is kept as a statement. *)
From Coq Require Import String.
From Coq Require Import List Ascii Bool NArith Arith Lia.
Require Import Model.Text Model.Paths Model.Ast Model.Scope Model.Ident Model.Fmt Model.Eval Gen.PLimits Model.Import.
Import ListNotations.
Local Open Scope char_scope.

Definition not_fuel {A} (r : outcome A) : Prop := match r with RFuel => False | _ => True end.

Lemma rbind_fuel {A B} (r : outcome A) (f : A -> outcome B) : not_fuel (rbind r f) -> not_fuel r.
Proof. destruct r; cbn; auto. Qed.

Lemma expand_mono : forall f fs lvl dir us, not_fuel (expand f fs lvl dir us) -> forall k, expand (f + k) fs lvl dir us = expand f fs lvl dir us.
Proof.
  induction f as [|f IH]; intros fs lvl dir us H k; [contradiction|].
  cbn [Nat.add expand] in *. destruct us as [|u r]; [reflexivity|].
  assert (Hh : forall h, (match u with
               | UNode n => ROk [n]
               | UImport toks ipath =>
                   if is_less_import ipath then
                     if Nat.ltb import_depth_limit lvl then RError $"ImportError" $"Recrusive import level too deep"
                     else match fs_lookup fs (resolve dir (with_ext ipath)) with
                          | Some us0 => expand h fs (S lvl) (dirname (resolve dir (with_ext ipath))) us0
                          | None => RError $"CompilationError" ($"Cannot import, file not found: " ++ ipath)
                          end
                   else ROk [NStmt toks]
               end) = (match u with UNode n => ROk [n] | UImport toks ipath => _ end)) by reflexivity.
  clear Hh.
  set (here := fun h => match u with
               | UNode n => ROk [n]
               | UImport toks ipath =>
                   if is_less_import ipath then
                     if Nat.ltb import_depth_limit lvl then RError $"ImportError" $"Recrusive import level too deep"
                     else match fs_lookup fs (resolve dir (with_ext ipath)) with
                          | Some us0 => expand h fs (S lvl) (dirname (resolve dir (with_ext ipath))) us0
                          | None => RError $"CompilationError" ($"Cannot import, file not found: " ++ ipath)
                          end
                   else ROk [NStmt toks]
               end).
  change (not_fuel (rbind (here f) (fun h => rbind (expand f fs lvl dir r) (fun rest => ROk (h ++ rest))))) in H.
  change (rbind (here (f + k)) (fun h => rbind (expand (f + k) fs lvl dir r) (fun rest => ROk (h ++ rest)))
          = rbind (here f) (fun h => rbind (expand f fs lvl dir r) (fun rest => ROk (h ++ rest)))).
  assert (E1 : here (f + k) = here f).
  { pose proof (rbind_fuel _ _ H) as H1. unfold here in *. destruct u as [n|toks ipath]; [reflexivity|].
    destruct (is_less_import ipath); [|reflexivity]. destruct (Nat.ltb import_depth_limit lvl); [reflexivity|].
    destruct (fs_lookup fs (resolve dir (with_ext ipath))); [|reflexivity]. now apply IH. }
  rewrite E1. destruct (here f) as [h| | |]; cbn [rbind] in *; try reflexivity.
  rewrite IH; [reflexivity|]. now apply rbind_fuel in H.
Qed.

Lemma expand_ok_mono f fs lvl dir us out k : expand f fs lvl dir us = ROk out -> expand (f + k) fs lvl dir us = ROk out.
Proof. intros H. rewrite expand_mono; [exact H|]. now rewrite H. Qed.

(* plain nodes expand to themselves *)
Lemma expand_unodes : forall l f fs lvl dir rest nr,
  expand f fs lvl dir rest = ROk nr -> expand (f + List.length l) fs lvl dir (map UNode l ++ rest) = ROk (l ++ nr).
Proof.
  induction l as [|n l IH]; intros f fs lvl dir rest nr H.
  - cbn. now rewrite Nat.add_0_r.
  - cbn [List.length map app]. rewrite Nat.add_succ_r. cbn [expand rbind]. rewrite (IH _ _ _ _ _ _ H). reflexivity.
Qed.

(* POSITION: the units before the statement come before, the units after it come after *)
Theorem expand_app : forall a f fs lvl dir b na nb,
  expand f fs lvl dir a = ROk na -> expand f fs lvl dir b = ROk nb ->
  expand (f + List.length a) fs lvl dir (a ++ b) = ROk (na ++ nb).
Proof.
  induction a as [|u a IH]; intros f fs lvl dir b na nb Ha Hb.
  - destruct f; cbn in Ha; [discriminate|]. injection Ha as <-. cbn [app List.length]. now rewrite Nat.add_0_r.
  - destruct f as [|f]; [discriminate|]. cbn [expand] in Ha.
    cbn [List.length app]. rewrite Nat.add_succ_r. cbn [Nat.add]. cbn [expand].
    set (here := fun h => match u with
               | UNode n => ROk [n]
               | UImport toks ipath =>
                   if is_less_import ipath then
                     if Nat.ltb import_depth_limit lvl then RError $"ImportError" $"Recrusive import level too deep"
                     else match fs_lookup fs (resolve dir (with_ext ipath)) with
                          | Some us0 => expand h fs (S lvl) (dirname (resolve dir (with_ext ipath))) us0
                          | None => RError $"CompilationError" ($"Cannot import, file not found: " ++ ipath)
                          end
                   else ROk [NStmt toks]
               end) in *.
    change (rbind (here f) (fun h => rbind (expand f fs lvl dir a) (fun rest => ROk (h ++ rest))) = ROk na) in Ha.
    change (rbind (here (S (f + List.length a))) (fun h => rbind (expand (S (f + List.length a)) fs lvl dir (a ++ b)) (fun rest => ROk (h ++ rest))) = ROk (na ++ nb)).
    destruct (here f) as [h| | |] eqn:Eh; cbn [rbind] in Ha; try discriminate.
    destruct (expand f fs lvl dir a) as [ra| | |] eqn:Ea; cbn [rbind] in Ha; try discriminate.
    injection Ha as <-.
    assert (E1 : here (S (f + List.length a)) = ROk h).
    { unfold here in *. destruct u as [n|toks ipath]; [exact Eh|].
      destruct (is_less_import ipath); [|exact Eh]. destruct (Nat.ltb import_depth_limit lvl); [exact Eh|].
      destruct (fs_lookup fs (resolve dir (with_ext ipath))); [|exact Eh].
      replace (S (f + List.length a)) with (f + S (List.length a)) by lia. now apply expand_ok_mono. }
    rewrite E1. cbn [rbind].
    assert (E2 : expand (S (f + List.length a)) fs lvl dir (a ++ b) = ROk (ra ++ nb)).
    { replace (S (f + List.length a)) with (S f + List.length a) by lia. apply IH.
      - replace (S f) with (f + 1) by lia. now apply expand_ok_mono.
      - exact Hb. }
    rewrite E2. cbn [rbind]. now rewrite app_assoc.
Qed.

(* AN IMPORT IS THE INLINED FILE AT THAT PLACE: the statement contributes the expansion of the named file, looked up relative
   to the importing file's directory and itself expanded relative to ITS OWN directory; this is what pasting the inlined
   file in place of the statement gives *)
Theorem import_equals_paste : forall f fs lvl dir toks ipath rest us nf nr,
  is_less_import ipath = true -> Nat.ltb import_depth_limit lvl = false ->
  fs_lookup fs (resolve dir (with_ext ipath)) = Some us ->
  expand f fs (S lvl) (dirname (resolve dir (with_ext ipath))) us = ROk nf ->
  expand f fs lvl dir rest = ROk nr ->
  expand (S f) fs lvl dir (UImport toks ipath :: rest) = ROk (nf ++ nr)
  /\ expand (f + List.length nf) fs lvl dir (map UNode nf ++ rest) = ROk (nf ++ nr).
Proof.
  intros f fs lvl dir toks ipath rest us nf nr Hl Hd Hf Hu Hr. split.
  - cbn [expand]. rewrite Hl, Hd, Hf, Hu. cbn [rbind]. rewrite Hr. reflexivity.
  - now apply expand_unodes.
Qed.

Theorem missing_file_reported : forall f fs lvl dir toks ipath rest,
  is_less_import ipath = true -> Nat.ltb import_depth_limit lvl = false ->
  fs_lookup fs (resolve dir (with_ext ipath)) = None ->
  exists m, expand (S f) fs lvl dir (UImport toks ipath :: rest) = RError $"CompilationError" m.
Proof. intros f fs lvl dir toks ipath rest Hl Hd Hf. cbn [expand]. rewrite Hl, Hd, Hf. cbn [rbind]. eauto. Qed.

Theorem too_deep_reported : forall f fs lvl dir toks ipath rest,
  is_less_import ipath = true -> Nat.ltb import_depth_limit lvl = true ->
  exists m, expand (S f) fs lvl dir (UImport toks ipath :: rest) = RError $"ImportError" m.
Proof. intros f fs lvl dir toks ipath rest Hl Hd. cbn [expand]. rewrite Hl, Hd. cbn [rbind]. eauto. Qed.

Theorem other_import_kept : forall f fs lvl dir toks ipath rest,
  is_less_import ipath = false ->
  expand (S f) fs lvl dir (UImport toks ipath :: rest) = rbind (expand f fs lvl dir rest) (fun r => ROk (NStmt toks :: r)).
Proof. intros f fs lvl dir toks ipath rest Hl. cbn [expand]. rewrite Hl. cbn [rbind]. destruct (expand f fs lvl dir rest); reflexivity. Qed.
