(* ColorProofs.v — lemmas for C08 (continued; sweeps are in ColorBase.v). *)
From Coq Require Import String.
From Coq Require Import List Ascii Bool NArith ZArith QArith Lia.
Require Import Model.Text Model.ParamTypes Model.Num Gen.PColor Model.Color Spec.ColorSpec Proofs.ColorBase.
Import ListNotations.
Local Open Scope char_scope.

Lemma chan_correct sym o x y :
  op_of_sym sym = Some o -> (x < 256)%N -> (y < 256)%N -> (o = OTrueDiv -> y <> 0%N) ->
  chan_model sym x y = Some (hex2 (chan_spec o x y)).
Proof.
  intros Hs Hx Hy Hd.
  assert (chan_ok sym o x y = true) as H.
  { destruct sym as [|c [|? ?]]; try discriminate.
    2:{ exfalso. destruct c as [[] [] [] [] [] [] [] []]; discriminate. }
    destruct c as [[] [] [] [] [] [] [] []]; try discriminate; injection Hs as <-;
    first
    [ exact (proj1 (forallb_forall _ _) (proj1 (forallb_forall _ _) chan_sweep_mul x (upto_In 256 x Hx)) y (upto_In 256 y Hy))
    | exact (proj1 (forallb_forall _ _) (proj1 (forallb_forall _ _) chan_sweep_add x (upto_In 256 x Hx)) y (upto_In 256 y Hy))
    | exact (proj1 (forallb_forall _ _) (proj1 (forallb_forall _ _) chan_sweep_sub x (upto_In 256 x Hx)) y (upto_In 256 y Hy))
    | exact (proj1 (forallb_forall _ _) (proj1 (forallb_forall _ _) chan_sweep_div x (upto_In 256 x Hx)) y (upto_In 256 y Hy)) ]. }
  unfold chan_ok in H.
  destruct o; try (destruct (chan_model sym x y); [apply str_eqb_eq in H; now subst|discriminate]).
  destruct y; [exfalso; now apply Hd|].
  destruct (chan_model sym x (N.pos p)); [apply str_eqb_eq in H; now subst|discriminate].
Qed.

Lemma chan_spec_lt o x y : (chan_spec o x y < 256)%N.
Proof. destruct o; unfold chan_spec, clamp255; lia. Qed.

(* ---------- Color.process on well-formed colours ---------- *)
Lemma color_process_correct sym o r1 g1 b1 r2 g2 b2 :
  op_of_sym sym = Some o ->
  (r1 < 256)%N -> (g1 < 256)%N -> (b1 < 256)%N -> (r2 < 256)%N -> (g2 < 256)%N -> (b2 < 256)%N ->
  (o = OTrueDiv -> r2 <> 0 /\ g2 <> 0 /\ b2 <> 0)%N ->
  color_process (hex6 r1 g1 b1) sym (hex6 r2 g2 b2) =
    Some (hex6 (chan_spec o r1 r2) (chan_spec o g1 g2) (chan_spec o b1 b2)).
Proof.
  intros Hs H1 H2 H3 H4 H5 H6 Hd. unfold color_process.
  rewrite !hextorgb_hex6 by assumption.
  fold (chan_model sym r1 r2). fold (chan_model sym g1 g2). fold (chan_model sym b1 b2).
  rewrite (chan_correct sym o r1 r2), (chan_correct sym o g1 g2), (chan_correct sym o b1 b2); auto;
    intros E; destruct (Hd E) as (? & ? & ?); assumption.
Qed.

Lemma hex6_wellformed r g b : (r < 256)%N -> (g < 256)%N -> (b < 256)%N -> wellformed_colour (hex6 r g b) = true.
Proof.
  intros Hr Hg Hb. unfold wellformed_colour, hex6.
  rewrite !forallb_app, !hex2_lower_hex by assumption. reflexivity.
Qed.

(* ---------- Color.fmt: literals of either length and any letter case ---------- *)
Definition strip_hash_body := strip_hash_body'.

Lemma lower_hex_char c h : hexval c = Some h -> is_hash (to_lower c) = false.
Proof.
  intros E. destruct (hexval_lower c h E) as [-> Hh].
  now destruct (not_hash_lower_hex _ (hexdigit_lower_hex h Hh)).
Qed.

Lemma color_fmt_6 a1 a2 b1 b2 c1 c2 r g b :
  colour_value ["#"; a1; a2; b1; b2; c1; c2] = Some (r, g, b) ->
  color_fmt ["#"; a1; a2; b1; b2; c1; c2] = Some (hex6 r g b) /\ (r < 256 /\ g < 256 /\ b < 256)%N.
Proof.
  unfold colour_value.
  destruct (hexval a1) as [x1|] eqn:E1; [|discriminate]. destruct (hexval a2) as [x2|] eqn:E2; [|discriminate].
  destruct (hexval b1) as [y1|] eqn:E3; [|discriminate]. destruct (hexval b2) as [y2|] eqn:E4; [|discriminate].
  destruct (hexval c1) as [z1|] eqn:E5; [|discriminate]. destruct (hexval c2) as [z2|] eqn:E6; [|discriminate].
  intros E.
  assert ((16 * x1 + x2)%N = r /\ (16 * y1 + y2)%N = g /\ (16 * z1 + z2)%N = b) as (<- & <- & <-) by (repeat split; congruence).
  clear E.
  destruct (hexval_lower _ _ E1) as [L1 B1]. destruct (hexval_lower _ _ E2) as [L2 B2].
  destruct (hexval_lower _ _ E3) as [L3 B3]. destruct (hexval_lower _ _ E4) as [L4 B4].
  destruct (hexval_lower _ _ E5) as [L5 B5]. destruct (hexval_lower _ _ E6) as [L6 B6].
  split; [|lia].
  unfold color_fmt, is_color. cbn [length Nat.eqb orb andb forallb]. unfold is_hex. rewrite E1, E2, E3, E4, E5, E6.
  cbn [andb]. unfold lower. cbn [map]. replace (to_lower "#") with "#" by reflexivity.
  rewrite strip_hash_body; [|discriminate|].
  - cbn [length Nat.eqb orb]. unfold hex6. rewrite !hex2_pair by assumption. cbn [app].
    now rewrite L1, L2, L3, L4, L5, L6.
  - cbn [forallb]. rewrite (lower_hex_char _ _ E1), (lower_hex_char _ _ E2), (lower_hex_char _ _ E3),
      (lower_hex_char _ _ E4), (lower_hex_char _ _ E5), (lower_hex_char _ _ E6). reflexivity.
Qed.

Lemma color_fmt_3 a b c r g bl :
  colour_value ["#"; a; b; c] = Some (r, g, bl) ->
  color_fmt ["#"; a; b; c] = Some (hex6 r g bl) /\ (r < 256 /\ g < 256 /\ bl < 256)%N.
Proof.
  unfold colour_value.
  destruct (hexval a) as [x|] eqn:E1; [|discriminate]. destruct (hexval b) as [y|] eqn:E2; [|discriminate].
  destruct (hexval c) as [z|] eqn:E3; [|discriminate].
  intros E.
  assert ((17 * x)%N = r /\ (17 * y)%N = g /\ (17 * z)%N = bl) as (<- & <- & <-) by (repeat split; congruence).
  clear E.
  destruct (hexval_lower _ _ E1) as [L1 B1]. destruct (hexval_lower _ _ E2) as [L2 B2].
  destruct (hexval_lower _ _ E3) as [L3 B3].
  split; [|lia].
  unfold color_fmt, is_color. cbn [length Nat.eqb orb andb forallb]. unfold is_hex. rewrite E1, E2, E3.
  cbn [andb]. unfold lower. cbn [map]. replace (to_lower "#") with "#" by reflexivity.
  rewrite strip_hash_body; [|discriminate|].
  - cbn [length Nat.eqb orb double_each]. unfold hex6. rewrite !hex2_17 by assumption. cbn [app].
    now rewrite L1, L2, L3.
  - cbn [forallb]. rewrite (lower_hex_char _ _ E1), (lower_hex_char _ _ E2), (lower_hex_char _ _ E3). reflexivity.
Qed.

Lemma colour_value_shape v r g b :
  colour_value v = Some (r, g, b) ->
  (exists a b' c, v = ["#"; a; b'; c]) \/ (exists a1 a2 b1 b2 c1 c2, v = ["#"; a1; a2; b1; b2; c1; c2]).
Proof.
  unfold colour_value. intros H.
  destruct v as [|h v]; [discriminate|].
  destruct h as [[] [] [] [] [] [] [] []]; try discriminate.
  destruct v as [|x1 [|x2 [|x3 [|x4 [|x5 [|x6 [|x7 v]]]]]]]; try discriminate.
  - left. now exists x1, x2, x3.
  - right. now exists x1, x2, x3, x4, x5, x6.
Qed.

Lemma color_fmt_correct v r g b :
  colour_value v = Some (r, g, b) ->
  color_fmt v = Some (hex6 r g b) /\ (r < 256 /\ g < 256 /\ b < 256)%N.
Proof.
  intros H. destruct (colour_value_shape _ _ _ _ H) as [(a & b' & c & ->)|(a1 & a2 & b1 & b2 & c1 & c2 & ->)].
  - now apply color_fmt_3.
  - now apply color_fmt_6.
Qed.

(* ---------- literals through an expression: fmt then process ---------- *)
Lemma color_expr_correct v1 sym v2 o r1 g1 b1 r2 g2 b2 :
  colour_value v1 = Some (r1, g1, b1) -> colour_value v2 = Some (r2, g2, b2) ->
  op_of_sym sym = Some o -> (o = OTrueDiv -> r2 <> 0 /\ g2 <> 0 /\ b2 <> 0)%N ->
  color_expr v1 sym v2 = Some (hex6 (chan_spec o r1 r2) (chan_spec o g1 g2) (chan_spec o b1 b2)).
Proof.
  intros H1 H2 Hs Hd. unfold color_expr.
  destruct (color_fmt_correct _ _ _ _ H1) as (-> & ? & ? & ?).
  destruct (color_fmt_correct _ _ _ _ H2) as (-> & ? & ? & ?).
  now apply color_process_correct.
Qed.

(* ---------- closure: the result of colour arithmetic is again a literal denoting the spec triple,
   so chains of operations compose ---------- *)
Lemma colour_value_hex6 r g b :
  (r < 256)%N -> (g < 256)%N -> (b < 256)%N -> colour_value (hex6 r g b) = Some (r, g, b).
Proof.
  intros Hr Hg Hb.
  destruct (hex2_digits r Hr) as (r1 & r2 & Hr1 & Hr2 & ->).
  destruct (hex2_digits g Hg) as (g1 & g2 & Hg1 & Hg2 & ->).
  destruct (hex2_digits b Hb) as (b1 & b2 & Hb1 & Hb2 & ->).
  unfold hex6. rewrite !hex2_pair by assumption. cbn [app]. unfold colour_value.
  rewrite !hexval_hexdigit by assumption. reflexivity.
Qed.

Lemma color_expr_closed v1 sym v2 o r1 g1 b1 r2 g2 b2 :
  colour_value v1 = Some (r1, g1, b1) -> colour_value v2 = Some (r2, g2, b2) ->
  op_of_sym sym = Some o -> (o = OTrueDiv -> r2 <> 0 /\ g2 <> 0 /\ b2 <> 0)%N ->
  exists w, color_expr v1 sym v2 = Some w /\
    colour_value w = Some (chan_spec o r1 r2, chan_spec o g1 g2, chan_spec o b1 b2) /\
    color_fmt w = Some w /\ wellformed_colour w = true.
Proof.
  intros H1 H2 Hs Hd. exists (hex6 (chan_spec o r1 r2) (chan_spec o g1 g2) (chan_spec o b1 b2)).
  split; [now apply color_expr_correct|].
  assert (colour_value (hex6 (chan_spec o r1 r2) (chan_spec o g1 g2) (chan_spec o b1 b2)) =
          Some (chan_spec o r1 r2, chan_spec o g1 g2, chan_spec o b1 b2)) as Hv
    by (apply colour_value_hex6; apply chan_spec_lt).
  split; [exact Hv|]. split.
  - now destruct (color_fmt_correct _ _ _ _ Hv) as (-> & _).
  - apply hex6_wellformed; apply chan_spec_lt.
Qed.

(* (v1 o v2) o' v3, any three literals: channel-wise composition of the clamped operations *)
Lemma color_expr_chain v1 sym v2 sym' v3 o o' r1 g1 b1 r2 g2 b2 r3 g3 b3 :
  colour_value v1 = Some (r1, g1, b1) -> colour_value v2 = Some (r2, g2, b2) ->
  colour_value v3 = Some (r3, g3, b3) ->
  op_of_sym sym = Some o -> op_of_sym sym' = Some o' ->
  (o = OTrueDiv -> r2 <> 0 /\ g2 <> 0 /\ b2 <> 0)%N ->
  (o' = OTrueDiv -> r3 <> 0 /\ g3 <> 0 /\ b3 <> 0)%N ->
  opt_bind (color_expr v1 sym v2) (fun w => color_expr w sym' v3) =
    Some (hex6 (chan_spec o' (chan_spec o r1 r2) r3) (chan_spec o' (chan_spec o g1 g2) g3)
               (chan_spec o' (chan_spec o b1 b2) b3)).
Proof.
  intros H1 H2 H3 Hs Hs' Hd Hd'.
  destruct (color_expr_closed _ _ _ _ _ _ _ _ _ _ H1 H2 Hs Hd) as (w & -> & Hw & _).
  cbn [opt_bind]. now apply color_expr_correct.
Qed.

(* algebra of the clamped channel operations *)
Lemma chan_add_comm x y : chan_spec OAdd x y = chan_spec OAdd y x.
Proof. unfold chan_spec. now rewrite Z.add_comm. Qed.
Lemma chan_mul_comm x y : chan_spec OMul x y = chan_spec OMul y x.
Proof. unfold chan_spec. now rewrite Z.mul_comm. Qed.
Lemma chan_add_assoc x y z : (x < 256)%N -> (y < 256)%N -> (z < 256)%N ->
  chan_spec OAdd (chan_spec OAdd x y) z = chan_spec OAdd x (chan_spec OAdd y z).
Proof. intros; unfold chan_spec, clamp255; lia. Qed.
Lemma chan_add_0 x : (x < 256)%N -> chan_spec OAdd x 0 = x.
Proof. intros; unfold chan_spec, clamp255; lia. Qed.
Lemma chan_sub_self x : chan_spec OSub x x = 0%N.
Proof. unfold chan_spec, clamp255; lia. Qed.
Lemma chan_add_mono x x' y : (x <= x')%N -> (chan_spec OAdd x y <= chan_spec OAdd x' y)%N.
Proof. intros; unfold chan_spec, clamp255; lia. Qed.
