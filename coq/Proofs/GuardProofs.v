(* GuardProofs.v — lemmas for C06. *)
From Coq Require Import String.
From Coq Require Import List Ascii Bool ZArith QArith Lia.
Require Import Model.Text Model.ParamTypes Model.Num Gen.PGuards Model.Guard Spec.GuardSpec.
Import ListNotations.

(* how the source guard reaches Mixin.guards: conditions separated by 'and', chains by ',' *)
Definition to_cond (c : scond) : cond := MkCond (s_not c) (s_a c) (cop_sym (s_op c)) (s_b c).
Fixpoint flatten_chain (ch : list scond) : list gitem :=
  match ch with
  | [] => []
  | [c] => [GC (to_cond c)]
  | c :: r => GC (to_cond c) :: GS $"and" :: flatten_chain r
  end.
Fixpoint flatten_guard (g : guard) : list gitem :=
  match g with
  | [] => []
  | [ch] => flatten_chain ch
  | ch :: r => flatten_chain ch ++ GS $"," :: flatten_guard r
  end.

(* ---- table facts on the regenerated maps ---- *)
Definition cond_table_ok (o : cop) (n : bool) : bool :=
  let c := MkCond n 0 (cop_sym o) 0 in
  match assoc (stored_op c) expr_ops with
  | Some (PCmp k) =>
      (* the stored comparison is the source comparison, complemented when negated: check on the three
         possible orderings of two rationals *)
      forallb (fun ab : Q * Q => Bool.eqb (cmp_Q k (fst ab) (snd ab)) (xorb n (cop_holds o (fst ab) (snd ab))))
              [(0, 1); (1, 0); (1, 1)]%Q
  | _ => false
  end.
Lemma tf_guard_tables :
  forallb (fun o => cond_table_ok o false && cond_table_ok o true) [GT; LT; EQ; GE; LE] = true.
Proof. vm_compute. reflexivity. Qed.

(* a comparison constructor is determined by its value on the three orderings *)
Definition cmp_sig (k : cmp) : bool * bool * bool := (cmp_Q k 0 1, cmp_Q k 1 0, cmp_Q k 1 1)%Q.

Lemma Qlt_bool_iff a b : Qlt_bool a b = true <-> (a < b)%Q.
Proof.
  unfold Qlt_bool. rewrite negb_true_iff. split; intros H.
  - apply Qnot_le_lt. intro C. apply Qle_bool_iff in C. congruence.
  - destruct (Qle_bool b a) eqn:E; [|reflexivity]. apply Qle_bool_iff in E. exfalso. apply (Qlt_not_le _ _ H E).
Qed.

Lemma trichotomy_cases (a b : Q) :
  (Qlt_bool a b = true /\ Qlt_bool b a = false /\ Qeq_bool a b = false /\ Qle_bool a b = true /\ Qle_bool b a = false) \/
  (Qlt_bool a b = false /\ Qlt_bool b a = true /\ Qeq_bool a b = false /\ Qle_bool a b = false /\ Qle_bool b a = true) \/
  (Qlt_bool a b = false /\ Qlt_bool b a = false /\ Qeq_bool a b = true /\ Qle_bool a b = true /\ Qle_bool b a = true).
Proof.
  assert (forall x y, (x < y)%Q -> Qlt_bool x y = true /\ Qlt_bool y x = false /\ Qeq_bool x y = false /\ Qle_bool x y = true /\ Qle_bool y x = false) as L.
  { intros x y H. repeat split.
    - now apply Qlt_bool_iff.
    - destruct (Qlt_bool y x) eqn:E; [|reflexivity]. apply Qlt_bool_iff in E. exfalso. apply (Qlt_irrefl x). now apply Qlt_trans with y.
    - destruct (Qeq_bool x y) eqn:E; [|reflexivity]. apply Qeq_bool_iff in E. rewrite E in H. exfalso. now apply (Qlt_irrefl y).
    - apply Qle_bool_iff. now apply Qlt_le_weak.
    - destruct (Qle_bool y x) eqn:E; [|reflexivity]. apply Qle_bool_iff in E. exfalso. apply (Qlt_not_le _ _ H E). }
  destruct (Q_dec a b) as [[H|H]|H].
  - left. now apply L.
  - right; left. destruct (L b a H) as (A & B & C & D & E). repeat split; auto.
    destruct (Qeq_bool a b) eqn:E'; [|reflexivity]. apply Qeq_bool_iff in E'. symmetry in E'. apply Qeq_bool_iff in E'. congruence.
  - right; right. repeat split.
    + destruct (Qlt_bool a b) eqn:E; [|reflexivity]. apply Qlt_bool_iff in E. rewrite H in E. exfalso. now apply (Qlt_irrefl b).
    + destruct (Qlt_bool b a) eqn:E; [|reflexivity]. apply Qlt_bool_iff in E. rewrite H in E. exfalso. now apply (Qlt_irrefl b).
    + now apply Qeq_bool_iff.
    + apply Qle_bool_iff. rewrite H. apply Qle_refl.
    + apply Qle_bool_iff. rewrite H. apply Qle_refl.
Qed.

(* lifting the table fact from the three sample orderings to all rationals *)
Lemma cmp_lift k o n :
  forallb (fun ab : Q * Q => Bool.eqb (cmp_Q k (fst ab) (snd ab)) (xorb n (cop_holds o (fst ab) (snd ab))))
          [(0, 1); (1, 0); (1, 1)]%Q = true ->
  forall a b, cmp_Q k a b = xorb n (cop_holds o a b).
Proof.
  intros H a b. cbn [forallb fst snd] in H.
  apply andb_true_iff in H as [H1 H]. apply andb_true_iff in H as [H2 H]. apply andb_true_iff in H as [H3 _].
  apply eqb_prop in H1, H2, H3.
  destruct (trichotomy_cases a b) as [(A & B & C & D & E)|[(A & B & C & D & E)|(A & B & C & D & E)]];
    destruct k, o, n; unfold cmp_Q, cop_holds in *; rewrite ?A, ?B, ?C, ?D, ?E; cbn in H1, H2, H3 |- *;
    try reflexivity; try discriminate.
Qed.

Lemma eval_cond_correct c : eval_cond (to_cond c) = Some (scond_holds c).
Proof.
  destruct c as [n a o b]. unfold scond_holds, to_cond. cbn [s_not s_a s_op s_b].
  pose proof tf_guard_tables as T.
  assert (cond_table_ok o n = true) as Ho.
  { cbn [forallb] in T. repeat (apply andb_true_iff in T as [?T T]).
    destruct o, n; assumption. }
  unfold cond_table_ok in Ho. unfold eval_cond.
  assert (stored_op (MkCond n a (cop_sym o) b) = stored_op (MkCond n 0 (cop_sym o) 0)) as -> by reflexivity.
  destruct (assoc (stored_op (MkCond n 0 (cop_sym o) 0)) expr_ops) as [[x|k]|]; try discriminate.
  cbn [c_a c_b]. f_equal. now apply cmp_lift.
Qed.

(* ---- parse_guards = DNF ---- *)
Lemma pg_chain ch acc rest :
  ch <> [] ->
  parse_guards_from acc (flatten_chain ch ++ rest) = parse_guards_from (acc && forallb scond_holds ch) rest.
Proof.
  revert acc. induction ch as [|c ch IH]; intros acc Hne; [congruence|].
  destruct ch as [|c2 ch'].
  - cbn [flatten_chain app parse_guards_from forallb]. rewrite eval_cond_correct. now rewrite andb_true_r.
  - change (flatten_chain (c :: c2 :: ch')) with (GC (to_cond c) :: GS $"and" :: flatten_chain (c2 :: ch')).
    cbn [app parse_guards_from]. rewrite eval_cond_correct.
    replace (str_eqb $"and" $",") with false by reflexivity.
    rewrite IH by discriminate. cbn [forallb]. f_equal. destruct acc; destruct (scond_holds c); reflexivity.
Qed.

Lemma parse_guards_dnf (g : guard) :
  g <> [] -> Forall (fun ch => ch <> []) g ->
  parse_guards (flatten_guard g) = Some (guard_true g).
Proof.
  unfold parse_guards. induction g as [|ch g IH]; intros Hne Hall; [congruence|].
  inversion Hall as [|? ? Hch Hg]; subst.
  destruct g as [|ch2 g'].
  - cbn [flatten_guard guard_true existsb]. rewrite <- (app_nil_r (flatten_chain ch)), pg_chain by assumption.
    cbn [parse_guards_from]. now rewrite orb_false_r.
  - change (flatten_guard (ch :: ch2 :: g')) with (flatten_chain ch ++ GS $"," :: flatten_guard (ch2 :: g')).
    rewrite pg_chain by assumption. cbn [parse_guards_from andb].
    replace (str_eqb $"," $",") with true by reflexivity.
    cbn [guard_true existsb]. destruct (forallb scond_holds ch); [reflexivity|].
    rewrite IH by (try discriminate; assumption). reflexivity.
Qed.

(* ---- several same-named mixins with mutually exclusive guards ---- *)
Lemma select_exclusive {B} (ms : list (guard * B)) (g : guard) (body : B) :
  Forall (fun m => fst m <> [] /\ Forall (fun ch => ch <> []) (fst m)) ms ->
  In (g, body) ms -> guard_true g = true ->
  (forall g' b', In (g', b') ms -> guard_true g' = true -> (g', b') = (g, body)) ->
  select_mixin (map (fun m => (flatten_guard (fst m), snd m)) ms) = Some body.
Proof.
  induction ms as [|[g0 b0] ms IH]; intros Hwf Hin Ht Hex; [contradiction|].
  inversion Hwf as [|? ? [H1 H2] Hwf']; subst. cbn [map fst snd select_mixin].
  rewrite parse_guards_dnf by assumption.
  destruct (guard_true g0) eqn:E.
  - assert ((g0, b0) = (g, body)) as Heq by (apply Hex; [now left|assumption]). now injection Heq as _ ->.
  - apply IH; auto.
    + destruct Hin as [Heq|Hin]; [|assumption]. injection Heq as -> ->. congruence.
    + intros g' b' Hin' Ht'. apply Hex; [now right|assumption].
Qed.
