(* AtRuleProofs.v — C19: at-rule blocks keep their structure. *)
From Coq Require Import String.
From Coq Require Import List Ascii Bool NArith Lia.
Require Import Model.Text Model.Ast Model.Scope Model.Ident Model.Fmt Model.Eval Gen.PIdent Proofs.EvalProofs.
Import ListNotations.
Local Open Scope char_scope.

(* table fact: every at-word the lexer classifies as a keyframes rule keeps its name when it opens a block
   (it is listed in Identifier._subp); on the pinned tree @-o-keyframes was missing (finding F15, repaired) *)
Lemma tf_keyframes_subp :
  forallb (fun kv => negb (str_eqb (snd kv) $"css_keyframes") || mem_str (fst kv) subp_names) reserved_tokens = true.
Proof. vm_compute. reflexivity. Qed.

Lemma keyframes_is_subp w : In (w, $"css_keyframes") reserved_tokens -> is_subp w = true.
Proof.
  intros H. pose proof (proj1 (forallb_forall _ _) tf_keyframes_subp _ H) as E. cbn [fst snd] in E.
  replace (str_eqb $"css_keyframes" $"css_keyframes") with true in E by reflexivity. exact E.
Qed.

(* an at-rule header is never combined with, or prefixed by, an enclosing selector at top level or in @media:
   with no enclosing rule the identifier is its own token list (modulo the blank filter) *)
Lemma at_header_kept toks t r : toks = t :: r -> is_subp t = true -> ident_parse None toks = [pairwise_filter toks].
Proof. intros -> H. unfold ident_parse, names_of. rewrite H. reflexivity. Qed.

(* frames: a keyframe selector block with literal declarations evaluates to one block holding exactly those
   declarations, in order *)
Definition decls_only (body : list node) : Prop := Forall (fun c => match c with NProp _ v _ => forallb is_VT v = true | _ => False end) body.

Lemma frame_eval parent sc sel body :
  decls_only body -> body <> [] ->
  eval_node parent sc (NFrame sel body) = ROk ([OBlock (ONFrame sel) (own_props body) []], sc).
Proof.
  intros Hd Hne. cbn [eval_node_g].
  assert (forall sc1, (fix go (sc1 : scope) (l : list node) : outcome (list obj) :=
            match l with
            | [] => ROk []
            | c :: r => rbind (eval_node parent sc1 c) (fun '(os, sc2) => rbind (go sc2 r) (fun rest => ROk (os ++ rest)))
            end) sc1 body = ROk (own_props body)) as Hgo.
  { clear Hne. induction Hd as [|c r Hc Hr IH]; intros sc1; [reflexivity|].
    destruct c as [nm v i| | | | | |]; try contradiction.
    cbn [eval_node_g]. rewrite preprocess_plain by assumption. rewrite eval_value_plain_vf by assumption.
    cbn [rbind]. rewrite IH. reflexivity. }
  rewrite Hgo. cbn [rbind].
  assert (filter (fun o => negb (obj_is_block o)) (own_props body) = own_props body /\ filter obj_is_block (own_props body) = []) as [-> ->].
  { unfold own_props. clear. induction body as [|c r [A B]]; [auto|]. destruct c; cbn [flat_map app filter obj_is_block negb]; rewrite ?A, ?B; auto. }
  rewrite (printable_id _ (own_props_all body)), app_nil_r.
  destruct (own_props body) as [|o l] eqn:E; [|reflexivity].
  exfalso. destruct body as [|c r]; [congruence|]. inversion Hd as [|? ? Hc _]; subst. destruct c; try contradiction. discriminate.
Qed.

(* the whole @keyframes block: header kept as an at-rule name, one frame object per frame of the source, in source order, each
   with its own declarations; nothing hoisted out, nothing merged *)
Definition frame_ok (n : node) : Prop := match n with NFrame _ body => decls_only body /\ body <> [] | _ => False end.
Definition frame_obj (n : node) : obj := match n with NFrame sel body => OBlock (ONFrame sel) (own_props body) [] | _ => OVar end.

Theorem keyframes_block parent sc sel frames :
  is_subparse sel = true -> is_media_name sel = false -> Forall frame_ok frames -> frames <> [] ->
  eval_node parent sc (NBlock sel frames) =
    ROk ([OBlock (ONIdent true (ident_parse parent sel)) [] (map frame_obj frames)], sc).
Proof.
  intros Hsub Hnm Hall Hne. cbn [eval_node_g]. rewrite Hsub, Hnm.
  set (cp := if sets_current sel then Some (ident_parse parent sel) else parent).
  assert (forall sc1, (fix go (sc1 : scope) (l : list node) : outcome (list obj) :=
            match l with
            | [] => ROk []
            | c :: r => rbind (eval_node cp sc1 c) (fun '(os, sc2) => rbind (go sc2 r) (fun rest => ROk (os ++ rest)))
            end) sc1 frames = ROk (map frame_obj frames)) as Hgo.
  { clear Hne. induction Hall as [|c r Hc Hr IH]; intros sc1; [reflexivity|].
    destruct c as [| | |s body| | |]; try contradiction. destruct Hc as [Hd Hb].
    rewrite (frame_eval cp sc1 s body Hd Hb). cbn [rbind]. rewrite IH. reflexivity. }
  rewrite Hgo. cbn [rbind].
  assert (filter (fun o => negb (obj_is_block o)) (map frame_obj frames) = [] /\
          filter obj_is_media (map frame_obj frames) = [] /\
          filter (fun o => obj_is_block o && negb (obj_is_media o)) (map frame_obj frames) = map frame_obj frames) as (-> & -> & ->).
  { clear Hne Hgo. induction Hall as [|c r Hc Hr (A & B & C)]; [auto|].
    destruct c as [| | |s body| | |]; try contradiction.
    cbn [map frame_obj filter obj_is_block obj_is_media negb andb]. rewrite A, B, C. auto. }
  cbn [flat_map app printable filter]. destruct frames as [|f fr]; [contradiction|]. reflexivity.
Qed.

(* inside an @media block (the only enclosing name is an at-rule), an at-rule header is not prefixed *)
Lemma at_header_in_media mp mt mr toks t r :
  mp = mt :: mr -> is_subp mt = true -> toks = t :: r -> is_subp t = true -> count_amp toks = 0 -> str_eqb t $"@media" = false ->
  ident_parse (Some [mp]) toks = [pairwise_filter toks].
Proof.
  intros -> Hm -> Ht Hc Hnm. unfold ident_parse, names_of. rewrite Ht. cbn [root flat_map app]. unfold root_one. rewrite Hc.
  cbn [Nat.ltb Nat.leb]. rewrite Hnm. cbn [map]. rewrite Hm. reflexivity.
Qed.
