(* InlineProofs.v — C05: a call of a parametric mixin yields exactly what the body yields after the parameters (and
   @arguments) have been REPLACED, textually, by the arguments: binding in the scope = substitution in the text.
   Proved for bodies made of declarations, variable definitions, nested rules / frames / definitions to any depth whose
   values are words, variable references and calls of unknown functions over those (no nested mixin call in the body:
   those are the correspondence's business), under the hygiene the property grants: the body does not redefine a
   parameter and no variable visible at the call site mentions a parameter name. *)
From Coq Require Import String.
From Coq Require Import List Ascii Bool NArith PeanoNat Lia.
Require Import Model.Text Model.Ast Model.Scope Model.Ident Model.Fmt Model.Eval.
Require Import Proofs.EvalProofs Proofs.ScopeProofs Proofs.VarProofs Proofs.MixinProofs.
Import ListNotations.
Local Open Scope char_scope.

(* ---- substitution of bound names by literal token lists ---- *)
Definition binds := list (str * list str).
Fixpoint subst_tok (b : binds) (t : vtok) : list vtok :=
  match t with
  | VVar x => match assoc x b with Some a => map VT a | None => [t] end
  | VCall n args => [VCall n ((fix go (l : list vtok) : list vtok := match l with [] => [] | u :: r => subst_tok b u ++ go r end) args)]
  | _ => [t]
  end.
Definition subst_val (b : binds) (ts : list vtok) : list vtok := flat_map (subst_tok b) ts.
Lemma subst_call b n args : subst_tok b (VCall n args) = [VCall n (subst_val b args)].
Proof. reflexivity. Qed.

Lemma val_ok_app x y : val_ok (x ++ y) = val_ok x && val_ok y.
Proof. apply forallb_app. Qed.
Lemma val_ok_lits a : val_ok (map VT a) = true.
Proof. induction a as [|s r IH]; [reflexivity|]. exact IH. Qed.

Section vtok_size.
  (* induction over value tokens by size (calls nest token lists) *)
  Fixpoint tsize (t : vtok) : nat :=
    match t with
    | VCall _ args => S ((fix go (l : list vtok) : nat := match l with [] => 0 | u :: r => tsize u + go r end) args)
    | _ => 1
    end.
  Definition lsize (l : list vtok) : nat := fold_right (fun u acc => tsize u + acc) 0 l.
  Lemma tsize_call n args : tsize (VCall n args) = S (lsize args).
  Proof. reflexivity. Qed.
  Lemma tsize_pos t : 1 <= tsize t.
  Proof. destruct t; cbn [tsize]; lia. Qed.
End vtok_size.

Lemma subst_val_ok b : forall n ts, lsize ts <= n -> val_ok ts = true -> val_ok (subst_val b ts) = true.
Proof.
  induction n as [|n IH]; intros ts Hs Hok.
  - destruct ts as [|t r]; [reflexivity|]. cbn [lsize fold_right] in Hs. pose proof (tsize_pos t). lia.
  - induction ts as [|t r IHr]; [reflexivity|].
    cbn [val_ok forallb] in Hok. apply andb_true_iff in Hok as [Ht Hr].
    cbn [lsize fold_right] in Hs. fold (lsize r) in Hs. pose proof (tsize_pos t) as Hp.
    change (subst_val b (t :: r)) with (subst_tok b t ++ subst_val b r). rewrite val_ok_app.
    rewrite IHr by (try assumption; lia). rewrite andb_true_r.
    destruct t as [s0|x|e|nm args].
    + reflexivity.
    + cbn [subst_tok]. destruct (assoc x b); [apply val_ok_lits|]. cbn [val_ok forallb]. now rewrite Ht.
    + discriminate.
    + rewrite subst_call. cbn [val_ok forallb]. rewrite andb_true_r, vv_ok_call. rewrite vv_ok_call in Ht.
      apply IH; [|exact Ht]. rewrite tsize_call in Hs. lia.
Qed.
Lemma subst_ok b ts : val_ok ts = true -> val_ok (subst_val b ts) = true.
Proof. apply (subst_val_ok b (lsize ts)). lia. Qed.

(* ---- the two scopes: sc1 has the names bound, sc2 has them substituted away ---- *)
Definition sim (b : binds) (sc1 sc2 : scope) : Prop :=
  forall x, match assoc x b with
            | Some a => variables x sc1 = Some (map VT a)
            | None => variables x sc2 = option_map (subst_val b) (variables x sc1)
            end.

Lemma rbind_ok {A B} (r : outcome A) (k : A -> outcome B) y : rbind r k = ROk y -> exists x, r = ROk x /\ k x = ROk y.
Proof. destruct r; cbn [rbind]; intros H; try discriminate. eauto. Qed.

Lemma eval_toks_app lookup rec x y :
  eval_toks lookup rec (x ++ y) =
  rbind (eval_toks lookup rec x) (fun a => rbind (eval_toks lookup rec y) (fun c => ROk (a ++ c))).
Proof.
  induction x as [|t r IH]; cbn [app eval_toks rbind].
  - destruct (eval_toks lookup rec y); reflexivity.
  - destruct (eval_tok lookup rec t) as [h| | |]; cbn [rbind]; try reflexivity. rewrite IH.
    destruct (eval_toks lookup rec r) as [a| | |]; cbn [rbind]; try reflexivity.
    destruct (eval_toks lookup rec y) as [c| | |]; cbn [rbind]; try reflexivity. now rewrite app_assoc.
Qed.
Lemma eval_toks_lits lookup rec a : eval_toks lookup rec (map VT a) = ROk a.
Proof. induction a as [|s r IH]; [reflexivity|]. cbn [map eval_toks eval_tok rbind]. rewrite IH. reflexivity. Qed.

Lemma plain_assoc_interp x : plain_var x = true -> is_interp x = false.
Proof. unfold plain_var. intros H. apply andb_true_iff in H as [H _]. now apply negb_true_iff in H. Qed.

(* VALUES: evaluating with the names bound gives what evaluating the substituted text gives *)
Theorem subst_value b : forall fuel sc1 sc2 ts r,
  sim b sc1 sc2 -> scope_ok sc1 = true -> val_ok ts = true ->
  eval_value fuel sc1 ts = ROk r -> eval_value fuel sc2 (subst_val b ts) = ROk r.
Proof.
  induction fuel as [|f IH]; intros sc1 sc2 ts r Hsim Hok Hts; [discriminate|].
  cbn [eval_value]. revert r.
  induction ts as [|t rest IHr]; intros r H.
  - exact H.
  - cbn [val_ok forallb] in Hts. apply andb_true_iff in Hts as [Ht Hrest]. specialize (IHr Hrest).
    cbn [eval_toks] in H. apply rbind_ok in H as (here & Hh & H). apply rbind_ok in H as (more & Hm & H). injection H as <-.
    change (subst_val b (t :: rest)) with (subst_tok b t ++ subst_val b rest).
    rewrite eval_toks_app, (IHr more Hm).
    assert (eval_toks (lookup_with (eval_value f sc2) sc2) (eval_value f sc2) (subst_tok b t) = ROk here) as ->; [|reflexivity].
    destruct t as [s0|x|e|nm args]; cbn [eval_tok] in Hh.
    + cbn [subst_tok eval_toks eval_tok rbind]. injection Hh as <-. reflexivity.
    + cbn [vv_ok] in Ht. rewrite (lookup_with_plain _ sc1 x Ht) in Hh. cbn [subst_tok]. pose proof (Hsim x) as Hx.
      destruct (assoc x b) as [a|].
      * rewrite Hx in Hh. rewrite eval_toks_lits.
        destruct f as [|f']; [discriminate|]. cbn [eval_value] in Hh. rewrite eval_toks_lits in Hh. exact Hh.
      * cbn [eval_toks eval_tok]. rewrite (lookup_with_plain _ sc2 x Ht), Hx.
        destruct (variables x sc1) as [v|] eqn:Ev; [|discriminate]. cbn [option_map].
        rewrite (IH sc1 sc2 v here Hsim Hok (lookup_ok x sc1 v Hok Ev) Hh). cbn [rbind]. now rewrite app_nil_r.
    + discriminate.
    + rewrite vv_ok_call in Ht. rewrite subst_call. cbn [eval_toks eval_tok].
      apply rbind_ok in Hh as (aa & Ha & Hh). rewrite (IH sc1 sc2 args aa Hsim Hok Ht Ha). cbn [rbind]. injection Hh as <-. reflexivity.
Qed.

(* ---- statements ---- *)
Fixpoint subst_node (b : binds) (n : node) : node :=
  match n with
  | NProp nm v i => NProp nm (subst_val b v) i
  | NVar x v => NVar x (subst_val b v)
  | NBlock sel body => NBlock sel ((fix go (l : list node) : list node := match l with [] => [] | x :: r => subst_node b x :: go r end) body)
  | NFrame sel body => NFrame sel ((fix go (l : list node) : list node := match l with [] => [] | x :: r => subst_node b x :: go r end) body)
  | other => other
  end.
Lemma subst_node_go b l :
  (fix go (l : list node) : list node := match l with [] => [] | x :: r => subst_node b x :: go r end) l = map (subst_node b) l.
Proof. induction l; simpl; congruence. Qed.

(* the body fragment: no nested mixin call, no redefinition of a bound name *)
Fixpoint inl_ok (b : binds) (n : node) : Prop :=
  match n with
  | NProp _ v _ => val_ok v = true
  | NVar x v => val_ok v = true /\ assoc x b = None
  | NBlock _ body => (fix all (l : list node) : Prop := match l with [] => True | x :: r => inl_ok b x /\ all r end) body
  | NFrame _ body => (fix all (l : list node) : Prop := match l with [] => True | x :: r => inl_ok b x /\ all r end) body
  | NStmt _ => True
  | NMixin _ _ _ => True
  | NCall _ _ => False
  end.
Lemma inl_ok_all b l :
  (fix all (l : list node) : Prop := match l with [] => True | x :: r => inl_ok b x /\ all r end) l <-> Forall (inl_ok b) l.
Proof.
  split.
  - induction l as [|x r IH]; intros H; constructor; [apply H|apply IH, H].
  - induction 1 as [|x r Hx Hr IH]; [exact I|split; assumption].
Qed.

Lemma sim_push b sc1 sc2 : sim b sc1 sc2 -> sim b (push sc1) (push sc2).
Proof. intros H x. specialize (H x). cbn [push variables frame_lookup assoc]. exact H. Qed.

Lemma sim_add b x v sc1 sc2 : assoc x b = None -> sim b sc1 sc2 -> sim b (add_variable x v sc1) (add_variable x (subst_val b v) sc2).
Proof.
  intros Hx H y. specialize (H y). rewrite !variables_add.
  destruct (assoc y b) as [a|] eqn:Ey.
  - destruct (str_eqb y x) eqn:E; [|exact H]. apply str_eqb_eq1 in E. subst y. rewrite Hx in Ey. discriminate.
  - destruct (str_eqb y x); [reflexivity|exact H].
Qed.

Definition stmt_sim (b : binds) (r1 r2 : outcome (list obj * scope)) : Prop :=
  match r1 with
  | ROk (os, sc1') => exists sc2', r2 = ROk (os, sc2') /\ sim b sc1' sc2' /\ scope_ok sc1' = true
  | _ => True
  end.
Definition loop_sim (r1 r2 : outcome (list obj)) : Prop :=
  match r1 with ROk inner => r2 = ROk inner | _ => True end.

(* the body loop of a block, for any way of evaluating one statement that satisfies the simulation *)
Lemma body_loop_sim b (ev : scope -> node -> outcome (list obj * scope)) :
  forall l, Forall (fun n => forall sa sb, sim b sa sb -> scope_ok sa = true -> stmt_sim b (ev sa n) (ev sb (subst_node b n))) l ->
  forall sa sb, sim b sa sb -> scope_ok sa = true ->
    loop_sim
      ((fix go (sc1 : scope) (l : list node) : outcome (list obj) :=
         match l with
         | [] => ROk []
         | c :: r => rbind (ev sc1 c) (fun '(os, sc2) => rbind (go sc2 r) (fun rest => ROk (os ++ rest)))
         end) sa l)
      ((fix go (sc1 : scope) (l : list node) : outcome (list obj) :=
         match l with
         | [] => ROk []
         | c :: r => rbind (ev sc1 c) (fun '(os, sc2) => rbind (go sc2 r) (fun rest => ROk (os ++ rest)))
         end) sb (map (subst_node b) l)).
Proof.
  induction l as [|c r IHr]; intros HIH sa sb Hs Ho; [reflexivity|].
  inversion HIH as [|? ? IHc IHrest]; subst. specialize (IHc sa sb Hs Ho). cbn [map].
  destruct (ev sa c) as [[os1 sa']|cl ms|ty|]; cbn [rbind loop_sim]; try exact I.
  cbn [stmt_sim] in IHc. destruct IHc as (sb' & Hc2 & Hs' & Ho'). rewrite Hc2. cbn [rbind].
  specialize (IHr IHrest sa' sb' Hs' Ho').
  match goal with |- loop_sim (rbind ?a _) (rbind ?a' _) => destruct a as [rest|cl ms|ty|]; cbn [rbind loop_sim] in *; try exact I end.
  rewrite IHr. reflexivity.
Qed.

Theorem subst_node_sim b :
  forall n, inl_ok b n -> forall callf parent sc1 sc2, sim b sc1 sc2 -> scope_ok sc1 = true ->
    stmt_sim b (eval_node_g callf parent sc1 n) (eval_node_g callf parent sc2 (subst_node b n)).
Proof.
  induction n as [nm v i|nm v|t|s body IH|sel body IH|mn mp mb IH|cn ca] using node_ind';
    intros Hin callf parent sc1 sc2 Hsim Hok; try contradiction.
  - (* declaration *)
    cbn [inl_ok] in Hin. cbn [eval_node_g subst_node].
    rewrite (preprocess_noexpr nm v Hin), (preprocess_noexpr nm _ (subst_ok b v Hin)).
    destruct (eval_value Eval.value_fuel sc1 v) as [val|cl ms|ty|] eqn:Hv; cbn [rbind stmt_sim]; try exact I.
    rewrite (subst_value b Eval.value_fuel sc1 sc2 v val Hsim Hok Hin Hv). cbn [rbind]. eauto.
  - (* definition *)
    cbn [inl_ok] in Hin. destruct Hin as [Hv Hx]. cbn [eval_node_g subst_node stmt_sim].
    eexists. split; [reflexivity|]. split; [apply sim_add; assumption|apply add_variable_ok; assumption].
  - (* statement *)
    cbn [eval_node_g subst_node stmt_sim]. eauto.
  - (* keyframe frame *)
    cbn [inl_ok] in Hin. apply inl_ok_all in Hin. cbn [eval_node_g subst_node]. rewrite subst_node_go.
    pose proof (body_loop_sim b (eval_node_g callf parent) body) as Hloop.
    assert (Forall (fun n => forall sa sb, sim b sa sb -> scope_ok sa = true ->
                      stmt_sim b (eval_node_g callf parent sa n) (eval_node_g callf parent sb (subst_node b n))) body) as HF.
    { clear Hloop. induction IH as [|c r IHc IHr IHF]; constructor.
      - inversion Hin; subst. intros sa sb Hs Ho. apply IHc; assumption.
      - inversion Hin; subst. apply IHF. assumption. }
    specialize (Hloop HF (push sc1) (push sc2) (sim_push b sc1 sc2 Hsim) (push_ok sc1 Hok)).
    match goal with |- stmt_sim b (rbind ?a _) (rbind ?a' _) => destruct a as [inner|cl ms|ty|]; cbn [rbind stmt_sim loop_sim] in *; try exact I end.
    rewrite Hloop. cbn [rbind]. eauto.
  - (* rule *)
    cbn [inl_ok] in Hin. apply inl_ok_all in Hin. cbn [eval_node_g subst_node]. rewrite subst_node_go.
    set (cp := if sets_current sel then Some (ident_parse parent sel) else parent).
    pose proof (body_loop_sim b (eval_node_g callf cp) body) as Hloop.
    assert (Forall (fun n => forall sa sb, sim b sa sb -> scope_ok sa = true ->
                      stmt_sim b (eval_node_g callf cp sa n) (eval_node_g callf cp sb (subst_node b n))) body) as HF.
    { clear Hloop. induction IH as [|c r IHc IHr IHF]; constructor.
      - inversion Hin; subst. intros sa sb Hs Ho. apply IHc; assumption.
      - inversion Hin; subst. apply IHF. assumption. }
    specialize (Hloop HF (push sc1) (push sc2) (sim_push b sc1 sc2 Hsim) (push_ok sc1 Hok)).
    match goal with |- stmt_sim b (rbind ?a _) (rbind ?a' _) => destruct a as [inner|cl ms|ty|]; cbn [rbind stmt_sim loop_sim] in *; try exact I end.
    rewrite Hloop. cbn [rbind]. eauto.
  - (* nested definition *)
    cbn [eval_node_g subst_node stmt_sim]. eauto.
Qed.

Definition body_sim (r1 r2 : outcome (list obj * scope)) : Prop :=
  match r1 with ROk (os, _) => exists sc2', r2 = ROk (os, sc2') | _ => True end.

Theorem subst_body_sim b callf parent : forall body sc1 sc2,
  Forall (inl_ok b) body -> sim b sc1 sc2 -> scope_ok sc1 = true ->
  body_sim (eval_body callf parent sc1 body) (eval_body callf parent sc2 (map (subst_node b) body)).
Proof.
  induction body as [|c r IH]; intros sc1 sc2 Hall Hsim Hok.
  - cbn [eval_body map body_sim]. eauto.
  - inversion Hall as [|? ? Hc Hr]; subst. cbn [eval_body map].
    pose proof (subst_node_sim b c Hc callf parent sc1 sc2 Hsim Hok) as Hc1.
    destruct (eval_node_g callf parent sc1 c) as [[os1 sa]|cl ms|ty|]; cbn [rbind body_sim]; try exact I.
    cbn [stmt_sim] in Hc1. destruct Hc1 as (sa2 & Hc2 & Hs' & Ho'). rewrite Hc2. cbn [rbind].
    specialize (IH sa sa2 Hr Hs' Ho').
    destruct (eval_body callf parent sa r) as [[rest sb]|cl ms|ty|]; cbn [rbind body_sim] in *; try exact I.
    destruct IH as (sb2 & Hr2). rewrite Hr2. cbn [rbind]. eauto.
Qed.

(* ---- from the call to the substitution ---- *)
(* positional binding without defaults: every parameter gets its argument *)
Fixpoint zip_binds (params : list (str * option (list vtok))) (args : list (list str)) : option binds :=
  match params, args with
  | [], _ => Some []
  | (p, _) :: pr, a :: ar => option_map (cons (p, a)) (zip_binds pr ar)
  | _ :: _, [] => None
  end.
Definition arguments_strs (args : list (list str)) : list str := flat_map (fun a => a ++ [blank_tok]) args.
Lemma arguments_value_lits args : arguments_value args = map VT (arguments_strs args).
Proof.
  unfold arguments_value, arguments_strs. induction args as [|a r IH]; [reflexivity|]. cbn [flat_map].
  rewrite IH, !map_app. reflexivity.
Qed.

(* what the scope looks like after bind_params: the zipped bindings, later ones first *)
Lemma bind_params_zip : forall params args sc zb, zip_binds params args = Some zb ->
  exists sc1, bind_params params args sc = Some sc1 /\
    (forall x, variables x sc1 = match assoc x (rev zb) with Some a => Some (map VT a) | None => variables x sc end) /\
    (scope_ok sc = true -> scope_ok sc1 = true).
Proof.
  induction params as [|[p d] pr IH]; intros args sc zb Hz.
  - cbn [zip_binds] in Hz. injection Hz as <-. exists sc. cbn [bind_params rev assoc]. auto.
  - destruct args as [|a ar]; [discriminate|]. cbn [zip_binds] in Hz.
    destruct (zip_binds pr ar) as [zb'|] eqn:Ez; [|discriminate]. injection Hz as <-.
    destruct (IH ar (add_variable p (map VT a) sc) zb' Ez) as (sc1 & Hb & Hl & Hk).
    exists sc1. cbn [bind_params]. split; [exact Hb|]. split.
    + intros x. rewrite Hl. cbn [rev].
      assert (forall (l1 : binds) k w, assoc x (l1 ++ [(k, w)]) = match assoc x l1 with Some a0 => Some a0 | None => if str_eqb x k then Some w else None end) as Hsnoc.
      { induction l1 as [|[k1 w1] l1 IHl]; intros k w; cbn [app assoc]; [destruct (str_eqb x k); reflexivity|].
        destruct (str_eqb x k1); [reflexivity|apply IHl]. }
      rewrite Hsnoc. destruct (assoc x (rev zb')); [reflexivity|]. rewrite variables_add. destruct (str_eqb x p); reflexivity.
    + intros Hs. apply Hk. apply add_variable_ok; [apply val_ok_lits|exact Hs].
Qed.

(* hygiene at the call site: nothing visible there mentions a bound name (so substitution leaves the caller's values alone) *)
Definition closed_under (b : binds) (sc : scope) : Prop :=
  forall x v, variables x sc = Some v -> subst_val b v = v.

Theorem call_is_inlining defs fuel pre d post name args parent sc os sc' zb :
  defs = pre ++ d :: post ->
  (forall x, In x pre -> str_eqb (m_name x) name = false) ->
  str_eqb (m_name d) name = true -> m_body d <> [] ->
  args <> [] ->
  zip_binds (m_params d) args = Some zb ->
  let b := ($"@arguments", arguments_strs args) :: rev zb in
  Forall (inl_ok b) (m_body d) ->
  scope_ok sc = true -> closed_under b sc ->
  call_mixin defs (S fuel) name args parent sc = ROk (os, sc') ->
  exists sc'', eval_body (call_mixin defs fuel) parent sc (map (subst_node b) (m_body d)) = ROk (os, sc'').
Proof.
  intros Hd Hpre Hn Hb Hargs Hz b Hbody Hok Hcl H.
  destruct (bind_params_zip (m_params d) args sc zb Hz) as (sc1 & Hbp & Hl & Hk).
  rewrite (call_is_body defs fuel pre d post name args parent sc sc1 Hd Hpre Hn Hb Hbp) in H.
  assert (arguments_of (m_params d) args = map VT (arguments_strs args)) as Ha.
  { unfold arguments_of. destruct args; [contradiction|]. apply arguments_value_lits. }
  rewrite Ha in H.
  assert (sim b (add_variable $"@arguments" (map VT (arguments_strs args)) sc1) sc) as Hsim.
  2:{ pose proof (subst_body_sim b (call_mixin defs fuel) parent (m_body d) _ sc Hbody Hsim
                    (add_variable_ok _ _ _ (val_ok_lits _) (Hk Hok))) as Hs.
      rewrite H in Hs. exact Hs. }
  intros x. rewrite variables_add. subst b. cbn [assoc].
  destruct (str_eqb x $"@arguments"); [reflexivity|]. rewrite Hl.
  destruct (assoc x (rev zb)) as [a|]; [reflexivity|].
  destruct (variables x sc) as [v|] eqn:Ev; [|reflexivity]. cbn [option_map]. f_equal. symmetry. exact (Hcl x v Ev).
Qed.
