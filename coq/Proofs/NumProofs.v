(* NumProofs.v — lemmas for C17 (numeric built-ins agree with exact arithmetic).
   The functions builtin_*_py / away_from_zero_round_py are TRANSLATED from the python source on
   every run (Gen/Params.v); the proofs unfold them, so a change of the code's arithmetic re-opens them. *)
From Coq Require Import String.
From Coq Require Import List Ascii Bool ZArith QArith Qround Qabs Lia Lqa.
Require Import Model.Text Model.ParamTypes Model.Num Model.PyNum Gen.PNumeric Model.Number Spec.NumSpec.
Import ListNotations.
Local Open Scope Q_scope.

Lemma Qle_bool_false a b : Qle_bool a b = false -> b < a.
Proof. intros H. apply Qnot_le_lt. intro C. apply Qle_bool_iff in C. congruence. Qed.

Lemma floor_bounds y : inject_Z (Qfloor y) <= y /\ y < inject_Z (Qfloor y) + 1.
Proof. split; [apply Qfloor_le|]. pose proof (Qlt_floor y) as H. rewrite inject_Z_plus in H. exact H. Qed.

Lemma Qfloor_inject_Z z : Qfloor (inject_Z z) = z.
Proof. unfold Qfloor, inject_Z. simpl. apply Z.div_1_r. Qed.
Lemma Qceiling_inject_Z z : Qceiling (inject_Z z) = z.
Proof. unfold Qceiling. rewrite <- inject_Z_opp, Qfloor_inject_Z. lia. Qed.
Lemma Qtrunc_inject_Z z : Qtrunc (inject_Z z) = z.
Proof. unfold Qtrunc. destruct (Qle_bool 0 (inject_Z z)); [apply Qfloor_inject_Z|apply Qceiling_inject_Z]. Qed.

Lemma Qfloor_unique (x : Q) (z : Z) : inject_Z z <= x -> x < inject_Z z + 1 -> Qfloor x = z.
Proof.
  intros H1 H2. destruct (floor_bounds x) as [F1 F2].
  assert (inject_Z (Qfloor x) < inject_Z (z + 1)) as A by (rewrite inject_Z_plus; change (inject_Z 1) with 1; lra).
  assert (inject_Z z < inject_Z (Qfloor x + 1)) as B by (rewrite inject_Z_plus; change (inject_Z 1) with 1; lra).
  rewrite <- Zlt_Qlt in A, B. lia.
Qed.

(* ---- what "round half away from zero" means ---- *)
Lemma round_haz_near x : Qabs (inject_Z (round_haz x) - x) <= 1#2.
Proof.
  unfold round_haz. apply Qabs_Qle_condition.
  destruct (Qle_bool 0 x) eqn:E.
  - destruct (floor_bounds (x + (1#2))) as [H1 H2].
    remember (inject_Z (Qfloor (x + (1#2)))) as f; clear Heqf. split; lra.
  - destruct (floor_bounds (- x + (1#2))) as [H1 H2]. rewrite inject_Z_opp.
    remember (inject_Z (Qfloor (- x + (1#2)))) as f; clear Heqf. split; lra.
Qed.
Lemma round_haz_tie_pos (k : Z) : (0 <= k)%Z -> round_haz (inject_Z k + (1#2)) = (k + 1)%Z.
Proof.
  intros Hk. unfold round_haz.
  assert (0 <= inject_Z k) as H0 by (change 0 with (inject_Z 0); now rewrite <- Zle_Qle).
  destruct (Qle_bool 0 (inject_Z k + (1#2))) eqn:E.
  - apply Qfloor_unique; rewrite inject_Z_plus; change (inject_Z 1) with 1; lra.
  - apply Qle_bool_false in E. lra.
Qed.
Lemma round_haz_tie_neg (k : Z) : (0 <= k)%Z -> round_haz (- (inject_Z k + (1#2))) = (- (k + 1))%Z.
Proof.
  intros Hk. unfold round_haz.
  assert (0 <= inject_Z k) as H0 by (change 0 with (inject_Z 0); now rewrite <- Zle_Qle).
  destruct (Qle_bool 0 (- (inject_Z k + (1#2)))) eqn:E.
  - apply Qle_bool_iff in E. lra.
  - f_equal. apply Qfloor_unique; rewrite inject_Z_plus; change (inject_Z 1) with 1; lra.
Qed.

(* ---- the translated code ---- *)
Lemma py_pow_10_0 : py_pow (10#1) 0 == 1.
Proof. reflexivity. Qed.

Lemma py_abs_nonneg x : 0 <= x -> py_abs x == x.
Proof. intros H. unfold py_abs. apply Qle_bool_iff in H. now rewrite H. Qed.
Lemma py_abs_neg x : x < 0 -> py_abs x == - x.
Proof.
  intros H. unfold py_abs. destruct (Qle_bool 0 x) eqn:E; [apply Qle_bool_iff in E; lra|reflexivity].
Qed.
Lemma floor_nonneg y : 0 <= y -> 0 <= inject_Z (Qfloor y).
Proof.
  intros H. change 0 with (inject_Z 0). rewrite <- Zle_Qle.
  change (Qfloor 0 <= Qfloor y)%Z. now apply Qfloor_resp_le.
Qed.

Lemma away_round_correct x : away_from_zero_round_py x 0 == inject_Z (round_haz x).
Proof.
  unfold away_from_zero_round_py, round_haz, py_floor, py_copysign.
  change (py_pow (10#1) 0) with 1.
  destruct (Qle_bool 0 x) eqn:E.
  - apply Qle_bool_iff in E.
    assert (py_abs x * 1 + (1#2) == x + (1#2)) as -> by (rewrite py_abs_nonneg by assumption; ring).
    rewrite py_abs_nonneg by (apply floor_nonneg; lra). field.
  - apply Qle_bool_false in E.
    assert (py_abs x * 1 + (1#2) == - x + (1#2)) as -> by (rewrite py_abs_neg by assumption; ring).
    rewrite py_abs_nonneg by (apply floor_nonneg; lra). rewrite inject_Z_opp. field.
Qed.

Lemma py_int_inject_Z z : py_int (inject_Z z) = inject_Z z.
Proof. unfold py_int. now rewrite Qtrunc_inject_Z. Qed.

Lemma Qtrunc_comp a b : a == b -> Qtrunc a = Qtrunc b.
Proof.
  intros H. unfold Qtrunc. rewrite (Qleb_comp 0 0 (Qeq_refl 0) a b H).
  destruct (Qle_bool 0 b); [now rewrite H|]. unfold Qceiling. now rewrite H.
Qed.

Lemma builtin_round_correct x : builtin_round_py x == spec_round x.
Proof.
  unfold builtin_round_py, spec_round, py_float, py_int.
  rewrite (Qtrunc_comp _ _ (away_round_correct x)). now rewrite Qtrunc_inject_Z.
Qed.
Lemma builtin_ceil_correct x : builtin_ceil_py x == spec_ceil x.
Proof. unfold builtin_ceil_py, spec_ceil, py_ceil. now rewrite py_int_inject_Z. Qed.
Lemma builtin_floor_correct x : builtin_floor_py x == spec_floor x.
Proof. unfold builtin_floor_py, spec_floor, py_floor. now rewrite py_int_inject_Z. Qed.
Lemma builtin_increment_correct x : builtin_increment_py x == spec_increment x.
Proof. unfold builtin_increment_py, spec_increment. ring. Qed.
Lemma builtin_decrement_correct x : builtin_decrement_py x == spec_decrement x.
Proof. unfold builtin_decrement_py, spec_decrement. ring. Qed.

(* percentage: exact whenever the argument has at most 12 decimals (x * 10^12 integral) *)
Lemma py_round0_inject_Z z : py_round0 (inject_Z z) == inject_Z z.
Proof.
  unfold py_round0. rewrite Qfloor_inject_Z.
  assert (Qlt_bool (inject_Z z - inject_Z z) (1#2) = true) as ->; [|reflexivity].
  unfold Qlt_bool. apply negb_true_iff. destruct (Qle_bool (1#2) (inject_Z z - inject_Z z)) eqn:E; [|reflexivity].
  apply Qle_bool_iff in E. lra.
Qed.
Lemma py_round0_comp a b : a == b -> py_round0 a == py_round0 b.
Proof.
  intros H. unfold py_round0. rewrite (Qfloor_comp _ _ H).
  unfold Qlt_bool.
  assert (a - inject_Z (Qfloor b) == b - inject_Z (Qfloor b)) as Hd by now rewrite H.
  rewrite (Qleb_comp (1#2) (1#2) (Qeq_refl _) _ _ Hd).
  rewrite (Qleb_comp _ _ Hd (1#2) (1#2) (Qeq_refl _)).
  reflexivity.
Qed.
Lemma builtin_percentage_correct x (k : Z) :
  x * (1000000000000#1) == inject_Z k -> builtin_percentage_py x == spec_percentage x.
Proof.
  intros Hk. unfold builtin_percentage_py, spec_percentage.
  assert (py_round (x * (100#1)) (10#1) == 100 * x) as R.
  { unfold py_round. change (py_pow 10 (10#1)) with (10000000000#1).
    rewrite (py_round0_comp _ (inject_Z k)); [|rewrite <- Hk; ring].
    rewrite py_round0_inject_Z. rewrite <- Hk. field. }
  match goal with |- (if ?c then _ else _) == _ => destruct c eqn:E end.
  - unfold py_eq in E. apply Qeq_bool_iff in E. now rewrite <- E.
  - exact R.
Qed.

(* ---- the built-in as called on a number token: unit preserved, zero prints bare ---- *)
Lemma with_unit_val q u : nv (with_unit q u) == q.
Proof. unfold with_unit. destruct (Qeq_bool q 0) eqn:E; [apply Qeq_bool_iff in E; simpl; now rewrite E|reflexivity]. Qed.
Lemma with_unit_unit q u : ~ q == 0 -> nu (with_unit q u) = u.
Proof. intros H. unfold with_unit. destruct (Qeq_bool q 0) eqn:E; [apply Qeq_bool_iff in E; contradiction|reflexivity]. Qed.

Definition twelve_decimals (x : Q) : Prop := exists k : Z, x * (1000000000000#1) == inject_Z k.

(* table facts: the unit each built-in forces (only percentage does) *)
Lemma tf_builtin_units :
  (builtin_round_unit, builtin_ceil_unit, builtin_floor_unit, builtin_increment_unit, builtin_decrement_unit)
    = (@None str, @None str, @None str, @None str, @None str) /\ builtin_percentage_unit = Some $"%".
Proof. split; reflexivity. Qed.

Lemma call_builtin_gen name arg n f fu spec :
  assoc name builtin_table = Some (f, fu) -> parse_number arg = Some n -> f (nv n) == spec ->
  exists r, call_builtin name arg = Some r /\ nv r == spec /\
            (~ nv r == 0 -> nu r = match fu with Some u => u | None => nu n end).
Proof.
  intros Ha Hp Hf. unfold call_builtin. rewrite Ha, Hp. eexists. split; [reflexivity|]. split.
  - now rewrite with_unit_val.
  - intros Hnz. apply with_unit_unit. now rewrite with_unit_val in Hnz.
Qed.

Definition builtin_meets (name : str) (spec : Q -> Q) (forced : option str) (dom : Q -> Prop) : Prop :=
  forall arg n, parse_number arg = Some n -> dom (nv n) ->
  exists r, call_builtin name arg = Some r /\ nv r == spec (nv n) /\
            (~ nv r == 0 -> nu r = match forced with Some u => u | None => nu n end).

Lemma builtins_correct :
  builtin_meets $"round" spec_round None (fun _ => True) /\
  builtin_meets $"ceil" spec_ceil None (fun _ => True) /\
  builtin_meets $"floor" spec_floor None (fun _ => True) /\
  builtin_meets $"increment" spec_increment None (fun _ => True) /\
  builtin_meets $"decrement" spec_decrement None (fun _ => True) /\
  builtin_meets $"percentage" spec_percentage (Some $"%") twelve_decimals.
Proof.
  destruct tf_builtin_units as [Hu Hpu].
  assert (builtin_round_unit = None /\ builtin_ceil_unit = None /\ builtin_floor_unit = None /\
          builtin_increment_unit = None /\ builtin_decrement_unit = None) as (U1 & U2 & U3 & U4 & U5)
    by (repeat split; congruence).
  unfold builtin_meets. repeat split; intros arg n Hp Hd.
  - destruct (call_builtin_gen $"round" arg n _ _ _ eq_refl Hp (builtin_round_correct (nv n))) as (r & A & B & C).
    exists r. rewrite U1 in C. auto.
  - destruct (call_builtin_gen $"ceil" arg n _ _ _ eq_refl Hp (builtin_ceil_correct (nv n))) as (r & A & B & C).
    exists r. rewrite U2 in C. auto.
  - destruct (call_builtin_gen $"floor" arg n _ _ _ eq_refl Hp (builtin_floor_correct (nv n))) as (r & A & B & C).
    exists r. rewrite U3 in C. auto.
  - destruct (call_builtin_gen $"increment" arg n _ _ _ eq_refl Hp (builtin_increment_correct (nv n))) as (r & A & B & C).
    exists r. rewrite U4 in C. auto.
  - destruct (call_builtin_gen $"decrement" arg n _ _ _ eq_refl Hp (builtin_decrement_correct (nv n))) as (r & A & B & C).
    exists r. rewrite U5 in C. auto.
  - destruct Hd as [k Hk].
    destruct (call_builtin_gen $"percentage" arg n _ _ _ eq_refl Hp (builtin_percentage_correct (nv n) k Hk)) as (r & A & B & C).
    exists r. rewrite Hpu in C. auto.
Qed.

(* number tokens are read exactly: sign, integer part, fractional part, unit *)
Lemma parse_number_example :
  parse_number $"-12.50px" = Some (MkNum (-(1250#100)) $"px") /\ parse_number $".5" = Some (MkNum (5#10) [])
  /\ parse_number $"7%" = Some (MkNum (7#1) $"%").
Proof. repeat split; reflexivity. Qed.
