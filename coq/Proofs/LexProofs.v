From Coq Require Import String.
From Coq Require Import List Ascii Bool NArith Lia.
Require Import Model.Text Model.ParamTypes Gen.Params Model.Lex.
Import ListNotations.
Open Scope char_scope.

(* ===================================================================================
   Layout independence on the lexer model (property C12).
   A GAP is any sequence of blank runs, line-break runs, block comments and line
   comments.  The theorems say what the lexer and LessLexer.token() do with a gap in
   every lexer state outside interpolated strings, for every token history.
   =================================================================================== *)

Inductive gitem := GBlank (w : str) | GNl (w : str) | GBlock (body : str) | GLine (body : str).
Definition render_item (g : gitem) : str :=
  match g with
  | GBlank w => w
  | GNl w => w
  | GBlock b => "/" :: "*" :: b ++ ["*"; "/"]
  | GLine b => "/" :: "/" :: b
  end.
Definition render_gap (g : list gitem) : str := flat_map render_item g.

Fixpoint has_close (x : str) : bool :=
  match x with
  | c :: r => (ch_eqb c "*" && match r with d :: _ => ch_eqb d "/" | [] => false end) || has_close r
  | [] => false
  end.
Definition nonempty (w : str) : bool := match w with [] => false | _ => true end.
Definition is_ws_item (g : gitem) : bool := match g with GBlank _ | GNl _ => true | _ => false end.
Definition has_ws (g : list gitem) : bool := existsb is_ws_item g.

(* well-formed gaps: runs are maximal (no two adjacent runs of the same class), a block comment body does not contain
   the closing mark, a line comment body has no line feed and is followed by a run that starts with a line feed *)
Fixpoint gap_wf (g : list gitem) : bool :=
  match g with
  | [] => true
  | GBlank w :: r => nonempty w && forallb is_blank w && match r with GBlank _ :: _ => false | _ => true end && gap_wf r
  | GNl w :: r => nonempty w && forallb is_nl w && match r with GNl _ :: _ => false | _ => true end && gap_wf r
  | GBlock b :: r => negb (has_close b) && gap_wf r
  | GLine b :: r => forallb not_lf b && match r with GNl (c :: _) :: _ => N.eqb (code c) 10 | _ => false end && gap_wf r
  end.
(* what follows the gap is not whitespace (otherwise the last run would not be maximal) *)
Definition nongap_start (x : str) : bool := match x with [] => true | c :: _ => negb (is_blank c) && negb (is_nl c) end.

(* lexer states in which a gap is layout: everything except the inside of an interpolated string *)
Definition gap_mode (m : mode) : bool := match m with MIStrQ | MIStrA => false | _ => true end.
Definition pop_isel (stk : list mode) : list mode := if mode_eqb (top stk) MISel then pop stk else stk.

Definition ws_tok : str * str := ($"t_ws", [" "]).

(* ---------- single characters ---------- *)
Lemma blank_cases c : is_blank c = true -> c = " " \/ c = "009" \/ c = "011" \/ c = "012".
Proof. destruct c as [[] [] [] [] [] [] [] []]; cbv; intros H; try discriminate; auto. Qed.
Lemma nl_cases c : is_nl c = true -> c = "010" \/ c = "013".
Proof. destruct c as [[] [] [] [] [] [] [] []]; cbv; intros H; try discriminate; auto. Qed.

Lemma span_app p w rest : forallb p w = true -> match rest with [] => True | c :: _ => p c = false end -> span p (w ++ rest) = (w, rest).
Proof.
  induction w as [|c w IH]; cbn [app span forallb]; intros Hw Hr.
  - destruct rest as [|c r]; [reflexivity|]. cbn [span]. now rewrite Hr.
  - apply andb_true_iff in Hw as [Hc Hw]. now rewrite Hc, IH.
Qed.

(* ---------- one step on a blank ---------- *)
Lemma step_blank st c r :
  is_blank c = true -> gap_mode (top (ls_stack st)) = true ->
  step st (c :: r) = Emit ws_tok (LS (pop_isel (ls_stack st)) (ls_inprop st)) 0 (snd (span is_blank (c :: r))).
Proof.
  intros Hc Hm. destruct st as [stk ip]. cbn [ls_stack ls_inprop] in *.
  apply blank_cases in Hc.
  destruct stk as [|m stk]; [|destruct m; try discriminate Hm];
    destruct Hc as [ -> | [ -> | [ -> | -> ] ] ]; cbn; destruct (span is_blank r); reflexivity.
Qed.

Lemma step_nl st c r :
  is_nl c = true -> gap_mode (top (ls_stack st)) = true ->
  step st (c :: r) = Emit ws_tok (LS (pop_isel (ls_stack st)) (ls_inprop st)) (count_nl (fst (span is_nl (c :: r)))) (snd (span is_nl (c :: r))).
Proof.
  intros Hc Hm. destruct st as [stk ip]. cbn [ls_stack ls_inprop] in *.
  apply nl_cases in Hc.
  destruct stk as [|m stk]; [|destruct m; try discriminate Hm];
    destruct Hc as [ -> | -> ]; cbn; destruct (span is_nl r); reflexivity.
Qed.

Lemma step_block st r l r' :
  gap_mode (top (ls_stack st)) = true -> find_comment_end r ["/"; "*"] = Some (l, r') ->
  step st ("/" :: "*" :: r) = Skip st (count_nl l) r'.
Proof.
  intros Hm Hf. destruct st as [stk ip]. cbn [ls_stack ls_inprop] in *.
  destruct stk as [|m stk]; [|destruct m; try discriminate Hm]; cbn; rewrite Hf; reflexivity.
Qed.

Lemma step_line st r :
  gap_mode (top (ls_stack st)) = true ->
  step st ("/" :: "/" :: r) = Skip st 0 (snd (span not_lf ("/" :: "/" :: r))).
Proof.
  intros Hm. destruct st as [stk ip]. cbn [ls_stack ls_inprop] in *.
  destruct stk as [|m stk]; [|destruct m; try discriminate Hm]; cbn; destruct (span not_lf r); reflexivity.
Qed.

(* ---------- comment bodies ---------- *)
Lemma find_end b : forall rest acc, has_close b = false ->
  find_comment_end (b ++ "*" :: "/" :: rest) acc = Some (acc ++ b ++ ["*"; "/"], rest).
Proof.
  induction b as [|c b IH]; intros rest acc H.
  - cbn. reflexivity.
  - cbn [has_close] in H. apply orb_false_iff in H as [H1 H2].
    cbn [app find_comment_end].
    assert (Hc : ch_eqb c "*" && match b ++ "*" :: "/" :: rest with d :: _ => ch_eqb d "/" | [] => false end = false).
    { destruct b as [|d b']; cbn [app]; [destruct (ch_eqb c "*"); reflexivity | exact H1]. }
    rewrite Hc, IH by exact H2. rewrite <- app_assoc. reflexivity.
Qed.

(* ---------- what a gap does to the lexer ---------- *)
Definition item_lines (i : gitem) : N :=
  match i with
  | GBlank _ => 0
  | GNl w => count_nl w
  | GBlock b => count_nl ("/" :: "*" :: b ++ ["*"; "/"])
  | GLine _ => 0
  end.
Fixpoint gap_lines (g : list gitem) : N := match g with [] => 0 | i :: r => item_lines i + gap_lines r end.
Fixpoint gap_stack (stk : list mode) (g : list gitem) : list mode :=
  match g with [] => stk | i :: r => gap_stack (if is_ws_item i then pop_isel stk else stk) r end.
Fixpoint gap_raw (stk : list mode) (line : N) (g : list gitem) : list (token * mode) :=
  match g with
  | [] => []
  | i :: r => let stk' := if is_ws_item i then pop_isel stk else stk in
              (if is_ws_item i then [(Tok ($"t_ws") [" "] line, top stk')] else []) ++ gap_raw stk' (line + item_lines i) r
  end.
Definition lprepend (l : list (token * mode)) (r : lexres) : lexres := fold_right lcons r l.

Definition head_fails (p : ascii -> bool) (x : str) : Prop := match x with [] => True | c :: _ => p c = false end.
Lemma blank_not_nl c : is_blank c = true -> is_nl c = false.
Proof. intros H. apply blank_cases in H as [ -> | [ -> | [ -> | -> ] ] ]; reflexivity. Qed.
Lemma nl_not_blank c : is_nl c = true -> is_blank c = false.
Proof. intros H. apply nl_cases in H as [ -> | -> ]; reflexivity. Qed.

Lemma next_not_blank r rest :
  gap_wf r = true -> match r with GBlank _ :: _ => False | _ => True end -> nongap_start rest = true ->
  head_fails is_blank (render_gap r ++ rest).
Proof.
  intros Hw Hr Hn. destruct r as [|i r].
  - cbn. destruct rest as [|c rest]; cbn in *; [exact I|]. apply andb_true_iff in Hn as [H _]. now apply negb_true_iff in H.
  - destruct i as [w|w|b|b]; cbn [render_gap flat_map render_item app]; try contradiction.
    + cbn [gap_wf] in Hw. repeat (apply andb_true_iff in Hw as [Hw ?]).
      destruct w as [|c w]; [discriminate|]. cbn. apply nl_not_blank. cbn in H1. now apply andb_true_iff in H1 as [H1 _].
    + reflexivity.
    + reflexivity.
Qed.
Lemma next_not_nl r rest :
  gap_wf r = true -> match r with GNl _ :: _ => False | _ => True end -> nongap_start rest = true ->
  head_fails is_nl (render_gap r ++ rest).
Proof.
  intros Hw Hr Hn. destruct r as [|i r].
  - cbn. destruct rest as [|c rest]; cbn in *; [exact I|]. apply andb_true_iff in Hn as [_ H]. now apply negb_true_iff in H.
  - destruct i as [w|w|b|b]; cbn [render_gap flat_map render_item app]; try contradiction.
    + cbn [gap_wf] in Hw. repeat (apply andb_true_iff in Hw as [Hw ?]).
      destruct w as [|c w]; [discriminate|]. cbn. apply blank_not_nl. cbn in H1. now apply andb_true_iff in H1 as [H1 _].
    + reflexivity.
    + reflexivity.
Qed.

Lemma gap_mode_pop_isel stk : forallb gap_mode stk = true -> forallb gap_mode (pop_isel stk) = true.
Proof.
  unfold pop_isel. destruct (mode_eqb (top stk) MISel); [|auto]. destruct stk as [|m s]; cbn; [auto|]. intros H. now apply andb_true_iff in H as [_ H].
Qed.
Lemma gap_mode_top stk : forallb gap_mode stk = true -> gap_mode (top stk) = true.
Proof. destruct stk as [|m s]; cbn; [reflexivity|]. intros H. now apply andb_true_iff in H as [H _]. Qed.

(* RAW STREAM: a gap yields one whitespace token per blank / line-break run and nothing else; comment bodies yield no token and
   consume exactly their own text *)
Theorem gap_raw_lex : forall g stk ip line rest n,
  gap_wf g = true -> forallb gap_mode stk = true -> nongap_start rest = true ->
  lex_run (List.length g + n) (LS stk ip) line (render_gap g ++ rest)
  = lprepend (gap_raw stk line g) (lex_run n (LS (gap_stack stk g) ip) (line + gap_lines g) rest).
Proof.
  induction g as [|i g IH]; intros stk ip line rest n Hw Hs Hn.
  - cbn. now rewrite N.add_0_r.
  - pose proof (gap_mode_top _ Hs) as Ht.
    destruct i as [w|w|b|b]; cbn [gap_wf] in Hw; repeat (apply andb_true_iff in Hw as [Hw ?]).
    + (* blank run *)
      destruct w as [|c w]; [discriminate|].
      match goal with H : forallb is_blank (c :: w) = true |- _ => pose proof H as Hb; cbn [forallb] in H; apply andb_true_iff in H as [Hc Hw'] end.
      cbn [List.length Nat.add lex_run render_gap flat_map render_item].
      change (flat_map render_item g) with (render_gap g). rewrite <- app_assoc. cbn [app].
      rewrite (step_blank (LS stk ip) c _ Hc Ht). cbn [ls_stack ls_inprop].
      change (c :: w ++ render_gap g ++ rest) with ((c :: w) ++ render_gap g ++ rest).
      rewrite (span_app is_blank (c :: w) _ Hb).
      2:{ apply next_not_blank; auto. destruct g as [|[] ?]; auto; discriminate. }
      cbn [snd ws_tok]. rewrite IH by (auto using gap_mode_pop_isel).
      cbn [gap_raw gap_stack gap_lines is_ws_item item_lines lprepend fold_right app]. rewrite ?N.add_0_l, ?N.add_0_r. reflexivity.
    + (* line-break run *)
      destruct w as [|c w]; [discriminate|].
      match goal with H : forallb is_nl (c :: w) = true |- _ => pose proof H as Hb; cbn [forallb] in H; apply andb_true_iff in H as [Hc Hw'] end.
      cbn [List.length Nat.add lex_run render_gap flat_map render_item].
      change (flat_map render_item g) with (render_gap g). rewrite <- app_assoc. cbn [app].
      rewrite (step_nl (LS stk ip) c _ Hc Ht). cbn [ls_stack ls_inprop].
      change (c :: w ++ render_gap g ++ rest) with ((c :: w) ++ render_gap g ++ rest).
      rewrite (span_app is_nl (c :: w) _ Hb).
      2:{ apply next_not_nl; auto. destruct g as [|[] ?]; auto; discriminate. }
      cbn [fst snd ws_tok]. rewrite IH by (auto using gap_mode_pop_isel).
      cbn [gap_raw gap_stack gap_lines is_ws_item item_lines lprepend fold_right app]. rewrite ?N.add_assoc. reflexivity.
    + (* block comment *)
      cbn [List.length Nat.add lex_run render_gap flat_map render_item].
      change (flat_map render_item g) with (render_gap g). cbn [app]. rewrite <- !app_assoc. cbn [app].
      apply negb_true_iff in Hw.
      rewrite (step_block (LS stk ip) _ _ _ Ht (find_end b (render_gap g ++ rest) ["/"; "*"] Hw)).
      rewrite IH by auto.
      cbn [gap_raw gap_stack gap_lines is_ws_item item_lines lprepend fold_right app]. rewrite ?N.add_assoc. reflexivity.
    + (* line comment *)
      cbn [List.length Nat.add lex_run render_gap flat_map render_item].
      change (flat_map render_item g) with (render_gap g). rewrite <- app_assoc. cbn [app].
      rewrite (step_line (LS stk ip) _ Ht).
      change ("/" :: "/" :: b ++ render_gap g ++ rest) with (("/" :: "/" :: b) ++ render_gap g ++ rest).
      rewrite (span_app not_lf ("/" :: "/" :: b)).
      2:{ cbn [forallb]. now rewrite Hw. }
      2:{ destruct g as [|[w|w|b'|b'] g']; try discriminate. destruct w as [|c w]; [discriminate|]. cbn.
          unfold not_lf. match goal with H : N.eqb (code c) 10 = true |- _ => now rewrite H end. }
      cbn [snd]. rewrite IH by auto.
      cbn [gap_raw gap_stack gap_lines is_ws_item item_lines lprepend fold_right app]. rewrite ?N.add_0_l, ?N.add_0_r. reflexivity.
Qed.

(* ---------- the filter (LessLexer.token) across a gap ---------- *)
Lemma tf_ws_not_significant : significant ($"t_ws") = false.
Proof. vm_compute. reflexivity. Qed.
Lemma tf_rule_order : list_eqb (fun a b => str_eqb (fst a) (fst b) && list_eqb str_eqb (snd a) (snd b)) lex_rule_order model_rule_order = true.
Proof. vm_compute. reflexivity. Qed.
Lemma tf_units : list_eqb str_eqb number_unit_alternatives model_units = true.
Proof. vm_compute. reflexivity. Qed.

Fixpoint gap_filt (f : fstate) (line : N) (g : list gitem) : list token * fstate :=
  match g with
  | [] => ([], f)
  | i :: r =>
      if is_ws_item i then
        if drops_ws f then gap_filt f (line + item_lines i) r
        else let '(o, f') := gap_filt (FS false (Some ($"t_ws"))) (line + item_lines i) r in (Tok ($"t_ws") [" "] line :: o, f')
      else gap_filt f (line + item_lines i) r
  end.

Lemma filt_step_ws f line st' :
  filt_step f (Tok ($"t_ws") [" "] line) st'
  = if drops_ws f then ([], f, st') else ([Tok ($"t_ws") [" "] line], FS false (Some ($"t_ws")), st').
Proof. unfold filt_step. cbn [tk_type]. destruct (drops_ws f); reflexivity. Qed.

Lemma tapp_nil r : tapp [] r = r.
Proof. destruct r; reflexivity. Qed.
Lemma tapp_cons t o r : tapp (t :: o) r = tapp [t] (tapp o r).
Proof. destruct r; reflexivity. Qed.

Theorem gap_filtered_lex : forall g f stk ip line rest n,
  gap_wf g = true -> forallb gap_mode stk = true -> nongap_start rest = true ->
  lex_filtered (List.length g + n) f (LS stk ip) line (render_gap g ++ rest)
  = tapp (fst (gap_filt f line g)) (lex_filtered n (snd (gap_filt f line g)) (LS (gap_stack stk g) ip) (line + gap_lines g) rest).
Proof.
  induction g as [|i g IH]; intros f stk ip line rest n Hw Hs Hn.
  - cbn. rewrite N.add_0_r. destruct (lex_filtered n f _ line rest); reflexivity.
  - pose proof (gap_mode_top _ Hs) as Ht.
    destruct i as [w|w|b|b]; cbn [gap_wf] in Hw; repeat (apply andb_true_iff in Hw as [Hw ?]).
    + destruct w as [|c w]; [discriminate|].
      match goal with H : forallb is_blank (c :: w) = true |- _ => pose proof H as Hb; cbn [forallb] in H; apply andb_true_iff in H as [Hc Hw'] end.
      cbn [List.length Nat.add lex_filtered render_gap flat_map render_item].
      change (flat_map render_item g) with (render_gap g). rewrite <- app_assoc. cbn [app].
      rewrite (step_blank (LS stk ip) c _ Hc Ht). cbn [ls_stack ls_inprop].
      change (c :: w ++ render_gap g ++ rest) with ((c :: w) ++ render_gap g ++ rest).
      rewrite (span_app is_blank (c :: w) _ Hb).
      2:{ apply next_not_blank; auto. destruct g as [|[] ?]; auto; discriminate. }
      cbn [snd ws_tok]. rewrite filt_step_ws.
      cbn [gap_filt gap_stack gap_lines is_ws_item item_lines]. rewrite ?N.add_0_l, ?N.add_0_r.
      destruct (drops_ws f).
      * rewrite IH by (auto using gap_mode_pop_isel). rewrite tapp_nil. reflexivity.
      * rewrite IH by (auto using gap_mode_pop_isel).
        destruct (gap_filt (FS false (Some ($"t_ws"))) line g) as [o f'] eqn:E. cbn [fst snd].
        rewrite (tapp_cons _ o). reflexivity.
    + destruct w as [|c w]; [discriminate|].
      match goal with H : forallb is_nl (c :: w) = true |- _ => pose proof H as Hb; cbn [forallb] in H; apply andb_true_iff in H as [Hc Hw'] end.
      cbn [List.length Nat.add lex_filtered render_gap flat_map render_item].
      change (flat_map render_item g) with (render_gap g). rewrite <- app_assoc. cbn [app].
      rewrite (step_nl (LS stk ip) c _ Hc Ht). cbn [ls_stack ls_inprop].
      change (c :: w ++ render_gap g ++ rest) with ((c :: w) ++ render_gap g ++ rest).
      rewrite (span_app is_nl (c :: w) _ Hb).
      2:{ apply next_not_nl; auto. destruct g as [|[] ?]; auto; discriminate. }
      cbn [fst snd ws_tok]. rewrite filt_step_ws.
      cbn [gap_filt gap_stack gap_lines is_ws_item item_lines]. rewrite ?N.add_assoc.
      destruct (drops_ws f).
      * rewrite IH by (auto using gap_mode_pop_isel). rewrite tapp_nil. reflexivity.
      * rewrite IH by (auto using gap_mode_pop_isel).
        destruct (gap_filt (FS false (Some ($"t_ws"))) (line + count_nl (c :: w)) g) as [o f'] eqn:E. cbn [fst snd].
        rewrite (tapp_cons _ o). reflexivity.
    + cbn [List.length Nat.add lex_filtered render_gap flat_map render_item].
      change (flat_map render_item g) with (render_gap g). cbn [app]. rewrite <- !app_assoc. cbn [app].
      apply negb_true_iff in Hw.
      rewrite (step_block (LS stk ip) _ _ _ Ht (find_end b (render_gap g ++ rest) ["/"; "*"] Hw)).
      rewrite IH by auto.
      cbn [gap_filt gap_stack gap_lines is_ws_item item_lines]. rewrite ?N.add_assoc. reflexivity.
    + cbn [List.length Nat.add lex_filtered render_gap flat_map render_item].
      change (flat_map render_item g) with (render_gap g). rewrite <- app_assoc. cbn [app].
      rewrite (step_line (LS stk ip) _ Ht).
      change ("/" :: "/" :: b ++ render_gap g ++ rest) with (("/" :: "/" :: b) ++ render_gap g ++ rest).
      rewrite (span_app not_lf ("/" :: "/" :: b)).
      2:{ cbn [forallb]. now rewrite Hw. }
      2:{ destruct g as [|[w|w|b'|b'] g']; try discriminate. destruct w as [|c w]; [discriminate|]. cbn.
          unfold not_lf. match goal with H : N.eqb (code c) 10 = true |- _ => now rewrite H end. }
      cbn [snd]. rewrite IH by auto.
      cbn [gap_filt gap_stack gap_lines is_ws_item item_lines]. rewrite ?N.add_0_l, ?N.add_0_r. reflexivity.
Qed.

(* ---------- the gap matters only through "does it contain whitespace" ---------- *)
Lemma gap_filt_char : forall g f line,
  exists l, gap_filt f line g = if has_ws g && negb (drops_ws f) then ([Tok ($"t_ws") [" "] l], FS false (Some ($"t_ws"))) else ([], f).
Proof.
  assert (Hd : drops_ws (FS false (Some ($"t_ws"))) = true) by (unfold drops_ws; cbn [fs_pretok fs_last]; now rewrite tf_ws_not_significant).
  induction g as [|i g IH]; intros f line.
  - exists line. reflexivity.
  - cbn [gap_filt has_ws existsb]. destruct (is_ws_item i) eqn:Ei.
    + destruct (drops_ws f) eqn:Ed.
      * destruct (IH f (line + item_lines i)%N) as [l Hl]. exists l. rewrite Hl. change (existsb is_ws_item g) with (has_ws g). rewrite Ed. now rewrite !andb_false_r.
      * destruct (IH (FS false (Some ($"t_ws"))) (line + item_lines i)%N) as [l Hl]. rewrite Hl, Hd, andb_false_r. exists line. reflexivity.
    + destruct (IH f (line + item_lines i)%N) as [l Hl]. exists l. rewrite Hl. reflexivity.
Qed.

Definition isel_once (stk : list mode) : bool := negb (mode_eqb (top (pop_isel stk)) MISel).
Lemma pop_isel_idem stk : isel_once stk = true -> pop_isel (pop_isel stk) = pop_isel stk.
Proof. unfold isel_once. intros H. apply negb_true_iff in H. unfold pop_isel at 1. now rewrite H. Qed.
Lemma gap_stack_char : forall g stk, isel_once stk = true -> gap_stack stk g = if has_ws g then pop_isel stk else stk.
Proof.
  induction g as [|i g IH]; intros stk H; [reflexivity|].
  cbn [gap_stack has_ws existsb]. destruct (is_ws_item i); cbn [orb].
  - rewrite IH.
    + rewrite pop_isel_idem by exact H. now destruct (has_ws g).
    + unfold isel_once. rewrite pop_isel_idem by exact H. exact H.
  - apply IH, H.
Qed.

(* ---------- line numbers do not influence types and values ---------- *)
Definition erase_tok (t : token) : str * str := (tk_type t, tk_val t).
Definition erase (r : tokres) : list (str * str) * option (option ascii) :=
  match r with
  | TOk ts => (map erase_tok ts, None)
  | TIllegal ts c _ => (map erase_tok ts, Some (Some c))
  | TUnsupported => ([], Some None)
  end.
Lemma erase_tapp_congr o1 o2 r1 r2 :
  map erase_tok o1 = map erase_tok o2 -> erase r1 = erase r2 -> erase (tapp o1 r1) = erase (tapp o2 r2).
Proof.
  intros Ho Hr. destruct r1, r2; cbn in *; try discriminate; try reflexivity;
    injection Hr as Hts; subst; rewrite ?map_app, ?Ho; congruence.
Qed.
Lemma filt_step_line f ty v l l' st' :
  map erase_tok (fst (fst (filt_step f (Tok ty v l) st'))) = map erase_tok (fst (fst (filt_step f (Tok ty v l') st')))
  /\ snd (fst (filt_step f (Tok ty v l) st')) = snd (fst (filt_step f (Tok ty v l') st'))
  /\ snd (filt_step f (Tok ty v l) st') = snd (filt_step f (Tok ty v l') st').
Proof.
  unfold filt_step. cbn [tk_type tk_line].
  destruct (str_eqb ty ($"t_ws") && drops_ws f); [auto|].
  destruct (str_eqb ty ($"t_bclose") && injects f (top (ls_stack st'))); cbn; auto.
Qed.
Theorem line_shift : forall n f st l l' x, erase (lex_filtered n f st l x) = erase (lex_filtered n f st l' x).
Proof.
  induction n as [|n IH]; intros f st l l' x; [reflexivity|].
  cbn [lex_filtered]. destruct (step st x) as [[ty v] st' dl rest|st' dl rest|c| |]; try reflexivity.
  - destruct (filt_step_line f ty v l l' st') as (H1 & H2 & H3).
    destruct (filt_step f (Tok ty v l) st') as [[o1 f1] s1], (filt_step f (Tok ty v l') st') as [[o2 f2] s2].
    cbn [fst snd] in *. subst. apply erase_tapp_congr; [exact H1 | apply IH].
  - apply IH.
Qed.

(* LAYOUT INDEPENDENCE of the token stream handed to the parser: two gaps at the same place, both with or both without
   whitespace, whatever their runs, comments and line endings are, give the same types and values (only line numbers move) *)
Theorem layout_independent : forall g1 g2 f stk ip l1 l2 rest n,
  gap_wf g1 = true -> gap_wf g2 = true -> has_ws g1 = has_ws g2 ->
  forallb gap_mode stk = true -> isel_once stk = true -> nongap_start rest = true ->
  erase (lex_filtered (List.length g1 + n) f (LS stk ip) l1 (render_gap g1 ++ rest))
  = erase (lex_filtered (List.length g2 + n) f (LS stk ip) l2 (render_gap g2 ++ rest)).
Proof.
  intros g1 g2 f stk ip l1 l2 rest n W1 W2 Hh Hs Ho Hn.
  rewrite !gap_filtered_lex by assumption.
  rewrite !gap_stack_char by assumption. rewrite <- Hh.
  destruct (gap_filt_char g1 f l1) as [a Ha], (gap_filt_char g2 f l2) as [b Hb].
  rewrite Ha, Hb, <- Hh.
  destruct (has_ws g1 && negb (drops_ws f)); cbn [fst snd]; (apply erase_tapp_congr; [reflexivity | apply line_shift]).
Qed.

(* ---------- the last semicolon of a block ---------- *)
Definition fequiv (f1 f2 : fstate) : Prop := drops_ws f1 = drops_ws f2 /\ forall m, injects f1 m = injects f2 m.
Lemma fequiv_refl f : fequiv f f. Proof. split; auto. Qed.
Lemma filt_step_equiv f1 f2 t st' : fequiv f1 f2 ->
  fst (fst (filt_step f1 t st')) = fst (fst (filt_step f2 t st'))
  /\ fequiv (snd (fst (filt_step f1 t st'))) (snd (fst (filt_step f2 t st')))
  /\ snd (filt_step f1 t st') = snd (filt_step f2 t st').
Proof.
  intros [Hd Hi]. unfold filt_step. rewrite Hd, (Hi (top (ls_stack st'))).
  destruct (str_eqb (tk_type t) ($"t_ws") && drops_ws f2); cbn [fst snd]; [repeat split; auto|].
  destruct (str_eqb (tk_type t) ($"t_bclose") && injects f2 (top (ls_stack st'))); cbn [fst snd]; repeat split; auto.
Qed.
Lemma lex_filtered_equiv : forall n f1 f2 st l x, fequiv f1 f2 -> lex_filtered n f1 st l x = lex_filtered n f2 st l x.
Proof.
  induction n as [|n IH]; intros f1 f2 st l x E; [reflexivity|].
  cbn [lex_filtered]. destruct (step st x) as [[ty v] st' dl rest|st' dl rest|c| |]; try reflexivity.
  - destruct (filt_step_equiv f1 f2 (Tok ty v l) st' E) as (H1 & H2 & H3).
    destruct (filt_step f1 (Tok ty v l) st') as [[o1 g1] s1], (filt_step f2 (Tok ty v l) st') as [[o2 g2] s2].
    cbn [fst snd] in *. subst. f_equal. apply IH, H2.
  - apply IH, E.
Qed.

Lemma tf_terminators_not_significant : significant ($"t_semicolon") = false /\ significant ($"t_bclose") = false /\ significant ($"t_bopen") = false.
Proof. vm_compute. auto. Qed.

Lemma step_semicolon_init stk ip r : top stk = MInit -> step (LS stk ip) (";" :: r) = Emit ($"t_semicolon", [";"]) (LS stk false) 0 r.
Proof. intros H. unfold step. cbn [ls_stack]. rewrite H. reflexivity. Qed.
Lemma step_bclose_init stk ip r : top stk = MInit -> step (LS stk ip) ("}" :: r) = Emit ($"t_bclose", ["}"]) (LS stk ip) 0 r.
Proof. intros H. unfold step. cbn [ls_stack]. rewrite H. reflexivity. Qed.
Lemma gap_stack_init : forall g stk, top stk = MInit -> gap_stack stk g = stk.
Proof.
  induction g as [|i g IH]; intros stk H; [reflexivity|]. cbn [gap_stack].
  assert (pop_isel stk = stk) as -> by (unfold pop_isel; now rewrite H).
  destruct (is_ws_item i); now apply IH.
Qed.

Definition semi_tok (l : N) := Tok ($"t_semicolon") [";"] l.
Definition bclose_tok (l : N) := Tok ($"t_bclose") ["}"] l.

(* after a token that calls for the injected ';' (any token but '{', '}' and ';'), in the plain lexer state:
   with the semicolon written, and with it omitted, the parser receives  ';' '}'  followed by the same continuation; the only
   difference is that the omitted form may keep one whitespace token in front of the injected ';' *)
Theorem last_semicolon : forall g f last stk ip line rest n,
  gap_wf g = true -> top stk = MInit -> forallb gap_mode stk = true ->
  fs_pretok f = false -> fs_last f = Some last -> no_inject_before last = false ->
  let line' := (line + gap_lines g)%N in
  let tail := lex_filtered n (FS false (Some ($"t_semicolon"))) (LS stk false) line' rest in
  lex_filtered (S (List.length g + S n)) f (LS stk ip) line (";" :: render_gap g ++ "}" :: rest)
    = tapp [semi_tok line; bclose_tok line'] tail
  /\ lex_filtered (List.length g + S n) f (LS stk ip) line (render_gap g ++ "}" :: rest)
    = tapp (fst (gap_filt f line g) ++ [semi_tok line'; bclose_tok line']) tail.
Proof.
  intros g f last stk ip line rest n Hw Ht Hs Hp Hl Hni line' tail.
  destruct tf_terminators_not_significant as (Ts & Tc & _).
  assert (Hn : nongap_start ("}" :: rest) = true) by reflexivity.
  split.
  - cbn [lex_filtered]. rewrite step_semicolon_init by exact Ht.
    assert (E1 : filt_step f (Tok ($"t_semicolon") [";"] line) (LS stk false) = ([semi_tok line], FS false (Some ($"t_semicolon")), LS stk false)) by reflexivity.
    rewrite E1. rewrite N.add_0_r.
    rewrite gap_filtered_lex by assumption.
    destruct (gap_filt_char g (FS false (Some ($"t_semicolon"))) line) as [a Ha]. rewrite Ha.
    assert (Hd : drops_ws (FS false (Some ($"t_semicolon"))) = true) by (unfold drops_ws; cbn [fs_pretok fs_last]; now rewrite Ts).
    rewrite Hd, andb_false_r. cbn [fst snd]. rewrite tapp_nil.
    rewrite gap_stack_init by exact Ht. fold line'.
    cbn [lex_filtered]. rewrite step_bclose_init by exact Ht.
    assert (E2 : filt_step (FS false (Some ($"t_semicolon"))) (Tok ($"t_bclose") ["}"] line') (LS stk false)
                 = ([bclose_tok line'], FS false (Some ($"t_bclose")), LS stk false)) by reflexivity.
    rewrite E2, N.add_0_r.
    rewrite (lex_filtered_equiv n (FS false (Some ($"t_bclose"))) (FS false (Some ($"t_semicolon")))).
    2:{ split; [unfold drops_ws; cbn [fs_pretok fs_last]; now rewrite Ts, Tc | reflexivity]. }
    fold tail. destruct tail; reflexivity.
  - rewrite gap_filtered_lex by assumption.
    rewrite gap_stack_init by exact Ht. fold line'.
    cbn [lex_filtered]. rewrite step_bclose_init by exact Ht.
    assert (E : forall f', (f' = f \/ f' = FS false (Some ($"t_ws"))) ->
                filt_step f' (Tok ($"t_bclose") ["}"] line') (LS stk ip) = ([semi_tok line'; bclose_tok line'], FS false (Some ($"t_semicolon")), LS stk false)).
    { intros f' [-> | ->].
      - unfold filt_step. cbn [tk_type tk_line ls_stack]. unfold injects. rewrite Hl, Hni, Ht. reflexivity.
      - unfold filt_step. cbn [tk_type tk_line ls_stack]. unfold injects. cbn [fs_last]. rewrite Ht. reflexivity. }
    destruct (gap_filt_char g f line) as [a Ha]. rewrite Ha.
    destruct (has_ws g && negb (drops_ws f)); cbn [fst snd]; rewrite E by auto; rewrite N.add_0_r; fold tail; destruct tail; reflexivity.
Qed.

(* the premises of the theorems are satisfiable: a concrete gap with every kind of item, and a concrete stack *)
Example gap_example :
  let g := [GBlank ($"  "); GBlock ($" ; { } "" ' // "); GNl ["010"]; GLine ($" x } "); GNl ["010"; "013"; "010"]; GBlank ["009"]] in
  gap_wf g = true /\ has_ws g = true /\ forallb gap_mode [MISel; MParn] = true /\ isel_once [MISel; MParn] = true
  /\ nongap_start ($".a{}") = true.
Proof. vm_compute. auto. Qed.

(* ===================================================================================
   Error reporting facts on the lexer model (property C15)
   =================================================================================== *)

(* characters that start no token whatever follows them *)
Definition always_illegal (c : ascii) : bool :=
  existsb (ch_eqb c) ["$"; "?"; "^"; "`"; "|"; "127"] || in_range 1 8 c || in_range 14 31 c.

Lemma illegal_cases c : always_illegal c = true ->
  In c ["$"; "?"; "^"; "`"; "|"; "127"; "001"; "002"; "003"; "004"; "005"; "006"; "007"; "008"; "014"; "015"; "016"; "017"; "018"; "019";
        "020"; "021"; "022"; "023"; "024"; "025"; "026"; "027"; "028"; "029"; "030"; "031"].
Proof. destruct c as [[] [] [] [] [] [] [] []]; cbv; intros H; try discriminate; tauto. Qed.

Lemma step_illegal st c r :
  always_illegal c = true -> gap_mode (top (ls_stack st)) = true -> step st (c :: r) = Illegal c.
Proof.
  intros Hc Hm. destruct st as [stk ip]. cbn [ls_stack] in *.
  apply illegal_cases in Hc. cbn [In] in Hc.
  destruct stk as [|m stk]; [|destruct m; try discriminate Hm];
    repeat (destruct Hc as [<- | Hc]; [reflexivity|]); contradiction.
Qed.

(* the line reported for an illegal character after any gap is the line the gap started on plus the line feeds in the gap,
   counted through block comments, line comments and CRLF *)
Lemma count_nl_app a b : count_nl (a ++ b) = (count_nl a + count_nl b)%N.
Proof. unfold count_nl. rewrite filter_app, app_length. lia. Qed.
Lemma count_nl_none w p : forallb p w = true -> (forall c, p c = true -> N.eqb (code c) 10 = false) -> count_nl w = 0%N.
Proof.
  intros Hw Hp. unfold count_nl. induction w as [|c w IH]; [reflexivity|].
  cbn [forallb] in Hw. apply andb_true_iff in Hw as [Hc Hw]. cbn [filter]. rewrite (Hp c Hc). now apply IH.
Qed.
Lemma item_lines_count i : (match i with
                             | GBlank w => forallb is_blank w = true
                             | GLine b => forallb not_lf b = true
                             | _ => True end) -> item_lines i = count_nl (render_item i).
Proof.
  destruct i as [w|w|b|b]; cbn [item_lines render_item]; intros H; try reflexivity; symmetry.
  - apply (count_nl_none w is_blank); [assumption|]. intros c Hc. apply blank_cases in Hc as [ -> | [ -> | [ -> | -> ] ] ]; reflexivity.
  - apply (count_nl_none ("/" :: "/" :: b) not_lf); [cbn [forallb]; now rewrite H|].
    intros c Hc. unfold not_lf in Hc. now apply negb_true_iff in Hc.
Qed.
Lemma gap_lines_count : forall g, gap_wf g = true -> gap_lines g = count_nl (render_gap g).
Proof.
  induction g as [|i g IH]; intros Hw; [reflexivity|].
  cbn [render_gap flat_map gap_lines]. change (flat_map render_item g) with (render_gap g). rewrite count_nl_app.
  assert (gap_wf g = true /\ item_lines i = count_nl (render_item i)) as [Hg ->].
  { destruct i as [w|w|b|b]; cbn [gap_wf] in Hw; repeat (apply andb_true_iff in Hw as [Hw ?]); (split; [assumption|]); apply item_lines_count; auto. }
  now rewrite IH.
Qed.

Theorem illegal_after_gap : forall g stk ip line c rest n,
  gap_wf g = true -> forallb gap_mode stk = true -> always_illegal c = true ->
  lex_run (List.length g + S n) (LS stk ip) line (render_gap g ++ c :: rest)
  = lprepend (gap_raw stk line g) (LIllegal [] c (line + count_nl (render_gap g))).
Proof.
  intros g stk ip line c rest n Hw Hs Hc.
  rewrite gap_raw_lex; try assumption.
  - cbn [lex_run]. rewrite step_illegal; [now rewrite gap_lines_count | exact Hc |].
    cbn [ls_stack]. apply gap_mode_top. clear - Hs. revert stk Hs.
    induction g as [|i g IH]; intros stk Hs; [exact Hs|]. cbn [gap_stack]. destruct (is_ws_item i); apply IH; auto using gap_mode_pop_isel.
  - apply illegal_cases in Hc. cbn [In] in Hc. repeat (destruct Hc as [<- | Hc]; [reflexivity|]). contradiction.
Qed.

(* a plain string token spanning several lines advances the line counter by the line feeds it contains *)
Lemma step_string_init stk ip q body rest :
  top stk = MInit -> (q = """" \/ q = "'") -> forallb (fun c => negb (ch_eqb c q || ch_eqb c "@")) body = true ->
  step (LS stk ip) (q :: body ++ q :: rest) = Emit ($"css_string", q :: body ++ [q]) (LS stk ip) (count_nl (q :: body ++ [q])) rest.
Proof.
  intros Ht Hq Hb.
  assert (Hs : span (fun c => negb (ch_eqb c q || ch_eqb c "@")) (body ++ q :: rest) = (body, q :: rest)).
  { apply span_app; [exact Hb|]. cbn. destruct Hq as [-> | ->]; reflexivity. }
  unfold step. cbn [ls_stack]. rewrite Ht.
  destruct Hq as [-> | ->]; cbn; rewrite Hs; cbn; reflexivity.
Qed.

(* more fuel never changes a result that was not cut short *)
Definition t_done (r : tokres) : Prop := match r with TUnsupported => False | _ => True end.
Lemma tapp_done o r : t_done (tapp o r) -> t_done r.
Proof. destruct r; cbn; auto. Qed.
Lemma lex_filtered_mono : forall n f st line x, t_done (lex_filtered n f st line x) -> forall k, lex_filtered (n + k) f st line x = lex_filtered n f st line x.
Proof.
  induction n as [|n IH]; intros f st line x H k; [contradiction|].
  cbn [Nat.add lex_filtered] in *. destruct (step st x) as [[ty v] st' dl rest|st' dl rest|c| |]; try reflexivity.
  - destruct (filt_step f (Tok ty v line) st') as [[outs f'] st'']. rewrite IH; [reflexivity|]. now apply tapp_done in H.
  - now apply IH.
Qed.

(* a line comment that ends the input (no line break after it) yields no token either *)
Lemma span_all p w : forallb p w = true -> span p w = (w, []).
Proof. intros H. rewrite <- (app_nil_r w) at 1. now apply span_app. Qed.
Lemma line_comment_at_end st line b n : gap_mode (top (ls_stack st)) = true -> forallb not_lf b = true ->
  lex_run (S (S n)) st line ("/" :: "/" :: b) = LOk [] /\ forall f, lex_filtered (S (S n)) f st line ("/" :: "/" :: b) = TOk [].
Proof.
  intros Hm Hb. assert (Hs : span not_lf ("/" :: "/" :: b) = ("/" :: "/" :: b, [])) by (apply span_all; cbn [forallb]; now rewrite Hb).
  split; [|intros f]; cbn [lex_run lex_filtered]; rewrite (step_line st b Hm), Hs; cbn [snd]; destruct st; reflexivity.
Qed.
