(* DeclProofs.v — C01: a declaration is printed as its name, a colon and the concatenation of its value tokens (trimmed),
   `!important` kept: nothing of the value is dropped, duplicated or reordered.  The two rewrites Property.fmt performs are
   the identity on values that hold no comma token (otherwise: one blank after each comma, the documented spacing) and no
   "url(" (otherwise: a blank after the closing parenthesis when a token follows directly). *)
From Coq Require Import String.
From Coq Require Import List Ascii Bool NArith.
Require Import Model.Text Model.Ident Model.Fmt.
Import ListNotations.
Local Open Scope char_scope.

Fixpoint has_url (x : str) : bool :=
  match x with [] => false | c :: r => starts_with $"url(" x || has_url r end.

Lemma url_head (F : str -> option (str * str)) x :
  has_url x = false ->
  match x with "u" :: "r" :: "l" :: "(" :: r4 => F r4 | _ => None end = None.
Proof.
  intros H. destruct x as [|c1 x1]; [reflexivity|].
  cbn [has_url] in H. apply orb_false_iff in H as [H _].
  destruct c1 as [[] [] [] [] [] [] [] []]; try reflexivity.
  destruct x1 as [|c2 x2]; [reflexivity|]. destruct c2 as [[] [] [] [] [] [] [] []]; try reflexivity.
  destruct x2 as [|c3 x3]; [reflexivity|]. destruct c3 as [[] [] [] [] [] [] [] []]; try reflexivity.
  destruct x3 as [|c4 x4]; [reflexivity|]. destruct c4 as [[] [] [] [] [] [] [] []]; try reflexivity.
  cbv in H. discriminate H.
Qed.

Lemma skip_string_split q : forall x s r, skip_string q x = Some (s, r) -> x = s ++ r.
Proof.
  induction x as [|c x IH]; intros s r H; [discriminate|]. cbn [skip_string] in H.
  destruct (Ascii.eqb c q); [injection H as <- <-; reflexivity|].
  destruct (skip_string q x) as [[a b]|] eqn:E; [|discriminate]. injection H as <- <-. cbn [app]. f_equal. apply IH. reflexivity.
Qed.
Lemma has_url_suffix a : forall b, has_url (a ++ b) = false -> has_url b = false.
Proof.
  induction a as [|c a IH]; intros b H; [exact H|]. cbn [app has_url] in H. apply orb_false_iff in H as [_ H]. apply IH, H.
Qed.

Lemma url_fix_id : forall fuel x, has_url x = false -> url_fix fuel x = x.
Proof.
  induction fuel as [|f IH]; intros x H; [reflexivity|]. destruct x as [|c r]; [reflexivity|].
  pose proof H as H0. cbn [has_url] in H0. apply orb_false_iff in H0 as [_ Hr].
  cbn [url_fix]. destruct (is_quote c).
  - destruct (skip_string c r) as [[s r']|] eqn:E.
    + pose proof (skip_string_split c r s r' E) as ->. rewrite (IH r' (has_url_suffix s r' Hr)). reflexivity.
    + now rewrite (IH r Hr).
  - rewrite (url_head (fun r4 => skip_url_inside (S (length r4)) r4) (c :: r) H). now rewrite (IH r Hr).
Qed.

Definition plain_tok (p : str) : bool := negb (str_eqb p [","] || str_eqb p [""""] || str_eqb p ["'"]).
Lemma comma_ws_id ws parsed : forallb plain_tok parsed = true -> comma_ws ws None parsed = parsed.
Proof.
  induction parsed as [|p r IH]; [reflexivity|]. cbn [forallb]. intros H. apply andb_true_iff in H as [Hp Hr].
  unfold plain_tok in Hp. apply negb_true_iff in Hp. apply orb_false_iff in Hp as [Hp1 Hq2]. apply orb_false_iff in Hp1 as [Hc Hq1].
  cbn [comma_ws]. rewrite Hq1, Hq2, Hc. cbn [orb]. now rewrite (IH Hr).
Qed.

Theorem prop_fmt_verbatim fl name parsed imp :
  forallb plain_tok parsed = true -> has_url (concat_str parsed) = false ->
  prop_fmt fl name parsed imp =
    f_tab fl ++ name ++ [":"] ++ f_ws fl ++ strip_ws (concat_str parsed) ++ (if imp then $" !important" else []) ++ [";"] ++ f_nl fl.
Proof.
  intros Hp Hu. unfold prop_fmt.
  assert (match f_nl fl with [] => parsed | _ :: _ => comma_ws (f_ws fl) None parsed end = parsed) as ->
    by (destruct (f_nl fl); [reflexivity|apply comma_ws_id, Hp]).
  rewrite (url_fix_id _ _ Hu). reflexivity.
Qed.

(* with commas: each comma token is followed by the blank fill, nothing else changes *)
Fixpoint after_commas (ws : str) (parsed : list str) : list str :=
  match parsed with [] => [] | p :: r => (if str_eqb p [","] then "," :: ws else p) :: after_commas ws r end.
Definition no_quote_tok (p : str) : bool := negb (str_eqb p [""""] || str_eqb p ["'"]).
Lemma comma_ws_commas ws parsed : forallb no_quote_tok parsed = true -> comma_ws ws None parsed = after_commas ws parsed.
Proof.
  induction parsed as [|p r IH]; [reflexivity|]. cbn [forallb]. intros H. apply andb_true_iff in H as [Hp Hr].
  unfold no_quote_tok in Hp. apply negb_true_iff in Hp. cbn [comma_ws after_commas]. rewrite Hp.
  destruct (str_eqb p [","]); now rewrite (IH Hr).
Qed.
