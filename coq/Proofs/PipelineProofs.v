(* PipelineProofs.v — the model pipeline text -> CSS looks at token types and values only, so the layout theorems of the
   lexer model lift to the compiled output. *)
From Coq Require Import String.
From Coq Require Import List Ascii Bool NArith.
Require Import Model.Text Model.Ast Model.Lex Model.Parse Model.Fmt Model.Eval Model.Cases Model.Pipeline Proofs.LexProofs.
Import ListNotations.
Local Open Scope char_scope.

Lemma parse_tokens_erase ts1 ts2 : map erase_tok ts1 = map erase_tok ts2 -> parse_tokens ts1 = parse_tokens ts2.
Proof. intros H. unfold parse_tokens. change (fun t : token => (tk_type t, tk_val t)) with erase_tok. now rewrite H. Qed.

Lemma compile_tokres_erase o r1 r2 : erase r1 = erase r2 -> compile_tokres o r1 = compile_tokres o r2.
Proof.
  intros H. destruct r1 as [ts1|ts1 c1 l1|], r2 as [ts2|ts2 c2 l2|]; cbn in H; try discriminate; try reflexivity.
  injection H as H. cbn [compile_tokres]. now rewrite (parse_tokens_erase ts1 ts2 H).
Qed.

(* END TO END on the model: whatever was lexed before (pre), replacing a gap by any other gap that also contains / also lacks
   whitespace -- other runs, other line endings, comments added or removed -- leaves the compiled CSS unchanged *)
Theorem compile_layout_independent : forall o pre g1 g2 f stk ip l1 l2 rest n,
  gap_wf g1 = true -> gap_wf g2 = true -> has_ws g1 = has_ws g2 ->
  forallb gap_mode stk = true -> isel_once stk = true -> nongap_start rest = true ->
  compile_tokres o (tapp pre (lex_filtered (List.length g1 + n) f (LS stk ip) l1 (render_gap g1 ++ rest)))
  = compile_tokres o (tapp pre (lex_filtered (List.length g2 + n) f (LS stk ip) l2 (render_gap g2 ++ rest))).
Proof.
  intros. apply compile_tokres_erase, erase_tapp_congr; [reflexivity|]. now apply layout_independent.
Qed.
