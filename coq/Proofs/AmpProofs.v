(* AmpProofs.v — C10: no '&' survives selector combination.  Whatever the child selector looks like, combining it with a
   non-empty list of '&'-free parent selectors (Identifier.root + the pairwise filter of Identifier.parse) yields '&'-free
   selectors: every '&' is consumed by a parent, the rest is copied.  At the top level (no parent) a selector is '&'-free
   iff it was written so. *)
From Coq Require Import String.
From Coq Require Import List Ascii Bool NArith Arith Lia.
Require Import Model.Text Model.Ident Gen.PIdent.
Import ListNotations.
Local Open Scope char_scope.

Definition not_amp (t : str) : bool := negb (str_eqb t ["&"]).
Definition amp_free (p : part) : bool := forallb not_amp p.

Lemma amp_free_app a b : amp_free (a ++ b) = amp_free a && amp_free b.
Proof. apply forallb_app. Qed.

Lemma forallb_sub {A} (P : A -> bool) (small big : list A) :
  (forall x, In x small -> In x big) -> forallb P big = true -> forallb P small = true.
Proof. intros Hs Hb. apply forallb_forall. intros x Hx. exact (proj1 (forallb_forall P big) Hb x (Hs x Hx)). Qed.

Lemma In_drop_last {A} (x : A) l : In x (drop_last l) -> In x l.
Proof.
  unfold drop_last. intros H. apply in_rev in H. apply in_rev. destruct (rev l) as [|y r]; [contradiction|]. now right.
Qed.
Lemma strip_trailing_blank_free p : amp_free p = true -> amp_free (strip_trailing_blank p) = true.
Proof.
  intros H. unfold strip_trailing_blank. destruct (last_tok p) as [l|]; [|exact H]. destruct (is_blank_tok l); [|exact H].
  apply (forallb_sub not_amp _ p); [intros x; apply In_drop_last|exact H].
Qed.

Lemma subst_amp_free name : forall perm acc,
  amp_free acc = true -> forallb amp_free perm = true -> amp_free (subst_amp name perm acc) = true.
Proof.
  induction name as [|n r IH]; intros perm acc Ha Hp; [exact Ha|]. cbn [subst_amp].
  destruct (str_eqb n ["&"]) eqn:E.
  - destruct perm as [|pp perm']; [apply IH; assumption|].
    cbn [forallb] in Hp. apply andb_true_iff in Hp as [Hpp Hrest]. apply IH; [|exact Hrest].
    rewrite amp_free_app, (strip_trailing_blank_free pp Hpp), andb_true_r.
    destruct (last_tok acc) as [l|]; [|exact Ha]. destruct (ends_with_bracket l); [|exact Ha].
    rewrite amp_free_app, Ha. reflexivity.
  - apply IH; [|exact Hp]. rewrite amp_free_app, Ha. cbn [amp_free forallb]. unfold not_amp. rewrite E. reflexivity.
Qed.

Lemma product_rep_all {A} (P : list A -> bool) (Q : A -> bool) (pool : list A) :
  (forall l, P l = forallb Q l) -> forallb Q pool = true -> forall k, forallb P (product_rep pool k) = true.
Proof.
  intros HP Hpool. induction k as [|k IH]; cbn [product_rep forallb]; [now rewrite HP|].
  apply forallb_forall. intros l Hl. apply in_flat_map in Hl as (x & Hx & Hl). apply in_map_iff in Hl as (rest & <- & Hrest).
  rewrite HP. cbn [forallb]. rewrite (proj1 (forallb_forall Q pool) Hpool x Hx). rewrite <- HP.
  exact (proj1 (forallb_forall P _) IH rest Hrest).
Qed.

Lemma count_amp_zero name : count_amp name = 0 -> amp_free name = true.
Proof.
  unfold count_amp, amp_free, not_amp. induction name as [|n r IH]; [reflexivity|]. cbn [filter forallb].
  destruct (str_eqb n ["&"]); cbn [length negb andb]; [discriminate|exact IH].
Qed.

Lemma usable_sub pp : forall x, In x (usable_parent_parts pp) -> In x pp.
Proof. intros x H. unfold usable_parent_parts in H. apply filter_In in H. apply H. Qed.

Theorem root_one_free pp name : forallb amp_free pp = true -> forallb amp_free (root_one pp name) = true.
Proof.
  intros Hpp. unfold root_one. destruct (Nat.ltb 0 (count_amp name)) eqn:E.
  - apply forallb_forall. intros q Hq. apply in_map_iff in Hq as (perm & <- & Hperm).
    apply subst_amp_free; [reflexivity|].
    assert (forallb amp_free (usable_parent_parts pp) = true) as Hu by (apply (forallb_sub _ _ pp); [apply usable_sub|exact Hpp]).
    exact (proj1 (forallb_forall _ _) (product_rep_all (forallb amp_free) amp_free _ (fun l => eq_refl) Hu (count_amp name)) perm Hperm).
  - apply Nat.ltb_ge in E. assert (count_amp name = 0) as E0 by lia. pose proof (count_amp_zero name E0) as Hn.
    destruct name as [|t r].
    + apply forallb_forall. intros q Hq. apply in_map_iff in Hq as (p & <- & _). reflexivity.
    + destruct (str_eqb t $"@media"); [cbn [forallb]; now rewrite Hn|].
      apply forallb_forall. intros q Hq. apply in_map_iff in Hq as (p & <- & Hp).
      pose proof (proj1 (forallb_forall _ _) Hpp p Hp) as Hpf.
      destruct p as [|pt pr]; [exact Hn|]. destruct (negb (is_subp pt)); [|exact Hn].
      rewrite !amp_free_app, Hpf, Hn, andb_true_r.
      destruct (last_tok (pt :: pr)) as [l|]; [destruct (is_blank_tok l)|]; reflexivity.
Qed.

Lemma pairwise_filter_sub p : forall x, In x (pairwise_filter p) -> In x p.
Proof.
  induction p as [|i r IH]; intros x H; [contradiction|]. destruct r as [|j r'].
  - cbn [pairwise_filter] in H. destruct (is_blank_tok i); [contradiction|exact H].
  - cbn [pairwise_filter] in H. destruct (is_blank_tok i && has_qmark j).
    + right. apply IH. exact H.
    + destruct H as [->|H]; [now left|right; apply IH; exact H].
Qed.

(* nested rule: any child selector under a non-empty list of '&'-free parents *)
Theorem ident_parse_nested_free pp toks :
  pp <> [] -> forallb amp_free pp = true -> forallb amp_free (ident_parse (Some pp) toks) = true.
Proof.
  intros Hne Hpp. unfold ident_parse, root. destruct pp as [|p0 pr]; [contradiction|].
  apply forallb_forall. intros q Hq. apply in_map_iff in Hq as (q0 & <- & Hq0).
  apply in_flat_map in Hq0 as (name & _ & Hq0).
  pose proof (proj1 (forallb_forall _ _) (root_one_free (p0 :: pr) name Hpp) q0 Hq0) as H0.
  apply (forallb_sub not_amp _ q0); [apply pairwise_filter_sub|exact H0].
Qed.

(* top level: the tokens are copied ('*' and combinators re-spelled), so no '&' appears that was not written *)
Lemma split_names_free toks : forall name names,
  forallb not_amp toks = true -> amp_free name = true -> forallb amp_free names = true ->
  forallb amp_free (split_names toks name names) = true.
Proof.
  induction toks as [|n r IH]; intros name names Ht Hn Hns.
  - cbn [split_names]. rewrite forallb_app, Hns. cbn [forallb]. now rewrite Hn.
  - cbn [forallb] in Ht. apply andb_true_iff in Ht as [Hn1 Hr]. cbn [split_names].
    destruct (str_eqb n ["*"]); [apply IH; try assumption; rewrite amp_free_app, Hn; reflexivity|].
    destruct (is_comb_tok n) eqn:Ec.
    + apply IH; try assumption. rewrite amp_free_app.
      apply andb_true_iff. split.
      { destruct (last_tok name) as [l|]; [|exact Hn]. destruct (is_blank_tok l); [|exact Hn].
        apply (forallb_sub not_amp _ name); [intros x; apply In_drop_last|exact Hn]. }
      cbn [amp_free forallb andb]. unfold not_amp.
      destruct n as [|c [|c2 n']]; try discriminate. reflexivity.
    + destruct (str_eqb n [","]).
      * apply IH; [assumption|reflexivity|]. rewrite forallb_app, Hns. cbn [forallb]. now rewrite Hn.
      * apply IH; try assumption. rewrite amp_free_app, Hn. cbn [amp_free forallb]. now rewrite Hn1.
Qed.

Theorem ident_parse_top_free toks : forallb not_amp toks = true -> forallb amp_free (ident_parse None toks) = true.
Proof.
  intros Ht. unfold ident_parse, root.
  assert (forallb amp_free (names_of toks) = true) as Hn.
  { unfold names_of. destruct toks as [|t r]; [reflexivity|]. destruct (is_subp t); [cbn [forallb]; unfold amp_free; now rewrite Ht|].
    apply split_names_free; [exact Ht|reflexivity|reflexivity]. }
  apply forallb_forall. intros q Hq. apply in_map_iff in Hq as (q0 & <- & Hq0).
  apply (forallb_sub not_amp _ q0); [apply pairwise_filter_sub|exact (proj1 (forallb_forall _ _) Hn q0 Hq0)].
Qed.

(* the '&' really is in play: a child with two of them under two parents gives the four combinations, none holding an '&' *)
Example amp_example :
  ident_parse (Some [[$".a"]; [$".b"]]) [$"&"; $"-x"; $" "; $"&"; $":hover"] =
    [[$".a"; $"-x"; $" "; $".a"; $":hover"]; [$".a"; $"-x"; $" "; $".b"; $":hover"];
     [$".b"; $"-x"; $" "; $".a"; $":hover"]; [$".b"; $"-x"; $" "; $".b"; $":hover"]].
Proof. vm_compute. reflexivity. Qed.
