(* ColorBase.v — table facts, hex-digit lemmas and the complete channel sweeps for C08. *)
From Coq Require Import String.
From Coq Require Import List Ascii Bool NArith ZArith QArith Lia.
Require Import Model.Text Model.ParamTypes Model.Num Gen.PColor Model.Color Spec.ColorSpec.
Import ListNotations.
Local Open Scope char_scope.

(* ---------- table facts: re-decided on the regenerated parameters on every run ---------- *)
Lemma tf_color_clamp_steps :
  list_eqb clamp_step_eqb color_clamp_steps [ClampStep CGt 255 255; ClampStep CLt 0 0] = true.
Proof. vm_compute. reflexivity. Qed.
Lemma tf_color_ops :
  list_eqb (fun a b => str_eqb (fst a) (fst b) && pyop_eqb (snd a) (snd b)) color_ops
    [($"+", PArith OAdd); ($"-", PArith OSub); ($"*", PArith OMul); ($"/", PArith OTrueDiv)] = true.
Proof. vm_compute. reflexivity. Qed.
Lemma tf_color_process_fmt : str_eqb color_process_fmt $"%02x" = true.
Proof. vm_compute. reflexivity. Qed.

(* ---------- ranges ---------- *)
Fixpoint upto (n : nat) : list N :=
  match n with O => [] | S k => upto k ++ [N.of_nat k] end.
Lemma upto_In n x : (x < N.of_nat n)%N -> In x (upto n).
Proof.
  induction n as [|n IH]; intros H; [lia|].
  simpl. apply in_or_app. destruct (N.eq_dec x (N.of_nat n)) as [->|Hne].
  - right. left. reflexivity.
  - left. apply IH. lia.
Qed.

(* ---------- hex digits ---------- *)
Lemma hexval_hexdigit_sweep : forallb (fun n => match hexval (hexdigit n) with Some m => N.eqb m n | None => false end) (upto 16) = true.
Proof. vm_compute. reflexivity. Qed.
Lemma hexval_hexdigit n : (n < 16)%N -> hexval (hexdigit n) = Some n.
Proof.
  intros H. pose proof (proj1 (forallb_forall _ _) hexval_hexdigit_sweep n (upto_In 16 n H)) as E.
  cbv beta in E. destruct (hexval (hexdigit n)); [|discriminate]. apply N.eqb_eq in E. now subst.
Qed.

Lemma hexval_lower c h : hexval c = Some h -> to_lower c = hexdigit h /\ (h < 16)%N.
Proof.
  destruct c as [[] [] [] [] [] [] [] []]; vm_compute; intros E; try discriminate;
    injection E as <-; split; reflexivity.
Qed.

Lemma hexdigit_lower_hex_sweep : forallb (fun n => is_lower_hex (hexdigit n)) (upto 16) = true.
Proof. vm_compute. reflexivity. Qed.
Lemma hexdigit_lower_hex n : (n < 16)%N -> is_lower_hex (hexdigit n) = true.
Proof. intros H. exact (proj1 (forallb_forall _ _) hexdigit_lower_hex_sweep n (upto_In 16 n H)). Qed.

Lemma hex2_pair_sweep :
  forallb (fun a => forallb (fun b => str_eqb (hex2 (16 * a + b)) [hexdigit a; hexdigit b]) (upto 16)) (upto 16) = true.
Proof. vm_compute. reflexivity. Qed.
Lemma str_eqb_eq a b : str_eqb a b = true -> a = b.
Proof.
  revert b; induction a as [|x a IH]; destruct b as [|y b]; simpl; intros H; try discriminate; auto.
  apply andb_true_iff in H as [H1 H2]. apply Ascii.eqb_eq in H1. subst. f_equal. auto.
Qed.
Lemma str_eqb_refl a : str_eqb a a = true.
Proof. induction a as [|x a IH]; simpl; auto. now rewrite Ascii.eqb_refl. Qed.
Lemma hex2_pair a b : (a < 16)%N -> (b < 16)%N -> hex2 (16 * a + b) = [hexdigit a; hexdigit b].
Proof.
  intros Ha Hb. apply str_eqb_eq.
  pose proof (proj1 (forallb_forall _ _) hex2_pair_sweep a (upto_In 16 a Ha)) as E. cbv beta in E.
  exact (proj1 (forallb_forall _ _) E b (upto_In 16 b Hb)).
Qed.
Lemma hex2_17 a : (a < 16)%N -> hex2 (17 * a) = [hexdigit a; hexdigit a].
Proof. intros Ha. replace (17 * a)%N with (16 * a + a)%N by lia. now apply hex2_pair. Qed.

Lemma hex2_digits n : (n < 256)%N -> exists a b, (a < 16)%N /\ (b < 16)%N /\ n = (16 * a + b)%N.
Proof.
  intros H. exists (n / 16)%N, (n mod 16)%N. repeat split.
  - apply N.div_lt_upper_bound; lia.
  - apply N.mod_lt; lia.
  - rewrite (N.div_mod n 16) at 1; lia.
Qed.

Lemma hex_pairs_hex2 n l r : (n < 256)%N -> hex_pairs r = Some l -> hex_pairs (hex2 n ++ r) = Some (n :: l).
Proof.
  intros H Hr. destruct (hex2_digits n H) as (a & b & Ha & Hb & ->).
  rewrite hex2_pair by assumption. cbn [app hex_pairs].
  rewrite !hexval_hexdigit by assumption. rewrite Hr. f_equal. f_equal. lia.
Qed.

Lemma not_hash_lower_hex c : is_lower_hex c = true -> is_hash c = false /\ is_space c = false /\ Ascii.eqb c ";" = false.
Proof. destruct c as [[] [] [] [] [] [] [] []]; vm_compute; intros E; try discriminate; auto. Qed.

Lemma hex2_lower_hex n : (n < 256)%N -> forallb is_lower_hex (hex2 n) = true.
Proof.
  intros H. destruct (hex2_digits n H) as (a & b & Ha & Hb & ->). rewrite hex2_pair by assumption.
  cbn [forallb]. now rewrite !hexdigit_lower_hex.
Qed.

(* stripping characters that do not occur at either end is the identity *)
Lemma drop_while_none f x : (match x with [] => True | c :: _ => f c = false end) -> drop_while f x = x.
Proof. destruct x as [|c r]; simpl; auto. intros ->. reflexivity. Qed.

Lemma strip_hash_body' x :
  x <> [] -> forallb (fun c => negb (is_hash c)) x = true -> strip is_hash ("#" :: x) = x.
Proof.
  intros Hne Hall. unfold strip, strip_left, strip_right. cbn [drop_while].
  replace (is_hash "#") with true by reflexivity.
  destruct x as [|c r]; [congruence|]. cbn [forallb] in Hall. apply andb_true_iff in Hall as [Hc Hr].
  apply negb_true_iff in Hc. cbn [drop_while]. rewrite Hc.
  assert (forall l, l <> [] -> forallb (fun c => negb (is_hash c)) l = true -> drop_while is_hash (rev l) = rev l) as K.
  { intros l Hl Ha. apply drop_while_none. destruct (rev l) as [|d t] eqn:E.
    - apply (f_equal (@rev _)) in E. rewrite rev_involutive in E. now subst.
    - assert (In d l) as Hin by (apply in_rev; rewrite E; now left).
      pose proof (proj1 (forallb_forall _ _) Ha d Hin) as Hd. now apply negb_true_iff in Hd. }
  rewrite K; [apply rev_involutive|discriminate|]. cbn [forallb]. now rewrite Hc.
Qed.

Lemma strip_noop f x : forallb (fun c => negb (f c)) x = true -> strip f x = x.
Proof.
  intros Hall. unfold strip, strip_left, strip_right.
  assert (forall l, forallb (fun c => negb (f c)) l = true -> drop_while f l = l) as K.
  { intros l Ha. apply drop_while_none. destruct l as [|d t]; [exact I|].
    cbn [forallb] in Ha. apply andb_true_iff in Ha as [Hd _]. now apply negb_true_iff in Hd. }
  rewrite (K x Hall). rewrite K; [apply rev_involutive|].
  apply forallb_forall. intros c Hc. apply in_rev in Hc. exact (proj1 (forallb_forall _ _) Hall c Hc).
Qed.

Lemma hextorgb_hex6 r g b : (r < 256)%N -> (g < 256)%N -> (b < 256)%N -> hextorgb (hex6 r g b) = Some [r; g; b].
Proof.
  intros Hr Hg Hb.
  destruct (hex2_digits r Hr) as (r1 & r2 & Hr1 & Hr2 & ->).
  destruct (hex2_digits g Hg) as (g1 & g2 & Hg1 & Hg2 & ->).
  destruct (hex2_digits b Hb) as (b1 & b2 & Hb1 & Hb2 & ->).
  unfold hex6. rewrite !hex2_pair by assumption. cbn [app].
  pose proof (not_hash_lower_hex _ (hexdigit_lower_hex r1 Hr1)) as (A1 & A2 & A3).
  pose proof (not_hash_lower_hex _ (hexdigit_lower_hex r2 Hr2)) as (B1 & B2 & B3).
  pose proof (not_hash_lower_hex _ (hexdigit_lower_hex g1 Hg1)) as (C1 & C2 & C3).
  pose proof (not_hash_lower_hex _ (hexdigit_lower_hex g2 Hg2)) as (D1 & D2 & D3).
  pose proof (not_hash_lower_hex _ (hexdigit_lower_hex b1 Hb1)) as (E1 & E2 & E3).
  pose proof (not_hash_lower_hex _ (hexdigit_lower_hex b2 Hb2)) as (F1 & F2 & F3).
  unfold hextorgb.
  rewrite (strip_noop is_space); [|cbn [forallb]; rewrite A2, B2, C2, D2, E2, F2; reflexivity].
  rewrite strip_hash_body'; [|discriminate|cbn [forallb]; rewrite A1, B1, C1, D1, E1, F1; reflexivity].
  rewrite strip_noop; [|cbn [forallb]; rewrite A3, B3, C3, D3, E3, F3; reflexivity].
  cbn [length Nat.eqb hex_pairs].
  rewrite !hexval_hexdigit by assumption. do 2 f_equal; [lia|]. f_equal; [lia|]. f_equal; lia.
Qed.

(* ---------- the channel computation, by complete sweep over 256 x 256 x 4 ---------- *)
Definition chan_model (o : str) (x y : N) : option str :=
  opt_bind (color_operate o (inject_Z (Z.of_N x)) (inject_Z (Z.of_N y))) channel_str.

Definition chan_ok (sym : str) (o : aop) (x y : N) : bool :=
  match o, y with
  | OTrueDiv, 0%N => true           (* excluded by the property: no zero channel in a divisor *)
  | _, _ => match chan_model sym x y with Some v => str_eqb v (hex2 (chan_spec o x y)) | None => false end
  end.

Lemma chan_sweep_add : forallb (fun x => forallb (chan_ok $"+" OAdd x) (upto 256)) (upto 256) = true.
Proof. vm_compute. reflexivity. Qed.
Lemma chan_sweep_sub : forallb (fun x => forallb (chan_ok $"-" OSub x) (upto 256)) (upto 256) = true.
Proof. vm_compute. reflexivity. Qed.
Lemma chan_sweep_mul : forallb (fun x => forallb (chan_ok $"*" OMul x) (upto 256)) (upto 256) = true.
Proof. vm_compute. reflexivity. Qed.
Lemma chan_sweep_div : forallb (fun x => forallb (chan_ok $"/" OTrueDiv x) (upto 256)) (upto 256) = true.
Proof. vm_compute. reflexivity. Qed.

