(* ExprProofs.v — lemmas for C04: the shift/reduce parser driven by the automaton's operator matrix
   reads back every rendering of every expression tree; evaluation equals ordinary arithmetic. *)
From Coq Require Import String.
From Coq Require Import List Ascii Bool NArith ZArith QArith Lia Arith.
Require Import Model.Text Model.ParamTypes Model.Num Model.NumLex Gen.PExpr Gen.PGuards Model.Expr Spec.ArithSpec.
Import ListNotations.
Local Open Scope nat_scope.

(* ---- table facts ---- *)
Definition arith_ops := [OAdd; OSub; OMul; OTrueDiv].
Definition all_pairs : list (aop * aop) := flat_map (fun a => map (fun b => (a, b)) arith_ops) arith_ops.

(* what the real automaton does on every operator pair is what two left-associative levels induce,
   and it agrees with yacc's published rule applied to LessParser.precedence *)
Lemma tf_expr_matrix :
  forallb (fun p : aop * aop =>
             Bool.eqb (matrix_lookup expr_matrix_behaviour (fst p) (snd p)) (Nat.leb (lvl (snd p)) (lvl (fst p)))
             && Bool.eqb (matrix_lookup expr_matrix_declared (fst p) (snd p)) (Nat.leb (lvl (snd p)) (lvl (fst p))))
          all_pairs = true.
Proof. vm_compute. reflexivity. Qed.

Lemma tf_expr_arith_ops :
  (assoc $"+" expr_ops, assoc $"-" expr_ops, assoc $"*" expr_ops, assoc $"/" expr_ops)
  = (Some (PArith OAdd), Some (PArith OSub), Some (PArith OMul), Some (PArith OTrueDiv)).
Proof. vm_compute. reflexivity. Qed.

Lemma reduces_lvl o1 o2 : is_arith o1 = true -> is_arith o2 = true -> reduces o1 o2 = Nat.leb (lvl o2) (lvl o1).
Proof.
  intros H1 H2.
  assert (In (o1, o2) all_pairs) as Hin by (destruct o1, o2; try discriminate; simpl; tauto).
  pose proof (proj1 (forallb_forall _ _) tf_expr_matrix (o1, o2) Hin) as H. cbn [fst snd] in H.
  apply andb_true_iff in H as [H _]. now apply eqb_prop in H.
Qed.

(* ---- frames ---- *)
Fixpoint fold_frames (pend : list frame) (e : expr) : expr :=
  match pend with
  | FOp l o :: r => fold_frames r (EBin o l e)
  | _ => e
  end.
Definition op_ge (k : nat) (f : frame) : Prop :=
  match f with FOp _ o => is_arith o = true /\ k <= lvl o | FParen _ => False end.
Definition ops_ge (k : nat) (pend : list frame) : Prop := Forall (op_ge k) pend.
Definition barrier (k : nat) (fs : list frame) : Prop :=
  match fs with
  | FOp _ o :: _ => is_arith o = true /\ lvl o < k
  | _ => True
  end.

Lemma ops_ge_weaken k k' pend : k' <= k -> ops_ge k pend -> ops_ge k' pend.
Proof.
  intros Hk H. induction H as [|f l Hf Hl IH]; constructor; auto.
  destruct f; simpl in *; [|assumption]. destruct Hf. split; [assumption|lia].
Qed.
Lemma barrier_weaken k k' fs : k <= k' -> barrier k fs -> barrier k' fs.
Proof. intros Hk. destruct fs as [|[l o|n] r]; simpl; auto. intros [? ?]. split; [assumption|lia]. Qed.

Lemma fold_frames_app p1 p2 e : ops_ge 0 p1 -> fold_frames (p1 ++ p2) e = fold_frames p2 (fold_frames p1 e).
Proof.
  intros H. revert e. induction H as [|f l Hf Hl IH]; intros e; [reflexivity|].
  destruct f; simpl in *; [apply IH|contradiction].
Qed.

Lemma reduce_ops_pend o pend fs e :
  is_arith o = true -> ops_ge (lvl o) pend -> barrier (lvl o) fs ->
  reduce_ops o (pend ++ fs) e = (fs, fold_frames pend e).
Proof.
  intros Ho H Hb. revert e. induction H as [|f l Hf Hl IH]; intros e.
  - simpl. destruct fs as [|[l1 o1|n] r]; simpl in *; try reflexivity.
    destruct Hb as [Ha Hlt]. rewrite reduces_lvl by assumption.
    destruct (Nat.leb_spec (lvl o) (lvl o1)); [lia|reflexivity].
  - destruct f as [l1 o1|n]; simpl in Hf; [|contradiction]. destruct Hf as [Ha Hle].
    cbn [app reduce_ops fold_frames]. rewrite reduces_lvl by assumption.
    destruct (Nat.leb_spec (lvl o) (lvl o1)); [apply IH|lia].
Qed.

Lemma reduce_all_pend pend fs e :
  ops_ge 0 pend -> (match fs with FOp _ _ :: _ => False | _ => True end) ->
  reduce_all (pend ++ fs) e = (fs, fold_frames pend e).
Proof.
  intros H Hfs. revert e. induction H as [|f l Hf Hl IH]; intros e.
  - simpl. destruct fs as [|[l1 o1|n] r]; simpl in *; try reflexivity; contradiction.
  - destruct f as [l1 o1|n]; simpl in Hf; [|contradiction]. cbn [app reduce_all fold_frames]. apply IH.
Qed.

(* ---- the parser consumes any rendering of e and leaves e (as pending frames + last operand) ---- *)
Lemma prun_app s a b : prun s (a ++ b) = match prun s a with Some s' => prun s' b | None => None end.
Proof. revert s. induction a as [|t a IH]; intros s; simpl; [reflexivity|]. destruct (pstep s t); [apply IH|reflexivity]. Qed.

Lemma run_renders k e ts :
  renders k e ts ->
  forall fs rest, barrier k fs ->
  exists pend last,
    prun (fs, None) (ts ++ rest) = prun (pend ++ fs, Some last) rest /\ ops_ge k pend /\ fold_frames pend last = e.
Proof.
  induction 1 as [k n | k e ts Hr IH | k o l r tl tr Ho Hk Hl IHl Hr IHr | k e ts Hr IH]; intros fs rest Hb.
  - exists [], (ENum n). split; [reflexivity|split; [constructor|reflexivity]].
  - destruct (IH (FParen true :: fs) (TR :: rest) I) as (pend & last & Hrun & Hge & Hfold).
    exists [], (ENeg e). split; [|split; [constructor|reflexivity]].
    cbn [app]. rewrite <- app_assoc. cbn [prun pstep app]. rewrite Hrun. cbn [prun pstep].
    rewrite reduce_all_pend by (try exact I; exact (ops_ge_weaken _ _ _ (Nat.le_0_l _) Hge)). now rewrite Hfold.
  - destruct (IHl fs (TOp o :: tr ++ rest) (barrier_weaken _ _ _ Hk Hb)) as (pl & ll & Hrunl & Hgel & Hfoldl).
    assert (barrier (S (lvl o)) (FOp l o :: fs)) as Hb2 by (simpl; split; [assumption|lia]).
    destruct (IHr (FOp l o :: fs) rest Hb2) as (pr & lr & Hrunr & Hger & Hfoldr).
    exists (pr ++ [FOp l o]), lr. split; [|split].
    + rewrite <- app_assoc. cbn [app]. rewrite Hrunl. cbn [prun pstep].
      rewrite reduce_ops_pend by (auto; exact (barrier_weaken _ _ _ Hk Hb)). rewrite Hfoldl.
      rewrite Hrunr. now rewrite <- app_assoc.
    + apply Forall_app. split; [apply (ops_ge_weaken (S (lvl o)) k pr); [lia|exact Hger]|]. constructor; [|constructor].
      simpl. split; assumption.
    + rewrite fold_frames_app by (apply (ops_ge_weaken (S (lvl o)) 0 pr); [lia|exact Hger]). rewrite Hfoldr. reflexivity.
  - destruct (IH (FParen false :: fs) (TR :: rest) I) as (pend & last & Hrun & Hge & Hfold).
    exists [], e. split; [|split; [constructor|reflexivity]].
    cbn [app]. rewrite <- app_assoc. cbn [prun pstep app]. rewrite Hrun. cbn [prun pstep].
    rewrite reduce_all_pend by (try exact I; exact (ops_ge_weaken _ _ _ (Nat.le_0_l _) Hge)). now rewrite Hfold.
Qed.

Lemma parse_renders e ts : renders 0 e ts -> parse_expr ts = Some e.
Proof.
  intros H. destruct (run_renders 0 e ts H [] [] I) as (pend & last & Hrun & Hge & Hfold).
  unfold parse_expr. rewrite app_nil_r in Hrun. rewrite Hrun. cbn [prun]. rewrite app_nil_r.
  rewrite <- (app_nil_r pend) at 1. rewrite reduce_all_pend by (auto; exact I). now rewrite Hfold.
Qed.

Fixpoint ops_arith (e : expr) : Prop :=
  match e with
  | ENum _ => True
  | EBin o l r => is_arith o = true /\ ops_arith l /\ ops_arith r
  | ENeg e1 => ops_arith e1
  end.

Lemma print_min_renders e : ops_arith e -> forall k, renders k e (print_min k e).
Proof.
  induction e as [n|o l IHl r IHr|e1 IH]; intros Hwf k; cbn [print_min].
  - constructor.
  - destruct Hwf as (Ho & Hl & Hr).
    destruct (Nat.ltb_spec (lvl o) k).
    + apply R_paren. apply R_bin; auto. lia.
    + apply R_bin; auto.
  - apply R_neg. now apply IH.
Qed.

Lemma parse_print_min e : ops_arith e -> parse_expr (print_min 0 e) = Some e.
Proof. intros H. apply parse_renders. now apply print_min_renders. Qed.

(* ---- evaluation ---- *)
Local Open Scope Q_scope.
Lemma arith_ok_ops e : arith_ok e -> ops_arith e.
Proof.
  induction e as [n|o l IHl r IHr|e1 IH]; simpl; intros [Hz H]; auto.
  destruct H as (Ho & Hl & Hr). auto.
Qed.

Lemma Qeq_bool_false a : ~ a == 0 -> Qeq_bool a 0 = false.
Proof. intros H. destruct (Qeq_bool a 0) eqn:E; [apply Qeq_bool_iff in E; contradiction|reflexivity]. Qed.

Lemma expr_operate_arith o a b :
  is_arith o = true -> (o = OTrueDiv -> ~ b == 0) ->
  exists q, expr_operate o a b = Some q /\
            q == match o with OAdd => a + b | OSub => a - b | OMul => a * b | OTrueDiv => a / b | _ => 0 end.
Proof.
  intros Ho Hd. pose proof tf_expr_arith_ops as T.
  assert (assoc $"+" expr_ops = Some (PArith OAdd) /\ assoc $"-" expr_ops = Some (PArith OSub) /\
          assoc $"*" expr_ops = Some (PArith OMul) /\ assoc $"/" expr_ops = Some (PArith OTrueDiv)) as (T1 & T2 & T3 & T4)
    by (repeat split; congruence).
  unfold expr_operate. destruct o; try discriminate.
  - rewrite T1. eexists; split; [reflexivity|]. reflexivity.
  - rewrite T2. eexists; split; [reflexivity|]. reflexivity.
  - rewrite T3. eexists; split; [reflexivity|]. reflexivity.
  - rewrite T4. cbn [arith_Q]. rewrite Qeq_bool_false by (now apply Hd). eexists; split; reflexivity.
Qed.

Lemma eval_correct e :
  arith_ok e -> exists n, eval e = RNum n /\ nv n == value e /\ nu n = first_unit e.
Proof.
  induction e as [n|o l IHl r IHr|e1 IH]; intros Hok.
  - exists n. repeat split; reflexivity.
  - destruct Hok as (Hz & Ho & Hl & Hr).
    destruct (IHl Hl) as (a & Ea & Va & Ua). destruct (IHr Hr) as (b & Eb & Vb & Ub).
    assert (~ value l == 0) as Hzl by (destruct l; exact (proj1 Hl)).
    assert (~ value r == 0) as Hzr by (destruct r; exact (proj1 Hr)).
    cbn [eval]. rewrite Ea, Eb.
    rewrite (Qeq_bool_false (nv a)) by (now rewrite Va). cbn [andb].
    destruct (expr_operate_arith o (nv a) (nv b) Ho) as (q & Hq & Vq); [intros _; now rewrite Vb|].
    rewrite Hq.
    assert (q == value (EBin o l r)) as Vq'.
    { rewrite Vq. destruct o; try discriminate; cbn [value]; now rewrite Va, Vb. }
    exists (with_units q (nu a) (nu b)). split; [reflexivity|].
    unfold with_units. rewrite Qeq_bool_false by (now rewrite Vq'). cbn [nv nu]. split; [exact Vq'|].
    cbn [first_unit]. rewrite <- Ua, <- Ub. destruct (nu a); reflexivity.
  - destruct Hok as (Hz & Hok). destruct (IH Hok) as (a & Ea & Va & Ua).
    cbn [eval]. rewrite Ea. exists (MkNum (- nv a) (nu a)). cbn [nv nu value first_unit].
    repeat split; [now rewrite Va|assumption].
Qed.
