(* TermProofs.v — C20: the evaluator model is total (structural recursion plus explicit fuel); variables defined
   in terms of each other exhaust the fuel for EVERY amount of fuel (the model's "reported error"), chains
   without a cycle evaluate completely with fuel proportional to their length. *)
From Coq Require Import String.
From Coq Require Import List Ascii Bool NArith Arith Lia.
Require Import Model.Text Model.Ast Model.Scope Model.Ident Model.Fmt Model.Eval Gen.PLimits.
Import ListNotations.
Local Open Scope char_scope.

Definition direct (x : str) : Prop := match x with "@" :: "@" :: _ => False | _ => True end /\ is_interp x = false.
Lemma lookup_with_direct rec sc x : direct x ->
  lookup_with rec sc x = match variables x sc with Some v => rec v | None => RError $"SyntaxError" ($"Unknown variable " ++ x) end.
Proof.
  intros [H Hi]. unfold lookup_with. rewrite Hi. destruct x as [|c [|d r]]; try reflexivity.
  - destruct c as [[] [] [] [] [] [] [] []]; reflexivity.
  - destruct c as [[] [] [] [] [] [] [] []]; try reflexivity; destruct d as [[] [] [] [] [] [] [] []]; try reflexivity; contradiction.
Qed.

(* a set of variables closed under "is defined as exactly one variable of the set": a dependency cycle (of any
   length and shape, including @a: @a) *)
Definition closed_cycle (sc : scope) (S : str -> Prop) : Prop :=
  forall x, S x -> direct x /\ exists y, S y /\ variables x sc = Some [VVar y].

Theorem cycle_exhausts_fuel sc S : closed_cycle sc S ->
  forall fuel x, S x -> eval_value fuel sc [VVar x] = RFuel.
Proof.
  intros Hc. induction fuel as [|f IH]; intros x Hx; [reflexivity|].
  destruct (Hc x Hx) as (Hd & y & Hy & Hv).
  cbn [eval_value eval_toks eval_tok]. rewrite lookup_with_direct by assumption. rewrite Hv, (IH y Hy). reflexivity.
Qed.

(* a chain @v1: @v2; ... @vk: <literal tokens> evaluates with fuel k+1 *)
Inductive chain (sc : scope) : nat -> str -> list str -> Prop :=
| chain_end x v : direct x -> variables x sc = Some v -> forallb (fun t => match t with VT _ => true | _ => false end) v = true ->
                  chain sc 1 x (map (fun t => match t with VT s => s | _ => [] end) v)
| chain_step k x y out : direct x -> variables x sc = Some [VVar y] -> chain sc k y out -> chain sc (S k) x out.

Lemma eval_toks_lit lookup rec v :
  forallb (fun t => match t with VT _ => true | _ => false end) v = true ->
  eval_toks lookup rec v = ROk (map (fun t => match t with VT s => s | _ => [] end) v).
Proof.
  induction v as [|t r IH]; [reflexivity|]. simpl. intros H. apply andb_true_iff in H as [Ht Hr].
  destruct t; try discriminate. cbn [eval_tok rbind]. rewrite IH by assumption. reflexivity.
Qed.

Lemma eval_value_S f sc toks : eval_value (S f) sc toks = eval_toks (lookup_with (eval_value f sc) sc) (eval_value f sc) toks.
Proof. reflexivity. Qed.

Theorem chain_evaluates sc k x out : chain sc k x out -> forall extra, eval_value (S k + extra) sc [VVar x] = ROk out.
Proof.
  induction 1 as [x v Hd Hv Hl | k x y out Hd Hv Hch IH]; intros extra.
  - rewrite !Nat.add_succ_l, eval_value_S. cbn [eval_toks eval_tok]. rewrite lookup_with_direct by assumption. rewrite Hv.
    rewrite eval_value_S, eval_toks_lit by assumption. cbn [rbind]. now rewrite app_nil_r.
  - rewrite Nat.add_succ_l, eval_value_S. cbn [eval_toks eval_tok]. rewrite lookup_with_direct by assumption. rewrite Hv.
    rewrite (IH extra). cbn [rbind]. now rewrite app_nil_r.
Qed.

(* table facts: the limits the code enforces *)
Lemma tf_limits : (process_round_limit, mixin_depth_limit, import_depth_limit) = (64, 64, 8) /\ recursion_error_reported = true.
Proof. split; reflexivity. Qed.

(* Call.parse fall-through for a name that is not a built-in: name(arguments evaluated) *)
Lemma unknown_function_passes fuel sc name args vals rest :
  eval_value fuel sc args = ROk vals ->
  eval_value (S fuel) sc (VCall name args :: rest)
  = rbind (eval_value (S fuel) sc rest) (fun r => ROk ((name ++ $"(" ++ concat_str vals ++ $")") :: r)).
Proof.
  intros H. cbn [eval_value eval_toks eval_tok]. rewrite H. cbn [rbind].
  destruct (eval_toks (lookup_with (eval_value fuel sc) sc) (eval_value fuel sc) rest); reflexivity.
Qed.
