From Coq Require Import String.
From Coq Require Import List Ascii Bool NArith Arith.
Require Import Model.Text Model.Paths Model.Ast Model.Scope Model.Ident Model.Fmt Model.Eval Gen.PLimits.
Require Import Model.Cases.
Import ListNotations.
Local Open Scope char_scope.

(* ===================================================================================
   Model of p_statement_import (lesscpy/lessc/parser.py): which imports are LESS imports,
   where the file is looked for, the recursion limit, the splice of the imported units
   at the position of the statement, what happens to every other import.
   A file is a list of units; the file system is a finite map from normalised paths
   (component lists below a sandbox root) to files.
   =================================================================================== *)

Inductive iunit :=
| UNode (n : node)
| UImport (toks : list str) (ipath : str).       (* the statement's tokens (Statement.parsed) and the destringed path *)

Definition path := list str.
Definition fsys := list (path * list iunit).
Fixpoint path_eqb (a b : path) : bool :=
  match a, b with
  | [], [] => true
  | x :: a', y :: b' => str_eqb x y && path_eqb a' b'
  | _, _ => false
  end.
Fixpoint fs_lookup (fs : fsys) (p : path) : option (list iunit) :=
  match fs with
  | [] => None
  | (q, f) :: r => if path_eqb q p then Some f else fs_lookup r p
  end.

(* the operating system's path walk: "." and "" stay, ".." leaves the directory *)
Fixpoint walk (acc : list str) (comps : list str) : path :=
  match comps with
  | [] => rev acc
  | c :: r => if str_eqb c ["."] || str_eqb c [] then walk acc r
              else if str_eqb c ["."; "."] then walk (tl acc) r
              else walk (c :: acc) r
  end.
Definition resolve (dir : path) (ipath : str) : path := walk (rev dir) (split_on "/" ipath []).
Definition dirname (p : path) : path := removelast p.

(* the unit list the root parser ends up with: every LESS import replaced by the units of the file it names (looked up relative
   to the directory of the IMPORTING file), recursively; [lvl] is LessParser.importlvl of the parser reading [units] *)
Fixpoint expand (fuel : nat) (fs : fsys) (lvl : nat) (dir : path) (units : list iunit) {struct fuel} : outcome (list node) :=
  match fuel with
  | O => RFuel
  | S f =>
    match units with
    | [] => ROk []
    | u :: r =>
        rbind (match u with
               | UNode n => ROk [n]
               | UImport toks ipath =>
                   if is_less_import ipath then
                     if Nat.ltb import_depth_limit lvl then RError $"ImportError" $"Recrusive import level too deep"
                     else
                       let file := resolve dir (with_ext ipath) in
                       match fs_lookup fs file with
                       | Some us => expand f fs (S lvl) (dirname file) us
                       | None => RError $"CompilationError" ($"Cannot import, file not found: " ++ ipath)
                       end
                   else ROk [NStmt toks]
               end)
              (fun here => rbind (expand f fs lvl dir r) (fun rest => ROk (here ++ rest)))
    end
  end.

(* textual inclusion, as a relation-free function: the file with every import statement replaced by the (inlined) file *)
Definition compile_import_case (o : opts) (fuel : nat) (fs : fsys) (main : path) : Cases.res :=
  match fs_lookup fs main with
  | None => Escaped $"NoMainFile"
  | Some units =>
      match expand fuel fs 0 (dirname main) units with
      | ROk nodes => compile_case o nodes
      | RError c m => Err $"CompilationError"
      | REscaped t => Escaped t
      | RFuel => NoModel
      end
  end.
