From Coq Require Import String.
From Coq Require Import List Ascii Bool NArith.
Require Import Model.Text Model.Ast Model.Lex Model.Parse Model.Fmt Model.Eval Model.Cases.
Import ListNotations.
Local Open Scope char_scope.

(* the whole compiler on the model side, from the source TEXT: lexer + token filter (Lex.v), reference parser (Parse.v),
   selector pre-pass + evaluator + formatter (Eval.v, Fmt.v).  It abstains (NoModel) outside the fragment. *)
Definition compile_tokres (o : opts) (r : tokres) : Cases.res :=
  match r with
  | TOk ts =>
      match parse_tokens ts with
      | POk nodes => compile_case o nodes
      | PNoModel _ => NoModel
      | PSyntax _ => Err $"CompilationError"      (* the reference parser rejects the token stream *)
      end
  | TIllegal _ _ _ => Err $"SyntaxError"
  | TUnsupported => NoModel
  end.
Definition compile_text (o : opts) (x : str) : Cases.res := compile_tokres o (tokens_filtered x).

(* the node tree of a text, for direct comparison with the tree the generator predicts *)
Definition parse_text (x : str) : pres (list node) :=
  match tokens_filtered x with
  | TOk ts => parse_tokens ts
  | TIllegal _ _ _ => PSyntax $"illegal character"
  | TUnsupported => PNoModel $"lexer abstains"
  end.

Definition text_case (o : opts) (x : str) (impl : Cases.res) : bool * string :=
  let r := compile_text o x in
  match r with
  | NoModel => (false, "ABSTAIN"%string)
  | _ => (res_eqb r impl, show_res r)
  end.
