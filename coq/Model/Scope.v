(* Scope.v — model of lesscpy/lessc/scope.py (variables only here): a stack of frames, lookup walking from
   the innermost frame outwards, Scope.swap for @x and @@x. *)
From Coq Require Import String.
From Coq Require Import List Ascii Bool NArith.
Require Import Model.Text Model.Ast.
Import ListNotations.
Local Open Scope char_scope.

Definition frame := list (str * list vtok).          (* later bindings first: dict assignment overrides *)
Definition scope := list frame.                      (* innermost frame first *)

Definition frame_lookup (x : str) (f : frame) : option (list vtok) := assoc x f.
Definition frame_set (x : str) (v : list vtok) (f : frame) : frame := (x, v) :: f.

(* Scope.variables: i = len-1 .. 0, then -1 (the innermost frame once more) *)
Fixpoint variables (x : str) (sc : scope) : option (list vtok) :=
  match sc with
  | [] => None
  | f :: r => match frame_lookup x f with Some v => Some v | None => variables x r end
  end.

Definition add_variable (x : str) (v : list vtok) (sc : scope) : scope :=
  match sc with f :: r => frame_set x v f :: r | [] => [[(x, v)]] end.
Definition push (sc : scope) : scope := [] :: sc.
