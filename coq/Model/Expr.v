(* Expr.v — arithmetic expressions: the operator-precedence behaviour of the generated LALR automaton
   (parameterised by the matrix read off the real automaton, Gen.PExpr Gen.PGuards.expr_matrix_behaviour) as a
   shift/reduce parser over expression tokens, and Expression.parse / NegatedExpression.parse as [eval]. *)
From Coq Require Import String.
From Coq Require Import List Ascii Bool NArith ZArith QArith.
Require Import Model.Text Model.ParamTypes Model.Num Model.NumLex Gen.PExpr Gen.PGuards.
Require Export Model.ExprTypes.
Import ListNotations.

(* what the automaton does with  E o1 E . o2 : true = reduce (o1 binds first), false = shift *)
Definition matrix_lookup (m : list (aop * aop * bool)) (o1 o2 : aop) : bool :=
  match find (fun x => aop_eqb (fst (fst x)) o1 && aop_eqb (snd (fst x)) o2) m with
  | Some (_, _, b) => b
  | None => true
  end.
Definition reduces (o1 o2 : aop) : bool := matrix_lookup expr_matrix_behaviour o1 o2.

Fixpoint reduce_ops (o2 : aop) (fs : list frame) (e : expr) : list frame * expr :=
  match fs with
  | FOp l o1 :: r => if reduces o1 o2 then reduce_ops o2 r (EBin o1 l e) else (fs, e)
  | _ => (fs, e)
  end.
Fixpoint reduce_all (fs : list frame) (e : expr) : list frame * expr :=
  match fs with
  | FOp l o1 :: r => reduce_all r (EBin o1 l e)
  | _ => (fs, e)
  end.

Definition pstate := (list frame * option expr)%type.
Definition pstep (s : pstate) (t : etok) : option pstate :=
  match t, s with
  | TNum n, (fs, None) => Some (fs, Some (ENum n))
  | TL, (fs, None) => Some (FParen false :: fs, None)
  | TNegL, (fs, None) => Some (FParen true :: fs, None)
  | TOp o, (fs, Some e) => let '(fs', e') := reduce_ops o fs e in Some (FOp e' o :: fs', None)
  | TR, (fs, Some e) =>
      match reduce_all fs e with
      | (FParen neg :: fs', e') => Some (fs', Some (if neg then ENeg e' else e'))
      | _ => None
      end
  | _, _ => None
  end.
Fixpoint prun (s : pstate) (ts : list etok) : option pstate :=
  match ts with
  | [] => Some s
  | t :: r => match pstep s t with Some s' => prun s' r | None => None end
  end.
Definition parse_expr (ts : list etok) : option expr :=
  match prun ([], None) ts with
  | Some (fs, Some e) => match reduce_all fs e with ([], e') => Some e' | _ => None end
  | _ => None
  end.

(* ---- evaluation: Expression.parse on numeric operands, NegatedExpression.parse ---- *)
Definition expr_operate (o : aop) (a b : Q) : option Q :=
  let sym := match o with OAdd => $"+" | OSub => $"-" | OMul => $"*" | OTrueDiv => $"/" | _ => $"?" end in
  match assoc sym expr_ops with
  | Some (PArith o') => arith_Q o' a b
  | _ => None
  end.

Inductive eres := RNum (n : num) | RText (t : str) | RErr.

Fixpoint eval (e : expr) : eres :=
  match e with
  | ENum n => RNum n
  | EBin o l r =>
      match eval l, eval r with
      | RNum a, RNum b =>
          (* `if a == 0 and O == '/'`: the font shorthand is kept literally *)
          if Qeq_bool (nv a) 0 && aop_eqb o OTrueDiv then RText $"0/x "
          else match expr_operate o (nv a) (nv b) with
               | Some q => RNum (with_units q (nu a) (nu b))
               | None => RErr
               end
      | RErr, _ | _, RErr => RErr
      | _, _ => RText $"text"
      end
  | ENeg e1 =>
      match eval e1 with
      | RNum a => RNum (MkNum (Qopp (nv a)) (nu a))     (* '-' + str, or the leading '-' removed *)
      | r => r
      end
  end.

(* what a stylesheet sees: tokens -> tree -> value *)
Definition eval_tokens (ts : list etok) : option num :=
  match parse_expr ts with
  | Some e => match eval e with RNum n => Some n | _ => None end
  | None => None
  end.
