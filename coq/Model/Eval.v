(* Eval.v — the second pass: Node.process / Scope.swap (value evaluation), Expression.parse inside values,
   Property.parse, Variable.parse, Block.parse with the @media rotation.  Selectors are resolved against
   the lexical parent chain as the first pass does (p_block_open). *)
From Coq Require Import String.
From Coq Require Import List Ascii Bool NArith ZArith QArith.
Require Import Model.Text Model.ParamTypes Model.Num Model.NumLex Model.Color Model.ExprTypes Model.Expr.
Require Import Model.Ast Model.Scope Model.Ident Model.Fmt Gen.PLimits.
Import ListNotations.
Local Open Scope char_scope.

Inductive outcome (A : Type) := ROk (a : A) | RError (cls msg : str) | REscaped (ty : str) | RFuel.
Arguments ROk {A}. Arguments RError {A}. Arguments REscaped {A}. Arguments RFuel {A}.
Definition rbind {A B} (r : outcome A) (f : A -> outcome B) : outcome B :=
  match r with ROk a => f a | RError c m => RError c m | REscaped t => REscaped t | RFuel => RFuel end.
Fixpoint rmap_list {A B} (f : A -> outcome B) (l : list A) : outcome (list B) :=
  match l with
  | [] => ROk []
  | x :: r => rbind (f x) (fun y => rbind (rmap_list f r) (fun ys => ROk (y :: ys)))
  end.

(* ---- printing of numbers: str(int) / repr(float) for values with a terminating short expansion ---- *)
Fixpoint frac_digits (fuel : nat) (num den : Z) : option str :=     (* num/den in [0,1) *)
  match fuel with
  | O => None
  | S f => if (num =? 0)%Z then Some []
           else let d := (num * 10 / den)%Z in
                match frac_digits f (num * 10 - d * den)%Z den with
                | Some r => Some (chr (48 + Z.to_N d) :: r)
                | None => None
                end
  end.
Definition print_q (q : Q) : option str :=
  let q := Qred q in
  let n := Qnum q in let d := Zpos (Qden q) in
  let neg := (n <? 0)%Z in
  let a := Z.abs n in
  let ip := (a / d)%Z in
  let fr := (a - ip * d)%Z in
  if (fr =? 0)%Z then Some ((if neg then ["-"] else []) ++ dec_of_Z ip)
  else match frac_digits 16 fr d with
       | Some ds => Some ((if neg then ["-"] else []) ++ dec_of_Z ip ++ ["."] ++ ds)
       | None => None                 (* non-terminating / long: python prints a rounded float; not modelled *)
       end.
Definition print_num (n : num) : option str := option_map (fun s => s ++ nu n) (print_q (nv n)).

(* ---- values ---- *)
Definition is_color_tok (s : str) : bool := is_color s.

(* Expression.parse on two evaluated operands A O B (strings) *)
Definition sym_of (o : aop) : str := match o with OAdd => $"+" | OSub => $"-" | OMul => $"*" | OTrueDiv => $"/" | _ => $"?" end.
Definition expr_apply (o : aop) (a b : str) : outcome str :=
  if is_color_tok a || is_color_tok b then
    match color_process a (sym_of o) b with Some c => ROk c | None => REscaped $"ColorError" end
  else
    match parse_number a, parse_number b with
    | Some na, Some nb =>
        if Qeq_bool (nv na) 0 && aop_eqb o OTrueDiv then ROk (a ++ $"/" ++ b ++ $" ")
        else match expr_operate o (nv na) (nv nb) with
             | Some q => match print_num (with_units q (nu na) (nu nb)) with
                         | Some s => ROk s
                         | None => REscaped $"FloatRepr"
                         end
             | None => REscaped $"ZeroDivisionError"
             end
    | _, _ => ROk (a ++ $" " ++ sym_of o ++ $" " ++ b)          (* analyze_number failed: kept as text *)
    end.

(* the pieces of Node.process, parameterised by how a variable is looked up and how call arguments are evaluated *)
Fixpoint eval_xexpr (lookup : str -> outcome (list str)) (e : xexpr) : outcome str :=
  match e with
  | XTok s => ROk s
  | XVar x => rbind (lookup x) (fun l =>
                match filter (fun t => negb (is_blank_tok t)) l with
                | [one] => ROk one
                | _ => REscaped $"ValueError"
                end)
  | XBin o l r => rbind (eval_xexpr lookup l) (fun a => rbind (eval_xexpr lookup r) (fun b => expr_apply o (strip_ws a) (strip_ws b)))
  | XNeg e1 => rbind (eval_xexpr lookup e1) (fun a => ROk (match a with "-" :: r => r | _ => "-" :: a end))
  end.

Definition eval_tok (lookup : str -> outcome (list str)) (rec : list vtok -> outcome (list str)) (t : vtok) : outcome (list str) :=
  match t with
  | VT s => ROk [s]
  | VVar x => lookup x
  | VExpr e => rbind (eval_xexpr lookup e) (fun s => ROk [s])
  | VCall name args => rbind (rec args) (fun a => ROk [name ++ $"(" ++ concat_str a ++ $")"])
  end.

Fixpoint eval_toks (lookup : str -> outcome (list str)) (rec : list vtok -> outcome (list str)) (ts : list vtok) : outcome (list str) :=
  match ts with
  | [] => ROk []
  | t :: r => rbind (eval_tok lookup rec t) (fun here => rbind (eval_toks lookup rec r) (fun rest => ROk (here ++ rest)))
  end.

(* Scope.swap: the variable's value (a token list) is evaluated where it is used.
   The interpolation form @{name} (inside strings and selectors) looks @name up and strips quote characters from both
   ends of the first token of its value (utility.destring) *)
Definition is_interp (x : str) : bool := match x with "@" :: "{" :: _ => true | _ => false end.
Definition interp_name (x : str) : str := match x with "@" :: "{" :: r => "@" :: removelast r | _ => x end.
Definition is_quote_ch (c : ascii) : bool := Ascii.eqb c """" || Ascii.eqb c "'".
Definition destring (s : str) : str := strip is_quote_ch s.
Definition destring_first (v : list vtok) : list vtok := match v with VT s :: r => VT (destring s) :: r | _ => v end.
Definition lookup_with (rec : list vtok -> outcome (list str)) (sc : scope) (x : str) : outcome (list str) :=
  if is_interp x then
    match variables (interp_name x) sc with
    | Some v => rec (destring_first v)
    | None => RError $"SyntaxError" ($"Unknown escaped variable " ++ x)
    end
  else
  match x with
  | "@" :: "@" :: _ => RError $"SyntaxError" $"indirect variable not modelled"
  | _ => match variables x sc with
         | Some v => rec v
         | None => RError $"SyntaxError" ($"Unknown variable " ++ x)
         end
  end.

(* fuel bounds the chain of variable-to-variable references (the real loop has no bound) *)
Fixpoint eval_value (fuel : nat) (sc : scope) (toks : list vtok) {struct fuel} : outcome (list str) :=
  match fuel with
  | O => RFuel
  | S f => eval_toks (lookup_with (eval_value f sc) sc) (eval_value f sc) toks
  end.

(* Node.process gives up after this many rounds (regenerated from the source) *)
Definition value_fuel : nat := process_round_limit.

(* Property.preprocess: an Expression node is followed by a blank (except in `font`) *)
Definition preprocess (prop : str) (val : list vtok) : list vtok :=
  if str_eqb prop $"font" then val
  else flat_map (fun t => match t with VExpr _ => [t; VT blank_tok] | _ => [t] end) val.

(* ---- blocks ---- *)
Definition is_media_name (sel : list str) : bool := match sel with t :: _ => str_eqb t $"@media" | [] => false end.
(* a block has something to print: a declaration (not only variable definitions) or an inner block *)
Definition printable (props : list obj) : list obj := filter (fun o => match o with OVar => false | _ => true end) props.
Definition obj_is_block (o : obj) : bool := match o with OBlock _ _ _ => true | _ => false end.
Definition obj_is_media (o : obj) : bool :=
  match o with
  | OBlock (ONIdent true ((t :: _) :: _)) _ _ => str_eqb t $"@media"
  | _ => false
  end.
Definition media_tail (n : oname) : list str :=           (* mb.name.tokens[2:] flattened: the query text tokens *)
  match n with ONIdent _ ((_ :: _ :: q) :: _) => q | _ => [] end.

(* the merged condition of a @media nested in a @media:  outer-query  ' and '  inner-query *)
Definition merge_media (outer inner : oname) : oname :=
  ONIdent true [pairwise_filter ($"@media" :: blank_tok :: media_tail outer ++ [blank_tok; $"and"; blank_tok] ++ media_tail inner)].

(* which selector does a nested rule combine with: @media and @font-face do not become `scope.current`
   during the first pass *)
Definition sets_current (sel : list str) : bool :=
  match sel with
  | t :: _ => negb (str_eqb t $"@media" || str_eqb t $"@font-face")
  | [] => true
  end.

(* how a mixin call is carried out is a parameter: [callf name args parent scope] *)
Definition call_handler := str -> list (list str) -> option (list part) -> scope -> outcome (list obj * scope).
Definition no_calls : call_handler := fun name _ _ _ => RError $"SyntaxError" ($"NameError " ++ name).

Fixpoint eval_node_g (callf : call_handler) (parent : option (list part)) (sc : scope) (n : node) {struct n} : outcome (list obj * scope) :=
  match n with
  | NMixin _ _ _ => ROk ([], sc)                 (* a definition prints nothing (registered before evaluation) *)
  | NCall name args =>
      rbind (rmap_list (eval_value value_fuel sc) args) (fun vals => callf name vals parent sc)
  | NProp name val imp =>
      rbind (eval_value value_fuel sc (preprocess name val)) (fun v => ROk ([OProp name v imp], sc))
  | NVar name val => ROk ([OVar], add_variable name val sc)
  | NStmt toks => ROk ([OStmt toks], sc)
  | NFrame sel body =>
      let fix go (sc1 : scope) (l : list node) : outcome (list obj) :=
        match l with
        | [] => ROk []
        | c :: r => rbind (eval_node_g callf parent sc1 c) (fun '(os, sc2) => rbind (go sc2 r) (fun rest => ROk (os ++ rest)))
        end in
      rbind (go (push sc) body) (fun inner =>
        let props := filter (fun o => negb (obj_is_block o)) inner in
        let blocks := filter obj_is_block inner in
        ROk ((if Nat.eqb (length (printable props ++ blocks)) 0 then [] else [OBlock (ONFrame sel) props blocks]), sc))
  | NBlock sel body =>
      let nameparsed := ident_parse parent sel in
      let name := ONIdent (is_subparse sel) nameparsed in
      let child_parent := if sets_current sel then Some nameparsed else parent in
      let fix go (sc1 : scope) (l : list node) : outcome (list obj) :=
        match l with
        | [] => ROk []
        | c :: r => rbind (eval_node_g callf child_parent sc1 c) (fun '(os, sc2) => rbind (go sc2 r) (fun rest => ROk (os ++ rest)))
        end in
      rbind (go (push sc) body) (fun inner =>
        let props := filter (fun o => negb (obj_is_block o)) inner in
        let medias := filter obj_is_media inner in
        let blocks := filter (fun o => obj_is_block o && negb (obj_is_media o)) inner in
        let siblings :=
          flat_map (fun mb =>
            match mb with
            | OBlock mname mprops minner =>
                if is_media_name sel
                then (if Nat.eqb (length (printable mprops ++ minner)) 0 then []
                      else [OBlock (merge_media name mname) mprops minner])
                else (if Nat.eqb (length (printable mprops ++ minner)) 0 then []
                      else [OBlock mname [] [OBlock name mprops minner]])
            | _ => []
            end) medias in
        let self := if Nat.eqb (length (printable props ++ blocks)) 0 then [] else [OBlock name props blocks] in
        ROk (self ++ siblings, sc))
  end.

Fixpoint eval_units_g (callf : call_handler) (sc : scope) (l : list node) : outcome (list obj) :=
  match l with
  | [] => ROk []
  | c :: r => rbind (eval_node_g callf None sc c) (fun '(os, sc2) => rbind (eval_units_g callf sc2 r) (fun rest => ROk (os ++ rest)))
  end.
Notation eval_node := (eval_node_g no_calls).
Notation eval_units := (eval_units_g no_calls).

(* ---- mixins: Deferred.parse / Mixin.call ---- *)
Record mixin_def := MkMixin { m_name : str; m_params : list (str * option (list vtok)); m_body : list node }.

(* Mixin.parse_args: positional pairing (zip_longest); a parameter without argument takes its default; a missing
   argument without default means this definition does not apply *)
Fixpoint bind_params (params : list (str * option (list vtok))) (args : list (list str)) (sc : scope) : option scope :=
  match params with
  | [] => Some sc
  | (p, dflt) :: pr =>
      match args with
      | a :: ar => bind_params pr ar (add_variable p (map VT a) sc)
      | [] => match dflt with
              | Some d => bind_params pr [] (add_variable p d sc)
              | None => None
              end
      end
  end.

Definition arguments_value (args : list (list str)) : list vtok :=
  flat_map (fun a => map VT a ++ [VT blank_tok]) args.

(* Mixin.parse_args: @arguments is the list of the arguments written at the call; when none is written it is made of the default
   values of the parameters *)
Definition arguments_of (params : list (str * option (list vtok))) (args : list (list str)) : list vtok :=
  match args with
  | [] => flat_map (fun pd => match snd pd with Some d => d ++ [VT blank_tok] | None => [] end) params
  | _ => arguments_value args
  end.

Section Calls.
  Variable defs : list mixin_def.
  Fixpoint eval_body (callf : call_handler) (parent : option (list part)) (sc : scope) (body : list node) : outcome (list obj * scope) :=
    match body with
    | [] => ROk ([], sc)
    | c :: r => rbind (eval_node_g callf parent sc c) (fun '(os, sc2) =>
                  rbind (eval_body callf parent sc2 r) (fun '(rest, sc3) => ROk (os ++ rest, sc3)))
    end.

  (* the first same-named definition whose parameters can be bound and whose body yields something is used *)
  Fixpoint try_defs (callrec : call_handler) (name : str) (args : list (list str)) (parent : option (list part)) (sc : scope)
    (ds : list mixin_def) : outcome (list obj * scope) :=
    match ds with
    | [] => ROk ([], sc)                    (* an unknown mixin is silently dropped *)
    | d :: rest =>
        if str_eqb (m_name d) name then
          match bind_params (m_params d) args sc with
          | Some sc1 =>
              let sc2 := add_variable $"@arguments" (arguments_of (m_params d) args) sc1 in
              match m_body d with
              | [] => try_defs callrec name args parent sc rest
              | body => eval_body callrec parent sc2 body
              end
          | None => try_defs callrec name args parent sc rest
          end
        else try_defs callrec name args parent sc rest
    end.

  Fixpoint call_mixin (fuel : nat) (name : str) (args : list (list str)) (parent : option (list part)) (sc : scope)
    {struct fuel} : outcome (list obj * scope) :=
    match fuel with
    | O => RError $"SyntaxError" ($"NameError " ++ name)
    | S f => try_defs (call_mixin f) name args parent sc defs
    end.
End Calls.

Definition collect_defs (units : list node) : list mixin_def :=
  flat_map (fun n => match n with
                     | NMixin name params body => [MkMixin name params body]
                     | NBlock [name] body => [MkMixin name [] body]
                     | NBlock [name; [" "%char]] body => [MkMixin name [] body]        (* an ordinary rule with a simple selector can be called too *)
                     | _ => []
                     end) units.

(* the global frame as the first pass leaves it: every top-level variable, the last definition winning *)
Definition initial_scope (units : list node) : scope :=
  [fold_left (fun f n => match n with NVar x v => (x, v) :: f | _ => f end) units []].

Definition compile_nodes (o : opts) (units : list node) : outcome str :=
  match fills_of o with
  | None => REscaped $"NoSuchOptions"
  | Some fl =>
      let defs := collect_defs units in
      rbind (eval_units_g (call_mixin defs (S Gen.PLimits.mixin_depth_limit)) (initial_scope units) units) (fun objs => ROk (format fl objs))
  end.

(* for the correspondence files *)
Require Import Model.Cases.
Definition to_case_res (r : outcome str) : Cases.res :=
  match r with
  | ROk s => Ok s
  | RError c _ => Err $"CompilationError"          (* every SyntaxError registered during a compile is raised as CompilationError *)
  | REscaped t => Escaped t
  | RFuel => Err $"CompilationError"               (* 'Recursive variable definition' *)
  end.

(* ---- first pass (the parser): a selector with @{name} is resolved when its block is opened, with the variables defined
   textually before it (p_block_open: Identifier.parse(self.scope)); variables of identifier / number kind (plain tokens).
   Mixin bodies are left alone (their selectors are resolved when the mixin is called: not modelled). ---- *)
Definition vt_only (v : list vtok) : bool := forallb (fun t => match t with VT _ => true | _ => false end) v.
Definition vt_strs (v : list vtok) : list str := map (fun t => match t with VT s => s | _ => [] end) v.
Definition subst_sel (sc : scope) (sel : list str) : outcome (list str) :=
  fold_right (fun t acc =>
    rbind acc (fun rest =>
      if is_interp t then
        match variables (interp_name t) sc with
        | Some v => if vt_only v then ROk (vt_strs (destring_first v) ++ rest) else REscaped $"NoModel: structured value in a selector"
        | None => RError $"SyntaxError" ($"Unknown escaped variable " ++ t)
        end
      else ROk (t :: rest))) (ROk []) sel.
(* p_media_query_value: a variable used as the value of a media feature is replaced, while parsing, by the FIRST token of its
   value in the scope of that moment; an unknown name is left for later *)
Definition is_plain_var (t : str) : bool := match t with "@" :: "{" :: _ => false | "@" :: "@" :: _ => false | "@" :: _ :: _ => true | _ => false end.
Definition subst_media (sc : scope) (sel : list str) : outcome (list str) :=
  match sel with
  | hd :: tl_ =>
      if str_eqb hd $"@media" then
        rbind (rmap_list (fun t =>
                 if is_plain_var t then
                   match variables t sc with
                   | Some (VT s :: _) => ROk s
                   | Some _ => REscaped $"NoModel: structured value in a media query"
                   | None => ROk t
                   end
                 else ROk t) tl_) (fun tl' => ROk (hd :: tl'))
      else ROk sel
  | [] => ROk sel
  end.

Fixpoint presub_node (sc : scope) (n : node) {struct n} : outcome (node * scope) :=
  let go := fix go (sc1 : scope) (l : list node) : outcome (list node) :=
    match l with
    | [] => ROk []
    | c :: r => rbind (presub_node sc1 c) (fun '(c', sc2) => rbind (go sc2 r) (fun r' => ROk (c' :: r')))
    end in
  match n with
  | NVar name val => ROk (n, add_variable name val sc)
  | NBlock sel body =>
      rbind (rbind (subst_media sc sel) (subst_sel sc)) (fun sel' => rbind (go (push sc) body) (fun body' => ROk (NBlock sel' body', sc)))
  | NFrame sel body => rbind (go (push sc) body) (fun body' => ROk (NFrame sel body', sc))
  | _ => ROk (n, sc)
  end.
Fixpoint presub_units (sc : scope) (l : list node) : outcome (list node) :=
  match l with
  | [] => ROk []
  | c :: r => rbind (presub_node sc c) (fun '(c', sc2) => rbind (presub_units sc2 r) (fun r' => ROk (c' :: r')))
  end.
Definition compile_case (o : opts) (units : list node) : Cases.res :=
  match presub_units [[]] units with
  | ROk units' => to_case_res (compile_nodes o units')
  | RError c m => to_case_res (RError c m)
  | REscaped t => Escaped t
  | RFuel => to_case_res RFuel
  end.
