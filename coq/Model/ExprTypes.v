(* ExprTypes.v — expression trees and expression tokens (independent of Gen.Params). *)
From Coq Require Import String.
From Coq Require Import List Ascii Bool NArith ZArith QArith.
Require Import Model.Text Model.ParamTypes Model.Num Model.NumLex.
Import ListNotations.

Inductive expr := ENum (n : num) | EBin (o : aop) (l r : expr) | ENeg (e : expr).

(* tokens of an expression as the grammar sees them: factor, operator, '(' , '-' '(' , ')' *)
Inductive etok := TNum (n : num) | TOp (o : aop) | TL | TNegL | TR.
Inductive frame := FOp (l : expr) (o : aop) | FParen (neg : bool).

