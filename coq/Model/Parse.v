From Coq Require Import String.
From Coq Require Import List Ascii Bool NArith.
Require Import Model.Text Model.Paths Model.Color Model.Ast Model.Lex.
Import ListNotations.
Local Open Scope char_scope.

(* ===================================================================================
   A reference parser for the verified fragment: from the token stream LessLexer.token()
   hands to the LALR parser (types and values; line numbers are not looked at) to the
   node tree the grammar actions of lesscpy/lessc/parser.py build for it.  Recursive
   descent with explicit fuel; everything outside the fragment makes it ABSTAIN
   (PNoModel): operators and parenthesised expressions, guards, calls other than
   url("..."), statements (@import, @charset ...), colour-like ids in selectors.
   With Model/Lex.v in front and Model/Eval.v behind it, the whole compiler runs inside
   Coq on the source TEXT ([compile_text]); the correspondence compares it byte for
   byte with the real compiler without any prediction of the parser's output.
   =================================================================================== *)

Inductive pres (A : Type) := POk (a : A) | PNoModel (why : str) | PSyntax (why : str).
Arguments POk {A}. Arguments PNoModel {A}. Arguments PSyntax {A}.
Definition pbind {A B} (r : pres A) (f : A -> pres B) : pres B :=
  match r with POk a => f a | PNoModel w => PNoModel w | PSyntax w => PSyntax w end.

Definition tok := (str * str)%type.          (* type, value *)
Definition tty (t : tok) : str := fst t.
Definition tval (t : tok) : str := snd t.
Definition is_ty (s : str) (t : tok) : bool := str_eqb (tty t) s.
Definition ty_in (l : list str) (t : tok) : bool := mem_str (tty t) l.

Definition skip_ws (ts : list tok) : list tok := match ts with t :: r => if is_ty ($"t_ws") t then r else ts | [] => [] end.

(* ---- values: up to the ';' that ends the declaration ---- *)
(* the pieces of an interpolated string, up to t_isclose *)
Fixpoint istring_parts (ts : list tok) : pres (list vtok * list tok) :=
  match ts with
  | [] => PSyntax $"open string"
  | t :: r =>
      if is_ty ($"t_isclose") t then POk ([VT (tval t)], r)
      else if is_ty ($"css_string") t then pbind (istring_parts r) (fun '(ps, rest) => POk (VT (tval t) :: ps, rest))
      else if is_ty ($"less_variable") t then pbind (istring_parts r) (fun '(ps, rest) => POk (VVar (tval t) :: ps, rest))
      else PNoModel $"token inside an interpolated string"
  end.

Definition word_types : list str := [$"css_ident"; $"css_dom"; $"css_number"; $"css_string"; $"css_class"; $"css_id"; $"css_property"; $"css_keyframe_selector"].

(* stops at (and consumes) a token of type [stop1] or [stop2] at the top level; returns the stop token's type *)
Fixpoint parse_value (fuel : nat) (stops : list str) (ts : list tok) : pres (list vtok * bool * str * list tok) :=
  match fuel with
  | O => PNoModel $"fuel"
  | S f =>
    match ts with
    | [] => PSyntax $"value not terminated"
    | t :: r =>
        if ty_in stops t then POk ([], false, tty t, r)
        else
        let cont (here : list vtok) (rest : list tok) :=
          pbind (parse_value f stops rest) (fun '(vs, imp, stop, rest') => POk (here ++ vs, imp, stop, rest')) in
        if is_ty ($"t_ws") t then cont [VT [" "]] r
        else if is_ty ($"t_comma") t then cont [VT [","]] r
        else if is_ty ($"css_important") t then
          match r with
          | s :: r' => if ty_in stops s then POk ([], true, tty s, r') else PNoModel $"!important not last"
          | [] => PSyntax $"value not terminated"
          end
        else if is_ty ($"css_color") t then
          match color_fmt (tval t) with Some c => cont [VT c] r | None => PNoModel $"colour" end
        else if is_ty ($"less_variable") t then
          (if starts_with ($"@{") (tval t) then PNoModel $"bare interpolation in a value" else cont [VVar (tval t)] r)
        else if is_ty ($"less_arguments") t then cont [VVar ($"@arguments")] r
        else if is_ty ($"t_isopen") t then
          pbind (istring_parts r) (fun '(ps, rest) => cont (VT (tval t) :: ps) rest)
        else if ty_in word_types t then
          match r with
          | p :: r1 =>
              if is_ty ($"t_popen") p then
                (* the only call of the fragment: url("...") *)
                match r1 with
                | s :: c :: r2 =>
                    if str_eqb (tval t) ($"url") && is_ty ($"css_string") s && is_ty ($"t_pclose") c
                    then cont [VCall ($"url") [VT (tval s)]] r2
                    else PNoModel $"function call"
                | _ => PNoModel $"function call"
                end
              else cont [VT (tval t)] r
          | [] => cont [VT (tval t)] r
          end
        else PNoModel ($"value token " ++ tty t)
    end
  end.

(* Variable.parse / Mixin.parse_args: the blank between a value and the ';' ',' ')' that ends it is not part of the value *)
Definition strip_trailing_blank (v : list vtok) : list vtok :=
  match rev v with
  | VT [" "] :: r => rev r
  | _ => v
  end.

(* ---- mixin parameter and argument lists: after '(' up to ')' ---- *)
Fixpoint parse_args (fuel : nat) (ts : list tok) : pres (list (list vtok) * list tok) :=
  match fuel with
  | O => PNoModel $"fuel"
  | S f =>
    match ts with
    | t :: r =>
        if is_ty ($"t_pclose") t then POk ([], r)
        else
          pbind (parse_value f [$"t_comma"; $"t_semicolon"; $"t_pclose"] ts) (fun '(v, imp, stop, rest) =>
            if imp then PNoModel $"!important in an argument"
            else if str_eqb stop ($"t_pclose") then POk ([strip_trailing_blank v], rest)
            else pbind (parse_args f (skip_ws rest)) (fun '(more, rest') => POk (strip_trailing_blank v :: more, rest')))
    | [] => PSyntax $"arguments not closed"
    end
  end.
(* a comma inside an argument separates arguments here, so parse_value must not swallow it: the stop list has t_comma,
   and parse_value tests stops before the comma case *)

Fixpoint parse_params (fuel : nat) (ts : list tok) : pres (list (str * option (list vtok)) * list tok) :=
  match fuel with
  | O => PNoModel $"fuel"
  | S f =>
    match ts with
    | t :: r =>
        if is_ty ($"t_pclose") t then POk ([], r)
        else if is_ty ($"less_variable") t then
          match skip_ws r with
          | s :: r1 =>
              if is_ty ($"t_colon") s then
                pbind (parse_value f [$"t_comma"; $"t_semicolon"; $"t_pclose"] r1) (fun '(v, imp, stop, rest) =>
                  if imp then PNoModel $"!important in a default"
                  else if str_eqb stop ($"t_pclose") then POk ([(tval t, Some (strip_trailing_blank v))], rest)
                  else pbind (parse_params f (skip_ws rest)) (fun '(more, rest') => POk ((tval t, Some (strip_trailing_blank v)) :: more, rest')))
              else if is_ty ($"t_pclose") s then POk ([(tval t, None)], r1)
              else if is_ty ($"t_comma") s || is_ty ($"t_semicolon") s then
                pbind (parse_params f (skip_ws r1)) (fun '(more, rest') => POk ((tval t, None) :: more, rest'))
              else PNoModel $"parameter list"
          | [] => PSyntax $"parameters not closed"
          end
        else PNoModel $"parameter that is not a variable"
    | [] => PSyntax $"parameters not closed"
    end
  end.

(* ---- selectors and at-rule headers: the values of the tokens up to '{' ---- *)
Fixpoint take_header (ts : list tok) : pres (list tok * list tok) :=
  match ts with
  | [] => PSyntax $"block not opened"
  | t :: r =>
      if is_ty ($"t_bopen") t then POk ([], r)
      else if is_ty ($"t_semicolon") t || is_ty ($"t_bclose") t then PSyntax $"block not opened"
      else pbind (take_header r) (fun '(h, rest) => POk (t :: h, rest))
  end.
Definition selector_ok (t : tok) : bool :=
  ty_in [$"css_class"; $"css_id"; $"css_dom"; $"css_ident"; $"css_filter"; $"t_ws"; $"t_comma"; $"t_colon"; $"&"; $">"; $"+"; $"t_tilde"; $"*";
         $"less_variable"; $"css_keyframe_selector"; $"css_number"] t.

(* @media query: the blank in front of an `and` that follows ')' is restored by the grammar action, except for the first
   `and` of a query that starts with a feature (p_media_query_b; the spelling is pinned by test/css/media.css) *)
Fixpoint media_tokens (has_type : bool) (seen_and : bool) (prev_close : bool) (ts : list tok) : pres (list str) :=
  match ts with
  | [] => POk []
  | t :: r =>
      if is_ty ($"t_and") t then
        let blank := if prev_close && (has_type || seen_and) then [[" "]] else [] in
        pbind (media_tokens has_type true false r) (fun rest => POk (blank ++ tval t :: rest))
      else if ty_in [$"css_media_type"; $"t_ws"; $"t_popen"; $"css_media_feature"; $"t_colon"; $"css_number"; $"css_ident"; $"less_variable"; $"t_not"; $"t_only"] t then
        pbind (media_tokens has_type seen_and false r) (fun rest => POk (tval t :: rest))
      else if is_ty ($"t_pclose") t then
        pbind (media_tokens has_type seen_and true r) (fun rest => POk (tval t :: rest))
      else PNoModel ($"media query token " ++ tty t)
  end.
Definition media_has_type (ts : list tok) : bool :=
  match skip_ws ts with t :: _ => is_ty ($"css_media_type") t || is_ty ($"t_not") t || is_ty ($"t_only") t | [] => false end.

(* ---- statements ---- *)
(* the statement just parsed, then the rest of the body *)
Definition p_after (rec : list tok -> pres (list node * list tok)) (n : node) (rest : list tok) : pres (list node * list tok) :=
  pbind (rec rest) (fun '(ns, rest') => POk (n :: ns, rest')).
(* a block: its body up to the closing brace, then the rest *)
Definition p_block (rec : list tok -> pres (list node * list tok)) (mk : list node -> node) (rest : list tok) : pres (list node * list tok) :=
  pbind (rec rest) (fun '(body, rest1) =>
    match rest1 with
    | c :: rest2 => if is_ty ($"t_bclose") c then p_after rec (mk body) rest2 else PSyntax $"block not closed"
    | [] => PSyntax $"block not closed"
    end).

Definition prec := list tok -> pres (list node * list tok).

Definition p_decl (fuel : nat) (rec : prec) (t : tok) (r : list tok) : pres (list node * list tok) :=
  match skip_ws r with
  | c :: r1 =>
      if is_ty ($"t_colon") c then
        pbind (parse_value fuel [$"t_semicolon"] r1) (fun '(v, imp, _, rest) => p_after rec (NProp (tval t) v imp) rest)
      else PSyntax $"declaration without colon"
  | [] => PSyntax $"declaration without colon"
  end.

Definition p_vardecl (fuel : nat) (rec : prec) (t : tok) (r : list tok) : pres (list node * list tok) :=
  match skip_ws r with
  | c :: r1 =>
      if is_ty ($"t_colon") c then
        pbind (parse_value fuel [$"t_semicolon"] r1) (fun '(v, imp, _, rest) =>
          if imp then PNoModel $"!important variable" else p_after rec (NVar (tval t) (strip_trailing_blank v)) rest)
      else PNoModel $"variable at statement start"
  | [] => PSyntax $"variable at statement start"
  end.

Definition p_media (rec : prec) (t : tok) (r : list tok) : pres (list node * list tok) :=
  pbind (take_header r) (fun '(h, rest) =>
    pbind (media_tokens (media_has_type h) false false h) (fun q => p_block rec (NBlock (tval t :: q)) rest)).

Definition p_atblock (rec : prec) (t : tok) (r : list tok) : pres (list node * list tok) :=
  pbind (take_header r) (fun '(h, rest) =>
    if forallb (ty_in [$"t_ws"; $"css_ident"]) h then p_block rec (NBlock (tval t :: map tval h)) rest else PNoModel $"at-rule header").

Definition p_charset (rec : prec) (t : tok) (r : list tok) : pres (list node * list tok) :=
  match r with
  | w :: s :: e :: rest =>
      if is_ty ($"t_ws") w && is_ty ($"css_string") s && is_ty ($"t_semicolon") e
      then p_after rec (NStmt [tval t; tval w; tval s; tval e]) rest else PNoModel $"@charset form"
  | _ => PNoModel $"@charset form"
  end.

Fixpoint upto_semicolon (l : list tok) : pres (list tok * list tok) :=
  match l with
  | [] => PSyntax $"statement not terminated"
  | x :: l' => if is_ty ($"t_semicolon") x then POk ([], l') else pbind (upto_semicolon l') (fun '(h, rest') => POk (x :: h, rest'))
  end.
(* an import of something that is not a LESS file stays a statement; a blank is put in front of a media list *)
Definition p_import_finish (rec : prec) (t : tok) (target path : str) (rest : list tok) : pres (list node * list tok) :=
  if is_less_import (strip (fun c => Ascii.eqb c """" || Ascii.eqb c "'") path) then PNoModel $"LESS import (needs the file system: Model/Import.v)"
  else
    pbind (upto_semicolon rest) (fun '(m, rest') =>
      match m with
      | [] => p_after rec (NStmt [tval t; [" "]; target; [";"]]) rest'
      | _ => pbind (media_tokens true false false m) (fun q => p_after rec (NStmt ([tval t; [" "]; target; [" "]] ++ q ++ [[";"]])) rest')
      end).
Definition p_import (rec : prec) (t : tok) (r : list tok) : pres (list node * list tok) :=
  match r with
  | w :: s :: rest =>
      if is_ty ($"t_ws") w && is_ty ($"css_string") s then p_import_finish rec t (tval s) (tval s) rest
      else if is_ty ($"t_ws") w && is_ty ($"css_ident") s && str_eqb (tval s) ($"url") then
        match rest with
        | p :: u :: c :: rest' =>
            if is_ty ($"t_popen") p && is_ty ($"css_string") u && is_ty ($"t_pclose") c
            then p_import_finish rec t (tval s ++ tval p ++ tval u ++ tval c) (tval u) rest' else PNoModel $"@import form"
        | _ => PNoModel $"@import form"
        end
      else PNoModel $"@import form"
  | _ => PNoModel $"@import form"
  end.

(* a rule; inside @keyframes its selector is a KeyframeSelector *)
Definition rule_node (h : list tok) : list node -> node :=
  match h with
  | [k] => if is_ty ($"css_keyframe_selector") k || is_ty ($"css_number") k then NFrame (tval k) else NBlock (map tval h)
  | [k; w] => if (is_ty ($"css_keyframe_selector") k || is_ty ($"css_number") k) && is_ty ($"t_ws") w then NFrame (tval k) else NBlock (map tval h)
  | _ => NBlock (map tval h)
  end.
Definition p_rule (rec : prec) (ts : list tok) : pres (list node * list tok) :=
  pbind (take_header ts) (fun '(h, rest) => if forallb selector_ok h then p_block rec (rule_node h) rest else PNoModel $"selector token").

Definition p_call_tail (fuel : nat) (rec : prec) (t : tok) (r1 : list tok) : pres (list node * list tok) :=
  pbind (parse_args fuel (skip_ws r1)) (fun '(args, rest') =>
    match rest' with
    | s :: rest2 => if is_ty ($"t_semicolon") s then p_after rec (NCall (tval t) args) rest2 else PNoModel $"after a call"
    | [] => PSyntax $"call not terminated"
    end).
(* a mixin call or definition: a single class directly followed by '(' (definition or call: decided by what follows the
   closing parenthesis) or, after an optional blank, by ';' ; otherwise a rule *)
Definition p_class (fuel : nat) (rec : prec) (t : tok) (r : list tok) : pres (list node * list tok) :=
  match skip_ws r with
  | p :: r1 =>
      if is_ty ($"t_semicolon") p then p_after rec (NCall (tval t) []) r1
      else if is_ty ($"t_popen") p && (match r with q :: _ => is_ty ($"t_popen") q | [] => false end) then
        match parse_params fuel (skip_ws r1) with
        | POk (ps, rest) =>
            match skip_ws rest with
            | b :: rest1 => if is_ty ($"t_bopen") b then p_block rec (NMixin (tval t) ps) rest1 else p_call_tail fuel rec t r1
            | [] => PSyntax $"after a parameter list"
            end
        | _ => p_call_tail fuel rec t r1
        end
      else p_rule rec (t :: r)
  | [] => p_rule rec (t :: r)
  end.

Fixpoint parse_body (fuel : nat) (ts : list tok) {struct fuel} : pres (list node * list tok) :=
  match fuel with
  | O => PNoModel $"fuel"
  | S f =>
    match ts with
    | [] => POk ([], [])                                      (* end of input (top level) *)
    | t :: r =>
        if is_ty ($"t_bclose") t then POk ([], ts)
        else if ty_in [$"css_property"; $"css_vendor_property"; $"css_user_property"] t then p_decl f (parse_body f) t r
        else if is_ty ($"less_variable") t then p_vardecl f (parse_body f) t r
        else if is_ty ($"css_media") t then p_media (parse_body f) t r
        else if is_ty ($"css_keyframes") t || is_ty ($"css_font_face") t || is_ty ($"css_viewport") t then p_atblock (parse_body f) t r
        else if is_ty ($"css_charset") t then p_charset (parse_body f) t r
        else if is_ty ($"css_import") t then p_import (parse_body f) t r
        else if ty_in [$"css_namespace"; $"css_page"] t then PNoModel $"statement"
        else if is_ty ($"css_class") t then p_class f (parse_body f) t r
        else p_rule (parse_body f) ts
    end
  end.

Definition parse_tokens (ts : list token) : pres (list node) :=
  let toks := map (fun t => (tk_type t, tk_val t)) ts in
  match parse_body (S (S (List.length toks))) toks with
  | POk (ns, []) => POk ns
  | POk (_, _ :: _) => PSyntax $"stray closing brace"
  | PNoModel w => PNoModel w
  | PSyntax w => PSyntax w
  end.
