(* Cases.v — result type and comparison used by the generated correspondence files
   (harness writes cases_*.v; one coqc call evaluates them with vm_compute). *)
From Coq Require Import String.
From Coq Require Import List Ascii Bool NArith.
Require Import Model.Text.
Import ListNotations.

Inductive res := Ok (v : str) | Err (cls : str) | Escaped (ty : str) | OutOfFuel | NoModel.

Definition res_eqb (a b : res) : bool :=
  match a, b with
  | Ok x, Ok y => str_eqb x y
  | Err x, Err y => str_eqb x y
  | Escaped x, Escaped y => str_eqb x y
  | OutOfFuel, OutOfFuel => true
  | _, _ => false
  end.

Definition res_of_opt (o : option str) : res := match o with Some v => Ok v | None => NoModel end.

(* a case: id, what the model says, what the implementation said *)
Definition case := (N * res * res)%type.
Definition bad (c : case) : bool := let '(_, m, i) := c in negb (res_eqb m i).
Definition bad_ids (l : list case) : list N := map (fun c => fst (fst c)) (filter bad l).

Definition show_res (r : res) : string :=
  match r with
  | Ok v => String.append "Ok:" (string_of_list_ascii v)
  | Err v => String.append "Err:" (string_of_list_ascii v)
  | Escaped v => String.append "Escaped:" (string_of_list_ascii v)
  | OutOfFuel => "OutOfFuel"
  | NoModel => "NoModel"
  end.
Definition show_bad (l : list case) : list (N * string) :=
  map (fun c => (fst (fst c), show_res (snd (fst c)))) (filter bad l).

(* generic verdict rows: (id, ok?, printable model-side value) *)
Definition vbad_ids (l : list (N * bool * string)) : list N :=
  map (fun c => fst (fst c)) (filter (fun c => negb (snd (fst c))) l).
Definition vshow_bad (l : list (N * bool * string)) : list (N * string) :=
  map (fun c => (fst (fst c), snd c)) (filter (fun c => negb (snd (fst c))) l).
