(* Ident.v — model of lesscpy/plib/identifier.py: Identifier.parse (the '?>?' combinator encoding, the
   pairwise blank filter), Identifier.root (parent x child combination, the & substitution with
   itertools.product order), Identifier.fmt.  Selectors are lists of string tokens, exactly the flattened
   Identifier.tokens the parser builds. *)
From Coq Require Import String.
From Coq Require Import List Ascii Bool NArith.
Require Import Model.Text Gen.PIdent.
Import ListNotations.
Local Open Scope char_scope.

Definition part := list str.                 (* one comma-separated selector: its tokens *)

Definition is_comb_tok (n : str) : bool :=   (* `n in '>+~'` for one-character tokens *)
  match n with [c] => Ascii.eqb c ">" || Ascii.eqb c "+" || Ascii.eqb c "~" | _ => false end.
Definition is_subp (t : str) : bool := mem_str t subp_names.
Definition has_qmark (t : str) : bool :=        (* the '?c?' form combinators are kept in: len(j) == 3 and j[0] == j[2] == '?' *)
  match t with [a; _; b] => Ascii.eqb a "?" && Ascii.eqb b "?" | _ => false end.
Definition blank_tok : str := [" "].
Definition is_blank_tok (t : str) : bool := str_eqb t blank_tok.

Definition last_tok (l : list str) : option str := match rev l with x :: _ => Some x | [] => None end.
Definition drop_last {A} (l : list A) : list A := rev (tl (rev l)).

(* the name-building loop of Identifier.parse (non-@ branch): returns the comma-separated names *)
Fixpoint split_names (toks : list str) (name : part) (names : list part) : list part :=
  match toks with
  | [] => names ++ [name]
  | n :: r =>
      if str_eqb n ["*"] then split_names r (name ++ [["*"; " "]]) names
      else if is_comb_tok n then
        let name' := match last_tok name with
                     | Some l => if is_blank_tok l then drop_last name else name
                     | None => name end in
        split_names r (name' ++ ["?" :: n ++ ["?"]]) names
      else if str_eqb n [","] then split_names r [] (names ++ [name])
      else split_names r (name ++ [n]) names
  end.

Definition names_of (toks : list str) : list part :=
  match toks with
  | t :: _ => if is_subp t then [toks] else split_names toks [] []
  | [] => [[]]
  end.
Definition is_subparse (toks : list str) : bool := match toks with t :: _ => is_subp t | [] => false end.

(* the pairwise filter: a blank survives only if followed by a token without '?' *)
Fixpoint pairwise_filter (p : part) : part :=
  match p with
  | [] => []
  | [i] => if is_blank_tok i then [] else [i]
  | i :: ((j :: _) as r) =>
      if is_blank_tok i && has_qmark j then pairwise_filter r else i :: pairwise_filter r
  end.

(* ---- Identifier.root ---- *)
Definition usable_parent_parts (parent : list part) : list part :=
  filter (fun p => match p with t :: _ => negb (is_subp t) | [] => false end) parent.

(* itertools.product(range(n), repeat=r), as lists of parts, in product order (first index slowest) *)
Fixpoint product_rep {A} (pool : list A) (r : nat) : list (list A) :=
  match r with
  | O => [[]]
  | S k => flat_map (fun x => map (fun rest => x :: rest) (product_rep pool k)) pool
  end.

Definition ends_with_bracket (t : str) : bool := match rev t with c :: _ => Ascii.eqb c "]" | [] => false end.
Definition strip_trailing_blank (p : part) : part :=
  match last_tok p with Some l => if is_blank_tok l then drop_last p else p | None => p end.

(* substitute the parents of one permutation into a name containing & *)
Fixpoint subst_amp (name : part) (perm : list part) (acc : part) : part :=
  match name with
  | [] => acc
  | n :: r =>
      if str_eqb n ["&"] then
        match perm with
        | pp :: perm' =>
            let acc1 := match last_tok acc with
                        | Some l => if ends_with_bracket l then acc ++ [blank_tok] else acc
                        | None => acc end in
            subst_amp r perm' (acc1 ++ strip_trailing_blank pp)
        | [] => subst_amp r [] acc          (* cannot happen: one parent per & *)
        end
      else subst_amp r perm (acc ++ [n])
  end.

Definition count_amp (name : part) : nat := length (filter (fun n => str_eqb n ["&"]) name).

Definition root_one (parent : list part) (name : part) : list part :=
  let k := count_amp name in
  if Nat.ltb 0 k then
    map (fun perm => subst_amp name perm []) (product_rep (usable_parent_parts parent) k)
  else
    match name with
    | t :: _ =>
        if str_eqb t $"@media" then [name]
        else map (fun p => match p with
                           | pt :: _ =>
                               if negb (is_subp pt)
                               then p ++ (match last_tok p with
                                          | Some l => if is_blank_tok l then [] else [blank_tok]
                                          | None => [blank_tok] end) ++ name
                               else name
                           | [] => name
                           end) parent
    | [] => map (fun _ => name) parent
    end.

(* parent = None: no enclosing rule (scopename empty) or its identifier has no parsed parts *)
Definition root (parent : option (list part)) (names : list part) : list part :=
  match parent with
  | Some ((_ :: _) as pp) => flat_map (root_one pp) names
  | _ => names
  end.

(* Identifier.parse without variables in the selector *)
Definition ident_parse (parent : option (list part)) (toks : list str) : list part :=
  map pairwise_filter (root parent (names_of toks)).

(* ---- Identifier.fmt ---- *)
Fixpoint replace_all (pat rep x : str) (fuel : nat) : str :=
  match fuel with
  | O => x
  | S f =>
      match x with
      | [] => []
      | c :: r => if starts_with pat x && negb (Nat.eqb (length pat) 0)
                  then rep ++ replace_all pat rep (skipn (length pat) x) f
                  else c :: replace_all pat rep r f
      end
  end.
Definition str_replace (pat rep x : str) : str := replace_all pat rep x (S (length x)).

(* re.sub('\?(.)\?', ws + '\1' + ws, name) *)
(* re.sub(r'(\[[^\]]*\])|\?(.)\?', keep group 1 or ws + group 2 + ws): a bracketed part is copied, '?c?' becomes ws c ws *)
Fixpoint sub_comb_fuel (fuel : nat) (ws : str) (x : str) : str :=
  match fuel with
  | O => x
  | S f =>
      match x with
      | [] => []
      | a :: r =>
          if Ascii.eqb a "[" then
            let '(inside, rest) := span (fun d => negb (Ascii.eqb d "]")) r in
            match rest with
            | d :: rest' => a :: inside ++ d :: sub_comb_fuel f ws rest'      (* d is the closing bracket *)
            | [] => a :: sub_comb_fuel f ws r
            end
          else
          match r with
          | c :: b :: r' =>
              if Ascii.eqb a "?" && Ascii.eqb b "?"
              then (if is_nl c then a :: sub_comb_fuel f ws r            (* '.' does not match newline *)
                    else ws ++ [c] ++ ws ++ sub_comb_fuel f ws r')
              else a :: sub_comb_fuel f ws r
          | _ => a :: sub_comb_fuel f ws r
          end
      end
  end.
Definition sub_comb (ws : str) (x : str) : str := sub_comb_fuel (S (length x)) ws x.

Definition strip_ws (x : str) : str := strip is_space x.

(* re.sub(r'(\[[^\]]*\])|  ', keep group 1 or one blank): double blanks are squeezed except inside [...] *)
Fixpoint squeeze_blanks (fuel : nat) (x : str) : str :=
  match fuel with
  | O => x
  | S f =>
      match x with
      | [] => []
      | c :: r =>
          if Ascii.eqb c "[" then
            let '(inside, rest) := span (fun d => negb (Ascii.eqb d "]")) r in
            match rest with
            | d :: rest' => c :: inside ++ d :: squeeze_blanks f rest'     (* d is the closing bracket *)
            | [] => c :: squeeze_blanks f r                                (* no closing bracket: '[' is an ordinary character *)
            end
          else
            match r with
            | d :: r' => if Ascii.eqb c " " && Ascii.eqb d " " then c :: squeeze_blanks f r' else c :: squeeze_blanks f r
            | [] => c :: squeeze_blanks f r
            end
      end
  end.

(* every comma-separated part: blanks trimmed, the '?c?' combinator marks replaced by ws c ws; the parts joined by a comma and
   the line break fill; double blanks squeezed in the whole *)
Definition ident_fmt (ws nl : str) (parsed : list part) : str :=
  let name := join ("," :: nl) (map (fun p => sub_comb ws (strip_ws (concat_str p))) parsed) in
  squeeze_blanks (S (length name)) name.
