(* Colorsys.v — python's standard library colorsys.rgb_to_hls / hls_to_rgb / _v, transcribed by hand over
   exact rationals (ONE_THIRD etc. are the exact fractions).  Independent of Gen.Params: this is also the
   "standard RGB<->HSL conversion" the property refers to. *)
From Coq Require Import String.
From Coq Require Import List Ascii Bool NArith ZArith QArith Qround.
Require Import Model.Text Model.ParamTypes Model.Num Model.PyNum.
Import ListNotations.
Local Open Scope Q_scope.

Definition max3 (a b c : Q) : Q := qmax a (qmax b c).
Definition min3 (a b c : Q) : Q := qmin a (qmin b c).

Definition rgb_to_hls (r g b : Q) : Q * Q * Q :=
  let maxc := max3 r g b in
  let minc := min3 r g b in
  let sumc := maxc + minc in
  let rangec := maxc - minc in
  let l := sumc / 2 in
  if Qeq_bool minc maxc then (0, l, 0)
  else
    let s := if Qle_bool l (1#2) then rangec / sumc else rangec / (2 - maxc - minc) in
    let rc := (maxc - r) / rangec in
    let gc := (maxc - g) / rangec in
    let bc := (maxc - b) / rangec in
    let h := if Qeq_bool r maxc then bc - gc
             else if Qeq_bool g maxc then 2 + rc - bc
             else 4 + gc - rc in
    (py_mod (h / 6) 1, l, s).

Definition hue_v (m1 m2 hue : Q) : Q :=
  let hue := py_mod hue 1 in
  if Qlt_bool hue (1#6) then m1 + (m2 - m1) * hue * 6
  else if Qlt_bool hue (1#2) then m2
  else if Qlt_bool hue (2#3) then m1 + (m2 - m1) * ((2#3) - hue) * 6
  else m1.

Definition hls_to_rgb (h l s : Q) : Q * Q * Q :=
  if Qeq_bool s 0 then (l, l, l)
  else
    let m2 := if Qle_bool l (1#2) then l * (1 + s) else l + s - l * s in
    let m1 := 2 * l - m2 in
    (hue_v m1 m2 (h + (1#3)), hue_v m1 m2 h, hue_v m1 m2 (h - (1#3))).
