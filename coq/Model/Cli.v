(* Cli.v — model of lesscpy/scripts/compiler.py directory mode (ldirectory) over an abstract file system:
   which outputs are rewritten (staleness test regenerated from the source), what they contain, what is left
   untouched; --force, --dry-run, --min-ending, --recurse.  The compiler itself is a Section variable:
   [compile src] is what compiling that file alone with the same options and includes returns. *)
From Coq Require Import String.
From Coq Require Import List Ascii Bool NArith ZArith.
Require Import Model.Text Model.ParamTypes Gen.PCli.
Import ListNotations.

Record file := MkFile { f_bytes : str; f_mtime : Z }.
(* a directory: its plain files and its sub-directories, by name *)
Inductive dir := Dir (files : list (str * file)) (subs : list (str * dir)).
Definition d_files (d : dir) := match d with Dir f _ => f end.
Definition d_subs (d : dir) := match d with Dir _ s => s end.

Record flags := MkFlags { fl_force : bool; fl_dry : bool; fl_min : bool; fl_recurse : bool }.

Section WithCompiler.
  Variable compile : str -> str.          (* oracle: source bytes -> css (library result for that file alone) *)
  Variable now : Z.                       (* the time stamp a write gets *)

  Definition has_suffix (suf name : str) : bool := ends_with suf name && Nat.ltb (length suf) (length name + 1).
  Definition is_less (name : str) : bool := ends_with $".less" name.      (* glob *.less *)
  Definition stem (name : str) : str := firstn (length name - 5) name.    (* os.path.splitext on name.less *)
  Definition out_name (fl : flags) (name : str) : str := stem name ++ (if fl_min fl then $".min" else []) ++ $".css".

  Definition lookup_file (name : str) (fs : list (str * file)) : option file := assoc name fs.
  Fixpoint set_file (name : str) (f : file) (fs : list (str * file)) : list (str * file) :=
    match fs with
    | [] => [(name, f)]
    | (n, g) :: r => if str_eqb n name then (n, f) :: r else (n, g) :: set_file name f r
    end.

  (* recompile = force, or the output is missing, or the output is older than the source (comparison regenerated) *)
  Definition stale (fl : flags) (src : file) (out : option file) : bool :=
    if fl_force fl then true
    else match out with
         | None => true
         | Some o => match staleness_cmp with
                     | CLt => Z.ltb (f_mtime o) (f_mtime src)
                     | CLe => Z.leb (f_mtime o) (f_mtime src)
                     | CGt => Z.ltb (f_mtime src) (f_mtime o)
                     | CGe => Z.leb (f_mtime src) (f_mtime o)
                     | CEq => Z.eqb (f_mtime o) (f_mtime src)
                     | CNe => negb (Z.eqb (f_mtime o) (f_mtime src))
                     end
         end.

  (* one directory level: sources in [src], outputs into [out]; returns the new output files *)
  Fixpoint compile_level (fl : flags) (srcs : list (str * file)) (out : list (str * file)) : list (str * file) :=
    match srcs with
    | [] => out
    | (name, f) :: r =>
        if is_less name then
          let o := out_name fl name in
          let out' := if stale fl f (lookup_file o out) && negb (fl_dry fl)
                      then set_file o (MkFile (compile (f_bytes f)) now) out else out in
          compile_level fl r out'
        else compile_level fl r out
    end.

  Definition hidden (name : str) : bool := match name with "."%char :: _ => true | _ => false end.

  (* ldirectory: the output directory is created when missing (unless dry run), the level is compiled, and with
     --recurse every visible sub-directory is mirrored.  [outname] = the path given with -o, compared with
     sub-directory NAMES as the code does. *)
  Fixpoint ldirectory (fuel : nat) (fl : flags) (outname : str) (src : dir) (out : option dir) : option dir :=
    match fuel with
    | O => out
    | S f =>
        let out0 := match out with
                    | Some d => Some d
                    | None => if fl_dry fl then None else Some (Dir [] [])
                    end in
        match out0 with
        | None => None                    (* dry run with a missing output directory: nothing is created *)
        | Some (Dir ofiles osubs) =>
            let ofiles' := compile_level fl (d_files src) ofiles in
            let osubs' :=
              if fl_recurse fl then
                fold_left (fun acc '(name, sd) =>
                             if hidden name || str_eqb name outname then acc
                             else match ldirectory f fl (outname ++ $"/" ++ name) sd (assoc name acc) with
                                  | Some d' => (fix put (l : list (str * dir)) :=
                                                  match l with
                                                  | [] => [(name, d')]
                                                  | (n, g) :: r => if str_eqb n name then (n, d') :: r else (n, g) :: put r
                                                  end) acc
                                  | None => acc
                                  end) (d_subs src) osubs
              else osubs in
            Some (Dir ofiles' osubs')
        end
    end.
End WithCompiler.
