(* Num.v — exact rational helpers shared by the numeric models (no proofs). *)
From Coq Require Import String.
From Coq Require Import List Ascii Bool NArith ZArith QArith Qround.
Require Import Model.Text Model.ParamTypes.
Import ListNotations.
Local Open Scope Q_scope.

Definition Qtrunc (q : Q) : Z := if Qle_bool 0 q then Qfloor q else Qceiling q.   (* python int() *)
Definition Qlt_bool (a b : Q) : bool := negb (Qle_bool b a).
Definition qmax (a b : Q) : Q := if Qle_bool a b then b else a.
Definition qmin (a b : Q) : Q := if Qle_bool a b then a else b.
Definition is_integral (q : Q) : bool := Qeq_bool (inject_Z (Qfloor q)) q.

Definition cmp_Q (c : cmp) (a b : Q) : bool :=
  match c with
  | CGt => Qlt_bool b a
  | CLt => Qlt_bool a b
  | CGe => Qle_bool b a
  | CLe => Qle_bool a b
  | CEq => Qeq_bool a b
  | CNe => negb (Qeq_bool a b)
  end.

(* None = ZeroDivisionError / unsupported operator *)
Definition arith_Q (o : aop) (a b : Q) : option Q :=
  match o with
  | OAdd => Some (a + b)
  | OSub => Some (a - b)
  | OMul => Some (a * b)
  | OTrueDiv => if Qeq_bool b 0 then None else Some (a / b)
  | OFloorDiv => if Qeq_bool b 0 then None else Some (inject_Z (Qfloor (a / b)))
  | OMod => if Qeq_bool b 0 then None else Some (a - b * inject_Z (Qfloor (a / b)))
  | OOther => None
  end.

Definition apply_clamp_step (v : Q) (st : clamp_step) : Q :=
  if cmp_Q (cs_cmp st) v (inject_Z (cs_bound st)) then inject_Z (cs_assign st) else v.
Definition apply_clamp (steps : list clamp_step) (v : Q) : Q := fold_left apply_clamp_step steps v.

(* "%02x" % n and friends: %[0][width](x|X|d) on a python int *)
Fixpoint digits_base_fuel (fuel : nat) (base : N) (dig : N -> ascii) (n : N) (acc : str) : str :=
  match fuel with
  | O => acc
  | S f => let d := dig (n mod base)%N in
           if (n <? base)%N then d :: acc else digits_base_fuel f base dig (n / base)%N (d :: acc)
  end.
Definition digits_base (base : N) (dig : N -> ascii) (n : N) : str :=
  digits_base_fuel (S (N.to_nat (N.log2 n))) base dig n [].
Definition hex_of_N (n : N) : str := digits_base 16 hexdigit n.
Definition HEX_of_N (n : N) : str := map to_upper (hex_of_N n).

Fixpoint rep_front (c : ascii) (k : nat) (x : str) : str :=
  match k with O => x | S k' => c :: rep_front c k' x end.
Definition pad_left (c : ascii) (w : nat) (x : str) : str := rep_front c (w - length x) x.

Definition pyfmt_int (spec : str) (z : Z) : option str :=
  match spec with
  | "%"%char :: r =>
      let zero := match r with "0"%char :: _ => true | _ => false end in
      let '(w, r2) := span is_digit r in
      let width := match N_of_dec w with Some n => N.to_nat n | None => O end in
      let body (conv : N -> str) :=
        let mag := conv (Z.abs_N z) in
        let neg := (z <? 0)%Z in
        let padc := if zero then "0"%char else " "%char in
        (* python pads to total width including the sign; zero padding goes after the sign *)
        let w' := if neg then Nat.pred width else width in
        if zero then Some ((if neg then ["-"%char] else []) ++ pad_left padc w' mag)
        else Some (pad_left padc width ((if neg then ["-"%char] else []) ++ mag)) in
      match r2 with
      | ["x"%char] => body hex_of_N
      | ["X"%char] => body HEX_of_N
      | ["d"%char] => body dec_of_N
      | _ => None
      end
  | _ => None
  end.
