(* CliCases.v — comparison helpers for the C16 correspondence files. *)
From Coq Require Import String.
From Coq Require Import List Ascii Bool NArith ZArith.
Require Import Model.Text Model.Cli.
Import ListNotations.

Definition file_eqb (a b : file) : bool := str_eqb (f_bytes a) (f_bytes b) && Z.eqb (f_mtime a) (f_mtime b).
Definition files_sub (a b : list (str * file)) : bool :=
  forallb (fun nf => match assoc (fst nf) b with Some g => file_eqb (snd nf) g | None => false end) a.

Fixpoint dir_eqb (a b : dir) {struct a} : bool :=
  match a, b with
  | Dir fa sa, Dir fb sb =>
      files_sub fa fb && files_sub fb fa && Nat.eqb (length sa) (length sb) &&
      (fix subs (l : list (str * dir)) : bool :=
         match l with
         | [] => true
         | (n, d) :: r => match assoc n sb with Some d' => dir_eqb d d' | None => false end && subs r
         end) sa
  end.
Definition odir_eqb (a b : option dir) : bool :=
  match a, b with Some x, Some y => dir_eqb x y | None, None => true | _, _ => false end.

Fixpoint show_dir (fuel : nat) (d : dir) : str :=
  match fuel with
  | O => []
  | S f =>
      match d with
      | Dir fs ss =>
          concat_str (map (fun nf => fst nf ++ $"@" ++ dec_of_Z (f_mtime (snd nf)) ++ $"=<" ++ f_bytes (snd nf) ++ $"> ") fs)
          ++ concat_str (map (fun nd => fst nd ++ $"/{" ++ show_dir f (snd nd) ++ $"} ") ss)
      end
  end.
Definition show_odir (d : option dir) : string :=
  match d with Some x => string_of_list_ascii (show_dir 8 x) | None => "None" end.
