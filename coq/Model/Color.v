(* Color.v — model of lesscpy/lessc/color.py: Color.fmt, _hextorgb, process, operate,
   and of utility.is_color.  Constants come from Gen.PColor (regenerated from /repo). *)
From Coq Require Import String.
From Coq Require Import List Ascii Bool NArith ZArith QArith Qround.
Require Import Model.Text Model.ParamTypes Model.Num Gen.PColor.
Import ListNotations.
Local Open Scope char_scope.

(* utility.is_color: '#' + 3/4/6/8 hex digits.  (python's int(x,16) also accepts '_' separators,
   signs and surrounding blanks; the lexer never produces those after '#'.) *)
Definition is_color (v : str) : bool :=
  match v with
  | "#" :: r => (let n := length r in Nat.eqb n 3 || Nat.eqb n 4 || Nat.eqb n 6 || Nat.eqb n 8)
                && forallb is_hex r
  | _ => false
  end.

Definition is_hash (c : ascii) := Ascii.eqb c "#".

Fixpoint double_each (x : str) : str :=
  match x with [] => [] | c :: r => c :: c :: double_each r end.

(* Color.fmt *)
Definition color_fmt (v : str) : option str :=
  if is_color v then
    let c := strip is_hash (lower v) in
    let c := if Nat.eqb (length c) 3 || Nat.eqb (length c) 4 then double_each c else c in
    Some ("#" :: c)
  else None.

Fixpoint hex_pairs (x : str) : option (list N) :=
  match x with
  | [] => Some []
  | a :: b :: r =>
      match hexval a, hexval b, hex_pairs r with
      | Some ha, Some hb, Some l => Some ((ha * 16 + hb)%N :: l)
      | _, _, _ => None
      end
  | [a] => match hexval a with Some ha => Some [ha] | None => None end   (* int('a',16) of a 1-char tail *)
  end.

(* Color._hextorgb for arguments that start with '#' (named colours and bare numbers: see Hsl.v) *)
Definition hextorgb (v : str) : option (list N) :=
  match strip is_space v with
  | ("#" :: _) as h =>
      let h := strip (fun c => Ascii.eqb c ";") (strip is_hash h) in
      if Nat.eqb (length h) 3 then hex_pairs (double_each h) else hex_pairs h
  | _ => None
  end.

Definition color_operate (op : str) (a b : Q) : option Q :=
  match assoc op color_ops with
  | Some (PArith o) => arith_Q o a b
  | _ => None
  end.

Definition channel_str (v : Q) : option str :=
  pyfmt_int color_process_fmt (Qtrunc (apply_clamp color_clamp_steps v)).

(* Color.process((a, o, b)) *)
Definition color_process (a o b : str) : option str :=
  match hextorgb a, hextorgb b with
  | Some [r1; g1; b1], Some [r2; g2; b2] =>
      let ch x y := opt_bind (color_operate o (inject_Z (Z.of_N x)) (inject_Z (Z.of_N y))) channel_str in
      match ch r1 r2, ch g1 g2, ch b1 b2 with
      | Some x, Some y, Some z => Some ("#" :: x ++ y ++ z)
      | _, _, _ => None
      end
  | _, _ => None
  end.

(* what a stylesheet sees: literals pass p_color (Color.fmt) first, then Expression.parse → process *)
Definition color_expr (a o b : str) : option str :=
  match color_fmt a, color_fmt b with
  | Some a', Some b' => color_process a' o b'
  | _, _ => None
  end.
