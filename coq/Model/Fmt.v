(* Fmt.v — output objects (what Block.parse / Property.parse leave behind) and the printers:
   Property.fmt, Block.fmt (with the @media re-indentation), Statement.fmt, KeyframeSelector.fmt,
   Formatter.format.  The fill table is regenerated from the real Formatter (Gen.PFmt). *)
From Coq Require Import String.
From Coq Require Import List Ascii Bool NArith.
Require Import Model.Text Model.Ident Gen.PFmt.
Import ListNotations.
Local Open Scope char_scope.

Record fills := MkFills { f_nl : str; f_tab : str; f_ws : str; f_eb : str }.
Definition opts := (bool * bool * bool * nat)%type.       (* minify, xminify, tabs, spaces *)

Definition opts_eqb (a b : opts) : bool :=
  let '(a1, a2, a3, a4) := a in let '(b1, b2, b3, b4) := b in
  Bool.eqb a1 b1 && Bool.eqb a2 b2 && Bool.eqb a3 b3 && Nat.eqb a4 b4.
Definition fills_of (o : opts) : option fills :=
  match find (fun r => opts_eqb (fst r) o) fills_table with
  | Some (_, (nl, tab, ws, eb)) => Some (MkFills nl tab ws eb)
  | None => None
  end.

Inductive oname :=
| ONIdent (subparse : bool) (parsed : list part)
| ONFrame (s : str).                                   (* KeyframeSelector *)

Inductive obj :=
| OProp (name : str) (parsed : list str) (important : bool)
| OBlock (name : oname) (props : list obj) (inner : list obj)
| OStmt (parsed : list str)
| OVar.                                                (* Variable: prints nothing *)

(* re.sub("(url\([^\)]*\))([^\s,])", "\1 \2", style) *)
Fixpoint skip_to_paren (x : str) : option (str * str) :=   (* [^\)]*\)  -> (consumed incl ')', rest) *)
  match x with
  | [] => None
  | ")" :: r => Some ([")"], r)
  | c :: r => match skip_to_paren r with Some (a, b) => Some (c :: a, b) | None => None end
  end.
(* Property.fmt: a blank is put between url(...) and a following token. The substitution scans left to right; a quoted string is
   copied as a unit (outside and inside the parentheses); inside url( a quote that opens no string makes the url( not match *)
Definition is_quote (c : ascii) : bool := Ascii.eqb c """" || Ascii.eqb c "'".
Fixpoint skip_string (q : ascii) (x : str) : option (str * str) :=       (* x starts after the opening quote *)
  match x with
  | [] => None
  | c :: r => if Ascii.eqb c q then Some ([c], r)
              else match skip_string q r with Some (a, b) => Some (c :: a, b) | None => None end
  end.
Fixpoint skip_url_inside (fuel : nat) (x : str) : option (str * str) :=  (* x starts after "url(" ; result ends with ")" *)
  match fuel with
  | O => None
  | S f =>
    match x with
    | [] => None
    | c :: r =>
        if Ascii.eqb c ")" then Some ([c], r)
        else if is_quote c then
          match skip_string c r with
          | Some (s, r') => match skip_url_inside f r' with Some (a, b) => Some (c :: s ++ a, b) | None => None end
          | None => None
          end
        else match skip_url_inside f r with Some (a, b) => Some (c :: a, b) | None => None end
    end
  end.
Fixpoint url_fix (fuel : nat) (x : str) : str :=
  match fuel with
  | O => x
  | S f =>
    match x with
    | [] => []
    | c :: r =>
        if is_quote c then
          match skip_string c r with
          | Some (s, r') => c :: s ++ url_fix f r'
          | None => c :: url_fix f r
          end
        else
          match (match x with
                 | "u" :: "r" :: "l" :: "(" :: r4 => skip_url_inside (S (length r4)) r4
                 | _ => None
                 end) with
          | Some (inside, rest) =>
              match rest with
              | d :: _ => if is_space d || Ascii.eqb d "," then c :: url_fix f r
                          else "u" :: "r" :: "l" :: "(" :: inside ++ " " :: url_fix f rest
              | [] => c :: url_fix f r
              end
          | None => c :: url_fix f r
          end
    end
  end.

(* a blank after every comma token of the value, except inside an interpolated string (between two lone quote tokens) *)
Fixpoint comma_ws (ws : str) (quote : option str) (parsed : list str) : list str :=
  match parsed with
  | [] => []
  | p :: r =>
      match quote with
      | None => if str_eqb p [""""] || str_eqb p ["'"] then p :: comma_ws ws (Some p) r
                else if str_eqb p [","] then ("," :: ws) :: comma_ws ws None r
                else p :: comma_ws ws None r
      | Some q => if str_eqb p q then p :: comma_ws ws None r else p :: comma_ws ws quote r
      end
  end.

Definition prop_fmt (fl : fills) (name : str) (parsed : list str) (important : bool) : str :=
  let parsed := match f_nl fl with
                | [] => parsed
                | _ => comma_ws (f_ws fl) None parsed
                end in
  let style := url_fix (S (length (concat_str parsed))) (concat_str parsed) in
  f_tab fl ++ name ++ [":"] ++ f_ws fl ++ strip_ws style ++ (if important then $" !important" else []) ++ [";"] ++ f_nl fl.

Definition name_fmt (fl : fills) (n : oname) : str :=
  match n with
  | ONIdent _ parsed => ident_fmt (f_ws fl) (f_nl fl) parsed
  | ONFrame s => s
  end.
Definition name_subparse (n : oname) : bool := match n with ONIdent b _ => b | ONFrame _ => false end.

Definition in_set (cs : str) (c : ascii) : bool := existsb (Ascii.eqb c) cs.

(* inner.replace(nl, nl + tab): python's str.replace with an empty pattern inserts between all characters;
   nl is empty only together with an empty tab, where that is the identity *)
Definition reindent (fl : fills) (inner : str) : str :=
  let r := match f_nl fl with
           | [] => match f_tab fl with [] => inner | t => concat_str (map (fun c => t ++ [c]) inner) ++ t end
           | nl => str_replace nl (nl ++ f_tab fl) inner
           end in
  let r := strip_right (in_set (f_tab fl)) r in
  match f_nl fl with [] => strip_ws r | _ => r end.

Fixpoint obj_fmt (fl : fills) (o : obj) : str :=
  match o with
  | OProp name parsed imp => prop_fmt fl name parsed imp
  | OStmt parsed => concat_str parsed ++ f_eb fl
  | OVar => []
  | OBlock name props inner =>
      let nm := name_fmt fl name in
      let blockf (proplist : str) := nm ++ f_ws fl ++ ["{"] ++ f_nl fl ++ proplist ++ ["}"] ++ f_eb fl in
      let own :=
        if existsb (fun p => match p with OVar => false | _ => true end) props
        then blockf (concat_str (map (obj_fmt fl) props)) else [] in
      let rest :=
        let inner_s := concat_str (map (obj_fmt fl) inner) in
        if name_subparse name && negb (Nat.eqb (length inner) 0)
        then (if forallb is_space inner_s then [] else blockf (f_tab fl ++ reindent fl inner_s))   (* rules that print nothing: nothing to wrap *)
        else inner_s in
      own ++ rest
  end.

Definition format (fl : fills) (result : list obj) : str := strip_ws (concat_str (map (obj_fmt fl) result)).
