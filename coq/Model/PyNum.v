(* PyNum.v — the target vocabulary of the translator for pure arithmetic python functions
   (harness/gen_params.py, py2coq): python numbers are modelled as exact rationals. *)
From Coq Require Import String.
From Coq Require Import List Ascii Bool NArith ZArith QArith Qround.
Require Import Model.Text Model.ParamTypes Model.Num.
Import ListNotations.
Local Open Scope Q_scope.

Definition py_floor (x : Q) : Q := inject_Z (Qfloor x).          (* math.floor *)
Definition py_ceil (x : Q) : Q := inject_Z (Qceiling x).         (* math.ceil *)
Definition py_int (x : Q) : Q := inject_Z (Qtrunc x).            (* int() *)
Definition py_float (x : Q) : Q := x.                             (* float() — exact here *)
Definition py_abs (x : Q) : Q := if Qle_bool 0 x then x else - x.
Definition py_copysign (a b : Q) : Q :=                           (* math.copysign; -0.0 not represented *)
  if Qle_bool 0 b then py_abs a else - py_abs a.
Definition py_min (a b : Q) : Q := qmin a b.
Definition py_max (a b : Q) : Q := qmax a b.
Definition py_pow (a b : Q) : Q := Qpower a (Qfloor b).          (* a ** b for integral b *)
(* python3 round(x) (ndigits = 0): round half to even *)
Definition py_round0 (x : Q) : Q :=
  let f := Qfloor x in
  let d := x - inject_Z f in
  if Qlt_bool d (1#2) then inject_Z f
  else if Qlt_bool (1#2) d then inject_Z (f + 1)
  else if Z.even f then inject_Z f else inject_Z (f + 1).
Definition py_round (x nd : Q) : Q :=
  let p := py_pow 10 nd in py_round0 (x * p) / p.
(* a % b with python's sign convention (result has the sign of b) *)
Definition py_mod (a b : Q) : Q := a - b * inject_Z (Qfloor (a / b)).
Definition py_lt (a b : Q) : bool := Qlt_bool a b.
Definition py_le (a b : Q) : bool := Qle_bool a b.
Definition py_gt (a b : Q) : bool := Qlt_bool b a.
Definition py_ge (a b : Q) : bool := Qle_bool b a.
Definition py_eq (a b : Q) : bool := Qeq_bool a b.
Definition py_ne (a b : Q) : bool := negb (Qeq_bool a b).
