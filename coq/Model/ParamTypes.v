(* ParamTypes.v — types of the definitions that harness/gen_params.py regenerates
   from /repo on every run (Gen/Params.v). *)
From Coq Require Import String.
From Coq Require Import List Ascii ZArith.
Require Import Model.Text.
Import ListNotations.

Inductive cmp := CGt | CLt | CGe | CLe | CEq | CNe.
Inductive aop := OAdd | OSub | OMul | OTrueDiv | OFloorDiv | OMod | OOther.
(* a python comparison operator used as a function (operator.gt …) *)
Inductive pyop := PArith (o : aop) | PCmp (c : cmp).

Definition cmp_eqb (a b : cmp) : bool :=
  match a, b with
  | CGt, CGt | CLt, CLt | CGe, CGe | CLe, CLe | CEq, CEq | CNe, CNe => true
  | _, _ => false end.
Definition aop_eqb (a b : aop) : bool :=
  match a, b with
  | OAdd, OAdd | OSub, OSub | OMul, OMul | OTrueDiv, OTrueDiv | OFloorDiv, OFloorDiv
  | OMod, OMod | OOther, OOther => true
  | _, _ => false end.
Definition pyop_eqb (a b : pyop) : bool :=
  match a, b with
  | PArith x, PArith y => aop_eqb x y
  | PCmp x, PCmp y => cmp_eqb x y
  | _, _ => false end.

(* "if v CMP bound: v = assigned" *)
Record clamp_step := ClampStep { cs_cmp : cmp; cs_bound : Z; cs_assign : Z }.
Definition clamp_step_eqb (a b : clamp_step) : bool :=
  cmp_eqb (cs_cmp a) (cs_cmp b) && Z.eqb (cs_bound a) (cs_bound b) && Z.eqb (cs_assign a) (cs_assign b).

Fixpoint list_eqb {A} (e : A -> A -> bool) (a b : list A) : bool :=
  match a, b with
  | [], [] => true
  | x :: a', y :: b' => e x y && list_eqb e a' b'
  | _, _ => false end.
