(* Hsl.v — model of the colour functions of lesscpy/lessc/color.py (lighten, darken, saturate, desaturate,
   greyscale, spin, mix, hsl, rgb, hue/saturation/lightness, _rgbatohex) over exact rationals.
   Which HLS component and operator each function uses, the rounding function, the clamp, the hue
   arithmetic of spin and the weights of mix are regenerated from the source (Gen.PHsl, Gen.PNumeric). *)
From Coq Require Import String.
From Coq Require Import List Ascii Bool NArith ZArith QArith Qround.
Require Import Model.Text Model.ParamTypes Model.Num Model.PyNum Model.Colorsys Model.Color.
Require Import Gen.PColor Gen.PNumeric Gen.PHsl.
Import ListNotations.
Local Open Scope Q_scope.

(* Color._rgbatohex: clamp each channel, int(), "%02x" *)
Definition rgbatohex_channel (v : Q) : option str :=
  pyfmt_int rgbatohex_fmt (Qtrunc (apply_clamp rgbatohex_clamp_steps v)).
Definition rgbatohex (c : Q * Q * Q) : option str :=
  let '(r, g, b) := c in
  match rgbatohex_channel r, rgbatohex_channel g, rgbatohex_channel b with
  | Some x, Some y, Some z => Some ("#"%char :: x ++ y ++ z)
  | _, _, _ => None
  end.

Definition round_by (name : str) (x : Q) : Q :=
  if str_eqb name $"away_from_zero_round" then away_from_zero_round_py x 0
  else if str_eqb name $"convergent_round" then convergent_round_py x 0
  else x.

Definition scale255 (name : str) (c : Q * Q * Q) : Q * Q * Q :=
  let '(r, g, b) := c in (round_by name (r * 255), round_by name (g * 255), round_by name (b * 255)).

(* Color._hextohls on a normalised '#rrggbb' *)
Definition hextohls (color : str) : option (Q * Q * Q) :=
  match hextorgb color with
  | Some [r; g; b] =>
      Some (rgb_to_hls (inject_Z (Z.of_N r) / 255) (inject_Z (Z.of_N g) / 255) (inject_Z (Z.of_N b) / 255))
  | _ => None
  end.

Definition apply_pyop (o : pyop) (a b : Q) : option Q :=
  match o with PArith x => arith_Q x a b | _ => None end.

(* Color._ophsl(color, diff, idx, operation) *)
Definition ophsl (color : str) (diff : Q) (idx : nat) (op : pyop) : option str :=
  match hextohls color with
  | Some (h, l, s) =>
      let upd (x : Q) := match apply_pyop op x (diff / 100) with Some y => Some (color_clamp01_py y) | None => None end in
      let hls := match idx with
                 | 0%nat => option_map (fun v => (v, l, s)) (upd h)
                 | 1%nat => option_map (fun v => (h, v, s)) (upd l)
                 | 2%nat => option_map (fun v => (h, l, v)) (upd s)
                 | _ => None
                 end in
      match hls with
      | Some (h', l', s') => rgbatohex (scale255 ophsl_round (hls_to_rgb h' l' s'))
      | None => None
      end
  | None => None
  end.

Definition color_fn_ophsl (name color : str) (diff : Q) : option str :=
  match assoc name ophsl_table with
  | Some (idx, op) => ophsl color diff idx op
  | None => None
  end.

Definition greyscale (color : str) : option str :=
  color_fn_ophsl (fst greyscale_call) color (snd greyscale_call).

Definition spin (color : str) (degree : Q) : option str :=
  match hextohls color with
  | Some (h, l, s) =>
      let h' := spin_hue_py h degree in
      rgbatohex (scale255 spin_round (hls_to_rgb (h' / 360) l s))
  | None => None
  end.

Definition mix (c1 c2 : str) (weight : Q) : option str :=
  match hextorgb c1, hextorgb c2 with
  | Some [r1; g1; b1], Some [r2; g2; b2] =>
      let '(w1, w2) := mix_weights_py weight in
      let ch (x y : N) := inject_Z (Z.of_N x) * w1 + inject_Z (Z.of_N y) * w2 in
      rgbatohex (ch r1 r2, ch g1 g2, ch b1 b2)
  | _, _ => None
  end.

(* hsl(h, s, l): int(h)/360, pc_or_float(l), pc_or_float(s)  — arguments already numeric here *)
Definition hsl (h s l : Q) : option str :=
  rgbatohex (scale255 hsl_round (hls_to_rgb (py_int h / 360) l s)).

(* rgb(r, g, b) with integer arguments *)
Definition rgb (r g b : Q) : option str := rgbatohex (py_int r, py_int g, py_int b).

(* extractors: hue = convergent_round(h*360, 3); saturation = s*100; lightness = l*100 *)
Definition fn_hue (color : str) : option Q :=
  match hextohls color with Some (h, _, _) => Some (convergent_round_py (h * 360) 3) | None => None end.
Definition fn_saturation (color : str) : option Q :=
  match hextohls color with Some (_, _, s) => Some (s * 100) | None => None end.
Definition fn_lightness (color : str) : option Q :=
  match hextohls color with Some (_, l, _) => Some (l * 100) | None => None end.

(* dispatch used by the correspondence harness: function name, colour, numeric amount *)
Definition model_fn (name color : str) (amount : Q) : option str :=
  if str_eqb name $"spin" then spin color amount
  else if str_eqb name $"greyscale" then greyscale color
  else color_fn_ophsl name color amount.

(* rgba(r, g, b, a) with a == 0: "rgba(%s)" % ','.join(_rgbatohex_raw(map(int, args))) — all four arguments
   go through the clamp and the raw format *)
Definition rgba_raw_channel (v : Q) : option str :=
  pyfmt_int rgbatohex_raw_fmt (Qtrunc (apply_clamp rgbatohex_raw_clamp_steps v)).
Definition rgba_zero (r g b : Q) : option str :=
  match rgba_raw_channel (py_int r), rgba_raw_channel (py_int g), rgba_raw_channel (py_int b), rgba_raw_channel 0 with
  | Some x, Some y, Some z, Some a => Some ($"rgba(" ++ x ++ $"," ++ y ++ $"," ++ z ++ $"," ++ a ++ $")")
  | _, _, _, _ => None
  end.
