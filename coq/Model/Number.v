(* Number.v — the numeric built-ins of plib/call.py; their arithmetic is TRANSLATED from the source into
   Gen.PNumeric by harness/gen_params.py (py2coq). *)
From Coq Require Import String.
From Coq Require Import List Ascii Bool NArith ZArith QArith Qround.
Require Import Model.Text Model.ParamTypes Model.Num Model.PyNum Gen.PNumeric.
Require Export Model.NumLex.
Import ListNotations.
Local Open Scope char_scope.

(* ---- numeric built-ins of Call: n, u = analyze_number(value); return with_unit(EXPR(n), u) ---- *)
Definition builtin_table : list (str * ((Q -> Q) * option str)) :=
  [ ($"round", (builtin_round_py, builtin_round_unit));
    ($"ceil", (builtin_ceil_py, builtin_ceil_unit));
    ($"floor", (builtin_floor_py, builtin_floor_unit));
    ($"increment", (builtin_increment_py, builtin_increment_unit));
    ($"decrement", (builtin_decrement_py, builtin_decrement_unit));
    ($"percentage", (builtin_percentage_py, builtin_percentage_unit)) ].

Definition call_builtin (name arg : str) : option num :=
  match assoc name builtin_table, parse_number arg with
  | Some (f, fu), Some n =>
      Some (with_unit (f (nv n)) (match fu with Some u => u | None => nu n end))
  | _, _ => None
  end.

