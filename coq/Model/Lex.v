From Coq Require Import String.
From Coq Require Import List Ascii Bool NArith Lia.
Require Import Model.Text Gen.Params.
Import ListNotations.
Open Scope char_scope.

(* ===================================================================================
   Model of lesscpy/lessc/lexer.py: the PLY master regular expression of every lexer
   state (rules tried in the order PLY builds them: rules of the state itself first, in
   source order, then the INITIAL rules -- the order is re-extracted from the built
   lexer on every run as Gen.Params.lex_rule_order and compared with [model_rule_order]
   below), each rule's regular expression as a hand-written matcher, each rule's action
   (type change, value change, mode push / pop, line count, in_property_decl), the
   literals, and LessLexer.token() (blank filter and injected semicolon).

   Outside the modelled fragment the lexer ABSTAINS (Unsupported): backslash escapes and
   non-ASCII name characters in identifiers, and unquoted URL shapes inside parentheses.
   =================================================================================== *)

Inductive mode := MInit | MParn | MISel | MMedia | MImport | MIStrQ | MIStrA | MEscQ | MEscA.
Definition mode_eqb (a b : mode) : bool :=
  match a, b with
  | MInit, MInit | MParn, MParn | MISel, MISel | MMedia, MMedia | MImport, MImport
  | MIStrQ, MIStrQ | MIStrA, MIStrA | MEscQ, MEscQ | MEscA, MEscA => true
  | _, _ => false
  end.

Record token := Tok { tk_type : str; tk_val : str; tk_line : N }.
Record lstate := LS { ls_stack : list mode; ls_inprop : bool }.   (* the line counter is threaded by lex_run: no rule reads it *)
Definition top (st : list mode) : mode := match st with m :: _ => m | [] => MInit end.
Definition pop (st : list mode) : list mode := match st with _ :: r => r | [] => [] end.

(* ---------- character classes (re.IGNORECASE | re.UNICODE, ASCII fragment) ---------- *)
Definition is_nmstart (c : ascii) := is_alpha c || ch_eqb c "_".
Definition is_nmchar (c : ascii) := is_alpha c || is_digit c || ch_eqb c "_" || ch_eqb c "-".
Definition is_wordch (c : ascii) := is_alpha c || is_digit c || ch_eqb c "_".           (* \w *)
Definition is_varch (c : ascii) := is_wordch c || ch_eqb c "-".                            (* [\w-] *)
Definition is_alpha_dash (c : ascii) := is_alpha c || ch_eqb c "-".
Definition non_ascii (c : ascii) := N.leb 128 (code c).
Definition count_nl (x : str) : N := N.of_nat (List.length (filter (fun c => N.eqb (code c) 10) x)).

(* case-insensitive literal prefix *)
Fixpoint ci_prefix (p x : str) : option str :=
  match p, x with
  | [], _ => Some x
  | a :: p', b :: x' => if ch_eqb (to_lower a) (to_lower b) then ci_prefix p' x' else None
  | _ :: _, [] => None
  end.
Fixpoint first_ci_prefix (alts : list str) (x : str) : option (str * str) :=
  match alts with
  | [] => None
  | a :: r => match ci_prefix a x with
              | Some rest => Some (firstn (List.length a) x, rest)
              | None => first_ci_prefix r x
              end
  end.

(* greedy  X+ \)  over a candidate run: the longest prefix of [run] that ends in ')' and has
   at least one character before it *)
Fixpoint last_close_aux (run acc : str) (best : option str) : option str :=
  match run with
  | [] => best
  | c :: r => let acc' := acc ++ [c] in
              last_close_aux r acc' (if ch_eqb c ")" && negb (match acc with [] => true | _ => false end) then Some acc' else best)
  end.
Definition greedy_to_close (run : str) : option str := last_close_aux run [] None.

Definition drop (n : nat) (x : str) : str := skipn n x.

(* ---------- rule matchers: [Some (lexeme, rest)] ---------- *)
Definition m_bracket (x : str) : option (str * str) :=
  match x with
  | "[" :: r => let '(body, rest) := span (fun c => negb (ch_eqb c "]")) r in
                match rest with "]" :: rest' => Some ("[" :: body ++ ["]"], rest') | _ => None end
  | _ => None
  end.

(* (not|lang|nth-[a-z\-]+)\((?:[^()]|\([^()]*\))+\)  : the argument ends at its own closing parenthesis, one level of nested
   parentheses is allowed; [^()] also matches line breaks *)
Definition not_paren (c : ascii) : bool := negb (ch_eqb c "(" || ch_eqb c ")").
Fixpoint pseudo_arg (fuel : nat) (x : str) (seen : bool) : option (str * str) :=      (* x starts after the '(' ; result: (argument incl. ')', rest) *)
  match fuel with
  | O => None
  | S f =>
    match x with
    | [] => None
    | c :: r =>
        if ch_eqb c ")" then (if seen then Some ([c], r) else None)
        else if ch_eqb c "(" then
          let '(inner, rest) := span not_paren r in
          match rest with
          | d :: rest' => if ch_eqb d ")" then
                            match pseudo_arg f rest' true with Some (a, b) => Some (c :: inner ++ d :: a, b) | None => None end
                          else None
          | [] => None
          end
        else match pseudo_arg f r true with Some (a, b) => Some (c :: a, b) | None => None end
    end
  end.
Definition m_pseudo_call (x : str) : option (str * str) :=
  let after_name :=
    match ci_prefix ($"not") x with
    | Some r => Some r
    | None => match ci_prefix ($"lang") x with
              | Some r => Some r
              | None => match ci_prefix ($"nth-") x with
                        | Some r => let '(w, r') := span is_alpha_dash r in
                                    match w with [] => None | _ => Some r' end
                        | None => None
                        end
              end
    end in
  match after_name with
  | Some ("(" :: r) =>
      match pseudo_arg (S (List.length r)) r false with
      | Some (arg, rest) => let n := (List.length x - List.length rest)%nat in Some (firstn n x, rest)
      | None => None
      end
  | _ => None
  end.

Definition m_and_paren (excl : ascii -> bool) (x : str) : option (str * str) :=
  match ci_prefix ($"and") x with
  | Some (b :: "(" :: r) =>
      if ch_eqb b " " || (N.eqb (code b) 9) then
        let '(run, _) := span (fun c => negb (excl c)) r in
        match greedy_to_close run with
        | Some body => let n := (5 + List.length body)%nat in Some (firstn n x, drop n x)
        | None => None
        end
      else None
  | _ => None
  end.

Definition first_of (ms : list (str -> option (str * str))) (x : str) : option (str * str) :=
  fold_right (fun m acc => match m x with Some r => Some r | None => acc end) None ms.

Definition excl_filter (c : ascii) := ch_eqb c ">" || ch_eqb c "<" || ch_eqb c "=" || ch_eqb c "{".
Definition excl_isel_filter (c : ascii) := ch_eqb c ">" || ch_eqb c "<" || ch_eqb c "{".
Definition m_css_filter := first_of [m_bracket; m_pseudo_call; m_and_paren excl_filter].
Definition m_isel_filter := first_of [m_bracket; m_pseudo_call; m_and_paren excl_isel_filter].

Definition m_ms_filter (x : str) : option (str * str) :=
  let pre := match ci_prefix ($"progid:") x with
             | Some r => Some r
             | None => ci_prefix ($"DX.") x
             end in
  match pre with
  | Some r => let '(_, rest) := span (fun c => negb (ch_eqb c ";" || ch_eqb c "(")) r in
              let n := (List.length x - List.length rest)%nat in Some (firstn n x, rest)
  | None => None
  end.

(* unit alternatives in the order of the regular expression (Gen.Params.number_unit_alternatives,
   compared with [model_units] by a table fact) *)
Definition unit_alts : list str :=
  [$"s"; $"%"; $"in"; $"ex"; $"em"; $"cm"; $"mm"; $"pt"; $"px"; $"pc"; $"deg"; $"grad"; $"rad"; $"ms"; $"m"; $"khz"; $"hz"; $"dpi"; $"dpcm"; $"dppx"].
Definition model_units : list str :=
  [$"s"; $"%"; $"in"; $"ex"; $"[ecm]m"; $"p[txc]"; $"deg"; $"g?rad"; $"ms?"; $"k?hz"; $"dpi"; $"dpcm"; $"dppx"].

Definition m_number (x : str) : option (str * str) :=
  let '(sign, r0) := match x with "-" :: r => (["-"], r) | _ => ([], x) end in
  let '(d1, r1) := span is_digit r0 in
  let mant :=
    match r1 with
    | "." :: r2 => let '(d2, r3) := span is_digit r2 in
                   match d2 with
                   | [] => match d1 with [] => None | _ => Some (d1, r1) end
                   | _ => Some (d1 ++ "." :: d2, r3)
                   end
    | _ => match d1 with [] => None | _ => Some (d1, r1) end
    end in
  match mant with
  | None => None
  | Some (m, r) => match first_ci_prefix unit_alts r with
                   | Some (u, rest) => Some (sign ++ m ++ u, rest)
                   | None => Some (sign ++ m, r)
                   end
  end.

Inductive mres := MNone | MUnsupported | MSome (lexeme rest : str).

(* name body: nmstart nmchar*, abstaining on escapes and non-ASCII *)
Definition name_run (x : str) : mres :=
  match x with
  | c :: _ =>
      if ch_eqb c "\" || non_ascii c then MUnsupported
      else if is_nmstart c then
        let '(w, rest) := span is_nmchar x in
        match rest with
        | c2 :: _ => if ch_eqb c2 "\" || non_ascii c2 then MUnsupported else MSome w rest
        | [] => MSome w rest
        end
      else MNone
  | [] => MNone
  end.

(* ((\-|\.|\#|\-\-)?nmstart nmchar* )|\.   prefix alternatives in regex order with backtracking *)
Definition m_ident (x : str) : mres :=
  let try (pre : str) (r : str) (k : mres) : mres :=
    match name_run r with
    | MSome w rest => MSome (pre ++ w) rest
    | MUnsupported => MUnsupported
    | MNone => k
    end in
  match x with
  | "-" :: r => try ["-"] r (match r with "-" :: r2 => try ["-"; "-"] r2 (name_run x) | _ => name_run x end)
  | "." :: r => try ["."] r (MSome ["."] r)
  | "#" :: r => try ["#"] r MNone
  | _ => name_run x
  end.

Definition m_variable (x : str) : option (str * str) :=
  match x with
  | "@" :: r =>
      let r1 := match r with "@" :: r' => r' | _ => r end in
      let '(w, rest) := span is_varch r1 in
      match w with
      | _ :: _ => let n := (List.length x - List.length rest)%nat in Some (firstn n x, rest)
      | [] => match r with
              | "{" :: r2 => let '(b, rest2) := span (fun c => negb (ch_eqb c "@" || ch_eqb c "}")) r2 in
                             match b, rest2 with
                             | _ :: _, "}" :: rest3 => Some ("@" :: "{" :: b ++ ["}"], rest3)
                             | _, _ => None
                             end
              | _ => None
              end
      end
  | _ => None
  end.

(* @\{[^@Q\}]+\}  (Q = the quote of an interpolated / escaped string, None in iselector) *)
Definition m_interp (q : option ascii) (x : str) : option (str * str) :=
  match x with
  | "@" :: "{" :: r2 =>
      let bad c := ch_eqb c "@" || ch_eqb c "}" || match q with Some qc => ch_eqb c qc | None => false end in
      let '(b, rest2) := span (fun c => negb (bad c)) r2 in
      match b, rest2 with
      | _ :: _, "}" :: rest3 => Some ("@" :: "{" :: b ++ ["}"], rest3)
      | _, _ => None
      end
  | _ => None
  end.

Definition m_color (x : str) : option (str * str) :=
  match x with
  | "#" :: d :: r =>
      if is_digit d then
        if forallb is_hex (firstn 5 r) && Nat.eqb (List.length (firstn 5 r)) 5 then Some (firstn 7 x, drop 5 r)
        else if forallb is_hex (firstn 2 r) && Nat.eqb (List.length (firstn 2 r)) 2 then Some (firstn 4 x, drop 2 r)
        else None
      else None
  | _ => None
  end.

Fixpoint find_comment_end (x acc : str) : option (str * str) :=
  match x with
  | c :: r => if ch_eqb c "*" && match r with d :: _ => ch_eqb d "/" | [] => false end
              then Some (acc ++ ["*"; "/"], tl r)
              else find_comment_end r (acc ++ [c])
  | [] => None
  end.
Definition m_css_comment (x : str) : option (str * str) :=
  match x with
  | c :: r1 => if ch_eqb c "/" then match r1 with
                                    | d :: r => if ch_eqb d "*" then find_comment_end r ["/"; "*"] else None
                                    | [] => None
                                    end
               else None
  | [] => None
  end.
Definition not_lf (c : ascii) : bool := negb (N.eqb (code c) 10).
Definition m_less_comment (x : str) : option (str * str) :=
  match x with
  | c :: r1 => if ch_eqb c "/" then match r1 with
                                    | d :: _ => if ch_eqb d "/" then Some (span not_lf x) else None
                                    | [] => None
                                    end
               else None
  | [] => None
  end.
Definition is_pyspace (c : ascii) := is_space c || in_range 28 31 c.
Definition m_important (x : str) : option (str * str) :=
  match x with
  | "!" :: r => let '(_, r1) := span is_pyspace r in
                match ci_prefix ($"important") r1 with
                | Some rest => Some (firstn (List.length x - List.length rest) x, rest)
                | None => None
                end
  | _ => None
  end.
Definition m_string (x : str) : option (str * str) :=
  match x with
  | q :: r =>
      if ch_eqb q """" || ch_eqb q "'" then
        let '(b, rest) := span (fun c => negb (ch_eqb c q || ch_eqb c "@")) r in
        match rest with
        | c :: rest' => if ch_eqb c q then Some (q :: b ++ [q], rest') else None
        | [] => None
        end
      else None
  | [] => None
  end.

(* t_parn_css_uri: the fragment only decides that the rule does NOT match (the lexeme starts with a character
   no alternative can start with, or is a plain name with no '.', '/', ':' continuation); anything that might
   be an unquoted URL makes the model abstain *)
Definition is_uri1 (c : ascii) := is_alpha c || ch_eqb c "." || ch_eqb c ":".                 (* [\.a-z:] *)
Definition is_uri2 (c : ascii) := is_wordch c || ch_eqb c "." || ch_eqb c ":".                (* [\w\.:] *)
Definition uri_verdict (x : str) : mres :=
  match x with
  | c :: _ =>
      if is_alpha c then
        (* [a-z]+:// , path segments, name.ext : anything that continues with . / : \ may be an unquoted URL *)
        let '(w, rest) := span (fun c => is_wordch c || ch_eqb c "-") x in
        match rest with
        | c2 :: _ => if ch_eqb c2 "." || ch_eqb c2 "/" || ch_eqb c2 ":" || ch_eqb c2 "\" then MUnsupported else MNone
        | [] => MNone
        end
      else if ch_eqb c "/" || ch_eqb c "." || ch_eqb c ":" then
        (* only  /?[\.a-z:]+[\w\.:]*[\\/]  can start here: decided exactly (the runs never contain a slash, so no backtracking helps) *)
        let x1 := if ch_eqb c "/" then tl x else x in
        let '(r1, rest1) := span is_uri1 x1 in
        match r1 with
        | [] => MNone
        | _ => let '(_, rest2) := span is_uri2 rest1 in
               match rest2 with
               | d :: _ => if ch_eqb d "/" || ch_eqb d "\" then MUnsupported else MNone
               | [] => MNone
               end
        end
      else MNone
  | [] => MNone
  end.

(* ---------- t_css_ident's classification ---------- *)
Definition is_hexcolor_len (v : str) : bool :=
  match v with
  | _ :: h => (Nat.eqb (List.length v) 4 || Nat.eqb (List.length v) 7) && forallb is_hex h
  | [] => false
  end.
(* int(v[1:], 16) also accepts a sign, blanks and underscores; none of these can occur in an identifier
   except '_' and '-': "#a_b" -> int("a_b",16) succeeds in Python 3.6+ *)
Definition int16_ok (h : str) : bool :=
  let fix go (x : str) (prev_digit : bool) : bool :=
    match x with
    | [] => prev_digit
    | c :: r => if is_hex c then go r true else if ch_eqb c "_" && prev_digit then
                  match r with c2 :: _ => is_hex c2 && go r false | [] => false end
                else false
    end in
  match h with
  | "-" :: r => go r false
  | _ => go h false
  end.
Definition classify_ident (inprop : bool) (isel : bool) (v : str) : str * bool * bool (* type, new inprop, push iselector *) :=
  match v with
  | "." :: _ => ($"css_class", inprop, negb isel)
  | "#" :: h => if (Nat.eqb (List.length v) 4 || Nat.eqb (List.length v) 7) && int16_ok h then ($"css_color", inprop, false)
                else ($"css_id", inprop, false)
  | c :: _ =>
      if str_eqb v ($"when") then ($"less_when", inprop, false)
      else if str_eqb v ($"and") then ($"less_and", inprop, false)
      else if str_eqb v ($"not") then ($"less_not", inprop, false)
      else if str_eqb v ($"from") || str_eqb v ($"to") then ($"css_keyframe_selector", inprop, false)
      else if mem_str v css_properties then ($"css_property", true, false)
      else if (mem_str v dom_elements || mem_str (lower v) dom_elements) && negb inprop then ($"css_dom", inprop, false)
      else if starts_with ($"--") v then ($"css_user_property", true, false)
      else if ch_eqb c "-" then ($"css_vendor_property", true, false)
      else ($"css_ident", inprop, false)
  | [] => ($"css_ident", inprop, false)
  end.

(* ---------- one step ---------- *)
Inductive step_res :=
| Emit (t : str * str) (st : lstate) (dl : N) (rest : str)      (* (type, value), state after, line breaks consumed *)
| Skip (st : lstate) (dl : N) (rest : str)
| Illegal (c : ascii)
| Unsupported
| Eof.

Definition emit (ty v : str) (st : lstate) (stack' : list mode) (inprop' : bool) (dl : N) (rest : str) : step_res :=
  Emit (ty, v) (LS stack' inprop') dl rest.

Definition one (x : str) : str := firstn 1 x.

Definition initial_rules (st : lstate) (x : str) : step_res :=
  let stk := ls_stack st in
  let ip := ls_inprop st in
  match m_css_filter x with Some (l, r) => emit ($"css_filter") l st stk ip 0 r | None =>
  match m_ms_filter x with Some (l, r) => emit ($"css_ms_filter") l st stk ip 0 r | None =>
  match x with
  | [] => Eof
  | c :: r =>
    if ch_eqb c "{" then emit ($"t_bopen") [c] st stk false 0 r
    else if ch_eqb c "}" then emit ($"t_bclose") [c] st stk ip 0 r
    else if ch_eqb c ":" then emit ($"t_colon") [c] st stk ip 0 r
    else if ch_eqb c "," then emit ($"t_comma") [c] st stk false 0 r
    else
    match m_number x with Some (l, r') => emit ($"css_number") l st stk ip 0 r' | None =>
    match m_ident x with
    | MUnsupported => Unsupported
    | MSome l r' =>
        let '(ty, ip', push) := classify_ident ip (mode_eqb (top stk) MISel) l in
        emit ty l st (if push then MISel :: stk else stk) ip' 0 r'
    | MNone =>
    match m_variable x with
    | Some (l, r') =>
        match assoc (lower l) reserved_tokens with
        | Some ty => emit ty l st (if str_eqb ty ($"css_media") then MMedia :: stk
                                   else if str_eqb ty ($"css_import") then MImport :: stk else stk) ip 0 r'
        | None => emit ($"less_variable") l st stk ip 0 r'
        end
    | None =>
    match m_color x with Some (l, r') => emit ($"css_color") l st stk ip 0 r' | None =>
    if is_nl c then let '(l, r') := span is_nl x in
                    emit ($"t_ws") [" "] st (if mode_eqb (top stk) MISel then pop stk else stk) ip (count_nl l) r'
    else
    match m_css_comment x with Some (l, r') => Skip (LS stk ip) (count_nl l) r' | None =>
    match m_less_comment x with Some (l, r') => Skip st 0 r' | None =>
    match m_important x with Some (l, r') => emit ($"css_important") ($"!important") st stk ip 0 r' | None =>
    if is_blank c then let '(_, r') := span is_blank x in emit ($"t_ws") [" "] st stk ip 0 r'
    else if ch_eqb c "(" then emit ($"t_popen") [c] st (MParn :: stk) ip 0 r
    else match x with
    | "%" :: "(" :: r2 => emit ($"less_open_format") ["%"; "("] st (MParn :: stk) ip 0 r2
    | _ =>
    if ch_eqb c ")" then emit ($"t_pclose") [c] st stk ip 0 r
    else if ch_eqb c ";" then emit ($"t_semicolon") [c] st stk false 0 r
    else match x with
    | "~" :: """" :: r2 => emit ($"t_eopen") ["~"; """"] st (MEscQ :: stk) ip 0 r2
    | "~" :: "'" :: r2 => emit ($"t_eopen") ["~"; "'"] st (MEscA :: stk) ip 0 r2
    | _ =>
    if ch_eqb c "~" then emit ($"t_tilde") [c] st stk ip 0 r
    else
    match m_string x with Some (l, r') => emit ($"css_string") l st stk ip (count_nl l) r' | None =>
    if ch_eqb c """" then emit ($"t_isopen") [c] st (MIStrQ :: stk) ip 0 r
    else if ch_eqb c "'" then emit ($"t_isopen") [c] st (MIStrA :: stk) ip 0 r
    else if existsb (ch_eqb c) lex_literals then emit [c] [c] st stk ip 0 r
    else Illegal c
    end end end end end end end end end end
  end end end.

Definition istring_rules (q : ascii) (st : lstate) (x : str) (k : step_res) : step_res :=
  let stk := ls_stack st in
  match m_interp (Some q) x with
  | Some (l, r) => emit ($"less_variable") l st stk (ls_inprop st) 0 r
  | None =>
    let '(b, rest) := span (fun c => negb (ch_eqb c q || ch_eqb c "@")) x in
    match b with
    | _ :: _ => emit ($"css_string") b st stk (ls_inprop st) (count_nl b) rest
    | [] => match x with
            | c :: r => if ch_eqb c q then emit ($"t_isclose") [c] st (pop stk) (ls_inprop st) 0 r else k
            | [] => k
            end
    end
  end.

Definition escape_rules (q : ascii) (st : lstate) (x : str) (k : step_res) : step_res :=
  let stk := ls_stack st in
  match m_interp (Some q) x with
  | Some (l, r) => emit ($"less_variable") l st stk (ls_inprop st) 0 r
  | None => match x with
            | c :: r => if ch_eqb c q then emit ($"t_eclose") [c] st (pop stk) (ls_inprop st) 0 r else k
            | [] => k
            end
  end.

Definition step (st : lstate) (x : str) : step_res :=
  let stk := ls_stack st in
  let ip := ls_inprop st in
  let k := initial_rules st x in
  match x with
  | [] => Eof
  | c :: r =>
    match top stk with
    | MInit => k
    | MParn =>
        match uri_verdict x with
        | MUnsupported => Unsupported
        | MSome _ _ => Unsupported
        | MNone =>
          match name_run x with
          | MUnsupported => Unsupported
          | MSome l r' => emit ($"css_ident") l st stk ip 0 r'
          | MNone => if ch_eqb c ")" then emit ($"t_pclose") [c] st (pop stk) ip 0 r else k
          end
        end
    | MISel =>
        match m_interp None x with Some (l, r') => emit ($"less_variable") l st stk ip 0 r' | None =>
        if ch_eqb c """" || ch_eqb c "'" then emit ($"t_eclose") [c] st (pop stk) ip 0 r
        else match m_isel_filter x with Some (l, r') => emit ($"css_filter") l st stk ip 0 r' | None =>
        if is_nmchar c then let '(l, r') := span is_nmchar x in emit ($"css_class") l st stk ip 0 r'
        else if is_blank c then let '(_, r') := span is_blank x in emit ($"t_ws") [" "] st (pop stk) ip 0 r'
        else if ch_eqb c "{" then emit ($"t_bopen") [c] st (pop stk) ip 0 r
        else if ch_eqb c ":" then emit ($"t_colon") [c] st (pop stk) ip 0 r
        else if ch_eqb c ";" then emit ($"t_semicolon") [c] st (pop stk) false 0 r
        else if ch_eqb c "}" then emit ($"t_bclose") [c] st (pop stk) ip 0 r
        else k end end
    | MMedia =>
        match ci_prefix ($"not") x with Some r' => emit ($"t_not") (firstn 3 x) st stk ip 0 r' | None =>
        match ci_prefix ($"only") x with Some r' => emit ($"t_only") (firstn 4 x) st stk ip 0 r' | None =>
        match ci_prefix ($"and") x with Some r' => emit ($"t_and") (firstn 3 x) st stk ip 0 r' | None =>
        if ch_eqb c "(" then emit ($"t_popen") [c] st stk ip 0 r
        else match first_ci_prefix media_types x with Some (l, r') => emit ($"css_media_type") l st stk ip 0 r' | None =>
        match first_ci_prefix media_features x with Some (l, r') => emit ($"css_media_feature") l st stk ip 0 r' | None =>
        if ch_eqb c "{" then emit ($"t_bopen") [c] st (pop stk) ip 0 r
        else if ch_eqb c ";" then
          let s1 := pop stk in
          emit ($"t_semicolon") [c] st (if mode_eqb (top s1) MImport then pop s1 else s1) ip 0 r
        else k end end end end end
    | MImport =>
        match first_ci_prefix media_types x with Some (l, r') => emit ($"css_media_type") l st (MMedia :: stk) ip 0 r' | None =>
        if ch_eqb c ";" then emit ($"t_semicolon") [c] st (pop stk) ip 0 r else k end
    | MIStrQ => istring_rules """" st x k
    | MIStrA => istring_rules "'" st x k
    | MEscQ => escape_rules """" st x k
    | MEscA => escape_rules "'" st x k
    end
  end.

(* the rule order this model transcribes; compared with the order extracted from the built PLY lexer *)
Definition initial_order : list str :=
  [$"t_css_filter"; $"t_css_ms_filter"; $"t_t_bopen"; $"t_t_bclose"; $"t_t_colon"; $"t_t_comma"; $"t_css_number"; $"t_css_ident";
   $"t_less_variable"; $"t_css_color"; $"t_newline"; $"t_css_comment"; $"t_less_comment"; $"t_css_important"; $"t_t_ws"; $"t_t_popen";
   $"t_less_open_format"; $"t_t_pclose"; $"t_t_semicolon"; $"t_t_eopen"; $"t_t_tilde"; $"t_css_string"; $"t_t_isopen"].
Definition model_rule_order : list (str * list str) :=
  [($"INITIAL", initial_order);
   ($"parn", [$"t_parn_css_uri"; $"t_parn_css_ident"; $"t_parn_t_pclose"] ++ initial_order);
   ($"iselector", [$"t_iselector_less_variable"; $"t_iselector_t_eclose"; $"t_iselector_css_filter"; $"t_iselector_css_class";
                   $"t_iselector_t_ws"; $"t_iselector_t_bopen"; $"t_iselector_t_colon"; $"t_iselector_t_semicolon"; $"t_iselector_t_bclose"] ++ initial_order);
   ($"mediaquery", [$"t_mediaquery_t_not"; $"t_mediaquery_t_only"; $"t_mediaquery_t_and"; $"t_mediaquery_t_popen";
                    $"t_mediaquery_css_media_type"; $"t_mediaquery_css_media_feature"; $"t_mediaquery_t_bopen"; $"t_mediaquery_t_semicolon"] ++ initial_order);
   ($"import", [$"t_import_css_media_type"; $"t_import_t_semicolon"] ++ initial_order);
   ($"istringquotes", [$"t_istringquotes_less_variable"; $"t_istringquotes_css_string"; $"t_istringquotes_t_isclose"] ++ initial_order);
   ($"istringapostrophe", [$"t_istringapostrophe_less_variable"; $"t_istringapostrophe_css_string"; $"t_istringapostrophe_t_isclose"] ++ initial_order);
   ($"escapequotes", [$"t_escapequotes_less_variable"; $"t_escapequotes_t_eclose"] ++ initial_order);
   ($"escapeapostrophe", [$"t_escapeapostrophe_less_variable"; $"t_escapeapostrophe_t_eclose"] ++ initial_order)].

(* ---------- the raw token stream ---------- *)
Inductive lexres := LOk (ts : list (token * mode)) | LIllegal (ts : list (token * mode)) (c : ascii) (line : N) | LUnsupported | LFuel.
Definition lcons (tm : token * mode) (r : lexres) : lexres :=
  match r with
  | LOk ts => LOk (tm :: ts)
  | LIllegal ts c l => LIllegal (tm :: ts) c l
  | other => other
  end.
(* every token is paired with the lexer state AFTER it (LessLexer.token() looks at t.lexer.lexstate) *)
Fixpoint lex_run (fuel : nat) (st : lstate) (line : N) (x : str) : lexres :=
  match fuel with
  | O => LFuel
  | S f =>
    match step st x with
    | Eof => LOk []
    | Unsupported => LUnsupported
    | Illegal c => LIllegal [] c line
    | Skip st' dl rest => lex_run f st' (line + dl) rest
    | Emit (ty, v) st' dl rest => lcons (Tok ty v line, top (ls_stack st')) (lex_run f st' (line + dl) rest)
    end
  end.
Definition init_state : lstate := LS [] false.
Definition lex (x : str) : lexres := lex_run (S (List.length x)) init_state 1 x.

(* ---------- LessLexer.token(): blank filter and the injected ';' ----------
   The filter runs interleaved with the lexer: injecting ';' resets lexer.in_property_decl, so the filtered stream is
   NOT a function of the raw stream alone. [filt_step] is one trip through the loop body for a raw token [t] lexed into
   state [st']: the tokens handed to the parser, the new (pretok, last) and the lexer state afterwards. *)
Definition significant (ty : str) : bool := mem_str ty significant_ws.
Definition no_inject_before (last : str) : bool :=
  str_eqb last ($"t_bopen") || str_eqb last ($"t_bclose") || str_eqb last ($"t_semicolon").
Record fstate := FS { fs_pretok : bool; fs_last : option str }.
Definition drops_ws (f : fstate) : bool :=
  fs_pretok f || match fs_last f with Some l => negb (significant l) | None => false end.
Definition injects (f : fstate) (m : mode) : bool :=
  match fs_last f with Some l => negb (no_inject_before l) | None => false end && negb (mode_eqb m MEscQ || mode_eqb m MEscA).
Definition filt_step (f : fstate) (t : token) (st' : lstate) : list token * fstate * lstate :=
  if str_eqb (tk_type t) ($"t_ws") && drops_ws f then ([], f, st')
  else if str_eqb (tk_type t) ($"t_bclose") && injects f (top (ls_stack st'))
  then ([Tok ($"t_semicolon") [";"] (tk_line t); t], FS false (Some ($"t_semicolon")), LS (ls_stack st') false)
  else ([t], FS false (Some (tk_type t)), st').

Inductive tokres := TOk (ts : list token) | TIllegal (ts : list token) (c : ascii) (line : N) | TUnsupported.
Definition tapp (outs : list token) (r : tokres) : tokres :=
  match r with
  | TOk ts => TOk (outs ++ ts)
  | TIllegal ts c l => TIllegal (outs ++ ts) c l
  | TUnsupported => TUnsupported
  end.
Fixpoint lex_filtered (fuel : nat) (f : fstate) (st : lstate) (line : N) (x : str) : tokres :=
  match fuel with
  | O => TUnsupported
  | S n =>
    match step st x with
    | Eof => TOk []
    | Unsupported => TUnsupported
    | Illegal c => TIllegal [] c line
    | Skip st' dl rest => lex_filtered n f st' (line + dl) rest
    | Emit (ty, v) st' dl rest =>
        let '(outs, f', st'') := filt_step f (Tok ty v line) st' in
        tapp outs (lex_filtered n f' st'' (line + dl) rest)
    end
  end.
Definition init_fstate : fstate := FS true None.
Definition tokens_raw (x : str) : tokres :=
  match lex x with
  | LOk ts => TOk (map fst ts)
  | LIllegal ts c l => TIllegal (map fst ts) c l
  | _ => TUnsupported
  end.
Definition tokens_filtered (x : str) : tokres := lex_filtered (S (List.length x)) init_fstate init_state 1 x.
