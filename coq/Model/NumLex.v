(* NumLex.v — numbers with units: utility.split_unit / analyze_number / with_unit / Expression.with_units,
   and the comparison of a printed value with an exact one.  Independent of Gen.Params. *)
From Coq Require Import String.
From Coq Require Import List Ascii Bool NArith ZArith QArith Qround.
Require Import Model.Text Model.ParamTypes Model.Num.
Import ListNotations.
Local Open Scope char_scope.

Record num := MkNum { nv : Q; nu : str }.

Definition is_numch (c : ascii) := is_digit c || Ascii.eqb c ".".

Fixpoint dec_value (x : str) (acc : Z) : Z :=
  match x with [] => acc | c :: r => dec_value r (acc * 10 + Z.of_N (code c - 48))%Z end.
Fixpoint pow10 (n : nat) : positive := match n with O => 1%positive | S k => (10 * pow10 k)%positive end.

(* the text matched by [\d\.]+ read as python int()/float() would: digits, or digits '.' digits *)
Definition parse_unsigned (x : str) : option Q :=
  let '(ip, r) := span is_digit x in
  match r with
  | [] => match ip with [] => None | _ => Some (inject_Z (dec_value ip 0)) end
  | "." :: fp =>
      if forallb is_digit fp && negb (Nat.eqb (length ip + length fp) 0)
      then Some (Qmake (dec_value (ip ++ fp) 0) (pow10 (length fp)))
      else None
  | _ => None
  end.

(* utility.analyze_number on a number token (split_unit regex: optional minus, digits and dots, rest = unit) *)
Definition parse_number (x : str) : option num :=
  let '(neg, body) := match x with "-" :: r => (true, r) | _ => (false, x) end in
  let '(n, u) := span is_numch body in
  match parse_unsigned n with
  | Some q => Some (MkNum (if neg then Qopp q else q) u)
  | None => None
  end.

(* utility.with_unit: zero is printed as a bare 0 *)
Definition with_unit (q : Q) (u : str) : num := if Qeq_bool q 0 then MkNum 0 [] else MkNum q u.

(* Expression.with_units: zero loses its unit; otherwise the first unit present *)
Definition with_units (q : Q) (ua ub : str) : num :=
  if Qeq_bool q 0 then MkNum 0 []
  else MkNum q (match ua with [] => ub | _ => ua end).

(* ---- comparison of a printed implementation value with a model value ---- *)
Definition Qabs' (q : Q) : Q := if Qle_bool 0 q then q else Qopp q.
Definition close (a b : Q) : bool :=     (* |a-b| <= 1e-9 * max(|a|,|b|) *)
  Qle_bool (Qabs' (a - b)) ((1 # 1000000000) * qmax (Qabs' a) (Qabs' b)).
Definition is_int_syntax (x : str) : bool :=
  let body := match x with "-" :: r => r | _ => x end in
  let '(d, r) := span is_digit body in
  negb (Nat.eqb (length d) 0) && forallb (fun c => negb (is_numch c)) (firstn 1 r).

Definition num_matches (m : option num) (printed : str) (want_int_syntax : bool) : bool :=
  match m, parse_number printed with
  | Some a, Some b =>
      close (nv a) (nv b) && str_eqb (nu a) (nu b)
      && (* an integral printed value carries no fractional part ("3", not "3.0"); float noise such as
            99.99999999999999 for an exact 100 is within the property's 1e-9 tolerance and not integral *)
         (if want_int_syntax && is_integral (nv b) then is_int_syntax printed else true)
  | _, _ => false
  end.

Definition show_num (m : option num) : string :=
  match m with
  | None => "None"
  | Some a => String.append (string_of_list_ascii (dec_of_Z (Qnum (Qred (nv a)))))
             (String.append "/" (String.append (string_of_list_ascii (dec_of_Z (Zpos (Qden (Qred (nv a))))))
             (String.append " unit=" (string_of_list_ascii (nu a)))))
  end.
