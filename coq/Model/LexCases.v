From Coq Require Import String.
From Coq Require Import List Ascii Bool NArith.
Require Import Model.Text Model.Cases Model.Lex.
Import ListNotations.

(* serialised token streams, compared with the real lexer's by the correspondence check *)
Definition ser_tok (t : token) : str :=
  tk_type t ++ [chr 31] ++ tk_val t ++ [chr 31] ++ dec_of_N (tk_line t) ++ [chr 30].
Definition ser_toks (ts : list token) : str := concat_str (map ser_tok ts).
Definition ser_tokres (r : tokres) : res :=
  match r with
  | TOk ts => Ok (ser_toks ts)
  | TIllegal ts c l => Err (ser_toks ts ++ $"Illegal" ++ [c] ++ dec_of_N l)
  | TUnsupported => NoModel
  end.
Definition vis_tok (t : token) : str := tk_type t ++ $"=" ++ tk_val t ++ $"@" ++ dec_of_N (tk_line t) ++ $" | ".
Definition vis (r : tokres) : string :=
  string_of_list_ascii (match r with
  | TOk ts => concat_str (map vis_tok ts)
  | TIllegal ts c l => concat_str (map vis_tok ts) ++ $"ILLEGAL " ++ [c] ++ $" line " ++ dec_of_N l
  | TUnsupported => $"ABSTAIN" end).
Definition tok_case (filtered : bool) (x : str) (impl : res) : bool * string :=
  let r := ser_tokres (if filtered then tokens_filtered x else tokens_raw x) in
  match r with
  | NoModel => (false, "ABSTAIN"%string)
  | _ => (res_eqb r impl, vis (if filtered then tokens_filtered x else tokens_raw x))
  end.
