(* Ast.v — the node tree the LALR actions build (flattened where the code flattens anyway), for the
   verified fragment.  Independent of Gen.Params. *)
From Coq Require Import String.
From Coq Require Import List Ascii Bool NArith ZArith QArith.
Require Import Model.Text Model.ParamTypes Model.Num Model.NumLex.
Import ListNotations.

(* arithmetic inside a value: leaves are literal tokens (numbers, colours) or variables *)
Inductive xexpr :=
| XTok (s : str)
| XVar (name : str)
| XBin (o : aop) (l r : xexpr)
| XNeg (e : xexpr).

(* value-position tokens: Property.tokens[1] / Variable.value after flatten *)
Inductive vtok :=
| VT (s : str)                      (* word, number, string, ',', ' ', normalised colour *)
| VVar (name : str)                 (* @x / @@x *)
| VExpr (e : xexpr)                 (* Expression / NegatedExpression node *)
| VCall (name : str) (args : list vtok).   (* Call node: name, then the tokens between the parentheses *)

Inductive node :=
| NProp (name : str) (val : list vtok) (important : bool)
| NVar (name : str) (val : list vtok)
| NBlock (sel : list str) (body : list node)       (* Identifier tokens (flat), contents; also @media/@keyframes/@font-face *)
| NFrame (sel : str) (body : list node)            (* KeyframeSelector block *)
| NStmt (toks : list str)                          (* @charset / non-LESS @import *)
| NMixin (name : str) (params : list (str * option (list vtok))) (body : list node)   (* .m(@a; @b: dflt) { body } *)
| NCall (name : str) (args : list (list vtok)).    (* .m(arg; arg); / .rule; *)
