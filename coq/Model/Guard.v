(* Guard.v — model of mixin guards: p_mixin_guard_cond(_rev) + utility.reverse_guard (generated map),
   the comparison half of Expression.operate (generated map), Mixin.parse_guards, and the
   first-match selection among same-named mixins in Deferred.parse. *)
From Coq Require Import String.
From Coq Require Import List Ascii Bool ZArith QArith.
Require Import Model.Text Model.ParamTypes Model.Num Gen.PGuards.
Import ListNotations.

Record cond := MkCond { c_not : bool; c_a : Q; c_op : str; c_b : Q }.
Inductive gitem := GC (c : cond) | GS (sep : str).

(* the operator the parser stores: reverse_guard is applied at parse time when `not` is present *)
Definition stored_op (c : cond) : str :=
  if c_not c then match assoc (c_op c) guard_rev with Some o => o | None => c_op c end else c_op c.

(* Expression(g).parse for numeric operands: units are ignored by the comparison; None = SyntaxError *)
Definition eval_cond (c : cond) : option bool :=
  match assoc (stored_op c) expr_ops with
  | Some (PCmp k) => Some (cmp_Q k (c_a c) (c_b c))
  | _ => None
  end.

(* Mixin.parse_guards over the flat list  cond, sep, cond, sep, ... *)
Fixpoint parse_guards_from (chain : bool) (l : list gitem) : option bool :=
  match l with
  | [] => Some chain
  | GC c :: r => match eval_cond c with Some v => parse_guards_from (chain && v) r | None => None end
  | GS sep :: r =>
      if str_eqb sep $","
      then (if chain then Some true else parse_guards_from true r)
      else parse_guards_from chain r
  end.
Definition parse_guards (l : list gitem) : option bool := parse_guards_from true l.

(* Deferred.parse: the first same-named mixin whose call yields a body is used *)
Fixpoint select_mixin {B} (ms : list (list gitem * B)) : option B :=
  match ms with
  | [] => None
  | (g, body) :: r => match parse_guards g with Some true => Some body | _ => select_mixin r end
  end.
