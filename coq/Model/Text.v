(* Text.v — strings as [list ascii], character classes, small list utilities.
   No proofs here (Model files must keep building when a proof breaks). *)
From Coq Require Import String.
From Coq Require Import List Ascii Bool NArith ZArith.   (* after String: List's names win *)
Import ListNotations.

Definition str := list ascii.
Definition s (x : String.string) : str := String.list_ascii_of_string x.
Notation "$ x" := (s x%string) (at level 0, x at level 0).

Definition code (c : ascii) : N := N_of_ascii c.
Definition chr (n : N) : ascii := ascii_of_N n.

Definition in_range (lo hi : N) (c : ascii) : bool := (lo <=? code c)%N && (code c <=? hi)%N.
Definition is_lower (c : ascii) := in_range 97 122 c.
Definition is_upper (c : ascii) := in_range 65 90 c.
Definition is_alpha (c : ascii) := is_lower c || is_upper c.
Definition is_digit (c : ascii) := in_range 48 57 c.
Definition is_blank (c : ascii) :=      (* [ \t\f\v] *)
  (code c =? 32)%N || (code c =? 9)%N || (code c =? 12)%N || (code c =? 11)%N.
Definition is_nl (c : ascii) := (code c =? 10)%N || (code c =? 13)%N.
Definition is_space (c : ascii) := is_blank c || is_nl c.   (* python \s on ASCII (without \x1c-\x1f) *)

Definition to_lower (c : ascii) : ascii := if is_upper c then chr (code c + 32) else c.
Definition to_upper (c : ascii) : ascii := if is_lower c then chr (code c - 32) else c.
Definition lower (x : str) : str := map to_lower x.

Definition ch_eqb := Ascii.eqb.

Fixpoint str_eqb (a b : str) : bool :=
  match a, b with
  | [], [] => true
  | x :: a', y :: b' => Ascii.eqb x y && str_eqb a' b'
  | _, _ => false
  end.

Fixpoint mem_str (x : str) (l : list str) : bool :=
  match l with [] => false | y :: r => str_eqb x y || mem_str x r end.

Fixpoint assoc {A} (k : str) (l : list (str * A)) : option A :=
  match l with [] => None | (k', v) :: r => if str_eqb k k' then Some v else assoc k r end.

Fixpoint concat_str (l : list str) : str :=
  match l with [] => [] | x :: r => x ++ concat_str r end.

Fixpoint join (sep : str) (l : list str) : str :=
  match l with
  | [] => []
  | [x] => x
  | x :: r => x ++ sep ++ join sep r
  end.

Fixpoint starts_with (p x : str) : bool :=
  match p, x with
  | [], _ => true
  | c :: p', d :: x' => Ascii.eqb c d && starts_with p' x'
  | _ :: _, [] => false
  end.

Definition ends_with (p x : str) : bool := starts_with (rev p) (rev x).

Fixpoint drop_while (f : ascii -> bool) (x : str) : str :=
  match x with [] => [] | c :: r => if f c then drop_while f r else x end.
Definition strip_left (f : ascii -> bool) (x : str) : str := drop_while f x.
Definition strip_right (f : ascii -> bool) (x : str) : str := rev (drop_while f (rev x)).
Definition strip (f : ascii -> bool) (x : str) : str := strip_right f (strip_left f x).

Fixpoint span (p : ascii -> bool) (x : str) : str * str :=
  match x with
  | c :: r => if p c then let '(a, b) := span p r in (c :: a, b) else ([], x)
  | [] => ([], [])
  end.

(* hexadecimal digits *)
Definition hexval (c : ascii) : option N :=
  if is_digit c then Some (code c - 48)%N
  else if in_range 97 102 c then Some (code c - 87)%N
  else if in_range 65 70 c then Some (code c - 55)%N
  else None.
Definition is_hex (c : ascii) : bool := match hexval c with Some _ => true | None => false end.
Definition hexdigit (n : N) : ascii :=   (* lower case, n < 16 *)
  if (n <? 10)%N then chr (48 + n) else chr (87 + n).

(* decimal printing of N / Z *)
Fixpoint dec_digits_fuel (fuel : nat) (n : N) (acc : str) : str :=
  match fuel with
  | O => acc
  | S f => let d := chr (48 + n mod 10) in
           if (n <? 10)%N then d :: acc else dec_digits_fuel f (n / 10) (d :: acc)
  end.
Definition dec_of_N (n : N) : str := dec_digits_fuel (S (N.to_nat (N.log2 n))) n [].
Definition dec_of_Z (z : Z) : str :=
  match z with
  | Z0 => $"0"
  | Zpos p => dec_of_N (Npos p)
  | Zneg p => "-"%char :: dec_of_N (Npos p)
  end.

(* parse decimal natural *)
Fixpoint N_of_dec_aux (x : str) (acc : N) : option N :=
  match x with
  | [] => Some acc
  | c :: r => if is_digit c then N_of_dec_aux r (acc * 10 + (code c - 48))%N else None
  end.
Definition N_of_dec (x : str) : option N := match x with [] => None | _ => N_of_dec_aux x 0%N end.

Definition opt_bind {A B} (o : option A) (f : A -> option B) : option B :=
  match o with Some a => f a | None => None end.
Fixpoint opt_all {A} (l : list (option A)) : option (list A) :=
  match l with
  | [] => Some []
  | Some a :: r => match opt_all r with Some r' => Some (a :: r') | None => None end
  | None :: _ => None
  end.
