From Coq Require Import String.
From Coq Require Import List Ascii Bool NArith.
Require Import Model.Text.
Import ListNotations.
Local Open Scope char_scope.

(* path strings of @import statements: which ones name a LESS file (p_statement_import: os.path.splitext) *)
(* "a/b/../c" -> components *)
Fixpoint split_on (sep : ascii) (x cur : str) : list str :=
  match x with
  | [] => [cur]
  | c :: r => if Ascii.eqb c sep then cur :: split_on sep r [] else split_on sep r (cur ++ [c])
  end.
(* os.path.splitext on the last component: the extension starts at the last dot that is not one of its leading dots *)
Definition basename (p : str) : str := last (split_on "/" p []) [].
Fixpoint drop_dots (x : str) : str := match x with "." :: r => drop_dots r | _ => x end.
Fixpoint ext_from (x : str) (cur : option str) : option str :=      (* cur = text from the last dot seen *)
  match x with
  | [] => cur
  | c :: r => if Ascii.eqb c "." then ext_from r (Some ["."]) else ext_from r (match cur with Some e => Some (e ++ [c]) | None => None end)
  end.
Definition splitext_ext (p : str) : str := match ext_from (drop_dots (basename p)) None with Some e => e | None => [] end.
Definition is_less_import (ipath : str) : bool :=
  let e := splitext_ext ipath in
  match e with [] => true | _ => str_eqb (lower e) ($".less") end.
Definition with_ext (ipath : str) : str := match splitext_ext ipath with [] => ipath ++ $".less" | _ => ipath end.

