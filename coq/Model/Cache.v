(* Cache.v — the only state shared between compilations: the parser-table file PLY writes into the temporary
   directory on every parser construction, and each process's module cache.  PLY's behaviour is an ORACLE
   (Section variables); its assumed contract is recorded in the trusted base and was checked against PLY 3.11:
   yacc() looks the table module up by its QUALIFIED name (lesscpy.lessc.yacctab), i.e. in the package
   directory, and writes <outputdir>/yacctab.py; a table that cannot be imported is ignored and regenerated.
   The file in the temporary directory is therefore write-only for lesscpy. *)
From Coq Require Import String.
From Coq Require Import List Ascii Bool NArith.
Require Import Model.Text.
Import ListNotations.

Inductive tmpfile := FAbsent | FValid | FTruncated (k : nat) | FForeign.
(* the sub-steps of one parser construction *)
Inductive action := ATryImport | AGenerate | AOpenTruncate | AWriteChunk | AClose | ADropModule | AParse.
Inductive tables := TGenerated | TFromTmpFile (f : tmpfile) | TFromPackageDir.

Record proc := MkProc { p_tables : option tables; p_module_cached : bool; p_written : nat; p_outputs : list tables }.
Record world := MkWorld { w_file : tmpfile; w_pkg_table : bool; w_procs : list proc }.

Definition upd (i : nat) (f : proc -> proc) (l : list proc) : list proc :=
  (fix go (k : nat) (l : list proc) : list proc :=
     match l with [] => [] | p :: r => (if Nat.eqb k i then f p else p) :: go (S k) r end) 0 l.

Section Oracle.
  Variable chunks : nat.          (* how many writes a complete table takes *)

  (* one atomic action of process i *)
  Definition act (w : world) (i : nat) (a : action) : world :=
    match a with
    | ATryImport =>
        (* import lesscpy.lessc.yacctab: found only if a table module sits in the PACKAGE directory *)
        if w_pkg_table w
        then MkWorld (w_file w) true (upd i (fun p => MkProc (Some TFromPackageDir) true (p_written p) (p_outputs p)) (w_procs w))
        else w
    | AGenerate =>
        MkWorld (w_file w) (w_pkg_table w)
                (upd i (fun p => match p_tables p with
                                 | Some t => p
                                 | None => MkProc (Some TGenerated) (p_module_cached p) 0 (p_outputs p)
                                 end) (w_procs w))
    | AOpenTruncate => MkWorld (FTruncated 0) (w_pkg_table w) (upd i (fun p => MkProc (p_tables p) (p_module_cached p) 0 (p_outputs p)) (w_procs w))
    | AWriteChunk =>
        MkWorld (match w_file w with FTruncated k => if Nat.ltb (S k) chunks then FTruncated (S k) else FValid | f => f end)
                (w_pkg_table w) (upd i (fun p => MkProc (p_tables p) (p_module_cached p) (S (p_written p)) (p_outputs p)) (w_procs w))
    | AClose => w
    | ADropModule => MkWorld (w_file w) (w_pkg_table w) (upd i (fun p => MkProc (p_tables p) false (p_written p) (p_outputs p)) (w_procs w))
    | AParse =>
        MkWorld (w_file w) (w_pkg_table w)
                (upd i (fun p => match p_tables p with
                                 | Some t => MkProc None (p_module_cached p) (p_written p) (p_outputs p ++ [t])
                                 | None => p
                                 end) (w_procs w))
    end.

  Definition run (w : world) (sched : list (nat * action)) : world :=
    fold_left (fun w '(i, a) => act w i a) sched w.
End Oracle.
