(* C16 — Batch mode rebuilds exactly the stale files, isolates files, matches the library.
   The compiler is an oracle here ([compile]: what compiling that file alone with the same options and includes
   returns); isolation between files (no shared scope) is the table fact batch_isolates_scope (regenerated from
   scripts/compiler.py) plus the correspondence on real directories.  PARTIAL: OS behaviour (glob order, mtime
   granularity) is outside the model; the correspondence sets mtimes explicitly and tries several orders. *)
From Coq Require Import String.
From Coq Require Import List Ascii Bool NArith ZArith.
Require Import Model.Text Model.ParamTypes Gen.PCli Model.Cli Proofs.CliProofs.
Import ListNotations.
Local Open Scope Z_scope.

(* one run, one directory level: the output of a source is rewritten with the compilation of THAT file alone
   iff --force, or it is missing, or it is older than the source (and it is not a dry run); otherwise untouched *)
Theorem C16_level_spec :
  forall (compile : str -> str) now fl srcs out name f,
    NoDup (outs fl srcs) -> In (name, f) srcs -> is_less name = true ->
    lookup_file (out_name fl name) (compile_level compile now fl srcs out) =
      if stale fl f (lookup_file (out_name fl name) out) && negb (fl_dry fl)
      then Some (MkFile (compile (f_bytes f)) now) else lookup_file (out_name fl name) out.
Proof. exact level_spec. Qed.
Print Assumptions C16_level_spec.

Theorem C16_stale_means :
  forall fl src out, stale fl src out = fl_force fl || match out with None => true | Some o => f_mtime o <? f_mtime src end.
Proof. exact stale_spec. Qed.
Print Assumptions C16_stale_means.

(* every file that is not the output of some source is left alone: independent of which other files exist *)
Theorem C16_others_untouched :
  forall (compile : str -> str) now fl srcs out o,
    (forall name f, In (name, f) srcs -> is_less name = true -> out_name fl name <> o) ->
    lookup_file o (compile_level compile now fl srcs out) = lookup_file o out.
Proof. exact level_untouched. Qed.
Print Assumptions C16_others_untouched.

Theorem C16_dry_run_identity :
  forall (compile : str -> str) now fl srcs out, fl_dry fl = true -> compile_level compile now fl srcs out = out.
Proof. exact dry_run_level. Qed.
Print Assumptions C16_dry_run_identity.

(* over every history of modify / touch / run (any flags) the invariant holds: an output at least as new as its
   source is the compilation of the source as it is now — for both naming schemes (.css / .min.css) *)
Theorem C16_history :
  forall (compile : str -> str) ops s, Inv compile s ->
    (fix ok (s : state) (l : list op) : Prop := match l with [] => True | o :: r => op_ok s o /\ ok (step compile s o) r end) s ops ->
    Inv compile (fold_left (step compile) ops s).
Proof. intros compile ops s HI Hok. apply (history_inv compile ops s HI); [intros; now right|exact Hok]. Qed.
Print Assumptions C16_history.

(* after a run that is not a dry run every source has an output at least as new, byte-equal to compiling it alone *)
Theorem C16_after_run :
  forall (compile : str -> str) s fl name f,
    Inv compile s -> fl_dry fl = false -> lookup_file name (st_src s) = Some f -> is_less name = true ->
    exists o, lookup_file (out_name fl name) (st_out (step compile s (ORun fl))) = Some o /\ f_mtime f <= f_mtime o /\ f_bytes o = compile (f_bytes f).
Proof. exact run_post. Qed.
Print Assumptions C16_after_run.

(* isolation: the directory loop gives every file its own copy of the include scope (regenerated from the source) *)
Theorem C16_scope_isolated : batch_isolates_scope = true.
Proof. vm_compute. reflexivity. Qed.

Example C16_example :
  let compile := (fun s : str => $"css:" ++ s) in
  let s0 := MkState [($"a.less", MkFile $"A" 5); ($"b.less", MkFile $"B" 7); ($"notes.txt", MkFile $"n" 1)]
                    [($"a.css", MkFile $"css:OLD" 6)] 10 in
  let s1 := step compile s0 (ORun (MkFlags false false false false)) in
  lookup_file $"a.css" (st_out s1) = Some (MkFile $"css:OLD" 6) /\
  lookup_file $"b.css" (st_out s1) = Some (MkFile $"css:B" 11) /\
  lookup_file $"notes.css" (st_out s1) = None.
Proof. vm_compute. repeat split; reflexivity. Qed.
