(* C19 — At-rule blocks keep their structure.
   PARTIAL: the lemmas below (header kept, frames evaluate to their declarations in order, the table fact that every
   keyframes at-word is a sub-parse identifier) are proved; "none of these is flattened, hoisted, renamed or
   prefixed" for whole stylesheets is decided by the correspondence (byte-exact model, reference semantics). *)
From Coq Require Import String.
From Coq Require Import List Ascii Bool NArith.
Require Import Model.Text Model.Ast Model.Scope Model.Ident Model.Fmt Model.Eval Gen.PIdent Proofs.EvalProofs Proofs.AtRuleProofs.
Import ListNotations.

(* every reserved at-word of kind css_keyframes (with and without vendor prefix) keeps its block structure *)
Theorem C19_keyframes_names : forall w, In (w, $"css_keyframes") reserved_tokens -> is_subp w = true.
Proof. exact keyframes_is_subp. Qed.
Print Assumptions C19_keyframes_names.

(* such a header is printed as written: not combined with a parent, not renamed *)
Theorem C19_header_kept : forall toks t r, toks = t :: r -> is_subp t = true -> ident_parse None toks = [pairwise_filter toks].
Proof. exact at_header_kept. Qed.
Print Assumptions C19_header_kept.

(* a frame (from / to / percentage) keeps exactly its declarations, in order *)
Theorem C19_frame :
  forall parent sc sel body, decls_only body -> body <> [] ->
    eval_node parent sc (NFrame sel body) = ROk ([OBlock (ONFrame sel) (own_props body) []], sc).
Proof. exact frame_eval. Qed.
Print Assumptions C19_frame.

(* the whole @keyframes block (any vendor spelling: C19_keyframes_names): the header stays an at-rule name, the frames stay inside
   it, one per source frame, in source order, each with its own declarations *)
Theorem C19_keyframes_block :
  forall parent sc sel frames,
    is_subparse sel = true -> is_media_name sel = false -> Forall frame_ok frames -> frames <> [] ->
    eval_node parent sc (NBlock sel frames) =
      ROk ([OBlock (ONIdent true (ident_parse parent sel)) [] (map frame_obj frames)], sc).
Proof. exact keyframes_block. Qed.
Print Assumptions C19_keyframes_block.

(* inside an @media block an at-rule header is not prefixed with anything *)
Theorem C19_header_kept_in_media :
  forall mp mt mr toks t r,
    mp = mt :: mr -> is_subp mt = true -> toks = t :: r -> is_subp t = true -> count_amp toks = 0 -> str_eqb t $"@media" = false ->
    ident_parse (Some [mp]) toks = [pairwise_filter toks].
Proof. exact at_header_in_media. Qed.
Print Assumptions C19_header_kept_in_media.

Example C19_example :
  compile_nodes (false, false, false, 1)
    [NStmt [$"@charset"; $" "; $"""utf-8"""; $";"];
     NBlock [$"@-o-keyframes"; $" "; $"spin"; $" "]
       [NFrame $"from" [NProp $"top" [VT $"0"] false]; NFrame $"50%" [NProp $"top" [VT $"5px"] false; NProp $"left" [VT $"1px"] false];
        NFrame $"to" [NProp $"top" [VT $"9px"] false]];
     NBlock [$"@font-face"; $" "] [NProp $"font-family" [VT $"x"] false]]
  = ROk $"@charset ""utf-8"";
@-o-keyframes spin {
 from {
  top: 0;
 }
 50% {
  top: 5px;
  left: 1px;
 }
 to {
  top: 9px;
 }
}
@font-face {
 font-family: x;
}".
Proof. vm_compute. reflexivity. Qed.
