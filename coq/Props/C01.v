(* C01 — Plain CSS passes through with its meaning unchanged.
   The claim composes: front end (text -> node tree; Props/C12 for the token level, the parser by
   correspondence) ; evaluator+printer on a tree without LESS features (this file) ; colour normalisation
   (Props/C08).  PARTIAL: the parser is not modelled (tied by byte-exact correspondence on generated sheets). *)
From Coq Require Import String.
From Coq Require Import List Ascii Bool NArith.
Require Import Model.Text Model.Ast Model.Scope Model.Ident Model.Fmt Model.Eval Proofs.EvalProofs Proofs.MediaProofs Proofs.DeclProofs.
Import ListNotations.

(* a plain stylesheet: top-level rules (no nesting) with literal values *)
Definition plain_rule (n : node) : Prop :=
  match n with
  | NBlock sel body => plain_sel sel = true /\ Forall (fun c => match c with NProp _ v _ => forallb is_VT v = true | _ => False end) body
  | _ => False
  end.

Lemma plain_rule_rules_only n : plain_rule n -> rules_only n.
Proof.
  destruct n as [| |sel body| | | |]; try contradiction. intros [Hs Hb]. apply rules_only_body. split; [exact Hs|].
  induction Hb as [|c r Hc Hr IH]; constructor; [|exact IH]. destruct c; try contradiction. exact Hc.
Qed.

Lemma plain_rule_flat n : plain_rule n ->
  flat None n = match n with NBlock sel body => match own_props body with [] => [] | ps => [(ident_parse None sel, ps)] end | _ => [] end.
Proof.
  destruct n as [| |sel body| | | |]; try contradiction. intros [Hs Hb]. cbn [flat].
  assert ((fix go (l : list node) : list group := match l with [] => [] | x :: r => flat (Some (ident_parse None sel)) x ++ go r end) body = []) as ->.
  { induction Hb as [|c r Hc Hr IH]; [reflexivity|]. destruct c; try contradiction. exact IH. }
  apply app_nil_r.
Qed.

(* same rules, same order, same multiplicity, each with its declarations in order: nothing dropped,
   duplicated, merged or reordered; rules without declarations print nothing *)
Theorem C01_rules_in_order :
  forall units sc, Forall plain_rule units ->
    exists os, eval_units sc units = ROk os /\ forallb plain_tree os = true /\
      flat_map groups os =
      flat_map (fun n => match n with
                         | NBlock sel body => match own_props body with [] => [] | ps => [(ident_parse None sel, ps)] end
                         | _ => [] end) units.
Proof.
  intros units sc H.
  destruct (eval_units_rules_only units sc) as (os & E & Pt & Pg).
  - induction H as [|n r Hn Hr IH]; constructor; [now apply plain_rule_rules_only|exact IH].
  - intros n Hin. pose proof (proj1 (Forall_forall _ _) H n Hin) as Hp. destruct n; try contradiction. exact I.
  - exists os. split; [exact E|]. split; [exact Pt|]. rewrite Pg.
    clear -H. induction H as [|n r Hn Hr IH]; [reflexivity|]. cbn [flat_map]. rewrite (plain_rule_flat n Hn), IH. reflexivity.
Qed.
Print Assumptions C01_rules_in_order.

(* @media blocks around rules are kept as blocks at the top level (C07_rotation specialises to this) *)
Theorem C01_media_kept :
  forall n parent sc, rm_only n -> match n with NBlock _ _ => True | _ => False end ->
    exists us ms, eval_node parent sc n = ROk (us ++ ms, sc) /\
                  all_groups parent (us ++ ms) = fst (mflat parent n) ++ snd (mflat parent n).
Proof.
  intros n parent sc H1 H2. destruct (rotation_normal_form n parent sc H1 H2) as (us & ms & E & _ & _ & G). eauto.
Qed.
Print Assumptions C01_media_kept.

(* a declaration is printed as: indentation, name, colon, blank fill, the concatenation of its value tokens (trimmed),
   `!important` if present, semicolon, line fill -- for every option vector's fills; nothing of the value is dropped, duplicated
   or reordered.  (Values holding commas get the blank fill after each comma: C01_comma_spacing; url(..) directly followed by a
   token gets one blank: the documented rewrites.) *)
Theorem C01_declaration_verbatim :
  forall fl name parsed imp,
    forallb plain_tok parsed = true -> has_url (concat_str parsed) = false ->
    prop_fmt fl name parsed imp =
      f_tab fl ++ name ++ [":"%char] ++ f_ws fl ++ strip_ws (concat_str parsed) ++ (if imp then $" !important" else []) ++ [";"%char] ++ f_nl fl.
Proof. exact prop_fmt_verbatim. Qed.
Print Assumptions C01_declaration_verbatim.

Theorem C01_comma_spacing :
  forall ws parsed, forallb no_quote_tok parsed = true -> comma_ws ws None parsed = after_commas ws parsed.
Proof. exact comma_ws_commas. Qed.
Print Assumptions C01_comma_spacing.

Example C01_declaration_example :
  forallb plain_tok [$"1px"; $" "; $"solid"; $" "; $"#aabbcc"] = true /\
  prop_fmt (MkFills $"
" $"  " $" " $"
") $"border" [$"1px"; $" "; $"solid"; $" "; $"#aabbcc"] true = $"  border: 1px solid #aabbcc !important;
".
Proof. split; vm_compute; reflexivity. Qed.
