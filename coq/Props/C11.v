(* C11 — Formatting options change whitespace only, in the documented way.
   The option space is finite (2 x 2 x 2 x 9 = 72 vectors) and the fill table is REGENERATED on every run by
   running the real Formatter on every vector; the facts below are re-decided on that table.
   PARTIAL: "the outputs are identical once insignificant whitespace is removed" is decided by the
   correspondence (all 72 vectors, squeeze-equality of the real outputs) and not yet by a theorem about the
   printer; the theorems here pin the fills (what the options can influence at all). *)
From Coq Require Import String.
From Coq Require Import List Ascii Bool NArith.
Require Import Model.Text Model.Ident Model.Fmt Proofs.FmtProofs.
Import ListNotations.
Local Open Scope char_scope.

Theorem C11_option_space_covered : forall m x t s, s <= 8 -> exists fl, fills_of (m, x, t, s) = Some fl.
Proof. exact fills_total. Qed.
Print Assumptions C11_option_space_covered.

(* minify / xminify: no newline inside a rule, no optional blank, and with xminify no newline between rules *)
Theorem C11_minify_shape :
  forall m x t s fl, s <= 8 -> m || x = true -> fills_of (m, x, t, s) = Some fl ->
    f_nl fl = [] /\ f_tab fl = [] /\ f_ws fl = [] /\ f_eb fl = (if x then [] else ["010"]).
Proof. exact fills_minified. Qed.
Print Assumptions C11_minify_shape.

(* default: newline after every selector line and declaration, one blank after ':' and around combinators,
   indentation = exactly the configured unit: n spaces, or one tab *)
Theorem C11_default_shape :
  forall s t fl, s <= 8 -> fills_of (false, false, t, s) = Some fl ->
    f_nl fl = ["010"] /\ f_ws fl = [" "] /\ f_eb fl = ["010"] /\ f_tab fl = (if t then ["009"] else spaces s).
Proof. exact fills_default. Qed.
Print Assumptions C11_default_shape.

(* every fill of every vector consists of blanks, tabs and newlines only *)
Theorem C11_fills_are_whitespace : forall m x t s, s <= 8 -> row_ok (m, x, t, s) = true.
Proof. exact fills_row_ok. Qed.
Print Assumptions C11_fills_are_whitespace.
