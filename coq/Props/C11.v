(* C11 — Formatting options change whitespace only, in the documented way.
   The option space is finite (2 x 2 x 2 x 9 = 72 vectors) and the fill table is REGENERATED on every run by
   running the real Formatter on every vector; the facts below are re-decided on that table.
   The printers (Property.fmt, Identifier.fmt, Block.fmt with the @media re-indentation, Formatter.format) use the
   fills only as whitespace: C11_whitespace_only is the property on the formatter model, for every object tree.
   PARTIAL: whitespace inside string literals is erased by the comparison too (that strings are verbatim is C18);
   the tie of the formatter model to the code is the byte-exact correspondence on all 72 vectors. *)
From Coq Require Import String.
From Coq Require Import List Ascii Bool NArith.
Require Import Model.Text Model.Ident Model.Fmt Proofs.FmtProofs Proofs.WsProofs.
Import ListNotations.
Local Open Scope char_scope.

Theorem C11_option_space_covered : forall m x t s, s <= 8 -> exists fl, fills_of (m, x, t, s) = Some fl.
Proof. exact fills_total. Qed.
Print Assumptions C11_option_space_covered.

(* minify / xminify: no newline inside a rule, no optional blank, and with xminify no newline between rules *)
Theorem C11_minify_shape :
  forall m x t s fl, s <= 8 -> m || x = true -> fills_of (m, x, t, s) = Some fl ->
    f_nl fl = [] /\ f_tab fl = [] /\ f_ws fl = [] /\ f_eb fl = (if x then [] else ["010"]).
Proof. exact fills_minified. Qed.
Print Assumptions C11_minify_shape.

(* default: newline after every selector line and declaration, one blank after ':' and around combinators,
   indentation = exactly the configured unit: n spaces, or one tab *)
Theorem C11_default_shape :
  forall s t fl, s <= 8 -> fills_of (false, false, t, s) = Some fl ->
    f_nl fl = ["010"] /\ f_ws fl = [" "] /\ f_eb fl = ["010"] /\ f_tab fl = (if t then ["009"] else spaces s).
Proof. exact fills_default. Qed.
Print Assumptions C11_default_shape.

(* every fill of every vector consists of blanks, tabs and newlines only *)
Theorem C11_fills_are_whitespace : forall m x t s, s <= 8 -> row_ok (m, x, t, s) = true.
Proof. exact fills_row_ok. Qed.
Print Assumptions C11_fills_are_whitespace.

(* THE PROPERTY on the formatter model: for any two option vectors and any evaluated program (object tree), the two outputs
   are equal once every whitespace character is removed *)
Theorem C11_whitespace_only :
  forall m1 x1 t1 s1 m2 x2 t2 s2 fl1 fl2 objs, s1 <= 8 -> s2 <= 8 ->
    fills_of (m1, x1, t1, s1) = Some fl1 -> fills_of (m2, x2, t2, s2) = Some fl2 ->
    erase (format fl1 objs) = erase (format fl2 objs).
Proof. exact options_change_whitespace_only. Qed.
Print Assumptions C11_whitespace_only.

(* and for any fills made of whitespace at all *)
Theorem C11_whitespace_only_any_fills : forall fl1 fl2 objs, ws_fills fl1 -> ws_fills fl2 -> erase (format fl1 objs) = erase (format fl2 objs).
Proof. exact format_whitespace_only. Qed.
Print Assumptions C11_whitespace_only_any_fills.
