(* C17 — Numeric built-ins agree with exact arithmetic; unknown functions pass through (C17_unknown_function, on the evaluator model).
   The arithmetic of each built-in is translated from lesscpy/plib/call.py and lesscpy/lessc/utility.py on
   every run (Gen/Params.v: builtin_*_py, away_from_zero_round_py). *)
From Coq Require Import String.
From Coq Require Import List Ascii Bool ZArith QArith Qround Qabs.
Require Import Model.Text Model.Num Model.PyNum Gen.PNumeric Model.Number Spec.NumSpec Proofs.NumProofs.
Require Import Model.Ast Model.Scope Model.Eval Proofs.TermProofs.
Import ListNotations.
Local Open Scope Q_scope.

(* the reference "round half away from zero" really is that: within 1/2, ties go away from zero *)
Theorem C17_round_spec_near : forall x, Qabs (inject_Z (round_haz x) - x) <= 1#2.
Proof. exact round_haz_near. Qed.
Print Assumptions C17_round_spec_near.
Theorem C17_round_spec_ties :
  forall k : Z, (0 <= k)%Z -> round_haz (inject_Z k + (1#2)) = (k + 1)%Z /\ round_haz (- (inject_Z k + (1#2))) = (- (k + 1))%Z.
Proof. intros k Hk. split; [exact (round_haz_tie_pos k Hk)|exact (round_haz_tie_neg k Hk)]. Qed.
Print Assumptions C17_round_spec_ties.

(* every built-in, applied to any number token (any rational value, either sign, any unit):
   exact result, unit preserved (a zero result prints as a bare 0; percentage forces %) *)
Theorem C17_builtins :
  builtin_meets $"round" spec_round None (fun _ => True) /\
  builtin_meets $"ceil" spec_ceil None (fun _ => True) /\
  builtin_meets $"floor" spec_floor None (fun _ => True) /\
  builtin_meets $"increment" spec_increment None (fun _ => True) /\
  builtin_meets $"decrement" spec_decrement None (fun _ => True) /\
  builtin_meets $"percentage" spec_percentage (Some $"%") twelve_decimals.
Proof. exact builtins_correct. Qed.
Print Assumptions C17_builtins.

(* a function name lesscpy does not define (the evaluator's Call fall-through): the name, then the arguments evaluated where the
   call stands and otherwise unchanged, in the same order *)
Theorem C17_unknown_function : forall fuel sc name args vals rest,
  eval_value fuel sc args = ROk vals ->
  eval_value (S fuel) sc (VCall name args :: rest)
  = rbind (eval_value (S fuel) sc rest) (fun r => ROk ((name ++ $"(" ++ concat_str vals ++ $")")%list :: r)).
Proof. exact unknown_function_passes. Qed.
Print Assumptions C17_unknown_function.

(* non-vacuity *)
Example C17_example :
  parse_number $"-2.5px" = Some (MkNum (-(25#10)) $"px") /\
  (exists r, call_builtin $"round" $"-2.5px" = Some r /\ nv r == -3 /\ nu r = $"px") /\
  (exists r, call_builtin $"round" $"-2.3px" = Some r /\ nv r == -2 /\ nu r = $"px") /\
  (exists r, call_builtin $"percentage" $"0.29" = Some r /\ nv r == 29 /\ nu r = $"%") /\
  twelve_decimals (29#100).
Proof.
  split; [reflexivity|]. repeat split; try (eexists; repeat split; vm_compute; reflexivity).
  exists 290000000000%Z. reflexivity.
Qed.
