(* C04 — Arithmetic follows precedence, left associativity, parentheses and unit rules. *)
From Coq Require Import String.
From Coq Require Import List Ascii Bool NArith ZArith QArith.
Require Import Model.Text Model.ParamTypes Model.Num Model.NumLex Model.Expr Spec.ArithSpec Proofs.ExprProofs.
Import ListNotations.

(* The shift/reduce parser driven by the operator matrix READ OFF THE REAL AUTOMATON reads back every
   expression tree from every rendering of it: minimal parentheses, or redundant ones anywhere.
   [renders] encodes: * / bind tighter than + -, equal levels associate to the left, parentheses and
   unary minus on a parenthesis are respected.  No bound on size or depth. *)
Theorem C04_parse_any_rendering : forall e ts, renders 0 e ts -> parse_expr ts = Some e.
Proof. exact parse_renders. Qed.
Print Assumptions C04_parse_any_rendering.

Theorem C04_parse_minimal : forall e, ops_arith e -> parse_expr (print_min 0 e) = Some e.
Proof. exact parse_print_min. Qed.
Print Assumptions C04_parse_minimal.

(* Expression.parse / NegatedExpression.parse compute ordinary arithmetic; the result carries the unit of
   the first operand that has one (under the property's exclusions: non-zero divisors, no sub-expression
   evaluating to zero) *)
Theorem C04_eval :
  forall e, arith_ok e -> exists n, eval e = RNum n /\ (nv n == value e)%Q /\ nu n = first_unit e.
Proof. exact eval_correct. Qed.
Print Assumptions C04_eval.

(* non-vacuity: 1 - 2 * 3px - (4 - 6) / -(0.5)  *)
Example C04_example :
  let n (q : Q) (u : str) := ENum (MkNum q u) in
  let e := EBin OSub (EBin OSub (n 1 []) (EBin OMul (n 2 []) (n 3 $"px")))
                     (EBin OTrueDiv (EBin OSub (n 4 []) (n 6 [])) (ENeg (n (1#2) []))) in
  arith_ok e /\ renders 0 e (print_min 0 e) /\ parse_expr (print_min 0 e) = Some e /\
  (value e == -9)%Q /\ first_unit e = $"px".
Proof.
  cbv zeta. split; [|split; [|split; [|split]]].
  - cbn [arith_ok value is_arith nv]. repeat split; intro H; vm_compute in H; discriminate.
  - apply print_min_renders. cbn. tauto.
  - apply parse_print_min. cbn. tauto.
  - reflexivity.
  - reflexivity.
Qed.
