(* C07 — Nested @media bubbles to the top level, selector kept, conditions conjoined. *)
From Coq Require Import String.
From Coq Require Import List Ascii Bool NArith.
Require Import Model.Text Model.Ast Model.Scope Model.Ident Model.Fmt Model.Eval Proofs.EvalProofs Proofs.MediaProofs.
Import ListNotations.

(* For every tree of rules and @media blocks (any depth, any placement, @media in @media to any depth,
   selector lists, &-rules; literal declaration values): evaluation succeeds and returns unconditional rule
   trees FOLLOWED BY flat @media blocks, and the groups printed are exactly those of the reference
   flattening [mflat]: each declaration list under exactly the (media, selector) pair it was written under,
   the conditions of nested @media merged outer-to-inner (merge_media), unconditional part first, both parts
   in source order.  This is the rotation in Block.parse. *)
Theorem C07_rotation :
  forall n parent sc, rm_only n -> match n with NBlock _ _ => True | _ => False end ->
    exists us ms, eval_node parent sc n = ROk (us ++ ms, sc) /\
                  Forall (fun o => plain_tree o = true) us /\ Forall (fun o => media_nf o = true) ms /\
                  all_groups parent (us ++ ms) = fst (mflat parent n) ++ snd (mflat parent n).
Proof. exact rotation_normal_form. Qed.
Print Assumptions C07_rotation.

(* no output rule contains an @media block *)
Theorem C07_no_media_inside_rule_plain : forall o, plain_tree o = true -> forall b, has_media_inside_rule b o = false.
Proof. exact plain_tree_no_media. Qed.
Print Assumptions C07_no_media_inside_rule_plain.
Theorem C07_no_media_inside_rule_media : forall o, media_nf o = true -> has_media_inside_rule false o = false.
Proof. exact media_nf_no_media. Qed.
Print Assumptions C07_no_media_inside_rule_media.

(* the condition of a @media nested in a @media: outer query, ' and ', inner query — nothing lost, nothing duplicated *)
Theorem C07_conjunction :
  forall outer inner,
    merge_media outer inner =
    ONIdent true [pairwise_filter ($"@media" :: blank_tok :: media_tail outer ++ [blank_tok; $"and"; blank_tok] ++ media_tail inner)].
Proof. reflexivity. Qed.
Print Assumptions C07_conjunction.

Example C07_example :
  let t := [NBlock [$".a"; $","; $".b"]
              [NProp $"color" [VT $"red"] false;
               NBlock [$"@media"; $" "; $"screen"; $" "]
                 [NProp $"top" [VT $"0"] false;
                  NBlock [$".c"] [NProp $"left" [VT $"1px"] false];
                  NBlock [$"@media"; $" "; $"("; $"min-width"; $":"; $"10px"; $")"] [NProp $"width" [VT $"2px"] false]];
               NBlock [$".d"] [NProp $"z-index" [VT $"1"] false]]] in
  Forall rm_only t /\
  compile_nodes (false, false, false, 1) t =
    ROk $".a,
.b {
 color: red;
}
.a .d,
.b .d {
 z-index: 1;
}
@media screen {
 .a,
 .b {
  top: 0;
 }
 .a .c,
 .b .c {
  left: 1px;
 }
}
@media screen and (min-width:10px) {
 .a,
 .b {
  width: 2px;
 }
}".
Proof. split; [|vm_compute; reflexivity]. constructor; [|constructor]. cbn. intuition. Qed.
