(* C20 — Compilation always terminates; runaway self-reference ends in an error.
   PARTIAL: "time bounded by the size of the expanded input" is about the interpreter; the theorems bound model
   steps (the model is total: structural recursion and explicit fuel regenerated from the code's own limits);
   wall clock, mixin recursion and import cycles are decided by the correspondence with a per-case time limit. *)
From Coq Require Import String.
From Coq Require Import List Ascii Bool NArith.
Require Import Model.Text Model.Ast Model.Scope Model.Ident Model.Fmt Model.Eval Gen.PLimits Proofs.EvalProofs Proofs.TermProofs Proofs.RunawayProofs Proofs.FuelProofs.
Import ListNotations.

(* variables defined in terms of each other — a cycle of any length and shape — are reported (fuel exhausted),
   for every amount of fuel: no finite number of substitution rounds settles them *)
Theorem C20_variable_cycle_reported :
  forall sc S, closed_cycle sc S -> forall fuel x, S x -> eval_value fuel sc [VVar x] = RFuel.
Proof. exact cycle_exhausts_fuel. Qed.
Print Assumptions C20_variable_cycle_reported.

(* a chain of k variable-to-variable references without a cycle evaluates completely with k+1 rounds *)
Theorem C20_chain_terminates :
  forall sc k x out, chain sc k x out -> forall extra, eval_value (S k + extra) sc [VVar x] = ROk out.
Proof. exact chain_evaluates. Qed.
Print Assumptions C20_chain_terminates.

(* mixins that call each other without a base case (every definition: no parameter; literal declarations, then an unconditional
   call of some definition of the sheet) are reported for EVERY depth limit: cycles of any length, any shape of call graph *)
Theorem C20_runaway_mixins_reported :
  forall defs, Forall (runaway defs) defs ->
    forall fuel name parent sc, In name (map m_name defs) -> is_err (call_mixin defs fuel name [] parent sc).
Proof. exact runaway_reported. Qed.
Print Assumptions C20_runaway_mixins_reported.

(* non-vacuity: a cycle of three, one of them with declarations before the call and statements after it; at the code's limit the
   whole compilation is an error *)
Definition c20_cycle : list mixin_def :=
  [MkMixin $".a" [] [NProp $"w" [VT $"1"] false; NCall $".b" []];
   MkMixin $".b" [] [NCall $".c" []; NProp $"x" [VT $"2"] false];
   MkMixin $".c" [] [NCall $".a" []]].
Example C20_runaway_nonvacuous :
  Forall (runaway c20_cycle) c20_cycle /\
  compile_nodes (false, false, false, 1)
    [NMixin $".a" [] [NProp $"w" [VT $"1"] false; NCall $".b" []]; NMixin $".b" [] [NCall $".c" []; NProp $"x" [VT $"2"] false];
     NMixin $".c" [] [NCall $".a" []]; NBlock [$".r"] [NCall $".b" []]]
  = RError $"SyntaxError" $"NameError .a".
Proof.
  split.
  - repeat constructor; cbn.
    + exists [NProp $"w" [VT $"1"] false], $".b", []. repeat split; auto. constructor; [reflexivity|constructor].
    + exists [], $".c", [NProp $"x" [VT $"2"] false]. repeat split; auto.
    + exists [], $".a", []. repeat split; auto.
  - vm_compute. reflexivity.
Qed.

(* the bound on substitution rounds matters for cycles only: a value that evaluates with some amount of fuel evaluates to the same
   token list with every larger amount (arithmetic, calls, interpolation included) *)
Theorem C20_more_rounds_same_result :
  forall sc f g ts res, f <= g -> eval_value f sc ts = ROk res -> eval_value g sc ts = ROk res.
Proof. exact eval_value_mono. Qed.
Print Assumptions C20_more_rounds_same_result.

(* the limits the code enforces, re-read from the source on every run *)
Theorem C20_limits : (process_round_limit, mixin_depth_limit, import_depth_limit) = (64, 64, 8) /\ recursion_error_reported = true.
Proof. exact tf_limits. Qed.

Example C20_example :
  let sc := [[($"@a", [VVar $"@b"]); ($"@b", [VVar $"@c"]); ($"@c", [VVar $"@a"]); ($"@d", [VVar $"@e"]); ($"@e", [VT $"1px"])]] in
  closed_cycle sc (fun x => x = $"@a" \/ x = $"@b" \/ x = $"@c") /\ chain sc 2 $"@d" [$"1px"] /\
  eval_value 64 sc [VVar $"@d"] = ROk [$"1px"] /\ eval_value 64 sc [VVar $"@a"] = RFuel.
Proof.
  cbv zeta. split; [|split; [|split; vm_compute; reflexivity]].
  - intros x [H|[H|H]]; subst x; (split; [split; [exact I|reflexivity]|]); eexists; (split; [|reflexivity]); auto.
  - apply chain_step with (y := $"@e"); [split; [exact I|reflexivity]|reflexivity|]. apply (chain_end _ $"@e" [VT $"1px"]); [split; [exact I|reflexivity]|reflexivity|reflexivity].
Qed.
