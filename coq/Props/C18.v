(* C18 — Strings are preserved verbatim; @{var} interpolation substitutes values.
   PARTIAL: the theorems are about the lexer model (a string is ONE token whatever its body contains), the evaluator model
   (a string token evaluates to itself; @{name} evaluates to the value of @name, the same tokens a plain use gives), the
   formatter model (a string value is printed verbatim) and the selector pre-pass. That the LALR parser hands the lexer's
   string token to the declaration unchanged, and the whole-program statement, are decided by the correspondence
   (byte-exact model comparison, reference semantics, verbatim / inertness checks on the real output). *)
From Coq Require Import String.
From Coq Require Import List Ascii Bool NArith.
Require Import Model.Text Model.ParamTypes Gen.Params Model.Lex Model.Ast Model.Scope Model.Ident Model.Fmt Model.Eval.
Require Import Proofs.LexProofs Proofs.EvalProofs Proofs.StringProofs.
Require Import Model.Parse Proofs.ParseProofs.
Import ListNotations.
Open Scope char_scope.

(* any body without the delimiting quote and without '@' -- braces, semicolons, comment marks, repeated blanks, line breaks,
   selector and operator characters included -- is lexed as ONE css_string token, in a value and inside parentheses; the
   lexer state is unchanged and lexing continues right after the closing quote *)
Theorem C18_string_is_one_token : forall stk ip q body rest,
  (top stk = MInit \/ top stk = MParn) -> (q = """" \/ q = "'") -> forallb (fun c => negb (ch_eqb c q || ch_eqb c "@")) body = true ->
  step (LS stk ip) (q :: body ++ q :: rest) = Emit ($"css_string", q :: body ++ [q]) (LS stk ip) (count_nl (q :: body ++ [q])) rest.
Proof. intros stk ip q body rest [H | H]; [now apply step_string_init | now apply step_string_parn]. Qed.
Print Assumptions C18_string_is_one_token.

(* the reference parser hands the string token to the declaration unchanged *)
Theorem C18_string_through_parser : forall f s rest,
  parse_value (S (S f)) [$"t_semicolon"] (($"css_string", s) :: ($"t_semicolon", [";"]) :: rest) = POk ([VT s], false, $"t_semicolon", rest).
Proof. exact string_value_parsed. Qed.
Print Assumptions C18_string_through_parser.

(* a value made of literal tokens (string tokens among them) evaluates to exactly these tokens *)
Theorem C18_string_evaluates_to_itself : forall fuel sc v, forallb is_VT v = true -> eval_value (S fuel) sc v = ROk (map tok_str v).
Proof. exact eval_value_plain. Qed.
Print Assumptions C18_string_evaluates_to_itself.

(* and is printed verbatim under every option vector (fills) *)
Theorem C18_string_printed_verbatim : forall fl name q body imp,
  is_quote q = true -> free_of q body = true ->
  prop_fmt fl name [q :: body ++ [q]] imp
  = f_tab fl ++ name ++ [":"] ++ f_ws fl ++ (q :: body ++ [q]) ++ (if imp then $" !important" else []) ++ [";"] ++ f_nl fl.
Proof. exact string_printed_verbatim. Qed.
Print Assumptions C18_string_printed_verbatim.

(* @{name} evaluates to the value of @name ... *)
Theorem C18_interpolation_value : forall fuel sc x v,
  is_interp x = true -> variables (interp_name x) sc = Some v -> forallb is_VT v = true -> destring_first v = v ->
  eval_value (S (S fuel)) sc [VVar x] = ROk (map tok_str v).
Proof. exact interpolation_value. Qed.
Print Assumptions C18_interpolation_value.

(* ... which is what every plain use of @name evaluates to *)
Theorem C18_same_value_everywhere : forall fuel sc x v,
  is_interp x = true -> is_interp (interp_name x) = false -> (match interp_name x with "@" :: "@" :: _ => False | _ => True end) ->
  variables (interp_name x) sc = Some v -> forallb is_VT v = true -> destring_first v = v ->
  eval_value (S (S fuel)) sc [VVar x] = eval_value (S (S fuel)) sc [VVar (interp_name x)].
Proof. exact same_value_everywhere. Qed.
Print Assumptions C18_same_value_everywhere.

(* selectors: the interpolation token is replaced by the tokens of the value, every other token is left alone;
   an unbound name is an error *)
Theorem C18_selector_interpolation : forall sc pre x post v,
  forallb (fun t => negb (is_interp t)) pre = true -> forallb (fun t => negb (is_interp t)) post = true ->
  is_interp x = true -> variables (interp_name x) sc = Some v -> vt_only v = true ->
  subst_sel sc (pre ++ x :: post) = ROk (pre ++ vt_strs (destring_first v) ++ post).
Proof. exact selector_interpolation. Qed.
Print Assumptions C18_selector_interpolation.
Theorem C18_selector_interpolation_unbound : forall sc pre x post,
  forallb (fun t => negb (is_interp t)) post = true -> is_interp x = true -> variables (interp_name x) sc = None ->
  exists m, subst_sel sc (pre ++ x :: post) = RError $"SyntaxError" m.
Proof. exact selector_interpolation_unbound. Qed.
Print Assumptions C18_selector_interpolation_unbound.

Example C18_example :
  compile_case (false, false, false, 1)
    [NVar $"@n" [VT $"5"];
     NBlock [$".col-"; $"@{n}"; $"-x"] [NProp $"content" [VT $""""; VT $"a { ; } /* c */  b "; VVar $"@{n}"; VT $""""] false;
                                       NProp $"width" [VVar $"@n"] false;
                                       NProp $"quotes" [VT $"'url(x)y , ;'"] false]]
  = Cases.Ok $".col-5-x {
 content: ""a { ; } /* c */  b 5"";
 width: 5;
 quotes: 'url(x)y , ;';
}".
Proof. vm_compute. reflexivity. Qed.
