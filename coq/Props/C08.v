(* C08 — Colour literals are normalised and colour arithmetic is channel-wise and clamped.
   This file holds only the property theorems; each is closed by [exact] of a lemma. *)
From Coq Require Import String.
From Coq Require Import List Ascii Bool NArith ZArith.
Require Import Model.Text Model.ParamTypes Model.Color Spec.ColorSpec Proofs.ColorBase Proofs.ColorProofs.
Import ListNotations.

(* Every 3- or 6-digit hex literal in any letter case is printed as lower-case #rrggbb denoting
   the same colour (Color.fmt is what p_color applies to every css_color token). *)
Theorem C08_literal_normalised :
  forall v r g b, colour_value v = Some (r, g, b) ->
    color_fmt v = Some (hex6 r g b) /\ (r < 256 /\ g < 256 /\ b < 256)%N.
Proof. exact color_fmt_correct. Qed.
Print Assumptions C08_literal_normalised.

(* #rrggbb produced from channel values below 256 is well formed: '#' and six lower-case hex digits *)
Theorem C08_wellformed :
  forall r g b, (r < 256)%N -> (g < 256)%N -> (b < 256)%N -> wellformed_colour (hex6 r g b) = true.
Proof. exact hex6_wellformed. Qed.
Print Assumptions C08_wellformed.

(* Colour arithmetic on two literals (any length, any case): each channel independently, clamped
   to 0..255; division by a colour without a zero channel is the integer quotient. *)
Theorem C08_arithmetic :
  forall v1 sym v2 o r1 g1 b1 r2 g2 b2,
    colour_value v1 = Some (r1, g1, b1) -> colour_value v2 = Some (r2, g2, b2) ->
    op_of_sym sym = Some o -> (o = OTrueDiv -> r2 <> 0 /\ g2 <> 0 /\ b2 <> 0)%N ->
    color_expr v1 sym v2 = Some (hex6 (chan_spec o r1 r2) (chan_spec o g1 g2) (chan_spec o b1 b2)).
Proof. exact color_expr_correct. Qed.
Print Assumptions C08_arithmetic.

(* the same for already-normalised operands (variables and function arguments hold normalised colours) *)
Theorem C08_process :
  forall sym o r1 g1 b1 r2 g2 b2,
    op_of_sym sym = Some o ->
    (r1 < 256)%N -> (g1 < 256)%N -> (b1 < 256)%N -> (r2 < 256)%N -> (g2 < 256)%N -> (b2 < 256)%N ->
    (o = OTrueDiv -> r2 <> 0 /\ g2 <> 0 /\ b2 <> 0)%N ->
    color_process (hex6 r1 g1 b1) sym (hex6 r2 g2 b2) =
      Some (hex6 (chan_spec o r1 r2) (chan_spec o g1 g2) (chan_spec o b1 b2)).
Proof. exact color_process_correct. Qed.
Print Assumptions C08_process.

(* non-vacuity: concrete literals meet the hypotheses and the statement computes *)
Example C08_example :
  colour_value $"#AbC" = Some (170, 187, 204)%N /\
  color_expr $"#AbC" $"+" $"#0000fF" = Some $"#aabbff" /\
  color_expr $"#ffffff" $"/" $"#030507" = Some $"#553324".
Proof. vm_compute. repeat split; reflexivity. Qed.
