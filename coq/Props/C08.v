(* C08 — Colour literals are normalised and colour arithmetic is channel-wise and clamped.
   This file holds only the property theorems; each is closed by [exact] of a lemma. *)
From Coq Require Import String.
From Coq Require Import List Ascii Bool NArith ZArith.
Require Import Model.Text Model.ParamTypes Model.Color Spec.ColorSpec Proofs.ColorBase Proofs.ColorProofs.
Import ListNotations.

(* Every 3- or 6-digit hex literal in any letter case is printed as lower-case #rrggbb denoting
   the same colour (Color.fmt is what p_color applies to every css_color token). *)
Theorem C08_literal_normalised :
  forall v r g b, colour_value v = Some (r, g, b) ->
    color_fmt v = Some (hex6 r g b) /\ (r < 256 /\ g < 256 /\ b < 256)%N.
Proof. exact color_fmt_correct. Qed.
Print Assumptions C08_literal_normalised.

(* #rrggbb produced from channel values below 256 is well formed: '#' and six lower-case hex digits *)
Theorem C08_wellformed :
  forall r g b, (r < 256)%N -> (g < 256)%N -> (b < 256)%N -> wellformed_colour (hex6 r g b) = true.
Proof. exact hex6_wellformed. Qed.
Print Assumptions C08_wellformed.

(* Colour arithmetic on two literals (any length, any case): each channel independently, clamped
   to 0..255; division by a colour without a zero channel is the integer quotient. *)
Theorem C08_arithmetic :
  forall v1 sym v2 o r1 g1 b1 r2 g2 b2,
    colour_value v1 = Some (r1, g1, b1) -> colour_value v2 = Some (r2, g2, b2) ->
    op_of_sym sym = Some o -> (o = OTrueDiv -> r2 <> 0 /\ g2 <> 0 /\ b2 <> 0)%N ->
    color_expr v1 sym v2 = Some (hex6 (chan_spec o r1 r2) (chan_spec o g1 g2) (chan_spec o b1 b2)).
Proof. exact color_expr_correct. Qed.
Print Assumptions C08_arithmetic.

(* the same for already-normalised operands (variables and function arguments hold normalised colours) *)
Theorem C08_process :
  forall sym o r1 g1 b1 r2 g2 b2,
    op_of_sym sym = Some o ->
    (r1 < 256)%N -> (g1 < 256)%N -> (b1 < 256)%N -> (r2 < 256)%N -> (g2 < 256)%N -> (b2 < 256)%N ->
    (o = OTrueDiv -> r2 <> 0 /\ g2 <> 0 /\ b2 <> 0)%N ->
    color_process (hex6 r1 g1 b1) sym (hex6 r2 g2 b2) =
      Some (hex6 (chan_spec o r1 r2) (chan_spec o g1 g2) (chan_spec o b1 b2)).
Proof. exact color_process_correct. Qed.
Print Assumptions C08_process.

(* closure: the result of colour arithmetic on two literals is itself a well-formed literal that
   denotes the channel-wise clamped triple and that Color.fmt leaves unchanged (so a variable or a
   further operation sees exactly that colour) *)
Theorem C08_closed :
  forall v1 sym v2 o r1 g1 b1 r2 g2 b2,
    colour_value v1 = Some (r1, g1, b1) -> colour_value v2 = Some (r2, g2, b2) ->
    op_of_sym sym = Some o -> (o = OTrueDiv -> r2 <> 0 /\ g2 <> 0 /\ b2 <> 0)%N ->
    exists w, color_expr v1 sym v2 = Some w /\
      colour_value w = Some (chan_spec o r1 r2, chan_spec o g1 g2, chan_spec o b1 b2) /\
      color_fmt w = Some w /\ wellformed_colour w = true.
Proof. exact color_expr_closed. Qed.
Print Assumptions C08_closed.

(* chains: (v1 o v2) o' v3 for any three literals is the channel-wise composition of the two
   clamped operations (clamping happens after each step, not once at the end) *)
Theorem C08_chain :
  forall v1 sym v2 sym' v3 o o' r1 g1 b1 r2 g2 b2 r3 g3 b3,
    colour_value v1 = Some (r1, g1, b1) -> colour_value v2 = Some (r2, g2, b2) ->
    colour_value v3 = Some (r3, g3, b3) ->
    op_of_sym sym = Some o -> op_of_sym sym' = Some o' ->
    (o = OTrueDiv -> r2 <> 0 /\ g2 <> 0 /\ b2 <> 0)%N ->
    (o' = OTrueDiv -> r3 <> 0 /\ g3 <> 0 /\ b3 <> 0)%N ->
    opt_bind (color_expr v1 sym v2) (fun w => color_expr w sym' v3) =
      Some (hex6 (chan_spec o' (chan_spec o r1 r2) r3) (chan_spec o' (chan_spec o g1 g2) g3)
                 (chan_spec o' (chan_spec o b1 b2) b3)).
Proof. exact color_expr_chain. Qed.
Print Assumptions C08_chain.

(* the clamped channel operations: + and * commute, + is associative on channels, 0 is neutral,
   x - x is black, + is monotone *)
Theorem C08_channel_algebra :
  (forall x y, chan_spec OAdd x y = chan_spec OAdd y x) /\
  (forall x y, chan_spec OMul x y = chan_spec OMul y x) /\
  (forall x y z, (x < 256)%N -> (y < 256)%N -> (z < 256)%N ->
     chan_spec OAdd (chan_spec OAdd x y) z = chan_spec OAdd x (chan_spec OAdd y z)) /\
  (forall x, (x < 256)%N -> chan_spec OAdd x 0 = x) /\
  (forall x, chan_spec OSub x x = 0%N) /\
  (forall x x' y, (x <= x')%N -> (chan_spec OAdd x y <= chan_spec OAdd x' y)%N).
Proof.
  exact (conj chan_add_comm (conj chan_mul_comm (conj chan_add_assoc (conj chan_add_0
        (conj chan_sub_self chan_add_mono))))).
Qed.
Print Assumptions C08_channel_algebra.

(* non-vacuity: concrete literals meet the hypotheses and the statement computes *)
Example C08_example :
  colour_value $"#AbC" = Some (170, 187, 204)%N /\
  color_expr $"#AbC" $"+" $"#0000fF" = Some $"#aabbff" /\
  color_expr $"#ffffff" $"/" $"#030507" = Some $"#553324" /\
  opt_bind (color_expr $"#f80" $"+" $"#0F0F0F") (fun w => color_expr w $"-" $"#101010") = Some $"#ef8700".
Proof. vm_compute. repeat split; reflexivity. Qed.
