(* C10 — The output is plain CSS and a fixed point of the compiler.
   PARTIAL: the fixed-point and cross-option statements are decided on the real compiler by metamorphic
   correspondence (generated programs and the project's corpus); a theorem would need the front end
   (text -> node tree), which is modelled only at the token level (C12).  The obligations here are the
   structural facts the plain-CSS half rests on: evaluated values are strings (no variable node survives
   evaluation: an unbound reference is an error, C03_unbound_fails), no @media is left inside a rule and
   nested rules are flattened (C07_rotation / C02_flatten normal forms). *)
From Coq Require Import String.
From Coq Require Import List Ascii Bool NArith.
Require Import Model.Text Model.Ast Model.Scope Model.Ident Model.Fmt Model.Eval Proofs.EvalProofs Proofs.MediaProofs Proofs.ScopeProofs Proofs.AmpProofs.
Import ListNotations.

(* what is printed for a tree of rules and @media blocks is a list of ordinary rules followed by @media
   blocks that contain ordinary rules only: no rule inside a rule, no @media inside a rule *)
Theorem C10_flat_output :
  forall n parent sc, rm_only n -> match n with NBlock _ _ => True | _ => False end ->
    exists us ms, eval_node parent sc n = ROk (us ++ ms, sc) /\
                  Forall (fun o => plain_tree o = true) us /\ Forall (fun o => media_nf o = true) ms.
Proof.
  intros n parent sc H1 H2. destruct (rotation_normal_form n parent sc H1 H2) as (us & ms & E & A & B & _). eauto.
Qed.
Print Assumptions C10_flat_output.

Theorem C10_no_media_in_rule : forall o, plain_tree o = true -> forall b, has_media_inside_rule b o = false.
Proof. exact plain_tree_no_media. Qed.
Print Assumptions C10_no_media_in_rule.

(* a reference that cannot be resolved never reaches the output: evaluation fails *)
Theorem C10_no_unresolved_variable :
  forall fuel sc x rest, variables x sc = None -> (match x with "@"%char :: "@"%char :: _ => False | _ => True end) -> is_interp x = false ->
    eval_value (S fuel) sc (VVar x :: rest) = RError $"SyntaxError" ($"Unknown variable " ++ x).
Proof. exact unbound_is_error. Qed.
Print Assumptions C10_no_unresolved_variable.

(* no '&' reaches the output: whatever the child selector looks like (any number of '&', anywhere), combining it with a
   non-empty list of '&'-free parent selectors gives '&'-free selectors; at the top level nothing is added to what was written *)
Theorem C10_no_ampersand_nested :
  forall pp toks, pp <> [] -> forallb amp_free pp = true -> forallb amp_free (ident_parse (Some pp) toks) = true.
Proof. exact ident_parse_nested_free. Qed.
Print Assumptions C10_no_ampersand_nested.

Theorem C10_no_ampersand_top :
  forall toks, forallb not_amp toks = true -> forallb amp_free (ident_parse None toks) = true.
Proof. exact ident_parse_top_free. Qed.
Print Assumptions C10_no_ampersand_top.
