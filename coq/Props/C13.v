(* C13 — Compilation is a pure function of source text and options.
   PARTIAL by nature: OS scheduling, partial writes below chunk granularity, CPython's import machinery are
   runtime behaviour no executable model exhibits.  What is logic — the cache protocol — is modelled here with
   PLY as an oracle; everything else is decided by the correspondence on real processes (16 concurrent
   processes on one temporary directory with cold / warm / truncated-at-every-prefix / foreign table files,
   histories of valid and failing compilations in one process, stream vs file object, five hash seeds, threads). *)
From Coq Require Import String.
From Coq Require Import List Ascii Bool NArith.
Require Import Model.Text Model.Cache Proofs.CacheProofs.
Import ListNotations.

(* for every number of processes, every schedule of their construction sub-steps and every initial state of the
   shared table file: if no table module sits in the package directory, every parse uses freshly generated tables *)
Theorem C13_cache_irrelevant :
  forall chunks sched w, world_ok w -> world_ok (run chunks w sched).
Proof. exact cache_irrelevant. Qed.
Print Assumptions C13_cache_irrelevant.

Example C13_example :
  let w0 := MkWorld (FTruncated 3) false [MkProc None false 0 []; MkProc None false 0 []] in
  world_ok w0 /\
  p_outputs (nth 1 (w_procs (run 5 w0 [(0, ATryImport); (1, ATryImport); (0, AGenerate); (1, AGenerate); (0, AOpenTruncate); (1, AOpenTruncate);
                                      (0, AWriteChunk); (1, AWriteChunk); (1, AParse); (0, AWriteChunk); (0, AParse)])) (MkProc None false 0 []))
  = [TGenerated].
Proof. split; [split; [reflexivity|repeat constructor]|reflexivity]. Qed.
