(* C09 — Colour functions agree with exact RGB/HSL mathematics.
   PARTIAL: the code computes in binary floating point, this model in exact rationals; the theorems are
   about the exact model, the float gap is bridged by the exhaustive-grid correspondence only. *)
From Coq Require Import String.
From Coq Require Import List Ascii Bool NArith ZArith QArith Qround.
Require Import Model.Text Model.Num Model.NumLex Model.PyNum Model.Colorsys Model.Color Model.Hsl.
Require Import Spec.ColorSpec Spec.NumSpec Spec.HslSpec Proofs.HslBase Proofs.HslProofs.
Import ListNotations.
Local Open Scope Q_scope.

(* lighten / darken / saturate / desaturate: for every colour and EVERY rational amount (in range or not)
   the result is a well-formed colour whose channels are the exactly computed values — standard conversion,
   the named component shifted by amount/100 and clamped to [0,1], converted back — rounded to the nearest
   integer.  [colour_near false] is the same predicate the correspondence check applies to the real code. *)
Theorem C09_shift :
  forall name which neg r g b amount,
    shift_of name = Some (which, neg) -> (r < 256)%N -> (g < 256)%N -> (b < 256)%N ->
    exists s, color_fn_ophsl name (hex6 r g b) amount = Some s /\
              colour_near false (spec_shift (r, g, b) which neg amount) s = true.
Proof. exact shift_correct. Qed.
Print Assumptions C09_shift.

Theorem C09_greyscale :
  forall r g b, (r < 256)%N -> (g < 256)%N -> (b < 256)%N ->
    exists s, greyscale (hex6 r g b) = Some s /\ colour_near false (spec_shift (r, g, b) CompS true 100) s = true.
Proof. exact greyscale_correct. Qed.
Print Assumptions C09_greyscale.

(* spin: hue + angle modulo 360, any rational angle of either sign; periodic with period 360 *)
Theorem C09_spin :
  forall r g b d, (r < 256)%N -> (g < 256)%N -> (b < 256)%N ->
    exists s, spin (hex6 r g b) d = Some s /\ colour_near false (spec_spin (r, g, b) d) s = true.
Proof. exact spin_correct. Qed.
Print Assumptions C09_spin.
Theorem C09_spin_periodic :
  forall h d (k : Z), py_mod (h * 360 + (d + 360 * inject_Z k)) 360 == py_mod (h * 360 + d) 360.
Proof. exact spin_periodic. Qed.
Print Assumptions C09_spin_periodic.

(* mix: weighted per-channel average, truncated: within one unit of the exact value *)
Theorem C09_mix :
  forall r1 g1 b1 r2 g2 b2 w,
    (r1 < 256)%N -> (g1 < 256)%N -> (b1 < 256)%N -> (r2 < 256)%N -> (g2 < 256)%N -> (b2 < 256)%N ->
    exists s, mix (hex6 r1 g1 b1) (hex6 r2 g2 b2) w = Some s /\
              colour_near true (spec_mix (r1, g1, b1) (r2, g2, b2) w) s = true.
Proof. exact mix_correct. Qed.
Print Assumptions C09_mix.

Theorem C09_hsl : forall h s l, exists c, hsl h s l = Some c /\ colour_near false (spec_hsl h s l) c = true.
Proof. exact hsl_correct. Qed.
Print Assumptions C09_hsl.
Theorem C09_rgb : forall r g b, exists c, rgb r g b = Some c /\ colour_near false (py_int r, py_int g, py_int b) c = true.
Proof. exact rgb_correct. Qed.
Print Assumptions C09_rgb.

(* whatever satisfies the nearness predicate is a well-formed #rrggbb *)
Theorem C09_wellformed : forall slack e s, colour_near slack e s = true -> wellformed_colour s = true.
Proof. exact near_wellformed. Qed.
Print Assumptions C09_wellformed.

(* rgba(r,g,b,0) keeps functional notation and prints DECIMAL channel values, clamped to 0..255 *)
Theorem C09_rgba_zero :
  forall r g b : Z, rgba_zero (inject_Z r) (inject_Z g) (inject_Z b) = Some (spec_rgba_zero r g b).
Proof. exact rgba_zero_correct. Qed.
Print Assumptions C09_rgba_zero.

(* functional notation prints decimal channels *)
Theorem C09_rgba_decimal : Gen.PColor.rgbatohex_raw_fmt = $"%d".
Proof. exact rgba_raw_decimal. Qed.
Print Assumptions C09_rgba_decimal.

Example C09_example :
  shift_of $"lighten" = Some (CompL, false) /\
  color_fn_ophsl $"lighten" (hex6 170 187 204) 10 = Some $"#cad5df" /\
  spin (hex6 0 0 255) 180 = Some $"#ffff00" /\
  mix (hex6 255 0 0) (hex6 0 0 255) 25 = Some $"#3f00bf".
Proof. vm_compute. repeat split; reflexivity. Qed.
