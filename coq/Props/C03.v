(* C03 — Variables resolve lexically and no unresolved variable reaches the output.
   END TO END (C03_lexical_end_to_end): for every stylesheet made of nested rules (any depth), variable
   definitions at any depth and declarations whose values are words, references and calls of unknown
   functions over those, the evaluator model produces, rule by rule and in the same order, exactly the
   declarations of the reference semantics Spec/Sem.v (lexical environment: innermost enclosing block first,
   then the top level, where every definition is visible everywhere), and fails iff the reference semantics
   fails (unbound reference, cycle).  Hypothesis: no top-level name is defined twice -- without it the
   statement is FALSE of the faithful model and of the code (F12: a top-level name used between two of its
   definitions takes the earlier one; known finding, C03_toplevel_redefinition_refuted below).
   The lookup / shadowing / locality / unbound-is-error lemmas are kept.  Arithmetic inside values is C04;
   mixin parameters are C05; interpolation is C18. *)
From Coq Require Import String.
From Coq Require Import List Ascii Bool NArith.
Require Import Model.Text Model.Ast Model.Scope Model.Ident Model.Fmt Model.Eval Spec.Sem Proofs.EvalProofs Proofs.ScopeProofs Proofs.VarProofs.
Import ListNotations.

Theorem C03_lookup_innermost : forall x sc, variables x sc = find_innermost x sc.
Proof. exact variables_innermost. Qed.
Print Assumptions C03_lookup_innermost.

Theorem C03_block_local :
  forall parent sc sel body os sc', eval_node parent sc (NBlock sel body) = ROk (os, sc') -> sc' = sc.
Proof. exact block_scope_local. Qed.
Print Assumptions C03_block_local.

Theorem C03_definition_shadows : forall x v sc, sc <> [] -> variables x (add_variable x v sc) = Some v.
Proof. exact add_variable_shadows. Qed.
Print Assumptions C03_definition_shadows.

Theorem C03_unbound_fails :
  forall fuel sc x rest, variables x sc = None -> (match x with "@"%char :: "@"%char :: _ => False | _ => True end) -> is_interp x = false ->
    eval_value (S fuel) sc (VVar x :: rest) = RError $"SyntaxError" ($"Unknown variable " ++ x).
Proof. exact unbound_is_error. Qed.
Print Assumptions C03_unbound_fails.

(* values: with the same bindings visible, the model's substitute-until-stable loop (Node.process / Scope.swap, fuel = the
   code's round limit) and the reference substitution give the same token list, or both fail *)
Theorem C03_value_matches_reference :
  forall fuel sc e ts, lookup_equiv sc e -> scope_ok sc = true -> val_ok ts = true ->
    same_val (eval_value fuel sc ts) (sval_toks fuel e ts).
Proof. exact value_refines. Qed.
Print Assumptions C03_value_matches_reference.

(* one statement (declaration, definition, rule with everything nested in it) in any context *)
Theorem C03_statement_matches_reference :
  forall n, vr_only n -> forall parent sc callf media at_ parent' e,
    lookup_equiv sc e -> scope_ok sc = true ->
    node_rel (eval_node parent sc n) (sem_node callf media at_ parent' e n).
Proof. exact vr_node. Qed.
Print Assumptions C03_statement_matches_reference.

(* the whole stylesheet, evaluated as compile_nodes does (global frame = every top-level definition, then the second pass
   re-registering them in order) against the reference semantics *)
Theorem C03_lexical_end_to_end :
  forall callf units, Forall top_item units -> NoDup (top_names units) ->
    sheet_rel (eval_units (initial_scope units) units) (sem_units callf (top_env units) units).
Proof. exact lexical_end_to_end. Qed.
Print Assumptions C03_lexical_end_to_end.

(* non-vacuity: a program with shadowing at two depths, a use before the top-level definition, a value referring to another
   variable and a call over a variable satisfies the hypotheses, and both sides give the declarations written here *)
Definition c03_prog : list node :=
  [NVar $"@a" [VVar $"@b"; VT $" "; VT $"solid"];
   NBlock [$".x"] [NProp $"border" [VVar $"@a"] false;
                   NVar $"@b" [VT $"5px"];
                   NBlock [$".y"] [NVar $"@b" [VT $"7px"]; NProp $"top" [VCall $"f" [VVar $"@b"]] true];
                   NProp $"width" [VVar $"@b"] false];
   NBlock [$".z"] [NProp $"left" [VVar $"@b"] false];
   NVar $"@b" [VT $"2px"]].
Example C03_end_to_end_nonvacuous :
  Forall top_item c03_prog /\ NoDup (top_names c03_prog) /\
  (exists os, eval_units (initial_scope c03_prog) c03_prog = ROk os /\
     flat_map mdecls os = [[($"border", $"2px solid", false); ($"width", $"5px", false)];
                           [($"top", $"f(7px)", true)];
                           [($"left", $"2px", false)]]).
Proof.
  split; [repeat constructor|]. split.
  - repeat constructor; cbn; intuition discriminate.
  - eexists. split; vm_compute; reflexivity.
Qed.

(* without the hypothesis the statement fails: a name used between two top-level definitions (F12) *)
Theorem C03_toplevel_redefinition_refuted :
  exists units, Forall top_item units /\
    ~ sheet_rel (eval_units (initial_scope units) units) (sem_units (fun _ _ _ _ _ e => SOk (e, [], [], [])) (top_env units) units).
Proof.
  exists [NVar $"@v" [VT $"1px"]; NBlock [$".z"] [NProp $"margin" [VVar $"@v"] false]; NVar $"@v" [VT $"3px"]].
  split; [repeat constructor|]. vm_compute. intros H. discriminate H.
Qed.
Print Assumptions C03_toplevel_redefinition_refuted.

Example C03_example :
  compile_nodes (false, false, false, 1)
    [NVar $"@a" [VVar $"@b"]; NVar $"@b" [VT $"2px"];
     NBlock [$".x"] [NVar $"@b" [VT $"5px"]; NProp $"width" [VVar $"@a"] false; NBlock [$".y"] [NProp $"top" [VVar $"@b"] false]];
     NBlock [$".z"] [NProp $"left" [VVar $"@b"] false]]
  = ROk $".x {
 width: 5px;
}
.x .y {
 top: 5px;
}
.z {
 left: 2px;
}".
Proof. vm_compute. reflexivity. Qed.
