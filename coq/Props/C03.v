(* C03 — Variables resolve lexically and no unresolved variable reaches the output.
   PARTIAL (see DESIGN.md): the lookup / shadowing / locality / unbound-is-error lemmas below are proved of the
   scope model; the end-to-end statement "evaluation = evaluation after lexical substitution" is checked by
   the correspondence against the reference semantics Spec/Sem.v (lexical environment, top level: last
   definition wins) and is FALSE on the pinned tree for a top-level name used between two definitions (F12). *)
From Coq Require Import String.
From Coq Require Import List Ascii Bool NArith.
Require Import Model.Text Model.Ast Model.Scope Model.Ident Model.Fmt Model.Eval Proofs.ScopeProofs.
Import ListNotations.

Theorem C03_lookup_innermost : forall x sc, variables x sc = find_innermost x sc.
Proof. exact variables_innermost. Qed.
Print Assumptions C03_lookup_innermost.

Theorem C03_block_local :
  forall parent sc sel body os sc', eval_node parent sc (NBlock sel body) = ROk (os, sc') -> sc' = sc.
Proof. exact block_scope_local. Qed.
Print Assumptions C03_block_local.

Theorem C03_definition_shadows : forall x v sc, sc <> [] -> variables x (add_variable x v sc) = Some v.
Proof. exact add_variable_shadows. Qed.
Print Assumptions C03_definition_shadows.

Theorem C03_unbound_fails :
  forall fuel sc x rest, variables x sc = None -> (match x with "@"%char :: "@"%char :: _ => False | _ => True end) -> is_interp x = false ->
    eval_value (S fuel) sc (VVar x :: rest) = RError $"SyntaxError" ($"Unknown variable " ++ x).
Proof. exact unbound_is_error. Qed.
Print Assumptions C03_unbound_fails.

Example C03_example :
  compile_nodes (false, false, false, 1)
    [NVar $"@a" [VVar $"@b"]; NVar $"@b" [VT $"2px"];
     NBlock [$".x"] [NVar $"@b" [VT $"5px"]; NProp $"width" [VVar $"@a"] false; NBlock [$".y"] [NProp $"top" [VVar $"@b"] false]];
     NBlock [$".z"] [NProp $"left" [VVar $"@b"] false]]
  = ROk $".x {
 width: 5px;
}
.x .y {
 top: 5px;
}
.z {
 left: 2px;
}".
Proof. vm_compute. reflexivity. Qed.
