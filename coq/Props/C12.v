(* C12 — Comments, whitespace layout, line endings and the last semicolon do not matter.
   PARTIAL: proved on the model of the lexer and of LessLexer.token() (coq/Model/Lex.v): what reaches the parser.
   That the LALR parser maps equal token streams (up to line numbers, and up to one optional whitespace token before an
   injected ';') to equal CSS is decided by the correspondence on the real compiler (harness/props/c12.py (b),(c)). *)
From Coq Require Import String.
From Coq Require Import List Ascii Bool NArith.
Require Import Model.Text Model.ParamTypes Gen.Params Model.Lex Model.Cases Model.Pipeline Proofs.LexProofs Proofs.PipelineProofs.
Require Import Model.Fmt Proofs.TrailProofs.
Import ListNotations.
Open Scope char_scope.

(* in every lexer state outside an interpolated string, a gap -- any sequence of blank runs, line-break runs (LF, CR, CRLF),
   block comments with any body free of the closing mark, and line comments -- yields one whitespace token per run and nothing
   else: comment text produces no token and consumes exactly itself, so it never hides the code that follows *)
Theorem C12_gap_raw : forall g stk ip line rest n,
  gap_wf g = true -> forallb gap_mode stk = true -> nongap_start rest = true ->
  lex_run (List.length g + n) (LS stk ip) line (render_gap g ++ rest)
  = lprepend (gap_raw stk line g) (lex_run n (LS (gap_stack stk g) ip) (line + gap_lines g) rest).
Proof. exact gap_raw_lex. Qed.
Print Assumptions C12_gap_raw.

(* a line comment that ends the input, with no line break after it, yields no token either *)
Theorem C12_line_comment_at_end : forall st line b n, gap_mode (top (ls_stack st)) = true -> forallb not_lf b = true ->
  lex_run (S (S n)) st line ("/" :: "/" :: b) = LOk [] /\ forall f, lex_filtered (S (S n)) f st line ("/" :: "/" :: b) = TOk [].
Proof. exact line_comment_at_end. Qed.
Print Assumptions C12_line_comment_at_end.

(* what LessLexer.token() hands to the parser across a gap, for every token history f *)
Theorem C12_gap_filtered : forall g f stk ip line rest n,
  gap_wf g = true -> forallb gap_mode stk = true -> nongap_start rest = true ->
  lex_filtered (List.length g + n) f (LS stk ip) line (render_gap g ++ rest)
  = tapp (fst (gap_filt f line g)) (lex_filtered n (snd (gap_filt f line g)) (LS (gap_stack stk g) ip) (line + gap_lines g) rest)
  /\ exists l, gap_filt f line g = if has_ws g && negb (drops_ws f) then ([Tok ($"t_ws") [" "] l], FS false (Some ($"t_ws"))) else ([], f).
Proof. intros. split; [now apply gap_filtered_lex | apply gap_filt_char]. Qed.
Print Assumptions C12_gap_filtered.

(* replacing a gap by any other gap (other runs, other line endings, comments inserted or removed) that also contains / also
   lacks whitespace leaves the types and values of the whole remaining token stream unchanged *)
Theorem C12_layout_independent : forall g1 g2 f stk ip l1 l2 rest n,
  gap_wf g1 = true -> gap_wf g2 = true -> has_ws g1 = has_ws g2 ->
  forallb gap_mode stk = true -> isel_once stk = true -> nongap_start rest = true ->
  erase (lex_filtered (List.length g1 + n) f (LS stk ip) l1 (render_gap g1 ++ rest))
  = erase (lex_filtered (List.length g2 + n) f (LS stk ip) l2 (render_gap g2 ++ rest)).
Proof. exact layout_independent. Qed.
Print Assumptions C12_layout_independent.

(* END TO END on the model pipeline (lexer, token filter, reference parser, evaluator, formatter: Model/Pipeline.v): whatever was
   lexed before, replacing a gap by another one that also contains / lacks whitespace leaves the compiled CSS unchanged *)
Theorem C12_compile_layout_independent : forall o pre g1 g2 f stk ip l1 l2 rest n,
  gap_wf g1 = true -> gap_wf g2 = true -> has_ws g1 = has_ws g2 ->
  forallb gap_mode stk = true -> isel_once stk = true -> nongap_start rest = true ->
  compile_tokres o (tapp pre (lex_filtered (List.length g1 + n) f (LS stk ip) l1 (render_gap g1 ++ rest)))
  = compile_tokres o (tapp pre (lex_filtered (List.length g2 + n) f (LS stk ip) l2 (render_gap g2 ++ rest))).
Proof. exact compile_layout_independent. Qed.
Print Assumptions C12_compile_layout_independent.

(* the semicolon after the last declaration: written or omitted, the parser receives ';' '}' and the same continuation *)
Theorem C12_last_semicolon : forall g f last stk ip line rest n,
  gap_wf g = true -> top stk = MInit -> forallb gap_mode stk = true ->
  fs_pretok f = false -> fs_last f = Some last -> no_inject_before last = false ->
  let line' := (line + gap_lines g)%N in
  let tail := lex_filtered n (FS false (Some ($"t_semicolon"))) (LS stk false) line' rest in
  lex_filtered (S (List.length g + S n)) f (LS stk ip) line (";" :: render_gap g ++ "}" :: rest)
    = tapp [semi_tok line; bclose_tok line'] tail
  /\ lex_filtered (List.length g + S n) f (LS stk ip) line (render_gap g ++ "}" :: rest)
    = tapp (fst (gap_filt f line g) ++ [semi_tok line'; bclose_tok line']) tail.
Proof. exact last_semicolon. Qed.
Print Assumptions C12_last_semicolon.

(* ... and that whitespace token, which the reference parser turns into a trailing blank token of the declaration's value, is
   not printed: the formatter gives the same text with and without it, under every fill record *)
Theorem C12_trailing_blank_not_printed : forall fl name parsed imp, prop_fmt fl name (parsed ++ [[" "]]) imp = prop_fmt fl name parsed imp.
Proof. exact trailing_blank_not_printed. Qed.
Print Assumptions C12_trailing_blank_not_printed.

(* the explicit fuel of the statements above is immaterial: once a run is complete, more fuel gives the same stream *)
Theorem C12_fuel_irrelevant : forall n f st line x, t_done (lex_filtered n f st line x) -> forall k, lex_filtered (n + k) f st line x = lex_filtered n f st line x.
Proof. exact lex_filtered_mono. Qed.
Print Assumptions C12_fuel_irrelevant.

(* the model tries the rules in the order of the lexer PLY builds from the source, and knows the same unit alternatives *)
Theorem C12_rule_order : list_eqb (fun a b => str_eqb (fst a) (fst b) && list_eqb str_eqb (snd a) (snd b)) lex_rule_order model_rule_order = true
  /\ list_eqb str_eqb number_unit_alternatives model_units = true.
Proof. exact (conj tf_rule_order tf_units). Qed.
Print Assumptions C12_rule_order.

Example C12_example :
  let g := [GBlank ($"  "); GBlock ($" ; { } "" ' // "); GNl ["010"]; GLine ($" x } "); GNl ["010"; "013"; "010"]; GBlank ["009"]] in
  gap_wf g = true /\ has_ws g = true /\ forallb gap_mode [MISel; MParn] = true /\ isel_once [MISel; MParn] = true
  /\ nongap_start ($".a{}") = true
  /\ erase (tokens_filtered ($".a" ++ render_gap g ++ $".b{color:red;" ++ render_gap g ++ $"}"))
     = erase (tokens_filtered ($".a .b{color:red;}")).
Proof. vm_compute. auto 10. Qed.

(* the whole model pipeline on a wild layout (comments with ; { , CRLF, blank lines, a line comment holding a brace, a comment
   inside a value gap, the last semicolon omitted) and on the compact spelling of the same program *)
Example C12_pipeline_example :
  let nl := ["010"] in let crlf := ["013"; "010"] in
  compile_text (false, false, false, 1)
    ($"/* c ; { */ @w : 2px ;" ++ crlf ++ $".a" ++ nl ++ nl ++ $".b ,p:hover{ // x }" ++ nl ++ $"margin : 1px" ++ crlf ++ $"  @w /* y */ ; color:#FFF" ++ nl ++ $"}")
  = compile_text (false, false, false, 1) ($"@w:2px;.a .b,p:hover{margin:1px @w;color:#FFF;}")
  /\ compile_text (false, false, false, 1) ($"@w:2px;.a .b,p:hover{margin:1px @w;color:#FFF;}")
  = Cases.Ok ($".a .b," ++ nl ++ $"p:hover {" ++ nl ++ $" margin: 1px 2px;" ++ nl ++ $" color: #ffffff;" ++ nl ++ $"}").
Proof. vm_compute. auto. Qed.
