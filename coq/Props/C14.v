(* C14 — @import of a LESS file equals textual inclusion; other imports are kept; a missing file is reported.
   PARTIAL: proved on the model of p_statement_import (coq/Model/Import.v). That the real parser shares one scope across the
   files and splices the imported units where the model says is decided by the correspondence (file trees on disk vs pasted
   text vs the model, harness/props/c14.py). *)
From Coq Require Import String.
From Coq Require Import List Ascii Bool NArith Arith.
Require Import Model.Text Model.Paths Model.Ast Model.Scope Model.Ident Model.Fmt Model.Eval Gen.PLimits Model.Import Proofs.ImportProofs.
Import ListNotations.
Open Scope char_scope.

(* the units before an import statement come before the imported ones, the units after it come after *)
Theorem C14_position : forall a f fs lvl dir b na nb,
  expand f fs lvl dir a = ROk na -> expand f fs lvl dir b = ROk nb ->
  expand (f + List.length a) fs lvl dir (a ++ b) = ROk (na ++ nb).
Proof. exact expand_app. Qed.
Print Assumptions C14_position.

(* an import of a LESS file (extension optional) contributes the expansion of the file found relative to the directory of the
   IMPORTING file, itself expanded relative to its own directory (transitively); the result is what pasting the inlined file
   in place of the statement gives *)
Theorem C14_import_equals_paste : forall f fs lvl dir toks ipath rest us nf nr,
  is_less_import ipath = true -> Nat.ltb import_depth_limit lvl = false ->
  fs_lookup fs (resolve dir (with_ext ipath)) = Some us ->
  expand f fs (S lvl) (dirname (resolve dir (with_ext ipath))) us = ROk nf ->
  expand f fs lvl dir rest = ROk nr ->
  expand (S f) fs lvl dir (UImport toks ipath :: rest) = ROk (nf ++ nr)
  /\ expand (f + List.length nf) fs lvl dir (map UNode nf ++ rest) = ROk (nf ++ nr).
Proof. exact import_equals_paste. Qed.
Print Assumptions C14_import_equals_paste.

Theorem C14_missing_reported : forall f fs lvl dir toks ipath rest,
  is_less_import ipath = true -> Nat.ltb import_depth_limit lvl = false ->
  fs_lookup fs (resolve dir (with_ext ipath)) = None ->
  exists m, expand (S f) fs lvl dir (UImport toks ipath :: rest) = RError $"CompilationError" m.
Proof. exact missing_file_reported. Qed.
Print Assumptions C14_missing_reported.

Theorem C14_too_deep_reported : forall f fs lvl dir toks ipath rest,
  is_less_import ipath = true -> Nat.ltb import_depth_limit lvl = true ->
  exists m, expand (S f) fs lvl dir (UImport toks ipath :: rest) = RError $"ImportError" m.
Proof. exact too_deep_reported. Qed.
Print Assumptions C14_too_deep_reported.

(* an import of anything else stays a statement, with its tokens, at its position *)
Theorem C14_other_imports_kept : forall f fs lvl dir toks ipath rest,
  is_less_import ipath = false ->
  expand (S f) fs lvl dir (UImport toks ipath :: rest) = rbind (expand f fs lvl dir rest) (fun r => ROk (NStmt toks :: r)).
Proof. exact other_import_kept. Qed.
Print Assumptions C14_other_imports_kept.

(* which import strings are LESS imports, and where they are looked for (tests of the path functions, by computation) *)
Example C14_paths :
  map is_less_import [$"a"; $"a.less"; $"a.LESS"; $"a.css"; $"d.x/a"; $"a.css?v=3"; $"../a"; $"http://x.y/z.css"; $".hidden"; $"a.b.less"]
    = [true; true; true; false; true; false; true; false; true; true]
  /\ map with_ext [$"a"; $"a.less"; $"d.x/a"; $".hidden"] = [$"a.less"; $"a.less"; $"d.x/a.less"; $".hidden.less"]
  /\ resolve [$"s1"; $"s2"] ($"../f.less") = [$"s1"; $"f.less"]
  /\ resolve [$"s1"] ($"./t/../u/f.less") = [$"s1"; $"u"; $"f.less"]
  /\ resolve [] ($"f.less") = [$"f.less"].
Proof. vm_compute. auto 10. Qed.

Example C14_example :
  let fs := [([$"main.less"], [UNode (NVar $"@a" [VT $"1px"]); UImport [] $"sub/vars"; UNode (NBlock [$".m"] [NProp $"width" [VVar $"@b"] false]);
                               UImport [$"@import"; $" "; $"""x.css"""; $";"] $"x.css"]);
             ([$"sub"; $"vars.less"], [UImport [] $"../deep.less"; UNode (NVar $"@b" [VVar $"@a"])]);
             ([$"deep.less"], [UNode (NBlock [$".d"] [NProp $"top" [VVar $"@a"] false])])] in
  compile_import_case (false, false, false, 1) 50 fs [$"main.less"]
  = Cases.Ok $".d {
 top: 1px;
}
.m {
 width: 1px;
}
@import ""x.css"";".
Proof. vm_compute. reflexivity. Qed.
