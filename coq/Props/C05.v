(* C05 — Calling a mixin is equivalent to inlining its body with parameters bound.
   Proved here: the binding discipline (positional, defaults, arity), a definition is silent, an unknown call adds
   nothing, a call IS the evaluation of the callee's body at the call site (under the caller's selector, with the
   parameters bound), and C05_call_is_inlining: that evaluation yields what the body yields after parameters and
   @arguments have been REPLACED by the arguments in its text (binding = substitution), for bodies of declarations,
   definitions and nested rules to any depth.  PARTIAL: bodies holding nested mixin calls, defaults and guarded
   recursion are decided by the correspondence against the reference semantics Spec/Sem.v (sem_call: inlining with
   the parameters in a frame of their own) and by the hand-inlining oracle on the real compiler.  Known finding F27
   (a nested call rebinds @arguments for the rest of the body). *)
From Coq Require Import String.
From Coq Require Import List Ascii Bool NArith.
Require Import Model.Text Model.Ast Model.Scope Model.Ident Model.Fmt Model.Eval Proofs.EvalProofs Proofs.ScopeProofs Proofs.VarProofs Proofs.MixinProofs Proofs.InlineProofs.
Import ListNotations.

Theorem C05_bind :
  forall params args sc,
    bind_params params args sc =
      match positional params args with
      | Some binds => Some (fold_left (fun s b => add_variable (fst b) (snd b) s) binds sc)
      | None => None
      end.
Proof. exact bind_params_positional. Qed.
Print Assumptions C05_bind.

Theorem C05_arity :
  forall params args, length args <= length params ->
    (forall i, length args <= i -> i < length params -> snd (nth i params ([], None)) <> None) ->
    exists binds, positional params args = Some binds /\ map fst binds = map fst params.
Proof. exact positional_some. Qed.
Print Assumptions C05_arity.

Theorem C05_definition_silent :
  forall callf parent sc name params body, eval_node_g callf parent sc (NMixin name params body) = ROk ([], sc).
Proof. exact definition_silent. Qed.
Print Assumptions C05_definition_silent.

Theorem C05_call_is_body :
  forall defs fuel pre d post name args parent sc sc1,
    defs = pre ++ d :: post -> (forall x, In x pre -> str_eqb (m_name x) name = false) ->
    str_eqb (m_name d) name = true -> m_body d <> [] ->
    bind_params (m_params d) args sc = Some sc1 ->
    call_mixin defs (S fuel) name args parent sc =
      eval_body (call_mixin defs fuel) parent (add_variable $"@arguments" (arguments_of (m_params d) args) sc1) (m_body d).
Proof. exact call_is_body. Qed.
Print Assumptions C05_call_is_body.

Theorem C05_unknown_call_adds_nothing :
  forall defs fuel name args parent sc,
    (forall d, In d defs -> str_eqb (m_name d) name = false) ->
    call_mixin defs (S fuel) name args parent sc = ROk ([], sc).
Proof. exact unknown_call_adds_nothing. Qed.
Print Assumptions C05_unknown_call_adds_nothing.

(* ---- binding in the scope = substitution in the text ---- *)
(* values: evaluating with the names bound to literal token lists gives what evaluating the substituted value gives *)
Theorem C05_value_substitution :
  forall b fuel sc1 sc2 ts r,
    sim b sc1 sc2 -> scope_ok sc1 = true -> val_ok ts = true ->
    eval_value fuel sc1 ts = ROk r -> eval_value fuel sc2 (subst_val b ts) = ROk r.
Proof. exact subst_value. Qed.
Print Assumptions C05_value_substitution.

(* statements (declarations, definitions, nested rules / frames / definitions to any depth, no nested call, no redefinition
   of a bound name): same output objects, and the two scopes stay related *)
Theorem C05_statement_substitution :
  forall b n, inl_ok b n -> forall callf parent sc1 sc2, sim b sc1 sc2 -> scope_ok sc1 = true ->
    stmt_sim b (eval_node_g callf parent sc1 n) (eval_node_g callf parent sc2 (subst_node b n)).
Proof. exact subst_node_sim. Qed.
Print Assumptions C05_statement_substitution.

(* THE CALL: whatever a call of the first applicable same-named definition yields is what its body yields, evaluated at the call
   site in the CALLER's scope, after every parameter has been replaced by its argument and @arguments by the argument list.
   Hypotheses = the property's own: one argument per parameter; hygiene (the body does not redefine a parameter; nothing visible
   at the call site mentions a parameter name); PARTIAL: the body holds no nested mixin call (decided by the correspondence
   against Spec/Sem.v and by the hand-inlining oracle on the real compiler). *)
Theorem C05_call_is_inlining :
  forall defs fuel pre d post name args parent sc os sc' zb,
    defs = pre ++ d :: post ->
    (forall x, In x pre -> str_eqb (m_name x) name = false) ->
    str_eqb (m_name d) name = true -> m_body d <> [] ->
    args <> [] ->
    zip_binds (m_params d) args = Some zb ->
    let b := ($"@arguments", arguments_strs args) :: rev zb in
    Forall (inl_ok b) (m_body d) ->
    scope_ok sc = true -> closed_under b sc ->
    call_mixin defs (S fuel) name args parent sc = ROk (os, sc') ->
    exists sc'', eval_body (call_mixin defs fuel) parent sc (map (subst_node b) (m_body d)) = ROk (os, sc'').
Proof. exact call_is_inlining. Qed.
Print Assumptions C05_call_is_inlining.

(* non-vacuity: a two-parameter mixin with a nested rule, a local definition and @arguments, called in a scope that defines other
   variables; the hypotheses hold and both sides yield the objects written here *)
Definition c05_def : mixin_def :=
  MkMixin $".m" [($"@a", None); ($"@b", None)]
    [NProp $"width" [VVar $"@a"] false;
     NVar $"@w" [VVar $"@b"; VT $" "; VVar $"@g"];
     NBlock [$"&"; $":"; $"hover"] [NProp $"margin" [VVar $"@w"; VT $" "; VCall $"f" [VVar $"@a"]] false];
     NProp $"border" [VVar $"@arguments"] false].
Definition c05_scope : scope := [[($"@g", [VT $"solid"])]].
Example C05_inlining_nonvacuous :
  let args := [[$"1px"]; [$"2px"]] in
  let zb := [($"@a", [$"1px"]); ($"@b", [$"2px"])] in
  let b := ($"@arguments", arguments_strs args) :: rev zb in
  zip_binds (m_params c05_def) args = Some zb /\ Forall (inl_ok b) (m_body c05_def) /\ closed_under b c05_scope /\
  (exists os sc', call_mixin [c05_def] 3 $".m" args (Some [[$".x"]]) c05_scope = ROk (os, sc') /\
     exists sc'', eval_body (call_mixin [c05_def] 2) (Some [[$".x"]]) c05_scope (map (subst_node b) (m_body c05_def)) = ROk (os, sc'') /\
     os = [OProp $"width" [$"1px"] false; OVar;
           OBlock (ONIdent false [[$".x"; $":"; $"hover"]]) [OProp $"margin" [$"2px"; $" "; $"solid"; $" "; $"f(1px)"] false] [];
           OProp $"border" [$"1px"; $" "; $"2px"; $" "] false]).
Proof.
  cbv zeta. split; [reflexivity|]. split; [repeat constructor|]. split.
  - intros x v H. unfold c05_scope in H. cbn [variables frame_lookup assoc] in H.
    destruct (str_eqb x $"@g"); [injection H as <-; reflexivity|discriminate].
  - eexists. eexists. split; [vm_compute; reflexivity|]. eexists. split; vm_compute; reflexivity.
Qed.

Example C05_example :
  compile_nodes (false, false, false, 1)
    [NBlock [$".x"] [NCall $".m" [[VT $"1px"]]; NCall $".m" [[VT $"3px"]; [VT $"4px"]]];
     NMixin $".m" [($"@a", None); ($"@b", Some [VT $"2px"])]
       [NProp $"width" [VVar $"@a"] false; NBlock [$"&"; $":"; $"hover"] [NProp $"top" [VVar $"@b"] false]];
     NBlock [$".plain"] [NProp $"color" [VT $"red"] false];
     NBlock [$".y"] [NCall $".plain" []]]
  = ROk $".x {
 width: 1px;
 width: 3px;
}
.x:hover {
 top: 2px;
}
.x:hover {
 top: 4px;
}
.plain {
 color: red;
}
.y {
 color: red;
}".
Proof. vm_compute. reflexivity. Qed.
