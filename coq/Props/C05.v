(* C05 — Calling a mixin is equivalent to inlining its body with parameters bound.
   PARTIAL: proved here: the binding discipline (positional, defaults, arity), a definition is silent, an unknown
   call adds nothing, a call IS the evaluation of the callee's body at the call site (under the caller's selector,
   with the parameters bound); the whole-program statement "evaluation = evaluation of the inlined program" is
   decided by the correspondence against the reference semantics Spec/Sem.v (sem_call: inlining with the parameters
   in a frame of their own).  Known finding F27 (a nested call rebinds @arguments for the rest of the body). *)
From Coq Require Import String.
From Coq Require Import List Ascii Bool NArith.
Require Import Model.Text Model.Ast Model.Scope Model.Ident Model.Fmt Model.Eval Proofs.MixinProofs.
Import ListNotations.

Theorem C05_bind :
  forall params args sc,
    bind_params params args sc =
      match positional params args with
      | Some binds => Some (fold_left (fun s b => add_variable (fst b) (snd b) s) binds sc)
      | None => None
      end.
Proof. exact bind_params_positional. Qed.
Print Assumptions C05_bind.

Theorem C05_arity :
  forall params args, length args <= length params ->
    (forall i, length args <= i -> i < length params -> snd (nth i params ([], None)) <> None) ->
    exists binds, positional params args = Some binds /\ map fst binds = map fst params.
Proof. exact positional_some. Qed.
Print Assumptions C05_arity.

Theorem C05_definition_silent :
  forall callf parent sc name params body, eval_node_g callf parent sc (NMixin name params body) = ROk ([], sc).
Proof. exact definition_silent. Qed.
Print Assumptions C05_definition_silent.

Theorem C05_call_is_body :
  forall defs fuel pre d post name args parent sc sc1,
    defs = pre ++ d :: post -> (forall x, In x pre -> str_eqb (m_name x) name = false) ->
    str_eqb (m_name d) name = true -> m_body d <> [] ->
    bind_params (m_params d) args sc = Some sc1 ->
    call_mixin defs (S fuel) name args parent sc =
      eval_body (call_mixin defs fuel) parent (add_variable $"@arguments" (arguments_of (m_params d) args) sc1) (m_body d).
Proof. exact call_is_body. Qed.
Print Assumptions C05_call_is_body.

Theorem C05_unknown_call_adds_nothing :
  forall defs fuel name args parent sc,
    (forall d, In d defs -> str_eqb (m_name d) name = false) ->
    call_mixin defs (S fuel) name args parent sc = ROk ([], sc).
Proof. exact unknown_call_adds_nothing. Qed.
Print Assumptions C05_unknown_call_adds_nothing.

Example C05_example :
  compile_nodes (false, false, false, 1)
    [NBlock [$".x"] [NCall $".m" [[VT $"1px"]]; NCall $".m" [[VT $"3px"]; [VT $"4px"]]];
     NMixin $".m" [($"@a", None); ($"@b", Some [VT $"2px"])]
       [NProp $"width" [VVar $"@a"] false; NBlock [$"&"; $":"; $"hover"] [NProp $"top" [VVar $"@b"] false]];
     NBlock [$".plain"] [NProp $"color" [VT $"red"] false];
     NBlock [$".y"] [NCall $".plain" []]]
  = ROk $".x {
 width: 1px;
 width: 3px;
}
.x:hover {
 top: 2px;
}
.x:hover {
 top: 4px;
}
.plain {
 color: red;
}
.y {
 color: red;
}".
Proof. vm_compute. reflexivity. Qed.
