(* C02 — Nested rules flatten to the correct selectors, once each, in source order. *)
From Coq Require Import String.
From Coq Require Import List Ascii Bool NArith Arith.
Require Import Model.Text Model.Ast Model.Scope Model.Ident Model.Fmt Model.Eval Proofs.EvalProofs Proofs.IdentProofs.
Import ListNotations.

(* For every tree of ordinary nested rules (any depth, any selector lists, any placement of &, literal
   declaration values): evaluation succeeds and what it prints is, group by group, the preorder flattening
   [flat]: a rule's own declarations first, then its nested rules depth-first in source order, each rule
   with at least one declaration exactly once, rules without declarations not at all. *)
Theorem C02_flatten :
  forall units sc,
    Forall rules_only units -> (forall n, In n units -> match n with NBlock _ _ => True | _ => False end) ->
    exists os, eval_units sc units = ROk os /\ forallb plain_tree os = true /\
               flat_map groups os = flat_map (flat None) units.
Proof. exact eval_units_rules_only. Qed.
Print Assumptions C02_flatten.

(* and the text is the concatenation of the printed groups, in that order, for every option vector *)
Theorem C02_text : forall fl o, plain_tree o = true -> obj_fmt fl o = concat_str (map (group_fmt fl) (groups o)).
Proof. exact fmt_plain_tree. Qed.
Print Assumptions C02_text.

Theorem C02_one_rule_each : forall n parent, length (flat parent n) = rules_with_decls n.
Proof. exact flat_count. Qed.
Print Assumptions C02_one_rule_each.

(* the selector list of a nested rule: every parent with every child selector, child-major;
   |parents| per child without &, |parents|^k per child with k ampersands *)
Theorem C02_selector_count :
  forall pp names, pp <> [] -> forallb usable pp = true -> forallb not_media_name names = true ->
    length (root (Some pp) names) = fold_right (fun name acc => combos (length pp) name + acc) 0 names.
Proof. exact root_length. Qed.
Print Assumptions C02_selector_count.

Theorem C02_descendant :
  forall pp name, count_amp name = 0 -> not_media_name name = true -> forallb usable pp = true ->
    root_one pp name = map (fun p => join_desc p name) pp.
Proof. exact root_one_no_amp. Qed.
Print Assumptions C02_descendant.

Theorem C02_ampersand :
  forall pp name, 0 < count_amp name -> forallb usable pp = true ->
    root_one pp name = map (fun perm => subst_amp name perm []) (product_rep pp (count_amp name)).
Proof. exact root_one_amp. Qed.
Print Assumptions C02_ampersand.

(* & is replaced textually (known finding F25 aside: tokens ending in ']' get a blank inserted) *)
Theorem C02_ampersand_textual_partial :
  forall name perm acc,
    forallb no_bracket name = true -> forallb (forallb no_bracket) perm = true ->
    (match last_tok acc with Some l => no_bracket l = true | None => True end) ->
    concat_str (subst_amp name perm acc) = concat_str acc ++ subst_text name perm.
Proof. exact subst_amp_text. Qed.
Print Assumptions C02_ampersand_textual_partial.

Example C02_example :
  let t := [NBlock [$".a"; $","; $".b"]
              [NProp $"color" [VT $"red"] false;
               NBlock [$"&"; $":"; $"hover"; $","; $">"; $".c"] [NProp $"top" [VT $"0"] false];
               NBlock [$".e"] [NBlock [$".f"] [NProp $"left" [VT $"1px"] false]]]] in
  Forall rules_only t /\
  compile_nodes (false, false, false, 1) t =
    ROk $".a,
.b {
 color: red;
}
.a:hover,
.b:hover,
.a > .c,
.b > .c {
 top: 0;
}
.a .e .f,
.b .e .f {
 left: 1px;
}".
Proof. split; [repeat constructor|vm_compute; reflexivity]. Qed.
