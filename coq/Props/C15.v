(* C15 — Malformed input is reported as an error and never compiled silently.
   PARTIAL: proved on the models: characters that belong to no token are rejected by the lexer in every state outside an
   interpolated string, with the 1-based line counted through any gap (blank runs, LF / CR / CRLF runs, block and line
   comments) and through multi-line strings; a reference to an undefined variable makes the evaluator fail; the reference
   parser of the model pipeline (coq/Model/Parse.v) accepts only brace-balanced token streams, needs the colon of a
   declaration and rejects an open string. The real LALR parser is not modelled: its detection of these errors is decided by
   the correspondence on every single corruption of generated programs, which also compares the model pipeline's verdict
   with the real compiler's (harness/props/c15.py). *)
From Coq Require Import String.
From Coq Require Import List Ascii Bool NArith.
Require Import Model.Text Model.ParamTypes Gen.Params Model.Lex Proofs.LexProofs.
Require Import Model.Ast Model.Scope Model.Eval Proofs.ScopeProofs.
Require Import Model.Parse Proofs.ParseProofs.
Import ListNotations.
Open Scope char_scope.

Theorem C15_illegal_character : forall st c r,
  always_illegal c = true -> gap_mode (top (ls_stack st)) = true -> step st (c :: r) = Illegal c.
Proof. exact step_illegal. Qed.
Print Assumptions C15_illegal_character.

(* the reported line: the line on which the gap before the character started plus the line feeds inside the gap *)
Theorem C15_illegal_line : forall g stk ip line c rest n,
  gap_wf g = true -> forallb gap_mode stk = true -> always_illegal c = true ->
  lex_run (List.length g + S n) (LS stk ip) line (render_gap g ++ c :: rest)
  = lprepend (gap_raw stk line g) (LIllegal [] c (line + count_nl (render_gap g))).
Proof. exact illegal_after_gap. Qed.
Print Assumptions C15_illegal_line.

(* line counting through gaps and plain multi-line strings *)
Theorem C15_lines_through_gap : forall g, gap_wf g = true -> gap_lines g = count_nl (render_gap g).
Proof. exact gap_lines_count. Qed.
Print Assumptions C15_lines_through_gap.
Theorem C15_lines_through_string : forall stk ip q body rest,
  top stk = MInit -> (q = """" \/ q = "'") -> forallb (fun c => negb (ch_eqb c q || ch_eqb c "@")) body = true ->
  step (LS stk ip) (q :: body ++ q :: rest) = Emit ($"css_string", q :: body ++ [q]) (LS stk ip) (count_nl (q :: body ++ [q])) rest.
Proof. exact step_string_init. Qed.
Print Assumptions C15_lines_through_string.

(* an undefined variable is an error of the evaluator, whatever follows it in the value *)
Theorem C15_undefined_variable :
  forall fuel sc x rest, variables x sc = None -> (match x with "@" :: "@" :: _ => False | _ => True end) -> is_interp x = false ->
    eval_value (S fuel) sc (VVar x :: rest) = RError $"SyntaxError" ($"Unknown variable " ++ x).
Proof. exact unbound_is_error. Qed.
Print Assumptions C15_undefined_variable.

(* on the reference parser (coq/Model/Parse.v, the parser of the model pipeline): every token stream it accepts has balanced
   braces -- a block left open at the end of input and a stray closing brace are never compiled *)
Theorem C15_accepted_is_balanced : forall ts ns, parse_tokens ts = POk ns -> bal 0 (map (fun t => (tk_type t, tk_val t)) ts) = true.
Proof. exact accepted_is_balanced. Qed.
Print Assumptions C15_accepted_is_balanced.

Theorem C15_unbalanced_rejected : forall ts, bal 0 (map (fun t => (tk_type t, tk_val t)) ts) = false -> forall ns, parse_tokens ts <> POk ns.
Proof. exact unbalanced_rejected. Qed.
Print Assumptions C15_unbalanced_rejected.

(* a declaration whose property name is not followed by a colon is rejected; so is a string that is still open when the
   tokens end *)
Theorem C15_declaration_needs_colon : forall f rec t c r1,
  is_ty ($"t_colon") c = false -> is_ty ($"t_ws") c = false -> exists w, p_decl f rec t (c :: r1) = PSyntax w.
Proof. exact declaration_needs_colon. Qed.
Print Assumptions C15_declaration_needs_colon.
Theorem C15_open_string_rejected : forall ts, forallb (fun t => is_ty ($"css_string") t || is_ty ($"less_variable") t) ts = true ->
  exists w, istring_parts ts = PSyntax w.
Proof. exact open_string_rejected. Qed.
Print Assumptions C15_open_string_rejected.

Example C15_example :
  tokens_raw ($".a{" ++ ["010"] ++ $"/* x" ++ ["010"] ++ $"*/ color:" ++ ["013"; "010"] ++ $"$red}")
  = TIllegal [Tok $"css_class" $".a" 1; Tok $"t_bopen" $"{" 1; Tok $"t_ws" $" " 1; Tok $"t_ws" $" " 3; Tok $"css_property" $"color" 3;
              Tok $"t_colon" $":" 3; Tok $"t_ws" $" " 3] "$" 4
  /\ always_illegal "$" = true.
Proof. vm_compute. auto. Qed.
