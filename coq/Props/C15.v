(* C15 — Malformed input is reported as an error and never compiled silently.
   PARTIAL: proved on the models: characters that belong to no token are rejected by the lexer in every state outside an
   interpolated string, with the 1-based line counted through any gap (blank runs, LF / CR / CRLF runs, block and line
   comments) and through multi-line strings; a reference to an undefined variable makes the evaluator fail. Errors that only
   the LALR parser can see (unbalanced braces, open string at end of input, missing brace or colon) are decided by the
   correspondence on every single corruption of generated programs (harness/props/c15.py). *)
From Coq Require Import String.
From Coq Require Import List Ascii Bool NArith.
Require Import Model.Text Model.ParamTypes Gen.Params Model.Lex Proofs.LexProofs.
Require Import Model.Ast Model.Scope Model.Eval Proofs.ScopeProofs.
Import ListNotations.
Open Scope char_scope.

Theorem C15_illegal_character : forall st c r,
  always_illegal c = true -> gap_mode (top (ls_stack st)) = true -> step st (c :: r) = Illegal c.
Proof. exact step_illegal. Qed.
Print Assumptions C15_illegal_character.

(* the reported line: the line on which the gap before the character started plus the line feeds inside the gap *)
Theorem C15_illegal_line : forall g stk ip line c rest n,
  gap_wf g = true -> forallb gap_mode stk = true -> always_illegal c = true ->
  lex_run (List.length g + S n) (LS stk ip) line (render_gap g ++ c :: rest)
  = lprepend (gap_raw stk line g) (LIllegal [] c (line + count_nl (render_gap g))).
Proof. exact illegal_after_gap. Qed.
Print Assumptions C15_illegal_line.

(* line counting through gaps and plain multi-line strings *)
Theorem C15_lines_through_gap : forall g, gap_wf g = true -> gap_lines g = count_nl (render_gap g).
Proof. exact gap_lines_count. Qed.
Print Assumptions C15_lines_through_gap.
Theorem C15_lines_through_string : forall stk ip q body rest,
  top stk = MInit -> (q = """" \/ q = "'") -> forallb (fun c => negb (ch_eqb c q || ch_eqb c "@")) body = true ->
  step (LS stk ip) (q :: body ++ q :: rest) = Emit ($"css_string", q :: body ++ [q]) (LS stk ip) (count_nl (q :: body ++ [q])) rest.
Proof. exact step_string_init. Qed.
Print Assumptions C15_lines_through_string.

(* an undefined variable is an error of the evaluator, whatever follows it in the value *)
Theorem C15_undefined_variable :
  forall fuel sc x rest, variables x sc = None -> (match x with "@" :: "@" :: _ => False | _ => True end) -> is_interp x = false ->
    eval_value (S fuel) sc (VVar x :: rest) = RError $"SyntaxError" ($"Unknown variable " ++ x).
Proof. exact unbound_is_error. Qed.
Print Assumptions C15_undefined_variable.

Example C15_example :
  tokens_raw ($".a{" ++ ["010"] ++ $"/* x" ++ ["010"] ++ $"*/ color:" ++ ["013"; "010"] ++ $"$red}")
  = TIllegal [Tok $"css_class" $".a" 1; Tok $"t_bopen" $"{" 1; Tok $"t_ws" $" " 1; Tok $"t_ws" $" " 3; Tok $"css_property" $"color" 3;
              Tok $"t_colon" $":" 3; Tok $"t_ws" $" " 3] "$" 4
  /\ always_illegal "$" = true.
Proof. vm_compute. auto. Qed.
