(* C06 — A guarded mixin is applied exactly when its guard is true. *)
From Coq Require Import String.
From Coq Require Import List Ascii Bool ZArith QArith.
Require Import Model.Text Model.Num Model.Guard Spec.GuardSpec Proofs.GuardProofs.
Import ListNotations.

(* each of the five comparisons has its arithmetic meaning on all pairs of rationals, `not` negates
   (the operator the parser stores is looked up in the regenerated reverse_guard / operate maps) *)
Theorem C06_condition : forall c : scond, eval_cond (to_cond c) = Some (scond_holds c).
Proof. exact eval_cond_correct. Qed.
Print Assumptions C06_condition.

(* Mixin.parse_guards on the flat list the parser builds = "some and-chain holds entirely",
   for every comma list of and-chains of any length *)
Theorem C06_guard :
  forall g : guard, g <> [] -> Forall (fun ch => ch <> []) g ->
    parse_guards (flatten_guard g) = Some (guard_true g).
Proof. exact parse_guards_dnf. Qed.
Print Assumptions C06_guard.

(* among same-named mixins with mutually exclusive guards the one whose guard holds is applied *)
Theorem C06_exclusive :
  forall (B : Type) (ms : list (guard * B)) (g : guard) (body : B),
    Forall (fun m => fst m <> [] /\ Forall (fun ch => ch <> []) (fst m)) ms ->
    In (g, body) ms -> guard_true g = true ->
    (forall g' b', In (g', b') ms -> guard_true g' = true -> (g', b') = (g, body)) ->
    select_mixin (map (fun m => (flatten_guard (fst m), snd m)) ms) = Some body.
Proof. exact @select_exclusive. Qed.
Print Assumptions C06_exclusive.

Example C06_example :
  let g := [[SCond false 3 GT 2; SCond true 3 EQ 5]; [SCond false (-1) LE (-2)]]%Q in
  g <> [] /\ Forall (fun ch => ch <> []) g /\ guard_true g = true /\ parse_guards (flatten_guard g) = Some true
  /\ guard_true [[SCond false 1 GT 2]; [SCond false 3 LT 2]]%Q = false.
Proof. repeat split; try discriminate; try reflexivity. repeat constructor; discriminate. Qed.
