(* GuardSpec.v — reference meaning of a guard: a comma list of `and`-chains of possibly negated comparisons. *)
From Coq Require Import String.
From Coq Require Import List Ascii Bool ZArith QArith.
Require Import Model.Text Model.Num.
Import ListNotations.
Local Open Scope Q_scope.

Inductive cop := GT | LT | EQ | GE | LE.
Record scond := SCond { s_not : bool; s_a : Q; s_op : cop; s_b : Q }.

Definition cop_sym (o : cop) : str :=
  match o with GT => $">" | LT => $"<" | EQ => $"=" | GE => $">=" | LE => $"=<" end.

Definition cop_holds (o : cop) (a b : Q) : bool :=
  match o with
  | GT => Qlt_bool b a | LT => Qlt_bool a b | EQ => Qeq_bool a b | GE => Qle_bool b a | LE => Qle_bool a b
  end.
Definition scond_holds (c : scond) : bool := xorb (s_not c) (cop_holds (s_op c) (s_a c) (s_b c)).

Definition guard := list (list scond).     (* comma list of and-chains *)
Definition guard_true (g : guard) : bool := existsb (forallb scond_holds) g.
