(* NumSpec.v — reference meaning of the numeric built-ins. *)
From Coq Require Import String.
From Coq Require Import List Ascii Bool ZArith QArith Qround.
Require Import Model.Text Model.NumLex.
Import ListNotations.
Local Open Scope Q_scope.

(* round half away from zero *)
Definition round_haz (x : Q) : Z :=
  if Qle_bool 0 x then Qfloor (x + (1#2)) else (- Qfloor (- x + (1#2)))%Z.

Definition spec_round (x : Q) : Q := inject_Z (round_haz x).
Definition spec_ceil (x : Q) : Q := inject_Z (Qceiling x).
Definition spec_floor (x : Q) : Q := inject_Z (Qfloor x).
Definition spec_increment (x : Q) : Q := x + 1.
Definition spec_decrement (x : Q) : Q := x - 1.
Definition spec_percentage (x : Q) : Q := 100 * x.

(* executable reference result of calling a built-in on a number token *)
Definition spec_call (name arg : str) : option num :=
  match parse_number arg with
  | None => None
  | Some n =>
      let mk (q : Q) (u : str) := if Qeq_bool q 0 then MkNum 0 [] else MkNum q u in
      match assoc name [ ($"round", (spec_round, nu n)); ($"ceil", (spec_ceil, nu n)); ($"floor", (spec_floor, nu n));
                         ($"increment", (spec_increment, nu n)); ($"decrement", (spec_decrement, nu n));
                         ($"percentage", (spec_percentage, $"%")) ] with
      | Some (f, u) => Some (mk (f (nv n)) u)
      | None => None
      end
  end.
